#!/usr/bin/env python3
"""Like run_seeded.py, but on scratch worktrees of /repo HEAD (several in parallel), so /repo's
working tree is not touched and other work can go on.
usage: run_seeded_wt.py [--out FILE] [--own-only] [--bin PATH] [--jobs N] [--merge] [ids...]
  --out       where to write the results (default seeded/RESULTS.json)
  --merge     start from the existing content of --out and update the ids that were run
  --own-only  run only the check of the property the change was written against (fast regression)
  --bin       the mverif binary to use (a frozen one for first-sight records)
  --jobs      number of worktrees / changes evaluated at the same time (default 4)
ids default to every seeded/C* directory."""
import json, os, subprocess, sys, glob, shutil, threading, queue
os.chdir("/verif")
args = sys.argv[1:]
out = "seeded/RESULTS.json"; own_only = False; binp = "./bin/mverif"; jobs = 4; merge = False; base = "seeded"
ids = []
while args:
    a = args.pop(0)
    if a == "--out": out = args.pop(0)
    elif a == "--own-only": own_only = True
    elif a == "--bin": binp = args.pop(0)
    elif a == "--jobs": jobs = int(args.pop(0))
    elif a == "--merge": merge = True
    elif a == "--benign": base = "benign"; out = "benign/RESULTS.json"
    else: ids.append(a)
ids = ids or sorted(os.path.basename(d) for d in glob.glob(base + ("/C*" if base == "seeded" else "/B*")) if os.path.isdir(d))
claimed = [c["property_id"] for c in json.load(open("MANIFEST.json"))["checks"]]
results = json.load(open(out)) if (merge and os.path.exists(out)) else {}
lock = threading.Lock()
q = queue.Queue()
for i in ids: q.put(i)

def worker(k):
    wt = f"/tmp/seeded_eval_{os.getpid()}_wt{k}"
    subprocess.run(["git", "-C", "/repo", "worktree", "remove", "--force", wt], capture_output=True)
    shutil.rmtree(wt, ignore_errors=True)
    subprocess.run(["git", "-C", "/repo", "worktree", "add", "-q", "--detach", wt, "HEAD"], check=True)
    try:
        while True:
            try: mid = q.get_nowait()
            except queue.Empty: break
            d = f"{base}/{mid}"
            meta = json.load(open(f"{d}/meta.json"))
            own = meta.get("property", "")
            r = subprocess.run(["git", "-C", wt, "apply", os.path.abspath(f"{d}/patch.diff")], capture_output=True, text=True)
            if r.returncode != 0:
                r = subprocess.run(["git", "-C", wt, "apply", "--3way", os.path.abspath(f"{d}/patch.diff")], capture_output=True, text=True)
                if r.returncode == 0 and subprocess.run("grep -rl '^<<<<<<< ' --include=*.go " + wt + " | head -1", shell=True, capture_output=True, text=True).stdout.strip():
                    r.returncode = 1; r.stderr = "3-way merge left conflict markers"
                    subprocess.run(["git", "-C", wt, "reset", "-q", "--hard", "HEAD"])
            if r.returncode != 0:
                with lock:
                    results[mid] = {"applies": False}; print(mid, "PATCH DOES NOT APPLY:", r.stderr.strip()[:200], flush=True)
                continue
            fired = {}
            try:
                props = [own] if own_only else (os.environ["PROPS"].split() if os.environ.get("PROPS") else claimed)
                procs = {}
                for p in props:
                    sd = f"/tmp/seeded_wt_scratch_{os.getpid()}_{k}_{p}"
                    os.makedirs(sd, exist_ok=True)
                    shutil.copy("known_findings.json", sd + "/known_findings.json")
                    procs[p] = subprocess.Popen([binp, "check", p, "--tier", "quick", "--repo", wt, "--verif", sd], stdout=subprocess.PIPE, stderr=subprocess.STDOUT, text=True)
                for p, pr in procs.items():
                    o = pr.communicate()[0]
                    if pr.returncode != 0:
                        fired[p] = [l.strip() for l in o.splitlines() if l.startswith("  ") and not l.startswith("      ")][:4]
                    shutil.rmtree(f"/tmp/seeded_wt_scratch_{os.getpid()}_{k}_{p}", ignore_errors=True)
            finally:
                subprocess.run(["git", "-C", wt, "reset", "-q", "--hard", "HEAD"], check=True)
                subprocess.run(["git", "-C", wt, "clean", "-fdq"], check=True)
            with lock:
                if base == "benign":
                    results[mid] = {"applies": True, "silent": not fired, "fired": fired}
                    print(mid, "silent" if not fired else "REPORTED by " + ",".join(fired), flush=True)
                    for kk, v in fired.items():
                        for l in v[:2]:
                            print("     ", kk, l[:230], flush=True)
                elif any("analyser: load" in l for v in fired.values() for l in v):
                    results[mid] = {"applies": False, "reason": "patched tree does not type-check"}
                    print(mid, "PATCHED TREE DOES NOT TYPE-CHECK", flush=True)
                else:
                    results[mid] = {"applies": True, "property": own, "caught_by_own_property_check": own in fired, "fired": fired}
                    print(mid, "own=%s" % ("CAUGHT" if own in fired else "missed"), "others=" + ",".join(x for x in fired if x != own), flush=True)
                    for kk, v in fired.items():
                        for l in v[:1]:
                            print("     ", kk, l[:200], flush=True)
    finally:
        subprocess.run(["git", "-C", "/repo", "worktree", "remove", "--force", wt], capture_output=True)
        shutil.rmtree(wt, ignore_errors=True)

ts = [threading.Thread(target=worker, args=(k,)) for k in range(jobs)]
for t in ts: t.start()
for t in ts: t.join()
json.dump(results, open(out, "w"), indent=1, sort_keys=True)
if base == "benign":
    print("silent", sum(1 for v in results.values() if v.get("silent")), "of", len(results))
else:
    n = sum(1 for v in results.values() if v.get("caught_by_own_property_check"))
    print("own-caught", n, "of", len(results))
