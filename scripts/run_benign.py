#!/usr/bin/env python3
"""Apply each behaviour-preserving refactoring (/verif/benign/<id>/patch.diff) to a scratch worktree of
/repo HEAD (removed afterwards), run all 20 quick checks on it with --repo, and record any report: every
report is a candidate FALSE ALARM.  /repo itself is not touched.  Writes /verif/benign/RESULTS.json.
usage: run_benign.py [ids...]"""
import json, os, subprocess, sys, glob, shutil
os.chdir("/verif")
WT = "/tmp/benign_eval_wt"
subprocess.run(["git", "-C", "/repo", "worktree", "remove", "--force", WT], capture_output=True)
subprocess.run(["git", "-C", "/repo", "worktree", "add", "-q", "--detach", WT, "HEAD"], check=True)
claimed = [c["property_id"] for c in json.load(open("MANIFEST.json"))["checks"]]
ids = sys.argv[1:] or sorted(os.path.basename(d) for d in glob.glob("benign/B*") if os.path.isdir(d))
res_path = "benign/RESULTS.json"
results = json.load(open(res_path)) if os.path.exists(res_path) else {}
for mid in ids:
    d = f"benign/{mid}"
    r = subprocess.run(["git", "-C", WT, "apply", os.path.abspath(f"{d}/patch.diff")], capture_output=True, text=True)
    if r.returncode != 0:
        print(mid, "PATCH DOES NOT APPLY:", r.stderr.strip()[:200]); results[mid] = {"applies": False}; continue
    fired = {}
    try:
        for p in claimed:
            os.makedirs("/tmp/benign_scratch_" + p, exist_ok=True)
            shutil.copy("known_findings.json", "/tmp/benign_scratch_" + p + "/known_findings.json")
        procs = {p: subprocess.Popen([os.environ.get("MVERIF_BIN", "./bin/mverif"), "check", p, "--tier", "quick", "--repo", WT, "--verif", "/tmp/benign_scratch_" + p], stdout=subprocess.PIPE, stderr=subprocess.STDOUT, text=True) for p in claimed}
        for p, pr in procs.items():
            out = pr.communicate()[0]
            if pr.returncode != 0:
                fired[p] = [l.strip() for l in out.splitlines() if l.startswith("  ") and not l.startswith("      ")][:6]
    finally:
        subprocess.run(["git", "-C", WT, "reset", "-q", "--hard", "HEAD"], check=True)
        subprocess.run(["git", "-C", WT, "clean", "-fdq"], check=True)
    results[mid] = {"applies": True, "silent": not fired, "fired": fired}
    print(mid, "silent" if not fired else "REPORTED by " + ",".join(fired))
    for k, v in fired.items():
        for l in v[:3]:
            print("     ", k, l[:230])
json.dump(results, open(res_path, "w"), indent=1, sort_keys=True)
for p in claimed:
    shutil.rmtree("/tmp/benign_scratch_" + p, ignore_errors=True)
subprocess.run(["git", "-C", "/repo", "worktree", "remove", "--force", WT], capture_output=True)
