#!/bin/bash
# usage: try_wt.sh <patch.diff> C11 C12 ...   (applies the patch to a scratch worktree of /repo HEAD, runs the
# named quick checks on it with --repo into a scratch verif dir, removes the worktree; /repo is not touched)
P=$(readlink -f "$1"); shift
WT=/tmp/try_wt_$$
cd /verif
git -C /repo worktree add -q --detach $WT HEAD || exit 2
( cd $WT && (git apply "$P" 2>/dev/null || git apply --3way "$P") ) || { echo "patch does not apply"; git -C /repo worktree remove --force $WT; exit 2; }
for c in "$@"; do
  S=/tmp/try_scratch_$$_$c; mkdir -p $S; cp known_findings.json $S/
  ./bin/mverif check $c --repo $WT --verif $S | grep -v "^VIOLATION\|KNOWN-FINDING" | cut -c1-${CUT:-260}
  rm -rf $S
done
git -C /repo worktree remove --force $WT
