#!/usr/bin/env python3
"""Metamorphic detection test: every seeded change (/verif/seeded/<id>/patch.diff) is applied to a scratch
worktree of /repo HEAD, then ALL mechanical behaviour-preserving rewrites (mverif mech all) are applied on
top of it, and the seeded change's own property check must still report a violation.  A change that is caught
on the plain tree but not on the rewritten one means a rule depends on the spelling of the code.
/repo itself is not touched.  Writes /verif/seeded/MECH_RESULTS.json.   usage: run_seeded_mech.py [ids...]"""
import json, os, subprocess, sys, glob, shutil
from concurrent.futures import ThreadPoolExecutor
os.chdir("/verif")
ENV = dict(os.environ, GOFLAGS="-mod=mod", GOPROXY="off", GOSUMDB="off", GOTOOLCHAIN="local")
ids = sys.argv[1:] or sorted(os.path.basename(d) for d in glob.glob("seeded/C*") if os.path.isdir(d))
NW = 4
def worker(args):
    w, mine = args
    WT = f"/tmp/seedmech_wt{w}"
    subprocess.run(["git", "-C", "/repo", "worktree", "remove", "--force", WT], capture_output=True)
    subprocess.run(["git", "-C", "/repo", "worktree", "add", "-q", "--detach", WT, "HEAD"], check=True)
    out = {}
    try:
        for mid in mine:
            prop = mid[:3]
            r = subprocess.run(["git", "-C", WT, "apply", os.path.abspath(f"seeded/{mid}/patch.diff")], capture_output=True, text=True)
            if r.returncode != 0:
                out[mid] = {"applies": False}; continue
            m = subprocess.run([os.environ.get("MVERIF_BIN", "./bin/mverif"), "mech", "all", "--repo", WT], capture_output=True, text=True, env=ENV)
            b = subprocess.run("go build ./... && go vet ./...", shell=True, cwd=WT, capture_output=True, text=True, env=ENV)
            sc = f"/tmp/seedmech_scratch{w}"
            os.makedirs(sc, exist_ok=True); shutil.copy("known_findings.json", sc + "/known_findings.json")
            c = subprocess.run([os.environ.get("MVERIF_BIN", "./bin/mverif"), "check", prop, "--tier", "quick", "--repo", WT, "--verif", sc], capture_output=True, text=True, env=ENV)
            hits = [l.strip() for l in c.stdout.splitlines() if l.startswith("  ") and not l.startswith("      ")][:4]
            out[mid] = {"applies": True, "rewritten_builds": b.returncode == 0, "caught_after_rewrite": c.returncode != 0, "by": hits}
            print(mid, "CAUGHT" if c.returncode != 0 else "MISSED", "" if b.returncode == 0 else "(rewritten tree does not build: " + (b.stdout + b.stderr)[-300:] + ")", flush=True)
            subprocess.run(["git", "-C", WT, "reset", "-q", "--hard", "HEAD"], check=True)
            subprocess.run(["git", "-C", WT, "clean", "-fdq"], check=True)
            shutil.rmtree(sc, ignore_errors=True)
    finally:
        subprocess.run(["git", "-C", "/repo", "worktree", "remove", "--force", WT], capture_output=True)
    return out
chunks = [(w, ids[w::NW]) for w in range(NW)]
results = {}
with ThreadPoolExecutor(NW) as ex:
    for o in ex.map(worker, chunks):
        results.update(o)
path = "seeded/MECH_RESULTS.json"
old = json.load(open(path)) if os.path.exists(path) else {}
old.update(results)
json.dump(old, open(path, "w"), indent=1, sort_keys=True)
missed = [k for k, v in results.items() if v.get("applies") and not v.get("caught_after_rewrite")]
print("checked", len(results), "missed after rewrite:", missed)
