#!/usr/bin/env python3
"""Print the brief for one independent sub-agent that writes behaviour-preserving refactorings.
usage: benign_prompt.py B03 6 "<area text>"   -> output dir /tmp/wt/B03.bn6.out, worktree /tmp/wt/B03bn6"""
import sys
b, rnd, area = sys.argv[1], sys.argv[2], sys.argv[3]
wt = f"/tmp/wt/{b}bn{rnd}"; out = f"/tmp/wt/{b}.bn{rnd}.out"
print(f"""You are helping to test a set of custom static checks for the Go library nanomsg/mangos (module go.nanomsg.org/mangos/v3) for FALSE ALARMS. Your job: write FOUR independent refactorings of the library that a maintainer might really make and that CANNOT change its behaviour — same results, same errors, same ordering of effects, same locking, same goroutines, same bytes on the wire — for every input and schedule. The checks are supposed to stay silent on such changes; I will find out whether they do. You do not need to know the checks.

Area to work in: {area}

Your scratch git worktree of the library is {wt} (already created; work ONLY there — never touch /repo or /verif, do not read /verif, and do NOT use `git stash` (it is shared between worktrees); to set a change aside use `git diff > file; git checkout -- .`). Every shell command needs:
  export GOFLAGS=-mod=mod GOPROXY=off GOSUMDB=off GOTOOLCHAIN=local GOWORK=off
(no network). The suite is `go test -vet=off -count=1 -timeout 25m ./...` (about a minute; the three *BroadcastIP* tests fail on the unchanged code and are ignored; other agents share the machine, so a tcp 'address already in use' or a timing flake can happen: re-run that package).

What makes a refactoring useful here:
* Real restructuring, not cosmetics: extract a helper (with one or with several call sites), inline one, move a block into a method, replace a closure by a method or the reverse, single-exit style (`err = …; return err`) or the reverse, guard clauses vs nested ifs, `switch` vs `if` chains, flag-controlled loops, range vs index loops, tuple assignments, a local variable introduced or removed, defer vs explicit calls where every exit is covered, De Morgan'd conditions, reordering of statements that are independent, a struct literal vs assignments, renaming locals/parameters/private helpers, small private types introduced to group fields.
* Each of the four should use a different technique and touch a different function; keep each under ~60 changed lines.
* It must be behaviour-preserving beyond doubt: do not change what is locked when, the order of observable effects (sends, closes, callbacks, stores that other goroutines read), which goroutine does what, allocation/ownership of messages, error values, or any condition's truth table. If you are not sure, do something else. Do not fix bugs, do not add features, do not change comments only.
* Exported API, type names, struct field names, method names of exported interfaces and option names stay as they are (private helper names may change).

Deliver under {out}/ (create it), for k in 1..4:
  patch_k.diff — `git diff` of that one refactoring against the unchanged tree (each applies on its own with `git apply`)
  meta_k.json — {{"files": [...], "kind": "<technique in a few words>", "summary": "<what was changed>", "why_equivalent": "<argument that behaviour cannot change>", "suite_result": "<what you ran and saw>"}}
For each: apply it alone, `go build ./... && go vet ./...` clean, full suite passes (apart from BroadcastIP), then `git checkout -- .` before the next. Leave the worktree clean. Deliver fewer than four rather than a doubtful one. Report in a few lines what you delivered.""")
