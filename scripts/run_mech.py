#!/usr/bin/env python3
"""Mechanical behaviour-preserving rewrites (mverif mech <kind>: see tool/an/mech.go) applied to a scratch
worktree of /repo HEAD; the rewritten tree must build and vet, then all 20 quick checks run on it with
--repo.  Every report is a FALSE ALARM (the rewrites preserve behaviour by construction).  /repo itself is
not touched.  Writes /verif/benign/MECH_RESULTS.json.
usage: run_mech.py [--test] [kinds...]      (--test: also run the repository's test suite on each rewritten tree)"""
import json, os, subprocess, sys, shutil
os.chdir("/verif")
WT = "/tmp/mech_eval_wt"
ENV = dict(os.environ, GOFLAGS="-mod=mod", GOPROXY="off", GOSUMDB="off", GOTOOLCHAIN="local")
args = [a for a in sys.argv[1:] if a != "--test"]
runtests = "--test" in sys.argv
KINDS = ["range-to-index", "rename-locals", "rotate-select", "invert-if", "nest-else", "swap-compare", "reverse-decls", "switch-to-if", "split-and", "unlock-to-defer"]
kinds = args or KINDS + ["all"]
claimed = [c["property_id"] for c in json.load(open("MANIFEST.json"))["checks"]]
subprocess.run(["git", "-C", "/repo", "worktree", "remove", "--force", WT], capture_output=True)
subprocess.run(["git", "-C", "/repo", "worktree", "add", "-q", "--detach", WT, "HEAD"], check=True)
res_path = "benign/MECH_RESULTS.json"
results = json.load(open(res_path)) if os.path.exists(res_path) else {}
try:
    for kind in kinds:
        rec = {"rewrites": {}}
        for k in (KINDS if kind == "all" else [kind]):
            out = subprocess.run([os.environ.get("MVERIF_BIN", "./bin/mverif"), "mech", k, "--repo", WT], capture_output=True, text=True, env=ENV).stdout
            for l in out.splitlines():
                if l.startswith(k + ":"):
                    rec["rewrites"][k] = int(l.split()[1])
        stat = subprocess.run(["git", "-C", WT, "diff", "--shortstat"], capture_output=True, text=True).stdout.strip()
        rec["diff"] = stat
        b = subprocess.run("go build ./... && go vet ./...", shell=True, cwd=WT, capture_output=True, text=True, env=ENV)
        rec["builds_and_vets"] = b.returncode == 0
        if b.returncode != 0:
            rec["build_output"] = (b.stdout + b.stderr)[-600:]
        if runtests and rec["builds_and_vets"]:
            t = subprocess.run("go test -vet=off -count=1 ./... 2>&1 | grep -v '^ok\\|no test files' | head -30", shell=True, cwd=WT, capture_output=True, text=True, env=ENV)
            fails = [l for l in t.stdout.splitlines() if l.startswith("--- FAIL")]
            rec["test_failures"] = fails
        fired = {}
        for p in claimed:
            os.makedirs("/tmp/mech_scratch_" + p, exist_ok=True)
            shutil.copy("known_findings.json", "/tmp/mech_scratch_" + p + "/known_findings.json")
        procs = {p: subprocess.Popen([os.environ.get("MVERIF_BIN", "./bin/mverif"), "check", p, "--tier", "quick", "--repo", WT, "--verif", "/tmp/mech_scratch_" + p], stdout=subprocess.PIPE, stderr=subprocess.STDOUT, text=True, env=ENV) for p in claimed}
        for p, pr in procs.items():
            out = pr.communicate()[0]
            if pr.returncode != 0:
                fired[p] = [l.strip() for l in out.splitlines() if l.startswith("  ") and not l.startswith("      ")][:6]
        rec["silent"], rec["fired"] = not fired, fired
        results[kind] = rec
        print(kind, rec["rewrites"], stat, "builds" if rec["builds_and_vets"] else "DOES NOT BUILD", "silent" if not fired else "REPORTED by " + ",".join(fired), rec.get("test_failures", ""))
        for k, v in fired.items():
            for l in v[:3]:
                print("     ", k, l[:230])
        subprocess.run(["git", "-C", WT, "reset", "-q", "--hard", "HEAD"], check=True)
        subprocess.run(["git", "-C", WT, "clean", "-fdq"], check=True)
finally:
    json.dump(results, open(res_path, "w"), indent=1, sort_keys=True)
    for p in claimed:
        shutil.rmtree("/tmp/mech_scratch_" + p, ignore_errors=True)
    subprocess.run(["git", "-C", "/repo", "worktree", "remove", "--force", WT], capture_output=True)
