#!/usr/bin/env python3
"""Import a validated sub-agent mutant into /verif/seeded/<id>/ (patch.diff, demo/, meta.json).
usage: import_seeded.py C06 a   (reads /tmp/wt/C06.out/, validation log must say suite=ok with=fail without=pass)"""
import json, os, shutil, sys, re
pid, x = sys.argv[1], sys.argv[2]
# optional third argument: round suffix (".r2") and the letter to store it under (c/d/…)
suffix = sys.argv[3] if len(sys.argv) > 3 else ""
as_x = sys.argv[4] if len(sys.argv) > 4 else x
out = f"/tmp/wt/{pid}{suffix}.out"
log = open(f"{out}/validate_{x}.log").read()
m = re.search(r"RESULT suite=(\S+) demo_with_patch_exit=(\d+) demo_without_patch_exit=(\d+)", log)
if not m or m.group(1) != "ok" or m.group(2) == "0" or m.group(3) != "0":
    print("NOT VALID:", pid, x, m.group(0) if m else "no result"); sys.exit(1)
dst = f"/verif/seeded/{pid}{as_x}"
shutil.rmtree(dst, ignore_errors=True)
os.makedirs(dst)
shutil.copy(f"{out}/patch_{x}.diff", f"{dst}/patch.diff")
shutil.copytree(f"{out}/demo_{x}", f"{dst}/demo")
meta = json.load(open(f"{out}/meta_{x}.json"))
base = re.search(r"== base (\S+)", log).group(1)
meta2 = {
  "id": f"{pid}{as_x}", "property": pid, "round": (int(os.environ["ROUND"]) if os.environ.get("ROUND") else (int(suffix[2:]) if suffix.startswith(".r") else 1)), "summary": meta.get("summary"), "files": meta.get("files"),
  "needs_to_manifest": meta.get("needs"), "demo_path": meta.get("demo_path"), "demo_cmd": meta.get("demo_cmd"),
  "expected_with_patch": meta.get("expected_with_patch"),
  "author": "independent sub-agent given only the property text and a scratch worktree",
  "validated": {"base_commit": base, "what_i_ran": "scratch worktree of /repo HEAD: git apply patch; go build ./...; go vet ./...; full suite (go test -vet=off -count=1 ./..., BroadcastIP excluded); demo with patch (must fail); demo without patch (must pass)",
                "suite_with_patch": "pass", "demo_with_patch": "FAIL (exit %s)" % m.group(2), "demo_without_patch": "pass"},
}
json.dump(meta2, open(f"{dst}/meta.json", "w"), indent=1)
print("imported", dst)
