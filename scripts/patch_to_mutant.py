#!/usr/bin/env python3
"""Turn the first hunk of a seeded patch into a catalogue mutant (old/new text) and append it.
usage: patch_to_mutant.py <seeded id> <mutant id> <expect> <why> [hunk index]"""
import json, re, sys
sid, mid, expect, why = sys.argv[1:5]
hi = int(sys.argv[5]) if len(sys.argv) > 5 else 0
txt = open(f'/verif/seeded/{sid}/patch.diff').read()
files = re.split(r'^diff --git ', txt, flags=re.M)[1:]
hunks = []
for f in files:
    path = re.search(r'^\+\+\+ b/(\S+)', f, re.M).group(1)
    for h in re.split(r'^@@ .*?@@.*\n', f, flags=re.M)[1:]:
        hunks.append((path, h))
path, h = hunks[hi]
old = new = ""
for l in h.splitlines(True):
    if l.startswith('\\'): continue
    if l.startswith('-'): old += l[1:]
    elif l.startswith('+'): new += l[1:]
    else: old += l[1:]; new += l[1:]
src = open('/repo/' + path).read()
assert src.count(old) == 1, (src.count(old), old)
prop = mid[:3]
cat = f'/verif/mutants/{prop.lower()}.json'
ms = json.load(open(cat))
ms = [m for m in ms if m['id'] != mid]
ms.append({"id": mid, "property": prop, "file": path, "old": old, "new": new, "expect": expect, "why": why})
json.dump(ms, open(cat, 'w'), indent=1)
print("added", mid, "to", cat)
