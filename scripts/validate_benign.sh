#!/bin/bash
# Validate the refactorings of one benign round: each patch alone must apply, build, vet and pass the suite.
# usage: validate_benign.sh <suffix e.g. .bn6.out>   -> writes <dir>/validate_k.log with RESULT suite=ok|fail
SUF=$1
export GOFLAGS=-mod=mod GOPROXY=off GOSUMDB=off GOTOOLCHAIN=local GOWORK=off
one() {
  d=$1; k=$2; b=$(basename $d | cut -d. -f1)
  WT=/tmp/wt/valb_${b}_$k
  LOG=$d/validate_$k.log
  {
  git -C /repo worktree remove --force $WT 2>/dev/null; rm -rf $WT
  git -C /repo worktree add -q --detach $WT HEAD || { echo "RESULT suite=noworktree"; exit; }
  cd $WT
  if ! git apply $d/patch_$k.diff; then echo "RESULT suite=noapply"; cd /; git -C /repo worktree remove --force $WT; exit; fi
  S=ok
  go build ./... || S=fail
  go vet ./... || S=fail
  if [ $S = ok ]; then
    go test -vet=off -count=1 -timeout 25m ./... 2>&1 | grep -v '^ok\|no test files' > suite.out
    if grep '^--- FAIL' suite.out | grep -qv BroadcastIP; then S=fail; fi
    if grep -q '^panic:\|build failed\|\[setup failed\]' suite.out; then S=fail; fi
    if [ $S = fail ]; then
      PK=$(grep '^FAIL\s' suite.out | awk '{print $2}' | grep / | sort -u)
      if [ -n "$PK" ]; then S=ok; for pk in $PK; do okp=0; for t in 1 2; do go test -vet=off -count=1 -timeout 25m $pk > retry.out 2>&1; if ! grep '^--- FAIL' retry.out | grep -qv BroadcastIP && ! grep -q '^panic:\|build failed' retry.out; then okp=1; break; fi; done; echo "retry $pk ok=$okp"; [ $okp = 1 ] || S=fail; done; fi
    fi
    grep '^--- FAIL\|^panic' suite.out | head
  fi
  echo "RESULT suite=$S"
  cd /; git -C /repo worktree remove --force $WT; rm -rf $WT
  } > $LOG 2>&1
}
export -f one
for d in /tmp/wt/B*$SUF; do for pf in $d/patch_*.diff; do k=$(basename $pf .diff); k=${k#patch_}; [ -f $d/validate_$k.log ] && grep -q '^RESULT' $d/validate_$k.log && continue; echo "$d $k"; done; done | xargs -P 4 -L 1 bash -c 'one $0 $1'
grep -H '^RESULT' /tmp/wt/B*$SUF/validate_*.log
