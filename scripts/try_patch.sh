#!/bin/bash
# usage: try_patch.sh <patch.diff> C11 C12 ...   (applies to /repo, runs quick checks into a scratch verif dir, always resets)
P=$1; shift
cd /verif
[ -z "$(git -C /repo status --porcelain --untracked-files=no)" ] || { echo "/repo dirty"; exit 2; }
git -C /repo apply --3way "$P" 2>/dev/null || git -C /repo apply "$P" || { echo "patch does not apply"; exit 2; }
for c in "$@"; do
  S=/tmp/try_scratch_$c; mkdir -p $S; cp known_findings.json $S/
  ./bin/mverif check $c --verif $S | grep -v "^VIOLATION" | cut -c1-260
  rm -rf $S
done
git -C /repo reset -q --hard HEAD
