#!/bin/bash
# Validate one sub-agent change before it is kept under /verif/seeded.
# usage: validate_seeded.sh C06 a [suffix]
#   reads  /tmp/wt/C06<suffix>.out/{patch_a.diff, demo_a/<repo-relative files>, meta_a.json}
#   writes /tmp/wt/C06<suffix>.out/validate_a.log ending in
#          RESULT suite=ok|fail demo_with_patch_exit=N demo_without_patch_exit=N
# Works in its own scratch worktree of /repo HEAD (removed afterwards); never touches /repo's tree.
PID=$1; X=$2; SUF=${3:-}
OUT=/tmp/wt/$PID$SUF.out
WT=/tmp/wt/val_$PID$SUF$X
export GOFLAGS=-mod=mod GOPROXY=off GOSUMDB=off GOTOOLCHAIN=local GOWORK=off
LOG=$OUT/validate_$X.log
exec >"$LOG" 2>&1
git -C /repo worktree remove --force "$WT" 2>/dev/null; rm -rf "$WT"
git -C /repo worktree add -q --detach "$WT" HEAD || { echo "RESULT suite=noworktree demo_with_patch_exit=0 demo_without_patch_exit=1"; exit 1; }
echo "== base $(git -C /repo rev-parse --short HEAD)"
cd "$WT"
if ! git apply "$OUT/patch_$X.diff"; then echo "RESULT suite=noapply demo_with_patch_exit=0 demo_without_patch_exit=1"; cd /; git -C /repo worktree remove --force "$WT"; exit 1; fi
DEMO_CMD=$(python3 -c "import json;print(json.load(open('$OUT/meta_$X.json'))['demo_cmd'])")
SUITE=ok
go build ./... || SUITE=fail
go vet ./... || SUITE=fail
if [ $SUITE = ok ]; then
  # the pinned suite: everything except the three BroadcastIP tests that fail on the unchanged tree
  go test -vet=off -count=1 -timeout 25m ./... 2>&1 | grep -v '^ok\|no test files' > suite.out
  if grep -q '^--- FAIL' suite.out; then
    if grep '^--- FAIL' suite.out | grep -qv BroadcastIP; then SUITE=fail; fi
  fi
  if grep -q '^panic:\|build failed\|\[setup failed\]' suite.out; then SUITE=fail; fi
  grep '^--- FAIL\|^FAIL\|^panic' suite.out | head -20
  # other suites share the machine (tcp port clashes, timing): a package that failed gets two more tries
  if [ $SUITE = fail ]; then
    PKGS=$(grep '^FAIL\s' suite.out | awk '{print $2}' | grep / | sort -u)
    if [ -n "$PKGS" ]; then
      SUITE=ok
      for pk in $PKGS; do
        okp=0
        for try in 1 2; do
          go test -vet=off -count=1 -timeout 25m $pk > retry.out 2>&1
          if ! grep '^--- FAIL' retry.out | grep -qv BroadcastIP && ! grep -q '^panic:\|build failed' retry.out; then okp=1; break; fi
        done
        echo "== retry $pk ok=$okp"
        [ $okp = 1 ] || SUITE=fail
      done
    fi
  fi
fi
echo "== suite $SUITE"
cp -r "$OUT/demo_$X/." .
echo "== demo with patch: $DEMO_CMD"
( eval "$DEMO_CMD" ) > demo_with.out 2>&1; W=$?
tail -15 demo_with.out
# undo the patch (keep the demo files)
git apply -R "$OUT/patch_$X.diff"
echo "== demo without patch"
( eval "$DEMO_CMD" ) > demo_without.out 2>&1; WO=$?
tail -5 demo_without.out
# a second run without the patch: the demonstration must pass reliably on the unchanged code
( eval "$DEMO_CMD" ) > demo_without2.out 2>&1; WO2=$?
[ $WO2 -ne 0 ] && WO=$WO2
echo "RESULT suite=$SUITE demo_with_patch_exit=$W demo_without_patch_exit=$WO"
cd /
git -C /repo worktree remove --force "$WT"
rm -rf "$WT"
