#!/usr/bin/env python3
"""Generates /verif/RULES.md: the rule families each property's check applied in its last run
(read from evidence/Cxx.json, which the checker itself writes), with obligation counts."""
import json, os
props = {json.loads(l)["id"]: json.loads(l)["title"] for l in open("/verif/properties.jsonl")}
out = ["# Rules applied per property (generated from evidence/*.json by scripts/gen_rules_md.py)\n",
       "Every line is one rule family of the analyser (`r.Describe` text in tool/an/cNN.go) with the number of",
       "obligations (constructs) it was evaluated on in the last run of that property's check.\n"]
for pid in sorted(props):
    f = f"/verif/evidence/{pid}.json"
    if not os.path.exists(f):
        continue
    d = json.load(open(f))
    cov = d["coverage"]
    out.append(f"## {pid} {props[pid]}\n")
    out.append(f"tier `{d.get('tier')}`, configurations {', '.join(cov.get('build_configs', []))}; "
               f"{cov.get('obligations')} obligations, {cov.get('discharged')} discharged, {cov.get('known_findings', 0)} known findings, "
               f"{cov.get('violated', 0)} violated, {cov.get('undecided', 0)} undecided.\n")
    out.append("| rule | obligations | what it requires |")
    out.append("|---|---|---|")
    for r in sorted(cov.get("per_rule", []), key=lambda r: r["rule"]):
        what = r.get("what", "").replace("|", "/")
        out.append("| `%s` | %s | %s |" % (r["rule"], r["obligations"], what))
    out.append("")
open("/verif/RULES.md", "w").write("\n".join(out) + "\n")
print("wrote RULES.md")
