#!/bin/bash
# validate every delivered change under /tmp/wt/*.out that has no RESULT yet (3 at a time)
# usage: validate_pending.sh [suffix]
SUF=${1:-}
cd /verif
for d in /tmp/wt/C??$SUF.out; do
  pid=$(basename $d .out); pid=${pid%$SUF}
  for mf in $d/meta_?.json; do
    [ -f "$mf" ] || continue
    x=$(basename $mf .json); x=${x#meta_}
    [ -f $d/patch_$x.diff ] || continue
    if [ -f $d/validate_$x.log ] && grep -q '^RESULT' $d/validate_$x.log; then continue; fi
    [ -f $d/validate_$x.lock ] && continue
    touch $d/validate_$x.lock
    echo "$pid $x"
  done
done | xargs -P 3 -L 1 bash -c 'cp /verif/scripts/validate_seeded.sh /tmp/wt/.validate_run.sh 2>/dev/null; bash /tmp/wt/.validate_run.sh $0 $1 '"$SUF"'; rm -f /tmp/wt/$0'"$SUF"'.out/validate_$1.lock'
grep -H '^RESULT' /tmp/wt/C??$SUF.out/validate_?.log 2>/dev/null
