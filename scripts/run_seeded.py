#!/usr/bin/env python3
"""Apply each seeded mutant to /repo, run the quick checks, undo. Writes /verif/seeded/RESULTS.json.
usage: run_seeded.py [ids...]   (default: all);  env CHECKS="C11 C12" restricts the checks run (default: all claimed)"""
import json, os, subprocess, sys, glob
os.chdir("/verif")
st = subprocess.run(["git", "-C", "/repo", "status", "--porcelain", "--untracked-files=no"], capture_output=True, text=True).stdout.strip()
if st:
    print("/repo is not clean:\n" + st); sys.exit(2)
man = json.load(open("MANIFEST.json"))
claimed = [c["property_id"] for c in man["checks"]]
if os.environ.get("CHECKS"):
    claimed = os.environ["CHECKS"].split()
ids = sys.argv[1:] or sorted(os.path.basename(d) for d in glob.glob("seeded/C*") if os.path.isdir(d))
res_path = "seeded/RESULTS.json"
results = json.load(open(res_path)) if os.path.exists(res_path) else {}
for mid in ids:
    d = f"seeded/{mid}"
    meta = json.load(open(f"{d}/meta.json"))
    r = subprocess.run(["git", "-C", "/repo", "apply", os.path.abspath(f"{d}/patch.diff")], capture_output=True, text=True)
    if r.returncode != 0:
        r = subprocess.run(["git", "-C", "/repo", "apply", "--3way", os.path.abspath(f"{d}/patch.diff")], capture_output=True, text=True)
        conflict = subprocess.run("grep -rl '^<<<<<<< ' --include=*.go /repo | head -1", shell=True, capture_output=True, text=True).stdout.strip()
        if conflict:
            r.returncode = 1
            r.stderr = "3-way merge left conflict markers in " + conflict
            subprocess.run(["git", "-C", "/repo", "reset", "-q", "--hard", "HEAD"], check=True)
    if r.returncode != 0:
        print(mid, "PATCH DOES NOT APPLY:", r.stderr.strip()[:200]); results[mid] = {"applies": False}; continue
    fired = {}
    try:
        import shutil
        for p in claimed:
            os.makedirs("/tmp/seeded_scratch_" + p, exist_ok=True)
            shutil.copy("known_findings.json", "/tmp/seeded_scratch_" + p + "/known_findings.json")
        procs = {p: subprocess.Popen([os.environ.get("MVERIF_BIN", "./bin/mverif"), "check", p, "--tier", "quick", "--verif", "/tmp/seeded_scratch_" + p], stdout=subprocess.PIPE, stderr=subprocess.STDOUT, text=True) for p in claimed}
        for p, pr in procs.items():
            out = pr.communicate()[0]
            if pr.returncode != 0:
                lines = [l.strip() for l in out.splitlines() if l.startswith("  ") and not l.startswith("      ")]
                fired[p] = lines[:4]
    finally:
        subprocess.run(["git", "-C", "/repo", "reset", "-q", "--hard", "HEAD"], check=True)
    own = meta["property"]
    if any("analyser: load" in l for v in fired.values() for l in v):
        print(mid, "PATCHED TREE DOES NOT TYPE-CHECK (stale patch?)"); results[mid] = {"applies": False, "reason": "patched tree does not type-check"}; continue
    results[mid] = {"applies": True, "property": own, "caught_by_own_property_check": own in fired, "fired": fired}
    print(mid, "own=%s" % ("CAUGHT" if own in fired else "missed"), "others=" + ",".join(k for k in fired if k != own))
    for k, v in fired.items():
        for l in v[:2]:
            print("     ", k, l[:220])
json.dump(results, open(res_path, "w"), indent=1, sort_keys=True)
import shutil
for p in claimed:
    shutil.rmtree("/tmp/seeded_scratch_" + p, ignore_errors=True)
