#!/usr/bin/env python3
"""Import the behaviour-preserving refactorings of one sub-agent round into /verif/benign/.
usage: import_benign.py <round> <out-suffix>      e.g.  import_benign.py 3 .bn3.out"""
import json, os, shutil, sys, glob
rnd, suf = sys.argv[1], sys.argv[2]
n = 0
for d in sorted(glob.glob(f"/tmp/wt/B*{suf}")):
    b = os.path.basename(d).split(".")[0]
    for pf in sorted(glob.glob(d + "/patch_*.diff")):
        k = os.path.basename(pf)[6:-5]
        mf = f"{d}/meta_{k}.json"
        if not os.path.exists(mf) or os.path.getsize(pf) == 0:
            continue
        dst = f"/verif/benign/{b}r{rnd}_{k}"
        os.makedirs(dst, exist_ok=True)
        shutil.copy(pf, dst + "/patch.diff")
        m = json.load(open(mf))
        m.update({"id": f"{b}r{rnd}_{k}", "round": int(rnd), "author": "independent sub-agent asked for behaviour-preserving refactorings (no knowledge of /verif)"})
        json.dump(m, open(dst + "/meta.json", "w"), indent=1)
        n += 1
print("imported", n)
