#!/usr/bin/env python3
"""Print the brief for one independent sub-agent that writes seeded (property-breaking) changes.
usage: seeded_prompt.py C06 q r [suffix]     (two changes, stored later under letters q and r)
The brief contains the property's text, the agent's own scratch worktree, the output layout
validate_seeded.sh expects, and one-line descriptions of the changes already kept for that
property (so that it does something else).  Nothing about /verif's checks is in it."""
import json, glob, os, sys
pid, la, lb = sys.argv[1], sys.argv[2], sys.argv[3]
suf = sys.argv[4] if len(sys.argv) > 4 else ""
prop = None
for l in open('/verif/properties.jsonl'):
    d = json.loads(l)
    if d['id'] == pid:
        prop = d
used = []
for d in sorted(glob.glob(f'/verif/seeded/{pid}*')):
    m = json.load(open(d + '/meta.json'))
    s = (m.get('summary') or '').replace('\n', ' ')
    used.append('- ' + s[:260])
wt = f"/tmp/wt/{pid}{suf}"
out = f"/tmp/wt/{pid}{suf}.out"
print(f"""You are helping to test a verification effort for the Go library nanomsg/mangos (module go.nanomsg.org/mangos/v3). Your job: write TWO independent, realistic changes to the library, each of which BREAKS the property below while the library still compiles, `go vet` stays clean and the existing test suite still passes — the kind of slip a maintainer could make in a tidy-up, optimisation or small feature, and that code review might wave through.

PROPERTY {pid}: {prop['title']}
Statement: {prop['statement']}
Quantified over: {prop.get('quantifier','')}
Code it is anchored in: {json.dumps(prop.get('anchors',''))}

Your scratch git worktree of the library is {wt} (already created; work ONLY there — never touch /repo or /verif, and do not read anything under /verif). Every shell command needs:
  export GOFLAGS=-mod=mod GOPROXY=off GOSUMDB=off GOTOOLCHAIN=local GOWORK=off
(no network; nothing can be downloaded). The suite is `go test -vet=off -count=1 -timeout 25m ./...` (about a minute; the three *BroadcastIP* tests fail on the unchanged code and are ignored). Other agents are using the machine at the same time, so a timing-sensitive existing test can flake: re-run before concluding.

What makes a change useful:
* It must need something SPECIFIC to show: a particular interleaving of goroutines, a fault (peer hangs up / write fails / timer fires) at one particular point, a multi-step sequence of operations, an unusual input or option combination, a second occurrence (second redial, second Close, option changed after start), or two cooperating sites that each look fine alone. Not something ordinary use would expose at once.
* Change {la}: prefer one that needs an interleaving or a fault at a particular point. Change {lb}: prefer one that needs an unusual input, an option combination or a multi-step history. The two must be in different functions, better in different files.
* Make it look like a plausible edit (a refactoring, an optimisation, a 'simplification', an added convenience) with an innocent comment, not like sabotage. Keep it small (ideally under 25 changed lines).
* It has to break THIS property (say which clause), not merely some other behaviour.
* Do not repeat ideas already used for this property:
{chr(10).join(used) if used else '- (none yet)'}
  {os.environ.get('STEER','')}
  Look for mechanisms and files those do not touch (there are 20+ protocol packages, internal/core, five transports incl. ipc/tlstcp/ws, the message pool, macat, the compat and test-support code is out of scope).

For each change also write a DEMONSTRATION: a Go test file (name it zz_demo_{la}_test.go / zz_demo_{lb}_test.go, in the package directory where it fits; it may use the library's internal/test helpers and mock transport) that FAILS with your change and PASSES reliably (every run) on the unchanged code. Make it deterministic where you can (mock peers, hooks, injected faults, GOMAXPROCS, bounded retries) and bounded in time (under 60 s).

Deliver, for X in {{{la}, {lb}}}, under {out}/ (create it):
  patch_X.diff   — `git diff` of the library change only (no demo file in it), applies with `git apply` to the unchanged tree
  demo_X/<repo-relative path of the demo file>   — e.g. demo_{la}/protocol/sub/zz_demo_{la}_test.go
  meta_X.json    — {{"summary": "...what was changed and why it breaks the property...", "files": ["..."], "needs": "...what it needs in order to manifest...", "demo_path": "<repo-relative path>", "demo_cmd": "go test -vet=off -count=1 -timeout 120s -run <TestName> ./<pkg>/", "expected_with_patch": "...how the demo fails..."}}
Before you finish, verify yourself for each change: (1) with the patch applied: go build ./... and go vet ./... clean, the full suite passes; (2) the demo fails with the patch; (3) after `git checkout -- .` (patch removed, demo file kept) the demo passes, three times in a row. Leave the worktree clean of your patch at the end (the demo files may stay). If one idea does not work out, try another; deliver fewer than two rather than an invalid one. Report in a few lines what you delivered.""")
