#!/usr/bin/env python3
"""Regenerates /verif/MANIFEST.json from the table below (run after claiming a property)."""
import json

SETUP = ("cd /verif/tool && GOFLAGS=-mod=mod GOPROXY=off GOSUMDB=off GOTOOLCHAIN=local GOWORK=off "
         "go build -o /verif/bin/mverif ./cmd/mverif && /verif/bin/mverif selftest")

# id -> (technique, level text, level note, design ref)
CLAIMED = {
 "C11": ("static analysis: RacerX-style lockset inference (E3) on SSA with entry locksets and pre-publication/escape analysis; "
         "global lock-order graph with sync.Once pseudo-locks over the VTA call graph (E2); lock typestate (E1); channel close typestate (E10); frozen crash surface",
         "Every struct field of the module that is written under a mutex after publication is accessed under that mutex at every site "
         "(exhaustive over all functions, all build configurations in thorough); the mutex/Once acquisition order is acyclic; no lock is re-acquired while held; "
         "every close(ch) is close-once by one of six enumerated idioms. These are structural necessary conditions of race/deadlock freedom, decided for all schedules; "
         "linearizability of results is not decided.",
         "Assumes the Go memory model and sync semantics; VTA call-graph soundness; fields never accessed under any lock are outside the inferred discipline (DESIGN 5/C11).",
         "DESIGN.md 4/C11, 3.4 E1-E3,E10"),
 "C12": ("static analysis: lock typestate dataflow per function on SSA with parameter-relative callee summaries (E1); blocking-under-lock effect analysis (E4)",
         "Every path from a mutex acquisition to a return releases it (incl. defer), in every function of the module and every build configuration; "
         "no blocking operation or application callback runs under a mutex outside a frozen, justified allow-list; error paths of Listen/Dial keep the endpoint reusable (anchored rules).",
         "Assumes sync.Mutex semantics and the SSA/CFG built by x/tools; behaviour after OS-level failures is not decided beyond the structural retry obligations.",
         "DESIGN.md 4/C12, 3.4 E1,E4"),
 "C13": ("static analysis: anchored shape rules (dominance, guard atoms, who-may-call, who-may-write) over SSA of internal/core + lock typestate (E1)",
         "In core.addPipe the Attaching hook precedes proto.AddPipe, added=true is set only under p.lock on the AddPipe==nil and !closing edges, the Attached hook and pipeConnected follow it; "
         "Detached is raised only from remPipe's goroutine and remPipe only from pipe.Close's once-closure when added; ProtocolBase.AddPipe/RemovePipe have exactly one caller each; "
         "the id allocator returns a non-zero 31-bit unused id recorded under its lock and ids are freed after the Detached callback; dial/serve pass the right dialer/listener. "
         "Necessary structural conditions of the lifecycle property for every schedule; the observed event order under a concurrent hook is not decided.",
         "Rules are anchored in named functions of internal/core: if the mechanism is re-implemented differently the check fails closed with ANCHOR-MISSING (DESIGN 3.2).",
         "DESIGN.md 4/C13"),
 "C16": ("static analysis: forward dataflow of length lower bounds on go/cfg (E6d), extracted path-condition predicates compared with the specification over a finite ordering domain (E6b), anchored shape rules",
         "Every constant index, slice bound and BigEndian access on a []byte path in protocols, transports and core is dominated by a sufficient length check (so no peer-supplied short message can panic a receiver); "
         "the stream transports reject a size exactly when sz<0 or (maxrx>0 and sz>maxrx) and only then, before allocating. Exhaustive over all functions and paths; resource exhaustion inside crypto/tls, net/http, gorilla is not decided.",
         "Assumes go/cfg and go/ssa control flow; the pool invariant (C01.1) for Body[0:sz]; library behaviour on hostile input is outside the analysed code.",
         "DESIGN.md 4/C16, 3.4 E6"),
 "C19": ("static analysis: channel-capacity guard inference (E10c), resize-arm loop analysis (E10d), option-switch shape rules over SSA (comma-ok assertions, error constants per edge), Set/Get field symmetry",
         "Every make(chan, n) fed by an option value is guarded n>=0 (n>=1 where a blocking re-send under the lock needs it); the select arm on a resize-notify channel of every per-pipe goroutine leads back to the loop; "
         "option methods follow the uniform switch shape. Structural necessary conditions for every option name/value; 'takes effect as documented' beyond the stored field is not decided.",
         "Known finding: xbus resize arm closes the pipe (listed in known_findings.json, not repairable without editing TestXBusResize).",
         "DESIGN.md 4/C19, 3.4 E10"),
 "C10": ("static analysis: close-awareness of every blocking select and Cond.Wait loop (E4c) over SSA, anchored shape rules for Close paths, timers and transport pipes",
         "Every blocking select in protocols, transports and core has a receive case on a channel that a Close/RemovePipe function closes (close idioms once/flag/removepipe), per-pipe goroutines that consume a shared queue wait on their own pipe's close channel, "
         "every Cond.Wait loop re-checks a field the closer writes before broadcasting; core socket.Close closes listeners, dialers, protocol and pipes; endpoints are registered only on an open socket within one critical section; "
         "protocol Close is a check-and-set returning ErrClosed the second time; transport pipe Close releases the connection unless Close already did; stored timers are stopped on cancel/close. "
         "Structural necessary conditions of 'Close unblocks everything and releases resources' for every schedule; promptness and the absence of every other kind of leak are not decided.",
         "Assumes channel-close wake-up semantics and the transport contract that closing a connection fails pending Read/Write.",
         "DESIGN.md 4/C10, 3.4 E4"),
 "C14": ("static analysis: anchored shape rules (guard atoms, dominance, load-before-store ordering, all-paths-pass) over SSA of internal/core.dialer",
         "dial never calls the transport once closed (tested under the lock); Close stops the pending timer; the retry delay is the pre-growth reconnTime; growth happens only when a maximum is set and every path from it passes the clamp to the maximum; "
         "synchronous failures return the error without scheduling; ErrClosed schedules nothing; pipeConnected/Dial reset the delay; pipeClosed always schedules a redial and every pipe close or protocol refusal reaches it. "
         "Necessary structural conditions of reconnect/back-off for all fault sequences; measured spacing and jitter distribution are not decided.",
         "Rules are anchored in the named functions of internal/core/dialer.go (ANCHOR-MISSING fails closed).",
         "DESIGN.md 4/C14"),
 "C18": ("static analysis: dataflow of the timer channel feeding each API select (phi sources), option-name to field map extracted from SetOption, guard atoms, loop membership, per-arm return constants over SSA; anchored rules for REQ timers and fail-no-peers",
         "For every blocking select of every SendMsg/RecvMsg the deadline case is fed only by the nil channel, the closed channel (send side, under the best-effort flag) or time.After(x) with x the field the matching deadline option stores, guarded by x > 0 and armed once per call (outside the wait loop); "
         "the deadline arm returns the matching timeout constant; closedQ is closed in init and never reassigned; fail-no-peers tests precede the waits, the waits include the no-peer wake-up and RemovePipe raises it exactly when the last pipe leaves; REQ timers expire only the same request. "
         "Structure of the waits for every option value and peer state; elapsed time (never early / never late), scheduler latency and select's random choice among ready cases are not decided.",
         "Assumes time.After/AfterFunc and select semantics; nine RecvMsg implementations that re-armed the deadline on every queue resize were repaired (known_findings.json).",
         "DESIGN.md 4/C18"),
 "C09": ("static analysis: extraction of affine induction-variable normal forms of the hop guards from SSA (E6c), path-condition predicates evaluated over a finite ordering domain (E6b), anchored shape rules",
         "The six TTL receivers admit exactly the hop counts the property states (backtrace receivers: n <= ttl words; xpair1: hops <= ttl and < 255; xstar: hops < ttl), decided for every ttl by the extracted normal form rather than at sampled values, and cooked/raw twins agree; "
         "OptionTTL stores exactly 1..255 and defaults to 8; each forwarding step adds exactly one hop; Device validates before spawning and forwards the received message unmodified. Payload equality through a device chain (C01) and non-swapping of concurrent clients (C05) are decided there, not here.",
         "Anchored in the receiver/SetOption/Device functions (ANCHOR-MISSING fails closed); a hop guard written in a form outside the enumerated counter/value shapes is reported as undecided.",
         "DESIGN.md 4/C09, 3.4 E6"),
 "C17": ("static analysis: ownership typestate (ESP-style property simulation over disjunctive worlds) on SSA with bottom-up callee summaries and 'consumed iff the call returned nil' contracts; anchored shape rules for the pool and reference-count primitives",
         "Over every function that touches a *Message (126 functions, every path): no message is released or handed off twice, none is used (or a slice of its buffer returned/kept in a field) after release or hand-off, Send/SendMsg never release or leave the header stripped on an error return, "
         "MakeUnique results are used, a message still retained in a field is cloned before it is handed to another goroutine, messages from Clone-fed queues are made unique before reaching the application, transports never write through a message; "
         "pool classes allocate at least their class size, Free recycles only the last reference into its own class, MakeUnique/Dup produce private full copies, the reference count is only touched atomically. "
         "These forbid the causes of aliasing/double release on all paths; the run-time effect (pool reuse timing) is not observed. Leaks are deliberately not reported.",
         "Assumes the interface contracts the analysis itself checks on every implementation (TranPipe.Send / ProtocolPipe.SendMsg consume iff they return nil).",
         "DESIGN.md 4/C17, 3.4 E5, Appendix D"),
 "C01": ("static analysis: table/AST rules for the pool, anchored shape rules and path-condition predicates for framing and the receive limit, emission-order extraction for stream/websocket/inproc sends, buffer-bound dataflow (E6d)",
         "Decides the structural necessary conditions of whole, byte-identical delivery for every body length: every pool class allocates at least its class size and NewMessage/Free select classes consistently; stream frames carry BE-uint64(len(Header)+len(Body)) then Header then Body and are read with complete reads into Body[0:sz] of a message allocated with that sz; "
         "the receive limit is inclusive (sz == limit delivered, 0 unlimited) and checked before allocation; websocket sends one binary frame Header‖Body; inproc queues a fresh copy; the []byte API copies all bytes in and out before release. "
         "Byte equality through the kernel, crypto/tls and gorilla/websocket, and every size x pattern end-to-end, is not decided.",
         "Trusts io.ReadFull/binary.Read (complete reads), net.Buffers.WriteTo (all segments, in order) and gorilla's one-frame WriteMessage/ReadMessage.",
         "DESIGN.md 4/C01, 3.4 E8,E9"),
 "C15": ("static analysis: symbolic wire image from types.Struct + literal + byte order (E8a), path-condition predicate tables (E6b), constant tables across packages (E9), emission-order extraction (E8b/c), who-may-call",
         "The handshake bytes are 00 'S' 'P' 00 <Self BE16> 00 00 by construction of the struct layout, literal and byte order (sent before reading); a handshake succeeds iff all six fields have their required value (all assignments of a finite domain), failures close the connection and are never reported as ErrClosed; "
         "all protocol packages carry the SP numbers/names with mutual peers; stream framing and the IPC type byte are as specified and read with complete reads; websocket uses binary frames and the <name>.sp.nanomsg.org sub-protocols on both sides; only the handshaker's worker runs the handshake. "
         "Interoperability against an independent implementation on real sockets and the TLS/HTTP upgrade bytes (library code) are not decided.",
         "Rules are anchored in transport/conn*.go, transport/ws/ws.go and the protocol constant blocks (ANCHOR-MISSING fails closed).",
         "DESIGN.md 4/C15, 3.4 E8,E9"),
 "C02": ("static analysis: anchored shape rules (guard atoms, critical-section identity, who-may-call/who-may-spawn), close-awareness of per-pipe goroutines (E4c), channel-capacity inference (E10c), no-duplication who-may-call",
         "PAIR stores a peer only under peer == nil (and open) under the socket lock, refuses with ErrProtoState without side effects and clears the peer only for the admitted pipe; one sender and one receiver goroutine per pipe and only they call the pipe's SendMsg; "
         "PUSH dequeues message and pipe in one critical section, starts one send per message, signals the scheduler unconditionally after every enqueue and re-queues a pipe only after a successful send while open; PAIR/PUSH/PULL never Clone or Dup; per-pipe senders stop with their pipe. "
         "Structural basis of exactly-once/in-order per connection; actual delivery under every schedule and fault is not decided.",
         "Known finding: xpush accepts WriteQLen=0 (len-polled queue), see known_findings.json.",
         "DESIGN.md 4/C02"),
 "C03": ("static analysis: anchored shape rules over SSA of protocol/req (comma-ok lookups, guard atoms, critical-section identity, load-before-store ordering, who-may-write, path-condition predicate)",
         "Replies are matched by the id word moved from body to header via a comma-ok lookup under the lock; a hit stores the reply and forgets the id unconditionally in the same critical section, a miss is freed; ctxByID is inserted only under the context's own id and deleted only by receiver/cancel keyed by the still-valid id; "
         "a new Send cancels the previous request before installing its (top-bit) id; Recv without a request returns ErrProtoState before waiting, consumes reply and id only if the request is still its own, and a superseded Recv fails with ErrCanceled. "
         "Interleavings of late/duplicate replies are covered through these invariants, not enumerated.",
         "One genuine defect found by these rules was repaired (superseded Recv wiped the newer request's id), see known_findings.json.",
         "DESIGN.md 4/C03"),
 "C04": ("static analysis: E5 retained-handoff typestate + anchored shape rules over SSA of protocol/req",
         "The retained request is cloned before every transmission; each scheduling step pops one context and one pipe, records the carrying pipe on every (re)transmission and starts one sender; the retry timer is armed only for resendTime > 0 with that duration and re-queues only the same unanswered, unqueued request; "
         "a reply or cancel clears the request and stops the timer; losing the carrying pipe re-sends at once, or cancels when retry is off; pipes are re-queued only while open. 'Never sooner' (time) and liveness under fault sequences are not decided.",
         "Anchored in protocol/req/req.go functions (ANCHOR-MISSING fails closed).",
         "DESIGN.md 4/C04"),
 "C05": ("static analysis: anchored shape rules over SSA of rep/respondent/xrep/xrespondent + E5 (alias-retained, modified-on-error, release-on-error)",
         "Cooked contexts store, under the lock and from one queue entry, a private copy of the request's routing header and its arrival pipe; SendMsg returns ErrProtoState iff nothing is pending (no side effect), installs exactly the saved header, can queue only on the saved pipe's sendQ, clears the state and discards the reply when that pipe has gone; "
         "raw sockets record the arrival pipe id as the first header word, route by the first header word (length-checked, stripped exactly once) through a comma-ok lookup to that pipe only, discard unknown ids and restore the header on every error return. Routing through device chains under concurrency follows from these per-hop invariants; it is not enumerated.",
         "Anchored in the named functions of the four packages.", "DESIGN.md 4/C05"),
 "C06": ("static analysis: anchored shape rules, natural-loop completeness of broadcast loops, E5 shared-queue rule, E10c capacity",
         "SUB matches with bytes.HasPrefix(body, subscription) over all current subscriptions (true iff some prefix hit); the receiver visits every context under the lock and enqueues iff matches(m); unsubscribe keeps exactly the still-matching queued messages, evaluated after the removal; subscriptions are private copies; delivered messages are made unique; "
         "PUB visits every pipe (no early exit) with Clone + non-blocking send, drops the new copy on overflow while SUB drops the oldest. Histories of subscribe/publish and overflow loss are not enumerated.",
         "Anchored in protocol/sub and protocol/xpub.", "DESIGN.md 4/C06"),
 "C07": ("static analysis: anchored shape rules over SSA of protocol/surveyor, E10b close/send typestate, natural-loop completeness, E5, timer-from-option guard rule",
         "Responses are matched by the moved id word via a comma-ok lookup and queued non-blockingly within that critical section; cancel runs once, stops the timer, clears the context's current survey only if it is this one, unregisters the id under the lock before closing and draining the queue; "
         "a new survey is registered before the previous one is cancelled with ErrCanceled; the survey reaches every pipe of a snapshot with balanced Clone/Free; Recv without a survey returns ErrProtoState before any wait and a finished survey reports its own cause; the expiry timer is armed only for a positive survey time. "
         "Expiry timing and arrival orders are not decided.",
         "One genuine defect repaired (SURVEY-TIME 0 expired at once), see known_findings.json.", "DESIGN.md 4/C07"),
 "C08": ("static analysis: anchored shape rules, natural-loop completeness, path-condition predicate of the STAR drop test, E5, E6d incl. not-over-strict length checks",
         "xbus.SendMsg visits every pipe and queues a copy only when the pipe id differs from the source id (header word of a forwarded message, else 0), the receiver records the arrival pipe; cooked BUS strips headers and never forwards; "
         "xstar forwards a private copy to every pipe but the arrival pipe, delivers its own copy upward, counts the hop and drops exactly when len<4, reserved bytes != 0 or hops >= ttl (an empty payload passes); STAR sends need the 4-byte header. Topology-level exactly-once is not decided.",
         "Anchored in the bus/xbus/star/xstar packages.", "DESIGN.md 4/C08"),
 "C20": ("static analysis: guard-atom check of every narrowing length conversion, constant tables (msgpack tags/widths, quoted escapes), path-condition evaluation of the mode switch per protocol constant, anchored shape rules for set-once options and send loops, E6d bounds",
         "Every byte()/uint16() of a length in macat is dominated by len < 256 / len < 65536 (so msgpack length fields equal the message length at the 255/256 and 65535/65536 boundaries), tags c4/c5/c6 carry 1/2/4 big-endian length bytes followed by the whole body; "
         "the quoted escape table covers LF, CR, backslash and quote with \\x%02x for non-printables, ascii maps non-printables to '.', raw writes the body as is; every protocol offered by getOptions reaches exactly the loop(s) allowed for its direction; set-once options reject a second value and an explicit --count is never overridden; bare integers are seconds; send loops send all the data and honour the count. "
         "Printed bytes for every input, exit status and file contents are not decided.",
         "The encoders' per-byte maps (strconv.IsPrint) are library behaviour.", "DESIGN.md 4/C20"),
}

# rule families added in the build phase (after the seeded rounds); appended to technique/text
XC = ("; plus the cross-cutting necessary conditions restricted to this property's packages: lock balance (E1), message ownership (E5), "
      "condition-variable discipline (wait loops re-check in the loop a condition their closer falsifies, closers broadcast, Signal only with one waiter), "
      "check-then-act atomicity across critical sections (E3b)")
EXTRA = {
 "C01": (" + E5 send-contract per transport Send (incl. deferred Free), success-means-written must-pass rule",
         " Every transport Send consumes the message exactly when it returns nil and every nil return has written the frame; the length prefix may be read by either complete-read idiom (binary.Read or io.ReadFull+Uint64)."),
 "C02": (XC + "; state-transition table of the ready list, slice-removal idiom, closed-flag rule",
         " RemovePipe marks the pipe closed unconditionally and removes it from the ready list by shortening it; the admission test-and-set of PAIR's peer is one critical section."),
 "C03": (XC + "; REQ timer rules shared with C18.3", " A stale deadline timer never cancels a newer or still current request; Cond.Wait is in a re-checking loop."),
 "C04": (XC + "; state-transition tables of reqMsg/repMsg/reqID/lastPipe/readyQ, slice-removal idiom, queued-flag pairing, reply-matching shared with C03.1",
         " An answered context leaves the send queue before its request is cleared; queued is true exactly while the context is in sendQ; a reply with the current id completes the request whichever pipe it arrives on."),
 "C05": (XC + "; state-transition tables of backtrace/recvPipe (incl. whole-struct copies)", " Only RecvMsg installs a route, only SendMsg clears it, and no context is created by copying another's state."),
 "C06": (XC + "; fan-out no-bypass (path enumeration in the loop), queue-swap wake-up rule, subscribe no-op only for a byte-equal topic",
         " Every iteration of a fan-out loop reaches the delivery attempt unless a declared skip condition holds; replacing a context's queue always wakes the receivers blocked on the old one."),
 "C07": (XC + "; unique-sites table, raw-routing rules shared with C05.4, send-contract, header-split order, context inherits the survey time", ""),
 "C08": (XC + "; fan-out no-bypass, write-before-MakeUnique", ""),
 "C09": ("; drop-does-not-disconnect (loop membership of discards)", " An over-limit message is dropped without leaving the receive loop."),
 "C10": ("; closer-falsifies-wait and closer-broadcasts rules, closed-means-ErrClosed (path-sensitive over select arms and closed flags), E3b lifecycle atomicity, pipe-id pairing, Listen/Close serialisation, inproc close ownership",
         " Every error-returning socket/context method returns ErrClosed on its own closed flag / close channel; no registration that Close tears down depends on a closed test made in an earlier critical section; every pipe id is released exactly once on both branches of pipe.Close."),
 "C11": ("; E3b check-then-act atomicity (lifecycle and same-field test-and-set), condition-variable rules, Listen/Close serialisation", ""),
 "C12": ("; ErrClosed-only-for-own-closed-state in transports, in-progress token released on every return (must-pass)", ""),
 "C13": ("; pipe-id pairing", ""),
 "C14": ("; ErrClosed-only-for-own-closed-state in transports (the redial loop stops for good on ErrClosed)", ""),
 "C15": ("; upgrader configured once, header-split order", ""),
 "C16": ("; accept loops wait for nothing but Accept (E4 may-block summaries inside the loop), drop-does-not-disconnect, reply-matching shared with C03.1; crash surface: every explicit panic and unchecked type assertion in the functions reachable (VTA call graph) from receive goroutines, handshake/accept and pipe attach/detach is an obligation discharged only by a structural justification (pool contents, SetPrivate/GetPrivate pairing with must-pass-through in AddPipe, possible dynamic types of the operand, a named standard-library contract)", ""),
 "C17": ("; send-contract per implementation (incl. deferred Free), write-before-MakeUnique, header restored by a value read before the strip, unique-sites table", ""),
 "C18": ("; in-progress token released on every return", ""),
 "C19": ("; queue capacity equals the ...QLen field wherever a queue is built, queue-swap wake-up, refused Device starts no forwarder", ""),
 "C20": ("; byte (not code-point) iteration, one record per message (must-pass Flush), non-nil empty data", ""),
}
# round-4 additions: obligations imported from the rule set of the property that anchors a shared mechanism (tool/an/scope.go)
IMPORTS = {
 "C01": "receive limit read per accepted connection (from C16); stream single-reader rule (handshake and Recv read one source); every request id carries the end-of-backtrace bit (from C03)",
 "C02": "guarded-by (E3) of core attach/detach and PAIR/PUSH state (from C11), send-contract and ownership (from C17), attach/detach exactly once (from C13)",
 "C03": "request-state transitions and pipe-loss decision (from C04), guarded-by (from C11)",
 "C04": "send-contract of the stream transports (from C17); exact comparison of RemovePipe's resend/cancel decision with its specification over a finite domain; queued-flag/sendQ pairing on every path; id-table writers (from C03), guarded-by (from C11)",
 "C05": "end-of-backtrace test evaluated for boundary words in all four receivers; request-id marker (from C03); id-allocator freshness (counter advanced before an id is returned), guarded-by (from C11), ownership (from C17)",
 "C06": "queue/recorded-length agreement and inheritance (from C19), guarded-by incl. map aliases (from C11), send-contract of the stream transports (from C17)",
 "C07": "queue direction = option direction and inheritance (from C19), guarded-by incl. map aliases used outside their lock (from C11), fresh backing per message (from C17)",
 "C08": "allocator never yields 0 (from C13), guarded-by (from C11), queue direction = option direction (from C19)",
 "C09": "STAR forwards private copies with intact hop header (from C08); hop limit read on the same side of the blocking receive as its use (from C19); forwarded message intact after a failed send (from C17)",
 "C10": "protocol closed before the pipe sweep in socket.Close; own-closed-observed (every SendMsg/RecvMsg of an object with its own closed flag tests it), capacity>=1 where a goroutine re-fills under the lock (from C19)",
 "C11": "message ownership, send-contract, fresh backing per message (from C17)",
 "C12": "queue/recorded-length agreement (from C19), back-off and redial-after-loss (from C14), lock-order graph E2 (from C11)",
 "C13": "read-only pipe options set from the datum of their own kind; pipe listed before it can be attached; ErrClosed-only-for-own-closed-state and endpoint-usable (from C12), handshake validation (from C16)",
 "C14": "retry decision compared exactly with its specification over a finite domain; every growth of a list a Cond.Wait loop waits on is followed by a wake-up on every path; dialer registration atomic with the socket's closed state (from C10: NewDialer closed path, E3b)",
 "C16": "ws receive limit read back as the stored type (from C19), no cross-peer pollution via ownership rules in all protocols (from C17), channel typestate E10a/E10b — no send can reach a channel a concurrent close may have closed (from C11), websocket sub-protocol match exact (from C15)",
 "C18": "context inherits each deadline from the socket's same deadline (from C19); no blocking wait under a socket lock (E4, from C12); xpush immediate ErrNoPeers compared exactly",
 "C19": "MaxReconnectTime 0 disables back-off, otherwise caps it (from C14); ws option values read back as the stored type; ipc option values stored with the flag that gates them in Listen",
 "C15": "send-contract and ownership in the stream transports (from C17)",
 "C17": "Recv copies the body before the message is released (from C01)",
 "C20": "main exits non-zero on every path after a failed Run (must-pass); send-interval sentinel tested as < 0",
}
# rounds 6 and 7: rules added after the seeded changes of those rounds, and the imports that attribute them
ROUND67 = {
 "C01": "cooked BUS discards a stale header of any length (path predicate compared over header lengths, from C08); delivered message private to its receiver and message ownership (from C17)",
 "C02": "queue pops: a function that shortens a queue field at one end reads the element at the same end and removes it on every path; Recv copies (from C01)",
 "C03": "Recv copies (from C01); retained request not released under REQ (E5, from C17)",
 "C04": "sweep completeness (RemovePipe's loop over contexts has no early exit, syntax-tree rule keyed by collection type); queue pops; attach/detach protocol (from C13); Send/Recv copies (from C01)",
 "C05": "protocol told of every departure (from C13)",
 "C06": "one connection per dialer (redial decision and pipe.Close notification, from C14); Recv copies (from C01)",
 "C07": "sweep completeness of the survey fan-out loops",
 "C08": "one connection per dialer (from C14); inproc hands each peer its own copy (from C01); receive queue read at use (from C19)",
 "C09": "transport Send never writes through the message (from C17); request-id marker (from C03)",
 "C10": "sweep completeness of every Close loop (21 frozen sites, syntax-tree rule); no goroutine started in AddPipe on a path that can still return an error (forward reachability from each go statement to error returns)",
 "C11": "application hooks called with no internal lock held (from C13)",
 "C12": "refused Device starts nothing (from C19); Close affects only its own registration (from C10); fail-no-peers channel replaced after close (from C18)",
 "C13": "AddPipe only on the !closing edge; queue pops; who-may-write tables of the socket's hook and endpoint lists; per-pipe option maps freshly made",
 "C14": "attach protocol (from C13); every handshake outcome queued and broadcast on every path (must-pass, from C16); dialer list writers (from C13); Cond wake-ups in inproc (from C10)",
 "C15": "websocket dialer offers a fresh one-element sub-protocol list; pool size classes (from C01); handshake results popped once (from C13)",
 "C16": "receive limit applied to the pipe before Handshaker.Start (value-flow: SetOption on the pipe, configuring helper, or helper returning configured pipes); queue room for receivers that re-queue under the lock (from C19); hop count is the whole word (from C09)",
 "C17": "inproc copies with or without header (from C01)",
 "C18": "deadline timer armed exactly when the deadline is positive (no further condition on another time); only cancel (and the receiver, for the context it looked up) stops a REQ deadline timer (who-may-call on Timer.Stop per field); Cond discipline of REQ; timer/deadline fields guarded-by (from C11); queue-swap wake-up (from C19)",
 "C19": "option propagated to every dialer and listener (sweep completeness); switch options applied for both values; endpoint inherits the receive limit exactly when its options do not set it; best-effort takes effect (from C18)",
 "C20": "set-once setters record the value on every successful return (way-sensitive for single-exit form); --file stores a whole-file read; each timeout applied from its own field",
}
# rule families added after seeded round 8 (DESIGN 8.5, round 8)
ROUND8 = {
 "C02": "no-requeue (value flow from a channel receive to a send on the same channel, every function); fail-no-peers signal re-armed where raised (from C18)",
 "C04": "retry interval inherited by a new context (from C19)",
 "C06": "queue rebuilt on every path after a subscription was removed (must-pass from the removal store)",
 "C09": "originator's hop header is a freshly made zeroed slice; inproc copies (from C01)",
 "C10": "timer discipline per *time.Timer field (who-may-Stop, who-may-arm, tear-down stops it under no condition other than 'set', on every path)",
 "C11": "publish order: no unlocked store to a field of x after close(x.ch) in the same function",
 "C13": "pipe options recorded whenever the connection has the datum (guards relative to the creation of the pipe object must be about the datum); redial scheduled on every loss (from C14)",
 "C14": "timer discipline of the redial timer (only Close stops it, only pipeClosed/dial arm it); each reconnect option writes its own field (from C19)",
 "C16": "complete-read errors are fatal: forward reachability from the err != nil branch of every io.ReadFull/binary.Read to a successful return",
 "C17": "who-may-free table for messages kept in struct fields",
 "C18": "deadline timer armed under no condition whose failure still reaches the wait (CFG reachability from the failing branch to the select); with best-effort on, every way into the blocking select carries the closed channel",
 "C19": "reconnect delay reset unconditional (from C14); TTL range exact (from C09)",
 "C20": "a received message is printed before any other socket operation or return (forward walk from each RecvMsg, success guard)",
}
# rule families added after seeded round 9 (DESIGN 8.5, round 9)
ROUND9 = {
 "C01": "one delivery per context in the SUB receiver (from C06)",
 "C02": "length prefix read completely (from C01)",
 "C03": "one request-id counter (single draw site on the socket's counter, who-may-write); core send contract (from C17)",
 "C04": "transport Send does not rewrite the message (from C17)",
 "C06": "MakeUnique copies before releasing (from C01)",
 "C07": "raw surveyor fan-out offered to every entry (fan-out completeness/no-bypass)",
 "C08": "E5 follows message variables captured by deferred closures (per-world cell contents, release at RunDefers)",
 "C09": "allocator freshness (from C13); raw surveyor fan-out (from C07)",
 "C10": "core Close waits for no goroutine (no channel receive / WaitGroup / Cond wait reachable synchronously inside the core)",
 "C11": "forwarded and delivered copies are separate (from C08)",
 "C12": "E11 closer-leak typestate: acquired listeners/connections/files closed or handed on on every error-nil path (aliases, wrappers, keeps-parameter summaries of module callees)",
 "C13": "callee of every hook call traces to loads of socket.pipehook only; pipe provenance fields have no writer after construction",
 "C16": "accept-loop pause is a compile-time constant <= 100ms; attach under the pipe lock (from C13)",
 "C17": "REQ SendMsg error returns after the wait are under 'message still parked'; E5 cell modelling",
 "C20": "only the count ends a send loop with success; main calls Run(args[1:]) unconditionally before any exit",
}
# rule families added after seeded round 10 (DESIGN 8.5, round 10)
ROUND10 = {
 "C04": "who may re-queue a request (call sites of resendMessage: RemovePipe and the AfterFunc callback only)",
 "C07": "allocator cursor written by Get only (from C13)",
 "C08": "redial timer armed only where a redial is scheduled (timer table incl. Timer.Reset, from C14)",
 "C09": "frame length buffers local to the call (from C15)",
 "C10": "lists of closeable things emptied only where swept (type-keyed sweep detection, lazy creation, one frozen exception); lock-order graph (from C11)",
 "C11": "unsubscribe prune shape and RESPONDENT context state (from C06, C05)",
 "C12": "transport Dial stores nothing derived from an option field (value flow through composite literals and calls)",
 "C13": "allocator cursor writers; hook-value rule over every core function (getter helpers, goroutine parameters); redial decision (from C14)",
 "C14": "reconnect option ranges independent of each other (from C19)",
 "C15": "frame length buffers local to Send/Recv (root of the PutUint64 / ReadFull buffer is an Alloc or MakeSlice of the function)",
 "C16": "blocking select that sends to a pipe's queue has a receive arm on that pipe's close channel; option setters never answer 'wrong state' (from C19)",
 "C17": "E5: pending send outcome follows loop-carried error merges; buffer-after-release (Body/Header slice read before Free, used after)",
 "C19": "accepted-by-Set implies answered-by-Get for every transport endpoint pair (found D16); ipc owner/permission options applied after every successful bind (forward walk, error-nil side, through helper returns)",
 "C20": "subscriptions precede Dial/Listen in Run (CFG precedence); E5 ownership run on macat (buffer-after-release)",
}
# engines and rule families added in the session of round 11 (DESIGN 8.5, round 11)
ROUND11 = {
 "C05": "E13 waited-channel-stable for the per-connection senders (from C19); per-connection channels not shared (from C10)",
 "C08": "E13 waited-channel-stable for xstar/xbus (from C19; found D17); E14 derived-field coherence (from C11)",
 "C18": "E13 waited-channel-stable (from C19)",
 "C19": "E13 WAITED-CHANNEL-STABLE: every channel-typed field some function parks on (blocking receive/send/select arm read from the field) is replaced only in a step that wakes the waiters (close of a channel of the same object or of the old channel, Broadcast; must-pass to every return), during construction (fresh object, fresh-parameter helpers), or - for send-only waiters - with the old queue drained (found D17)",
 "C10": "E12 nil-safety (from C12); channels installed in waited-on fields are made by the installing function (E13 channels-not-shared: queues and close channels are never handed from one object to another)",
 "C06": "E14 derived-field coherence (from C11)",
 "C07": "E14 derived-field coherence (from C11)",
 "C14": "the dialer is told of every successful attach (guards of the pipeConnected call in addPipe are the attach outcome and the pipe's dialer only)",
 "C15": "conn-configuration: methods called on net / crypto/tls connections and listeners are from an allow-list (no linger, deadline, buffer-size or half-close)",
 "C17": "E5 send-while-shared (a message handed to the socket-level SendMsg with a further reference still held by the sender) and untested select-send arms; recv-owns-memory: Body/Header installed by a transport Recv are not windows into connection-owned buffers (slice fields, bytes.Buffer.Bytes/Next, bufio Peek/ReadSlice)",
 "C20": "E12 nil-safety on macat (the socket exists only behind the test in Run); the output writer is read by printMsg only; E5 send-while-shared",
 "C11": "E14 DERIVED-FIELD COHERENCE: fields filled from a walk over a sibling collection are found automatically and every writer of the collection must clear or rebuild them in the same critical section; E12 nil-safety (from C12); E3 slice-alias: a guarded slice field with an in-place writer is not walked through a copy of its header outside the guard",
 "C12": "E12 NILSAFE: forward must-non-nil dataflow per function over the fields the module itself treats as optional (nil tests / nil stores) and over maps not made at every creation, with entry facts from all call sites and closure creations (greatest fixpoint), kill on calls that may clear, error-checked results, companion fields and correlated merges",
 "C16": "E12 nil-safety on every peer-driven function; per-connection channels not shared (from C10); accept loops park on nothing (no channel operation, WaitGroup or Cond wait directly or below any call they make)",
}
# round 14 (DESIGN 8.5, round 14)
ROUND14 = {
 "C10": "additions-tested-against-close: an entry is added (append on a slice field, update of a map field) to a collection of closeable things that a Close method of the owner resets or ranges over only under a test, dominating the addition with no Unlock in between, of a bool field that this Close sets — in the function itself or at every call site of an add-only helper; objects under construction exempt (SSA dominators over all functions; 10 sites; found D19 and D20)",
 "C18": "the best-effort test on the deadline arm is the same SSA value that chose the timer source before the wait (a second reading of the option is refused)",
}
# rule families added after seeded round 12 (DESIGN 8.5, round 12)
ROUND12 = {
 "C07": "who may arm the survey timer (timer table, from C10)",
 "C08": "send contract of the transports and the core (from C17)",
 "C09": "send contract of the core and the transports (from C17)",
 "C04": "re-arm stops the previous timer (from C10; found D18); REQ's ready list only permuted outside its transition table (element writes form an exchange)",
 "C05": "reply-size-conditions-exact: raw REP/RESPONDENT SendMsg queues or discards on no header/body condition other than len(Header) >= 4",
 "C17": "recv-owns-memory also covers the returned Message (made by NewMessage in that call, never one kept in the connection)",
 "C16": "core pipe.SendMsg/RecvMsg close the pipe on every transport error (guards of the close are the failed call only); websocket single writer / single reader (frame I/O methods of *websocket.Conn are called by wsPipe.Send / Recv only, never from a handler)",
 "C10": "rearm-stops-previous: every store of a new timer into a timer field is dominated by a Stop of that field (directly, under its nil test, through a helper or a method of the object), or is under a nil test, or runs only as that timer's callback (three frozen exceptions with reasons; found D18); E11 closer-leak (from C12; a resource stored in an object the function has just made is followed through that object); accept loops perform no handshake step (from C16)",
 "C11": "no wait under a lock (E4, from C12); one deadline per blocked call (from C18)",
 "C12": "E11: a resource stored into a fresh local object is owned by that object until the object is returned or published; E12a also covers close() of channel fields (closing a nil channel panics: the field is made at every creation of its struct — in the literal, or by a making method called before the object can escape — or made/tested on every path); E12 gains callee exit facts",
 "C14": "std-config-fields: net.Dialer / websocket.Dialer fields from a closed list (from C15)",
 "C15": "std-config-fields: stores into net.Dialer, net.ListenConfig, tls.Config, http.Server, gorilla Dialer/Upgrader fields are from a closed list",
 "C18": "queue room for re-sends under the lock (E10c, from C19); macat durations and the unset-deadline sentinel (from C20)",
 "C19": "fail-no-peers channel replaced where closed (from C18); E13c waiters-reread: a wait loop woken through a wake-up channel takes every replaceable channel from its field inside the loop (or refreshes its loop-carried snapshot on every way round)",
 "C20": "a timeout field that starts at the negative 'not given' sentinel reaches SetOption only under a >= 0 test (every way into the call, through merges)",
}
for k, (t, x) in EXTRA.items():
    tech, text, note, ref = CLAIMED[k]
    imp = IMPORTS.get(k)
    r67 = ROUND67.get(k)
    r8 = ROUND8.get(k)
    if ROUND9.get(k):
        r8 = (r8 + "; " if r8 else "") + "after round 9: " + ROUND9[k]
    if ROUND10.get(k):
        r8 = (r8 + "; " if r8 else "") + "after round 10: " + ROUND10[k]
    if ROUND11.get(k):
        r8 = (r8 + "; " if r8 else "") + "after round 11: " + ROUND11[k]
    if ROUND12.get(k):
        r8 = (r8 + "; " if r8 else "") + "after round 12: " + ROUND12[k]
    if ROUND14.get(k):
        r8 = (r8 + "; " if r8 else "") + "after round 14: " + ROUND14[k]
    CLAIMED[k] = (tech + t + ("; shared mechanisms decided where they are anchored and imported: " + imp if imp else "") + ("; added after seeded rounds 6-7: " + r67 if r67 else "") + ("; added after seeded round 8: " + r8 if r8 else ""), text + x, note, ref)

NOT_YET = "check not built yet (work in progress; planned static rules in DESIGN.md section 4)"
NA = {}

props = [json.loads(l)["id"] for l in open("/verif/properties.jsonl")]
checks = []
na = []
for p in props:
    if p in CLAIMED:
        tech, text, note, ref = CLAIMED[p]
        checks.append({
            "property_id": p,
            "quick_cmd": f"./bin/mverif check {p} --tier quick",
            "thorough_cmd": f"./bin/mverif check {p} --tier thorough",
            "evidence_file": f"/verif/evidence/{p}.json",
            "replay_cmd_template": "./bin/mverif explain {path}",
            "engine": "mverif",
            "level_claimed": {"category": "other", "text": text, "design_ref": ref},
            "level_note": note,
            "technique": tech,
        })
    else:
        na.append({"property_id": p, "reason": NA.get(p, NOT_YET)})

m = {
 "version": 1,
 "setup_cmd": SETUP,
 "hooks": {"guard": "verif", "enable": "none: static analysis needs no instrumentation in /repo (no hook commits)",
           "baseline_off_cmd": "cd /repo && GOFLAGS=-mod=mod GOPROXY=off GOSUMDB=off go test -vet=off -count=1 -timeout 25m ./...",
           "source_commits": [], "add_only": True},
 "engines": [{"name": "mverif", "path": "/verif/tool", "serves_properties": sorted(CLAIMED),
              "kind_free_text": "purpose-built Go static analyser over go/packages + go/types + go/ssa + VTA call graph (x/tools v0.29.0); re-loads /repo on every run"}],
 "checks": checks,
 "not_applicable": na,
 "notes": "All checks are static analysis (no mangos code is executed). Genuine defects found are repaired by 'fix:' commits in /repo and listed in known_findings.json.",
}
json.dump(m, open("/verif/MANIFEST.json", "w"), indent=1)
print("claimed:", sorted(CLAIMED), "not applicable:", len(na))
