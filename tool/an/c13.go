package an

import (
	"go/token"
	"go/types"
	"regexp"
	"strings"

	"golang.org/x/tools/go/ssa"
)

func init() {
	register(&PropInfo{ID: "C13", Run: runC13,
		Explanation: "anchored shape rules on internal/core: order and guards of Attaching/AddPipe/added/Attached in addPipe, Detached only from remPipe's closure and only for added pipes, who-may-call of ProtocolBase.AddPipe/RemovePipe/pipeIDs.Get/Free, id allocator invariants (non-zero, 31-bit, unique under its lock), provenance arguments of dial/serve, hooks invoked with no lock held, plus the lock typestate of the lifecycle functions.",
		Assumptions: commonAssumptions})
}

const coreSockMu = "internal/core.socket.Mutex"
const corePipeMu = "internal/core.pipe.lock"

func runC13(p *Prog, r *Report) {
	q := NewQ(p, r)
	attaching := p.ConstVal("", "PipeEventAttaching")
	attached := p.ConstVal("", "PipeEventAttached")
	detached := p.ConstVal("", "PipeEventDetached")

	queuePops(p, r, "C13.13/queue-pops", func(rel string) bool { return strings.HasPrefix(rel, "transport") || rel == "internal/core" })
	r.Floor("C13.13/queue-pops", "queue_pop_sites", 2)
	{
		R := "C13.14/core-state-writers"
		r.Describe(R, "the socket's hook and its endpoint lists are written only by the calls that own them: the hook by SetPipeEventHook (Close must not drop it: the Detached events of the pipes it tears down are still to come), the dialer list by NewDialer and Close, the listener list by NewListener and Close")
		q.OnlyIn(R, "writers-of-pipehook", p.PostPubWritersOf("internal/core.socket.pipehook"), []string{"internal/core.(*socket).SetPipeEventHook"}, []string{"internal/core.(*socket).SetPipeEventHook"})
		q.OnlyIn(R, "writers-of-dialers", p.PostPubWritersOf("internal/core.socket.dialers"), []string{"internal/core.(*socket).NewDialer", "internal/core.(*socket).Close"}, []string{"internal/core.(*socket).NewDialer", "internal/core.(*socket).Close"})
		q.OnlyIn(R, "writers-of-listeners", p.PostPubWritersOf("internal/core.socket.listeners"), []string{"internal/core.(*socket).NewListener", "internal/core.(*socket).Close"}, []string{"internal/core.(*socket).NewListener", "internal/core.(*socket).Close"})
		// a websocket pipe has an option map of its own: LOCAL-ADDR, REMOTE-ADDR and TLS-STATE
		// are written into it per connection
		nm, bad := 0, ""
		for _, fn := range p.Funcs {
			if rel, _ := p.FuncRel(fn); rel != "transport/ws" {
				continue
			}
			EachInstr(fn, func(in ssa.Instruction) {
				st, ok := in.(*ssa.Store)
				if !ok {
					return
				}
				fa, ok := st.Addr.(*ssa.FieldAddr)
				if !ok || fieldKeyOf(fa) != "transport/ws.wsPipe.options" {
					return
				}
				nm++
				if _, isMk := st.Val.(*ssa.MakeMap); !isMk {
					bad = p.InstrPos(in) + " stores " + Desc(st.Val)
				}
			})
		}
		r.Check(nm >= 2 && bad == "", R, "ws-pipe-options-are-its-own", "-", "every websocket pipe gets a freshly made option map", "a websocket pipe's option map is not freshly made ("+bad+"): the per-connection addresses and TLS state written into it are shared with other pipes, so a pipe reports another connection's addresses")
	}
	// ---- C13.1 addPipe ordering
	R := "C13.1/addPipe"
	r.Describe(R, "addPipe: Attaching hook before proto.AddPipe; added=true only under p.lock on the AddPipe==nil and !closing edges; Attached hook after added=true")
	ap := q.Fn(R, "internal/core", "socket", "addPipe")
	if ap.OK() {
		hookA := ap.Ev("call", "PipeEventHook").Arg(0, attaching)
		hookB := ap.Ev("call", "PipeEventHook").Arg(0, attached)
		padd := ap.Ev("call", "ProtocolBase.AddPipe")
		stAdded := ap.Ev("store", "~.added").Arg(0, "true")
		q.Req(R, "attaching-hook-exists", len(hookA) == 1, hookA.Pos(p), "one Attaching hook call", "expected exactly one PipeEventAttaching hook call in addPipe")
		q.Req(R, "protoAddPipe-exists", len(padd) == 1, padd.Pos(p), "one proto.AddPipe call", "expected exactly one ProtocolBase.AddPipe call in addPipe")
		// the hook call is conditional (ph != nil); AddPipe must not be able to precede it
		q.Req(R, "attaching-before-AddPipe", len(hookA) == 1 && len(padd) == 1 && orderedBefore(hookA[0], padd[0]), padd.Pos(p),
			"Attaching hook can only run before proto.AddPipe", "proto.AddPipe can run before (or without ordering to) the Attaching hook")
		q.Req(R, "added-store-exists", len(stAdded) == 1, stAdded.Pos(p), "one store added=true", "expected exactly one store p.added = true")
		if len(stAdded) == 1 && len(padd) == 1 {
			e := stAdded[0]
			okNil := false
			okClosing := false
			for _, g := range e.Guard {
				if strings.HasSuffix(g, ".AddPipe(core.newPipe(…)) == nil") || (strings.Contains(g, ".AddPipe(") && strings.HasSuffix(g, "== nil")) {
					okNil = true
				}
				if strings.HasPrefix(g, "!") && strings.HasSuffix(g, ".closing") {
					okClosing = true
				}
			}
			q.Req(R, "added-on-AddPipe-nil-edge", okNil, p.InstrPos(e.In), "added=true only on the AddPipe()==nil edge", "p.added = true is not guarded by proto.AddPipe() == nil: guards "+strings.Join(e.Guard, "; "))
			q.Req(R, "added-on-not-closing-edge", okClosing, p.InstrPos(e.In), "added=true only when !closing", "p.added = true is not guarded by !p.closing: guards "+strings.Join(e.Guard, "; "))
			okC := false
			for _, g := range padd[0].Guard {
				if strings.HasPrefix(g, "!") && strings.HasSuffix(g, ".closing") {
					okC = true
				}
			}
			q.Req(R, "AddPipe-on-not-closing-edge", okC, padd.Pos(p), "the protocol is given the pipe only when it was not closed during Attaching", "proto.AddPipe is not guarded by !p.closing: a pipe closed from the Attaching hook is still handed to the protocol, and since Close already ran with added=false no RemovePipe ever follows: the protocol keeps a dead pipe: guards "+strings.Join(padd[0].Guard, "; "))
			q.Req(R, "added-under-pipe-lock", Sel{e}.AllHeld(corePipeMu), p.InstrPos(e.In), "under p.lock", "p.added = true is not under p.lock")
			q.Req(R, "AddPipe-under-pipe-lock", padd.AllHeld(corePipeMu), padd.Pos(p), "proto.AddPipe under p.lock", "proto.AddPipe is not called under p.lock (Close could interleave)")
			q.Req(R, "attached-after-added", len(hookB) == 1 && hookB.DominatedBy(stAdded), hookB.Pos(p), "Attached hook dominated by added=true", "the Attached hook is not dominated by p.added = true")
		}
		// the pipe is in the socket's list before anything can attach it: socket.Close closes
		// exactly the pipes in that list, so a pipe that is being attached while the socket
		// closes must already be there (else it is attached to a closed socket and nothing
		// ever closes it: no Detached, id never freed)
		ladd := ap.Ev("call", "core.(*pipeList).Add")
		q.Req(R, "listed-before-attaching", len(ladd) == 1 && ladd[0].Unconditional() && len(padd) == 1 && padd.DominatedBy(ladd) && (len(hookA) != 1 || hookA.DominatedBy(ladd)), ladd.Pos(p),
			"pipes.Add unconditionally before the Attaching hook and proto.AddPipe", "the pipe is not put into the socket's pipe list before the Attaching hook / proto.AddPipe: a socket.Close during the attach does not see it, and it ends up attached to a closed socket that never closes it")
		// refusal path: on AddPipe error: Remove from list + async close, no Attached, no added
		rem := ap.Ev("call", "core.(*pipeList).Remove")
		gocl := ap.Ev("go", "core.(*pipe).close")
		errEdge := func(s Sel) bool {
			for _, e := range s {
				ok := false
				for _, g := range e.Guard {
					if strings.Contains(g, ".AddPipe(") && strings.HasSuffix(g, "!= nil") {
						ok = true
					}
				}
				if !ok {
					return false
				}
			}
			return len(s) > 0
		}
		q.Req(R, "refusal-removes-from-list", errEdge(rem), rem.Pos(p), "refused pipe removed from the pipe list", "no pipes.Remove on the AddPipe-error edge")
		q.Req(R, "refusal-closes-pipe", errEdge(gocl), gocl.Pos(p), "refused pipe closed through core pipe.close (notifies the dialer)", "refused pipe is not closed through (*pipe).close on the AddPipe-error edge: the dialer is never told and the id never released")
		pc := ap.Ev("go", "core.(*dialer).pipeConnected")
		q.Req(R, "pipeConnected-after-added", len(pc) == 1 && pc.DominatedBy(stAdded), pc.Pos(p), "dialer.pipeConnected only after added", "pipeConnected is not dominated by added=true")
	}

	// ---- C13.2 Detached
	R = "C13.2/detached"
	r.Describe(R, "Detached hook is invoked only in remPipe's goroutine; remPipe is called only from pipe.Close's once-closure, only when p.added, under p.lock")
	hookSites := map[string][]string{}
	for _, fn := range p.Funcs {
		for _, e := range p.Events(fn) {
			if e.Kind == "call" && e.What == "PipeEventHook" {
				hookSites[p.FuncName(fn)+"#"+strings.Join(e.Args[:1], "")] = append(hookSites[p.FuncName(fn)+"#"+e.Args[0]], p.InstrPos(e.In))
			}
		}
	}
	q.OnlyIn(R, "hook-call-sites", hookSites,
		[]string{"internal/core.(*socket).addPipe#" + attaching, "internal/core.(*socket).addPipe#" + attached, "internal/core.(*socket).remPipe$1#" + detached},
		[]string{"internal/core.(*socket).addPipe#" + attaching, "internal/core.(*socket).addPipe#" + attached, "internal/core.(*socket).remPipe$1#" + detached})
	q.OnlyIn(R, "callers-of-remPipe", p.CallersOf("core.(*socket).remPipe"), []string{"internal/core.(*pipe).Close$1"}, []string{"internal/core.(*pipe).Close$1"})
	pc := q.Fn(R, "internal/core", "pipe", "Close")
	if pc.OK() {
		cl := pc.Closure(R, 0)
		if cl.OK() {
			rp := cl.Ev("call", "core.(*socket).remPipe")
			q.Req(R, "remPipe-iff-added", rp.AllGuarded("recv.added"), rp.Pos(p), "remPipe only when p.added", "remPipe is not guarded by p.added")
			q.Req(R, "remPipe-under-pipe-lock", rp.AllHeld(corePipeMu), rp.Pos(p), "under p.lock", "remPipe not under p.lock")
			cst := cl.Ev("store", "recv.closing").Arg(0, "true")
			q.Req(R, "closing-set-under-lock", len(cst) == 1 && cst.AllHeld(corePipeMu), cst.Pos(p), "closing=true under p.lock", "closing=true missing or not under p.lock")
			q.Req(R, "closing-before-added-test", rp.DominatedBy(cst), rp.Pos(p), "closing set before the added test", "closing=true does not dominate the remPipe decision")
			tcl := cl.Ev("call", "TranPipe.Close")
			q.Req(R, "transport-closed", len(tcl) == 1 && tcl[0].Unconditional(), tcl.Pos(p), "transport pipe closed unconditionally", "transport Close missing or conditional in pipe.Close")
			once := pc.Ev("call", "sync.(*Once).Do")
			q.Req(R, "inside-once", len(once) == 1, once.Pos(p), "Close body runs inside closeOnce.Do", "pipe.Close does not run its body in closeOnce.Do")
			gpc := cl.Ev("go", "core.(*dialer).pipeClosed")
			q.Req(R, "dialer-notified", len(gpc) == 1 && len(gpc[0].Guard) == 1 && gpc[0].Guard[0] == "recv.d != nil", gpc.Pos(p), "dialer.pipeClosed on every path when p.d != nil", "go p.d.pipeClosed() is missing or has extra conditions: "+guardsOf(gpc))
		}
	}
	// the hook that is told of an event is the socket's hook as read under the socket lock —
	// that value and nothing else (a hook variable that some path replaces, e.g. by nil when a
	// flag says "the application was not told of the attach", loses the event on that path)
	{
		n := 0
		for _, fn := range p.Funcs {
			if rel, ok := p.FuncRel(fn); !ok || rel != "internal/core" || fn.Parent() != nil || strings.HasSuffix(p.Fset.Position(fn.Pos()).Filename, "_test.go") {
				continue
			}
			for _, f := range WithClosures(fn) {
				EachInstr(f, func(in ssa.Instruction) {
					c := CallOf(in)
					if c == nil || c.IsInvoke() || !isHookType(c.Value.Type()) {
						return
					}
					n++
					ok, why := hookIsSocketHook(c.Value, map[ssa.Value]bool{})
					r.Check(ok, R, p.FuncName(f)+"/hook-value@"+Desc(c.Args[0]), p.InstrPos(in), "the hook called is s.pipehook as read under the lock", "the hook called here is not simply the socket's hook: "+why+": on that path the application is not told of the event (a Detached that never comes leaves its bookkeeping of attached pipes wrong for ever)")
				})
			}
		}
		r.Count("c13.hook_calls", n)
		r.Floor(R, "c13.hook_calls", 3)
	}
	// the allocator's cursor only moves forward: Get advances it, nothing else touches it (a
	// Free that steps it back hands the id of a connection that has just gone to the next one)
	q.OnlyIn("C13.8/allocator", "writers-of-next", p.PostPubWritersOf("internal/core.pipeIDAllocator.next"), []string{"internal/core.(*pipeIDAllocator).Get"}, []string{"internal/core.(*pipeIDAllocator).Get"})
	// what a pipe says about where it came from never changes after it was built
	for _, fld := range []string{"d", "l", "s", "p", "id"} {
		q.OnlyIn("C13.9/provenance", "writers-of-pipe."+fld+"-after-construction", p.PostPubWritersOf("internal/core.pipe."+fld), []string{}, nil)
	}
	wr := p.WritersOf("internal/core.pipe.added")
	q.OnlyIn(R, "writers-of-added", wr, []string{"internal/core.(*socket).addPipe"}, []string{"internal/core.(*socket).addPipe"})
	wr = p.WritersOf("internal/core.pipe.closing")
	q.OnlyIn(R, "writers-of-closing", wr, []string{"internal/core.(*pipe).Close$1"}, []string{"internal/core.(*pipe).Close$1"})

	// ---- C13.3 who may call the protocol
	R = "C13.3/once-each"
	r.Describe(R, "ProtocolBase.AddPipe is called only by addPipe, RemovePipe only by remPipe")
	q.OnlyIn(R, "callers-of-ProtocolBase.AddPipe", p.CallersOf("ProtocolBase.AddPipe"), []string{"internal/core.(*socket).addPipe"}, []string{"internal/core.(*socket).addPipe"})
	q.OnlyIn(R, "callers-of-ProtocolBase.RemovePipe", p.CallersOf("ProtocolBase.RemovePipe"), []string{"internal/core.(*socket).remPipe"}, []string{"internal/core.(*socket).remPipe"})
	q.OnlyIn(R, "callers-of-addPipe", p.CallersOf("core.(*socket).addPipe"), []string{"internal/core.(*dialer).dial", "internal/core.(*listener).serve"}, []string{"internal/core.(*dialer).dial", "internal/core.(*listener).serve"})

	// ---- C13.4 id freed after Detached
	R = "C13.4/id-after-detached"
	r.Describe(R, "the pipe id is released only after the Detached callback, in remPipe's goroutine")
	rp := q.Fn(R, "internal/core", "socket", "remPipe")
	if rp.OK() {
		cl := rp.Closure(R, 0)
		if cl.OK() {
			hk := cl.Ev("call", "PipeEventHook").Arg(0, detached)
			fr := cl.Ev("call", "core.(*pipeIDAllocator).Free")
			q.Req(R, "free-after-hook", len(hk) == 1 && len(fr) == 1 && orderedBefore(hk[0], fr[0]) && fr[0].Unconditional(), fr.Pos(p),
				"Free follows the Detached hook on every path", "pipeIDs.Free can run before the Detached hook, or is conditional")
			q.Req(R, "free-arg-is-pipe-id", len(fr) == 1 && len(fr[0].Args) == 2 && strings.HasSuffix(fr[0].Args[1], ".id"), fr.Pos(p), "frees p.id", "Free is not applied to the pipe's id")
		}
		prm := rp.Ev("call", "ProtocolBase.RemovePipe")
		lst := rp.Ev("call", "core.(*pipeList).Remove")
		g := rp.Ev("go", "")
		q.Req(R, "remPipe-shape", len(prm) == 1 && len(lst) == 1 && len(g) == 1 && prm[0].Unconditional() && lst[0].Unconditional() && g[0].Unconditional(), rp.Pos(),
			"RemovePipe, list removal and the Detached goroutine are unconditional", "remPipe no longer unconditionally calls proto.RemovePipe / pipes.Remove / spawns the Detached goroutine")
	}
	q.OnlyIn(R, "callers-of-pipeIDs.Get", p.CallersOf("core.(*pipeIDAllocator).Get"), []string{"internal/core.newPipe"}, []string{"internal/core.newPipe"})

	pipeIDPairing(p, r, "C13.7/id-pairing")
	// ---- C13.6 hooks with no lock held
	R = "C13.6/hook-no-lock"
	r.Describe(R, "PipeEventHook is invoked with no mutex held")
	n := 0
	for _, fn := range p.Funcs {
		for _, e := range p.Events(fn) {
			if e.Kind == "call" && e.What == "PipeEventHook" {
				n++
				q.Req(R, p.FuncName(fn)+"#"+e.Args[0], len(e.Held) == 0, p.InstrPos(e.In), "no lock held", "hook invoked with "+strings.Join(e.Held, ",")+" held")
			}
		}
	}
	r.Count("c13.hook_sites", n)
	r.Floor(R, "c13.hook_sites", 3)

	// ---- C13.8 allocator
	R = "C13.8/allocator"
	r.Describe(R, "pipeIDs.Get returns a non-zero 31-bit id not in use and records it, all under the allocator lock; Free deletes under the lock")
	get := q.Fn(R, "internal/core", "pipeIDAllocator", "Get")
	if get.OK() {
		mask := "(recv.next & 2147483647)"
		mu := get.Ev("mapupdate", "recv.used").Arg(0, mask)
		q.Req(R, "records-id", len(mu) == 1 && mu.AllHeld("internal/core.pipeIDAllocator.lock"), mu.Pos(p), "used[id] recorded under the lock with id = next & 0x7fffffff", "the id recorded in used[] is not next & 0x7fffffff, or not recorded under the lock")
		var rets Sel
		for _, e := range get.Ev("return", "") {
			if len(e.Args) == 1 && e.Args[0] != "$new" && e.Args[0] != "new" {
				rets = append(rets, e)
			}
		}
		okRet := len(rets) == 1 && rets[0].Args[0] == mask
		q.Req(R, "returns-masked-id", okRet, rets.Pos(p), "returns next & 0x7fffffff", "Get does not return next & 0x7fffffff (ids must fit 31 bits)")
		q.Req(R, "nonzero", rets.AllGuarded(mask+" != 0"), rets.Pos(p), "return guarded by id != 0", "Get can return 0 (reserved)")
		q.Req(R, "not-in-use", rets.AllGuarded("!recv.used["+mask+"]#1"), rets.Pos(p), "return guarded by the miss of used[id]", "Get can return an id that is still in use")
		q.Req(R, "recorded-before-return", rets.DominatedBy(mu), rets.Pos(p), "insertion dominates the return", "Get returns without recording the id")
	}
	allocatorFreshness(p, r, R)
	fr := q.Fn(R, "internal/core", "pipeIDAllocator", "Free")
	if fr.OK() {
		d := fr.Ev("delete", "delete").Arg(0, "recv.used").Arg(1, "arg1")
		q.Req(R, "free-deletes-under-lock", len(d) == 1 && d.AllHeld("internal/core.pipeIDAllocator.lock"), d.Pos(p), "delete(used, id) under the lock", "Free does not delete the id under the lock")
	}

	// ---- C13.9 provenance
	// the read-only pipe options describe the actual connection: every transport that records
	// an address, TLS state or peer credential on a pipe records the value of that kind
	// (a peer uid under PEER-UID, not the gid; the remote address under REMOTE-ADDR, …)
	{
		R2 := "C13.12/pipe-options-describe-the-connection"
		r.Describe(R2, "each read-only pipe option is set from the datum of its own kind: PEER-PID/UID/GID from the credential's Pid/Uid/Gid, LOCAL-ADDR from LocalAddr(), REMOTE-ADDR from RemoteAddr()")
		kinds := map[string][]string{
			`"PEER-PID"`: {".Pid)"}, `"PEER-UID"`: {".Uid)"}, `"PEER-GID"`: {".Gid)"},
			`"LOCAL-ADDR"`: {"LocalAddr(", ".Addr(", "recv.addr", ".addr"}, `"REMOTE-ADDR"`: {"RemoteAddr(", "recv.addr", ".addr"},
			`"TLS-STATE"`: {".TLS", "ConnectionState("},
		}
		n := 0
		for _, fn := range p.Funcs {
			rel, _ := p.FuncRel(fn)
			if !strings.HasPrefix(rel, "transport") {
				continue
			}
			f := &F{q: q, fn: fn, Name: p.FuncName(fn), evs: p.Events(fn)}
			for _, e := range f.All() {
				if e.Kind != "call" && e.Kind != "mapupdate" {
					continue
				}
				var opt, val string
				switch {
				case e.Kind == "call" && strings.HasSuffix(e.What, "SetOption") && len(e.Args) >= 3:
					opt, val = e.Args[len(e.Args)-2], e.Args[len(e.Args)-1]
				case e.Kind == "mapupdate" && strings.HasSuffix(e.What, ".options") && len(e.Args) == 2:
					opt, val = e.Args[0], e.Args[1]
				default:
					continue
				}
				want, ok := kinds[opt]
				if !ok {
					continue
				}
				if argRe.MatchString(val) {
					continue // a setter helper's own parameter: judged where the helper is called
				}
				n++
				good := false
				for _, w := range want {
					if strings.Contains(val, w) {
						good = true
					}
				}
				r.Check(good, R2, f.Name+"/"+strings.Trim(opt, `"`), p.InstrPos(e.At()), opt+" = "+val, "the pipe option "+opt+" is set from "+val+", which is not the datum of that kind: the pipe reports wrong information about its connection")
				// ... and whenever the connection has that datum: the only conditions on recording
				// it are about the datum itself (it exists / was obtained), never about how the
				// endpoint was configured — the scheme of a listener's address says nothing about
				// a connection accepted through a handler mounted on somebody else's server
				extra := ""
				// (conditions under which the pipe object itself is created are not conditions
				// on the option: they are read off the instruction that defines the pipe)
				created := map[string]bool{}
				if def := pipeObjectDef(e.In); def != nil {
					for _, g := range p.GuardStrings(def) {
						created[g] = true
					}
				}
				for _, g := range p.GuardStrings(e.In) {
					if !created[g] && !optionGuardAboutDatum(g, val) {
						extra = g
					}
				}
				r.Check(extra == "", R2, f.Name+"/"+strings.Trim(opt, `"`)+"/whenever-present", p.InstrPos(e.At()), "recorded whenever the connection has it", "the pipe option "+opt+" is recorded only under the further condition "+extra+", which is not about the datum ("+val+"): a connection that has it can be reported without it")
			}
		}
		r.Count("c13.pipe_option_sets", n)
		r.Floor(R2, "c13.pipe_option_sets", 5)
	}
	R = "C13.9/provenance"
	r.Describe(R, "dial passes its dialer (and no listener) to addPipe, serve its listener (and no dialer); newPipe stores them; accessors read them")
	dl := q.Fn(R, "internal/core", "dialer", "dial")
	if dl.OK() {
		a := dl.Ev("call", "core.(*socket).addPipe")
		q.Req(R, "dial-args", len(a) == 1 && len(a[0].Args) == 4 && a[0].Args[0] == "recv.s" && a[0].Args[1] == "recv.d.Dial()#0" && a[0].Args[2] == "recv" && a[0].Args[3] == "nil", a.Pos(p),
			"addPipe(p, d, nil)", "dial does not call s.addPipe(<dialed pipe>, d, nil): "+argsOf(a))
		q.Req(R, "dial-only-on-success", a.AllGuarded("recv.d.Dial()#1 == nil"), a.Pos(p), "only when Dial succeeded", "addPipe not guarded by err == nil")
	}
	sv := q.Fn(R, "internal/core", "listener", "serve")
	if sv.OK() {
		a := sv.Ev("call", "core.(*socket).addPipe")
		q.Req(R, "serve-args", len(a) == 1 && len(a[0].Args) == 4 && a[0].Args[0] == "recv.s" && a[0].Args[1] == "recv.l.Accept()#0" && a[0].Args[2] == "nil" && a[0].Args[3] == "recv", a.Pos(p),
			"addPipe(tp, nil, l)", "serve does not call s.addPipe(<accepted pipe>, nil, l): "+argsOf(a))
	}
	np := q.Fn(R, "internal/core", "", "newPipe")
	if np.OK() {
		want := map[string]string{"*.p": "arg1", "*.s": "arg2", "*.d": "arg3", "*.l": "arg4", "*.id": "core.(*pipeIDAllocator).Get(internal/core.pipeIDs)"}
		for addr, val := range want {
			st := np.Ev("store", addr)
			q.Req(R, "newPipe-"+addr, len(st) == 1 && st[0].Args[0] == val, st.Pos(p), addr+" = "+val, "newPipe does not store "+val+" into "+addr+": "+argsOf(st))
		}
	}
	for _, acc := range [][3]string{{"Dialer", "recv.d", ""}, {"Listener", "recv.l", ""}, {"ID", "recv.id", ""}} {
		f := q.Fn(R, "internal/core", "pipe", acc[0])
		if !f.OK() {
			continue
		}
		ok := false
		for _, e := range f.Ev("return", "") {
			if len(e.Args) == 1 && e.Args[0] == acc[1] {
				ok = true
			}
		}
		q.Req(R, "accessor-"+acc[0], ok, f.Pos(), acc[0]+"() returns "+acc[1], acc[0]+"() does not return "+acc[1])
	}
	ad := q.Fn(R, "internal/core", "pipe", "Address")
	if ad.OK() {
		la := ad.Ev("call", "core.(*listener).Address").Arg(0, "recv.l").Guarded("recv.l != nil")
		da := ad.Ev("call", "core.(*dialer).Address").Arg(0, "recv.d").Guarded("recv.d != nil")
		q.Req(R, "accessor-Address", len(la) == 1 && len(da) == 1, ad.Pos(), "Address() asks the creating listener or dialer", "pipe.Address() no longer reports the creating endpoint's address")
	}

	// lock typestate of the lifecycle functions (shared engine E1)
	r.Describe("C13.5/E1", "lock typestate (E1) of internal/core: every path releases p.lock / the socket lock, including the closing and refusal paths of addPipe")
	res := p.E1()
	nb := 0
	for _, is := range res.issues {
		if rel, _ := p.FuncRel(is.Fn); rel == "internal/core" && p.InScope(is.Fn) {
			nb++
			r.Bad("C13.5/E1", p.FuncName(is.Fn)+"/"+is.Kind+"/"+is.Lock.Path, p.InstrPos(is.In), is.Msg, is.Wit...)
		}
	}
	if nb == 0 {
		r.OK("C13.5/E1", "internal/core", "-", "no lock typestate issue in internal/core")
	}
}

// orderedBefore: a can execute before b and b can never execute before a.
func orderedBefore(a, b *Ev) bool {
	if a.Fn != b.Fn {
		return false
	}
	reach := blockReach(a.Fn)
	return CanPrecede(reach, a.In, b.In) && !CanPrecede(reach, b.In, a.In)
}

func guardsOf(s Sel) string {
	var out []string
	for _, e := range s {
		out = append(out, "["+strings.Join(e.Guard, "; ")+"]")
	}
	return strings.Join(out, " ")
}

func argsOf(s Sel) string {
	var out []string
	for _, e := range s {
		out = append(out, e.String())
	}
	if len(out) == 0 {
		return "<none found>"
	}
	return strings.Join(out, " | ")
}

// pipeIDPairing: every pipe id handed out by newPipe is given back exactly once when the
// pipe is closed: through remPipe (after the Detached callback) when the pipe was attached,
// directly — together with its slot in the socket's pipe list — when it never was (refused
// by the protocol, or closed from the Attaching hook).  Shared by C10 (nothing remains
// after Close) and C13 (id lifecycle).
func pipeIDPairing(p *Prog, r *Report, R string) {
	q := NewQ(p, r)
	r.Describe(R, "pipe id pairing: pipe.Close releases the id on both branches (attached: remPipe → Free after Detached; never attached: list removal + Free), exactly once (inside closeOnce), under the pipe lock that addPipe's `added = true` takes")
	cl := q.Fn(R, "internal/core", "pipe", "Close")
	if !cl.OK() {
		return
	}
	once := cl.Closure(R, 0)
	if !once.OK() {
		return
	}
	const pl = "internal/core.pipe.lock"
	rem := once.Ev("call", "core.(*socket).remPipe").Guarded("recv.added")
	fr := once.Ev("call", "core.(*pipeIDAllocator).Free").Guarded("!recv.added")
	ls := once.Ev("call", "core.(*pipeList).Remove").Guarded("!recv.added")
	r.Check(len(rem) == 1 && len(rem[0].Guard) == 1 && rem.AllHeld(pl), R, "attached-goes-through-remPipe", rem.Pos(p), "an attached pipe is deregistered by remPipe (which frees the id after Detached)", "pipe.Close does not hand an attached pipe to remPipe under the pipe lock")
	r.Check(len(fr) == 1 && len(fr[0].Guard) == 1 && fr[0].Args[1] == "recv.id" && fr.AllHeld(pl), R, "never-attached-frees-id", fr.Pos(p), "a pipe that was never attached gives its id back in Close", "a pipe that was never attached (refused by the protocol, closed while attaching) never releases its id: pipeIDs.used grows with every refused connection")
	r.Check(len(ls) == 1 && ls.AllHeld(pl), R, "never-attached-leaves-list", ls.Pos(p), "and leaves the socket's pipe list", "a pipe closed before it was attached stays in the socket's pipe list for ever")
	// exactly once: the whole body runs under closeOnce, and nothing else calls Free
	od := cl.Ev("call", "sync.(*Once).Do")
	r.Check(len(od) == 1 && od[0].Unconditional(), R, "once", od.Pos(p), "the release runs inside closeOnce.Do", "pipe.Close no longer runs its body exactly once")
	// addPipe sets added under the same lock, after testing closing
	ap := q.Fn(R, "internal/core", "socket", "addPipe")
	if ap.OK() {
		st := ap.Ev("store", "*.added").Arg(0, "true")
		r.Check(len(st) == 1 && st.AllHeld(pl) && hasAtomSuffix(st[0].Guard, ".closing"), R, "added-set-under-pipe-lock", st.Pos(p), "added = true under the pipe lock, on the !closing edge", "addPipe sets added outside the pipe lock / without testing closing: Close can take the wrong branch and the id is freed twice (panic) or never")
	}
	q.OnlyIn(R, "callers-of-pipeIDs.Free", p.CallersOf("core.(*pipeIDAllocator).Free"), []string{"internal/core.(*socket).remPipe$1", "internal/core.(*pipe).Close$1"}, []string{"internal/core.(*socket).remPipe$1", "internal/core.(*pipe).Close$1"})
}

func hasAtomSuffix(g []string, suf string) bool {
	for _, a := range g {
		if strings.HasSuffix(a, suf) {
			return true
		}
	}
	return false
}

// allocatorFreshness: the id allocator moves past every id it hands out, so that an id is
// not handed out again as soon as it is freed.  The raw REP/RESPONDENT sockets route a reply
// by pipes[id] alone: the freshness of ids is what makes a late reply for a departed
// connection miss (C05), and what keeps ids of successive connections distinct (C13).
func allocatorFreshness(p *Prog, r *Report, R string) {
	q := NewQ(p, r)
	get := q.Fn(R, "internal/core", "pipeIDAllocator", "Get")
	if !get.OK() {
		return
	}
	adv := get.Ev("store", "recv.next").Arg(0, "(recv.next + 1)")
	q.Req(R, "advances", len(adv) == 1 && adv[0].Unconditional(), adv.Pos(p), "next advances on every iteration", "next is not advanced unconditionally in the loop")
	var rets Sel
	for _, e := range get.Ev("return", "") {
		if len(e.Args) == 1 && e.Args[0] != "$new" && e.Args[0] != "new" {
			rets = append(rets, e)
		}
	}
	q.Req(R, "advances-before-return", len(rets) >= 1 && len(adv) >= 1 && rets.DominatedBy(adv), rets.Pos(p), "the counter has moved past the id before it is returned", "Get returns an id without having advanced the counter past it: the id just handed out is the next candidate again, so it is re-used as soon as it is freed (a late reply addressed to the departed connection reaches the newcomer)")
}

var argRe = regexp.MustCompile(`^arg[0-9]+$`)

// optionGuardAboutDatum: a condition under which a pipe option is recorded is acceptable when
// it tests the datum the option is set from (its presence), the success of the call that
// produced it, or the dynamic type of the connection it is read from.
func optionGuardAboutDatum(g, val string) bool {
	base := val
	base = strings.TrimPrefix(base, "*")
	if i := strings.Index(base, "("); i > 0 {
		// a call: the callee's receiver / first argument is what the datum is read from
		inner := base[i+1:]
		inner = strings.TrimSuffix(inner, ")")
		if j := strings.LastIndex(base[:i], "."); j > 0 && !strings.Contains(base[:j], " ") && inner == "" {
			base = base[:j]
		} else if inner != "" {
			base = inner
		}
	}
	if base != "" && strings.Contains(g, base) {
		return true
	}
	if strings.HasSuffix(g, "#1 == nil") || strings.HasSuffix(g, " == nil") && strings.Contains(g, "err") {
		return true
	}
	if strings.Contains(g, "typeassert") || strings.Contains(g, ".(") {
		return true
	}
	return false
}

// pipeObjectDef: the instruction that creates the object an option is recorded on: for
// `w.options[k] = v` the allocation of w, for `p.SetOption(k, v)` the definition of p.
func pipeObjectDef(in ssa.Instruction) ssa.Instruction {
	var v ssa.Value
	switch x := in.(type) {
	case *ssa.MapUpdate:
		v = x.Map
	case *ssa.Call:
		if x.Call.IsInvoke() {
			v = x.Call.Value
		} else if len(x.Call.Args) > 0 {
			v = x.Call.Args[0]
		}
	}
	for i := 0; i < 8 && v != nil; i++ {
		switch y := v.(type) {
		case *ssa.UnOp:
			v = y.X
		case *ssa.FieldAddr:
			v = y.X
		case *ssa.Extract:
			v = y.Tuple
		case *ssa.ChangeInterface:
			v = y.X
		case *ssa.MakeInterface:
			v = y.X
		case *ssa.TypeAssert:
			v = y.X
		default:
			if d, ok := v.(ssa.Instruction); ok {
				return d
			}
			return nil
		}
	}
	return nil
}

// hookIsSocketHook: v (the callee of a hook call) is the value of socket.pipehook: a load of
// that field, possibly through a captured variable or a merge all of whose sources are.
func hookIsSocketHook(v ssa.Value, seen map[ssa.Value]bool) (bool, string) {
	if seen[v] {
		return true, ""
	}
	seen[v] = true
	switch x := v.(type) {
	case *ssa.UnOp:
		if x.Op != token.MUL {
			return false, "computed by " + Desc(v)
		}
		switch a := x.X.(type) {
		case *ssa.FieldAddr:
			if fieldName(a.X.Type(), a.Field) == "pipehook" {
				return true, ""
			}
			return false, "read from " + Desc(a)
		case *ssa.FreeVar:
			// the captured variable: every store the enclosing function makes to it
			fn := x.Parent()
			par := fn.Parent()
			if par == nil {
				return false, "free variable without parent"
			}
			idx := -1
			for i, fv := range fn.FreeVars {
				if fv == a {
					idx = i
				}
			}
			ok, why := true, ""
			EachInstr(par, func(in ssa.Instruction) {
				mc, isMc := in.(*ssa.MakeClosure)
				if !isMc || mc.Fn != fn || idx < 0 || idx >= len(mc.Bindings) {
					return
				}
				if al, isAl := mc.Bindings[idx].(*ssa.Alloc); isAl {
					EachInstr(par, func(i2 ssa.Instruction) {
						if st, isSt := i2.(*ssa.Store); isSt && st.Addr == al {
							if o, w := hookIsSocketHook(st.Val, seen); !o {
								ok, why = false, w
							}
						}
					})
				}
			})
			return ok, why
		case *ssa.Alloc:
			ok, why := true, ""
			EachInstr(x.Parent(), func(i2 ssa.Instruction) {
				if st, isSt := i2.(*ssa.Store); isSt && st.Addr == a {
					if o, w := hookIsSocketHook(st.Val, seen); !o {
						ok, why = false, w
					}
				}
			})
			return ok, why
		}
		return false, "read from " + Desc(x.X)
	case *ssa.FreeVar:
		fn := x.Parent()
		par := fn.Parent()
		if par == nil {
			return false, "free variable without parent"
		}
		ok, why := true, ""
		for i, fv := range fn.FreeVars {
			if fv != x {
				continue
			}
			EachInstr(par, func(in ssa.Instruction) {
				if mc, isMc := in.(*ssa.MakeClosure); isMc && mc.Fn == fn && i < len(mc.Bindings) {
					if o, w := hookIsSocketHook(mc.Bindings[i], seen); !o {
						ok, why = false, w
					}
				}
			})
		}
		return ok, why
	case *ssa.Phi:
		for _, e := range x.Edges {
			if o, w := hookIsSocketHook(e, seen); !o {
				return false, w
			}
		}
		return true, ""
	case *ssa.Const:
		return false, "it is the constant " + Desc(v) + " on some path"
	case *ssa.Call:
		// `ph := s.hook()`: a private getter: what it returns
		sc := x.Call.StaticCallee()
		if sc == nil || sc.Blocks == nil || x.Parent() == nil || sc.Pkg != x.Parent().Pkg {
			return false, "it is the result of " + Desc(v)
		}
		ok, why := true, ""
		n := 0
		EachInstr(sc, func(in ssa.Instruction) {
			if ret, isRet := in.(*ssa.Return); isRet && len(ret.Results) == 1 {
				n++
				if o, w := hookIsSocketHook(resolveSpill(ret.Results[0], ret), seen); !o {
					ok, why = false, w
				}
			}
		})
		return ok && n > 0, why
	case *ssa.Parameter:
		// `go func(hook PipeEventHook, …) {…}(ph, …)`: the argument at the site that starts it
		fn := x.Parent()
		par := fn.Parent()
		idx := -1
		for i, q := range fn.Params {
			if q == x {
				idx = i
			}
		}
		ok, why, n := true, "", 0
		if par == nil {
			// a private named function (`go pipeDetached(ph, p)`): every static call site in
			// its package
			if fn.Pkg == nil || !lowerName(fn.Name()) {
				return false, "it is the parameter " + Desc(v) + " of an exported function"
			}
			for _, m := range fn.Pkg.Members {
				collect := func(g *ssa.Function) {
					for _, gg := range WithClosures(g) {
						EachInstr(gg, func(in ssa.Instruction) {
							c := CallOf(in)
							if c == nil || c.StaticCallee() != fn || idx < 0 || idx >= len(c.Args) {
								return
							}
							n++
							if o, w := hookIsSocketHook(c.Args[idx], seen); !o {
								ok, why = false, w
							}
						})
					}
				}
				switch mm := m.(type) {
				case *ssa.Function:
					collect(mm)
				case *ssa.Type:
					for _, t := range []types.Type{mm.Type(), types.NewPointer(mm.Type())} {
						ms := fn.Prog.MethodSets.MethodSet(t)
						for i := 0; i < ms.Len(); i++ {
							if g := fn.Prog.MethodValue(ms.At(i)); g != nil && g.Pkg == fn.Pkg {
								collect(g)
							}
						}
					}
				}
			}
			return ok && n > 0, why
		}
		EachInstr(par, func(in ssa.Instruction) {
			c := CallOf(in)
			if c == nil || idx < 0 || idx >= len(c.Args) {
				return
			}
			isThis := false
			if mc, isMc := c.Value.(*ssa.MakeClosure); isMc && mc.Fn == fn {
				isThis = true
			}
			if f2, isF := c.Value.(*ssa.Function); isF && f2 == fn {
				isThis = true
			}
			if !isThis {
				return
			}
			n++
			if o, w := hookIsSocketHook(c.Args[idx], seen); !o {
				ok, why = false, w
			}
		})
		return ok && n > 0, why
	}
	return false, "it is " + Desc(v)
}
