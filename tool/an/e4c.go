package an

import (
	"fmt"
	"go/token"
	"go/types"
	"sort"
	"strings"

	"golang.org/x/tools/go/ssa"
)

// E4c/E4d: close-aware waits and goroutine loop exits.

// closeSignals: channel fields closed by a Close/RemovePipe-like function (close idioms
// once / flag / removepipe), i.e. channels whose closing signals "this object is going
// away".  Key: field var; value: where it is closed.
func (p *Prog) closeSignals() map[*types.Var]string {
	out := map[*types.Var]string{}
	for _, fn := range p.Funcs {
		EachInstr(fn, func(in ssa.Instruction) {
			c := CallOf(in)
			if c == nil || !IsBuiltin(c, "close") {
				return
			}
			kind, _ := p.classifyClose(fn, in, c)
			switch kind {
			case "once", "flag", "removepipe", "detached":
				if fa := chanField(c.Args[0]); fa != nil {
					out[FieldVar(fa)] = kind + " in " + p.FuncName(fn)
				}
			}
		})
	}
	// channels closed and replaced when the last peer leaves (noPeerQ) count as wake-ups
	return out
}

// ownerType: named struct type owning the field a channel value was loaded from.
func chanOwner(v ssa.Value) *types.Named {
	fa := chanField(v)
	if fa == nil {
		return nil
	}
	return namedOf(fa.X.Type())
}

func recvNamed(fn *ssa.Function) *types.Named {
	for fn.Parent() != nil {
		fn = fn.Parent()
	}
	if fn.Signature.Recv() == nil {
		return nil
	}
	return namedOf(fn.Signature.Recv().Type())
}

// goTargets: functions started by `go` anywhere in scope, with the spawning function.
func (p *Prog) goTargets() map[*ssa.Function][]*ssa.Function {
	out := map[*ssa.Function][]*ssa.Function{}
	for _, fn := range p.Funcs {
		EachInstr(fn, func(in ssa.Instruction) {
			g, ok := in.(*ssa.Go)
			if !ok {
				return
			}
			var t *ssa.Function
			if sc := g.Call.StaticCallee(); sc != nil {
				t = sc
			} else if mc, ok := g.Call.Value.(*ssa.MakeClosure); ok {
				t, _ = mc.Fn.(*ssa.Function)
			}
			if t != nil && p.InScope(t) {
				out[t] = append(out[t], fn)
			}
		})
	}
	return out
}

// e4CloseAwareSelects: every blocking select in the selected packages has a receive case
// on a close signal; in per-pipe goroutines (spawned from AddPipe) one of them belongs to
// the pipe object itself (closed by RemovePipe), so that removing the pipe stops them.
func e4CloseAwareSelects(p *Prog, r *Report, rule string, inPkg func(rel string) bool) {
	sig := p.closeSignals()
	gos := p.goTargets()
	perPipe := map[*ssa.Function]bool{}
	for t, spawners := range gos {
		for _, s := range spawners {
			if s.Name() == "AddPipe" {
				perPipe[t] = true
			}
		}
	}
	n := 0
	for _, fn := range p.Funcs {
		rel, _ := p.FuncRel(fn)
		if !inPkg(rel) {
			continue
		}
		k := 0
		EachInstr(fn, func(in ssa.Instruction) {
			sel, ok := in.(*ssa.Select)
			if !ok || !sel.Blocking {
				return
			}
			n++
			k++
			key := fmt.Sprintf("%s/select#%d", p.FuncName(fn), k)
			var found []string
			ownPipe := false
			consumesShared := ""
			rn := recvNamed(fn)
			swaps := p.swapFields()
			for _, st := range sel.States {
				if st.Dir != types.RecvOnly {
					continue
				}
				fa := chanField(st.Chan)
				if fa == nil {
					continue
				}
				if _, isSig := sig[FieldVar(fa)]; !isSig && !swaps[FieldVar(fa)] {
					if on := namedOf(fa.X.Type()); on != nil && rn != nil && on.Obj() != rn.Obj() {
						consumesShared = Desc(st.Chan)
					}
				}
				if where, ok := sig[FieldVar(fa)]; ok {
					found = append(found, Desc(st.Chan)+" ("+where+")")
					if on := namedOf(fa.X.Type()); on != nil && rn != nil && on.Obj() == rn.Obj() {
						ownPipe = true
					}
				}
			}
			if len(found) == 0 {
				var chans []string
				for _, st := range sel.States {
					chans = append(chans, Desc(st.Chan))
				}
				r.Bad(rule, key, p.InstrPos(in), "blocking select with no case on a channel that Close/RemovePipe closes: it cannot be woken by Close (cases: "+strings.Join(chans, ", ")+")")
				return
			}
			if perPipe[fn] && !ownPipe && consumesShared != "" {
				r.Bad(rule, key, p.InstrPos(in), "per-pipe goroutine consumes from the shared queue "+consumesShared+" without a case on its own pipe's close channel (only "+strings.Join(found, ", ")+"): it outlives RemovePipe and takes messages meant for live pipes")
				return
			}
			r.OK(rule, key, p.InstrPos(in), "woken by "+strings.Join(found, ", "))
		})
	}
	r.Count("e4c.blocking_selects", n)
}

// e4CondWaits: every Cond.Wait loop re-checks a field that a Close-like function writes
// before it broadcasts on the same Cond.
func e4CondWaits(p *Prog, r *Report, rule string) {
	// cond field -> fields written by closers that broadcast on it
	type key struct{ cond string }
	written := map[string]map[string]bool{}
	closers := map[string][]string{}
	for _, fn := range p.Funcs {
		nm := fn.Name()
		if nm != "Close" {
			continue
		}
		var conds []string
		var stores []string
		// the closer and what it calls synchronously (depth <= 3)
		seenF := map[*ssa.Function]bool{}
		var visit func(f *ssa.Function, d int)
		visit = func(f *ssa.Function, d int) {
			if seenF[f] || d > 3 {
				return
			}
			seenF[f] = true
			EachInstr(f, func(in ssa.Instruction) {
				if c := CallOf(in); c != nil {
					if CalleeIs(c, "sync", "Cond", "Broadcast") || CalleeIs(c, "sync", "Cond", "Signal") {
						conds = append(conds, condKey(c.Args[0]))
					}
					if _, isGo := in.(*ssa.Go); !isGo {
						for _, callee := range p.SyncCallees(in) {
							visit(callee, d+1)
						}
					}
				}
				if st, ok := in.(*ssa.Store); ok {
					if fa, ok := st.Addr.(*ssa.FieldAddr); ok {
						if n := namedOf(fa.X.Type()); n != nil {
							stores = append(stores, TypeKey(n)+"."+fieldName(fa.X.Type(), fa.Field))
						}
					}
				}
				if mu, ok := in.(*ssa.MapUpdate); ok {
					if fa := chanField(mu.Map); fa != nil {
						if n := namedOf(fa.X.Type()); n != nil {
							stores = append(stores, TypeKey(n)+"."+fieldName(fa.X.Type(), fa.Field))
						}
					}
				}
				if c := CallOf(in); c != nil && IsBuiltin(c, "delete") {
					if fa := chanField(c.Args[0]); fa != nil {
						if n := namedOf(fa.X.Type()); n != nil {
							stores = append(stores, TypeKey(n)+"."+fieldName(fa.X.Type(), fa.Field))
						}
					}
				}
			})
			for _, a := range f.AnonFuncs {
				visit(a, d)
			}
		}
		visit(fn, 0)
		for _, c := range conds {
			if written[c] == nil {
				written[c] = map[string]bool{}
			}
			for _, s := range stores {
				written[c][s] = true
			}
			closers[c] = append(closers[c], p.FuncName(fn))
		}
	}
	n := 0
	for _, fn := range p.Funcs {
		reach := blockReach(fn)
		EachInstr(fn, func(in ssa.Instruction) {
			c := CallOf(in)
			if c == nil || !CalleeIs(c, "sync", "Cond", "Wait") {
				return
			}
			n++
			ck := condKey(c.Args[0])
			key := p.FuncName(fn) + "/Wait(" + ck + ")"
			head := innermostLoopHead(in.Block(), reach)
			if head == nil {
				r.Bad(rule, key, p.InstrPos(in), "Cond.Wait outside a loop: a wake-up cannot be re-checked")
				return
			}
			w := written[ck]
			if len(w) == 0 {
				r.Bad(rule, key, p.InstrPos(in), "no Close function (or what it calls) broadcasts on "+ck+": the waiter cannot be woken by Close")
				return
			}
			// fields read inside the loop
			var hit []string
			for _, b := range fn.Blocks {
				if !(b == head || (reach[head.Index][b.Index] && reach[b.Index][head.Index])) {
					continue
				}
				for _, ins := range b.Instrs {
					if u, ok := ins.(*ssa.UnOp); ok && u.Op == token.MUL {
						if fa, ok := u.X.(*ssa.FieldAddr); ok {
							if nn := namedOf(fa.X.Type()); nn != nil {
								k := TypeKey(nn) + "." + fieldName(fa.X.Type(), fa.Field)
								if w[k] {
									hit = append(hit, k)
								}
							}
						}
					}
				}
			}
			if len(hit) == 0 {
				r.Bad(rule, key, p.InstrPos(in), "the wait loop re-checks no field that "+strings.Join(closers[ck], ",")+" writes before broadcasting: Close cannot end the wait")
				return
			}
			sort.Strings(hit)
			r.OK(rule, key, p.InstrPos(in), "loop re-checks "+hit[0]+" written by "+strings.Join(closers[ck], ","))
		})
	}
	r.Count("e4c.cond_waits", n)
}

func condKey(v ssa.Value) string {
	// the Cond may be a field holding *sync.Cond or an embedded sync.Cond
	switch x := v.(type) {
	case *ssa.UnOp:
		return condKey(x.X)
	case *ssa.FieldAddr:
		if n := namedOf(x.X.Type()); n != nil {
			return TypeKey(n) + "." + fieldName(x.X.Type(), x.Field)
		}
		return Desc(x)
	}
	return Desc(v)
}
