package an

import (
	"fmt"
	"go/token"
	"go/types"
	"sort"
	"strings"

	"golang.org/x/tools/go/ssa"
)

// E4c/E4d: close-aware waits and goroutine loop exits.

// closeSignals: channel fields closed by a Close/RemovePipe-like function (close idioms
// once / flag / removepipe), i.e. channels whose closing signals "this object is going
// away".  Key: field var; value: where it is closed.
func (p *Prog) closeSignals() map[*types.Var]string {
	out := map[*types.Var]string{}
	for _, fn := range p.Funcs {
		EachInstr(fn, func(in ssa.Instruction) {
			c := CallOf(in)
			if c == nil || !IsBuiltin(c, "close") {
				return
			}
			kind, _ := p.classifyClose(fn, in, c)
			switch kind {
			case "once", "flag", "removepipe", "detached":
				if fa := chanField(c.Args[0]); fa != nil {
					out[FieldVar(fa)] = kind + " in " + p.FuncName(fn)
				}
			}
		})
	}
	// channels closed and replaced when the last peer leaves (noPeerQ) count as wake-ups
	return out
}

// ownerType: named struct type owning the field a channel value was loaded from.
func chanOwner(v ssa.Value) *types.Named {
	fa := chanField(v)
	if fa == nil {
		return nil
	}
	return namedOf(fa.X.Type())
}

func recvNamed(fn *ssa.Function) *types.Named {
	for fn.Parent() != nil {
		fn = fn.Parent()
	}
	if fn.Signature.Recv() == nil {
		return nil
	}
	return namedOf(fn.Signature.Recv().Type())
}

// goTargets: functions started by `go` anywhere in scope, with the spawning function.
func (p *Prog) goTargets() map[*ssa.Function][]*ssa.Function {
	out := map[*ssa.Function][]*ssa.Function{}
	for _, fn := range p.Funcs {
		EachInstr(fn, func(in ssa.Instruction) {
			g, ok := in.(*ssa.Go)
			if !ok {
				return
			}
			var t *ssa.Function
			if sc := g.Call.StaticCallee(); sc != nil {
				t = sc
			} else if mc, ok := g.Call.Value.(*ssa.MakeClosure); ok {
				t, _ = mc.Fn.(*ssa.Function)
			}
			if t != nil && p.InScope(t) {
				out[t] = append(out[t], fn)
			}
		})
	}
	return out
}

// e4CloseAwareSelects: every blocking select in the selected packages has a receive case
// on a close signal; in per-pipe goroutines (spawned from AddPipe) one of them belongs to
// the pipe object itself (closed by RemovePipe), so that removing the pipe stops them.
func e4CloseAwareSelects(p *Prog, r *Report, rule string, inPkg func(rel string) bool) {
	sig := p.closeSignals()
	gos := p.goTargets()
	perPipe := map[*ssa.Function]bool{}
	for t, spawners := range gos {
		for _, s := range spawners {
			if s.Name() == "AddPipe" {
				perPipe[t] = true
			}
		}
	}
	n := 0
	for _, fn := range p.Funcs {
		rel, _ := p.FuncRel(fn)
		if !inPkg(rel) {
			continue
		}
		k := 0
		EachInstr(fn, func(in ssa.Instruction) {
			sel, ok := in.(*ssa.Select)
			if !ok || !sel.Blocking {
				return
			}
			n++
			k++
			key := fmt.Sprintf("%s/select#%d", p.FuncName(fn), k)
			var found []string
			ownPipe := false
			consumesShared := ""
			rn := recvNamed(fn)
			swaps := p.swapFields()
			for _, st := range sel.States {
				if st.Dir != types.RecvOnly {
					continue
				}
				fa := chanField(st.Chan)
				if fa == nil {
					continue
				}
				if _, isSig := sig[FieldVar(fa)]; !isSig && !swaps[FieldVar(fa)] {
					if on := namedOf(fa.X.Type()); on != nil && rn != nil && on.Obj() != rn.Obj() {
						consumesShared = Desc(st.Chan)
					}
				}
				if where, ok := sig[FieldVar(fa)]; ok {
					found = append(found, Desc(st.Chan)+" ("+where+")")
					if on := namedOf(fa.X.Type()); on != nil && rn != nil && on.Obj() == rn.Obj() {
						ownPipe = true
					}
				}
			}
			if len(found) == 0 {
				var chans []string
				for _, st := range sel.States {
					chans = append(chans, Desc(st.Chan))
				}
				r.Bad(rule, key, p.InstrPos(in), "blocking select with no case on a channel that Close/RemovePipe closes: it cannot be woken by Close (cases: "+strings.Join(chans, ", ")+")")
				return
			}
			if perPipe[fn] && !ownPipe && consumesShared != "" {
				r.Bad(rule, key, p.InstrPos(in), "per-pipe goroutine consumes from the shared queue "+consumesShared+" without a case on its own pipe's close channel (only "+strings.Join(found, ", ")+"): it outlives RemovePipe and takes messages meant for live pipes")
				return
			}
			r.OK(rule, key, p.InstrPos(in), "woken by "+strings.Join(found, ", "))
		})
	}
	r.Count("e4c.blocking_selects", n)
}

// e4CondWaits: every Cond.Wait loop re-checks a field that a Close-like function writes
// before it broadcasts on the same Cond.
func e4CondWaits(p *Prog, r *Report, rule string) {
	// cond field -> fields written by closers that broadcast on it
	type key struct{ cond string }
	written := map[string]map[string]bool{}
	closers := map[string][]string{}
	// facts[cond][field] = constant the closer stores ("true","false","nil","0"), or
	// "deleted" for a map field the closer deletes from
	facts := map[string]map[string]string{}
	type directCloser struct {
		fn     *ssa.Function
		bcasts []ssa.Instruction
		stores map[string][]ssa.Instruction // field -> constant stores in fn itself
	}
	direct := map[string][]*directCloser{}
	for _, fn := range p.Funcs {
		nm := fn.Name()
		if nm != "Close" {
			continue
		}
		var conds []string
		var stores []string
		fct := map[string]string{}
		dc := &directCloser{fn: fn, stores: map[string][]ssa.Instruction{}}
		dcConds := map[string]bool{}
		// the closer and what it calls synchronously (depth <= 3)
		seenF := map[*ssa.Function]bool{}
		var visit func(f *ssa.Function, d int)
		visit = func(f *ssa.Function, d int) {
			if seenF[f] || d > 3 {
				return
			}
			seenF[f] = true
			EachInstr(f, func(in ssa.Instruction) {
				if c := CallOf(in); c != nil {
					if CalleeIs(c, "sync", "Cond", "Broadcast") || CalleeIs(c, "sync", "Cond", "Signal") {
						conds = append(conds, condKey(c.Args[0]))
						if f == fn {
							dc.bcasts = append(dc.bcasts, in)
							dcConds[condKey(c.Args[0])] = true
						}
					}
					if _, isGo := in.(*ssa.Go); !isGo {
						for _, callee := range p.SyncCallees(in) {
							visit(callee, d+1)
						}
					}
				}
				if st, ok := in.(*ssa.Store); ok {
					if fa, ok := st.Addr.(*ssa.FieldAddr); ok {
						if k := fieldKeyOf(fa); k != "" {
							stores = append(stores, k)
							if cst, ok := st.Val.(*ssa.Const); ok {
								v := "nil"
								if cst.Value != nil {
									v = cst.Value.ExactString()
								}
								fct[k] = v
								if f == fn {
									dc.stores[k] = append(dc.stores[k], in)
								}
							}
						}
					}
				}
				if mu, ok := in.(*ssa.MapUpdate); ok {
					if fa := chanField(mu.Map); fa != nil {
						if n := namedOf(fa.X.Type()); n != nil {
							stores = append(stores, TypeKey(n)+"."+fieldName(fa.X.Type(), fa.Field))
						}
					}
				}
				if c := CallOf(in); c != nil && IsBuiltin(c, "delete") {
					if fa := chanField(c.Args[0]); fa != nil {
						if k := fieldKeyOf(fa); k != "" {
							stores = append(stores, k)
							fct[k] = "deleted"
							if f == fn {
								dc.stores[k] = append(dc.stores[k], in)
							}
						}
					}
				}
			})
			for _, a := range f.AnonFuncs {
				visit(a, d)
			}
		}
		visit(fn, 0)
		for _, c := range conds {
			if written[c] == nil {
				written[c] = map[string]bool{}
			}
			for _, s := range stores {
				written[c][s] = true
			}
			closers[c] = append(closers[c], p.FuncName(fn))
			if facts[c] == nil {
				facts[c] = map[string]string{}
			}
			for k, v := range fct {
				facts[c][k] = v
			}
		}
		for c := range dcConds {
			direct[c] = append(direct[c], dc)
		}
	}
	usedFacts := map[string]map[string]bool{} // cond -> fields whose closer-written value ends some wait
	n := 0
	for _, fn := range p.Funcs {
		reach := blockReach(fn)
		EachInstr(fn, func(in ssa.Instruction) {
			c := CallOf(in)
			if c == nil || !CalleeIs(c, "sync", "Cond", "Wait") {
				return
			}
			n++
			ck := condKey(c.Args[0])
			key := p.FuncName(fn) + "/Wait(" + ck + ")"
			head := innermostLoopHead(in.Block(), reach)
			if head == nil {
				r.Bad(rule, key, p.InstrPos(in), "Cond.Wait outside a loop: a wake-up cannot be re-checked")
				return
			}
			w := written[ck]
			if len(w) == 0 {
				r.Bad(rule, key, p.InstrPos(in), "no Close function (or what it calls) broadcasts on "+ck+": the waiter cannot be woken by Close")
				return
			}
			// fields read inside the loop
			var hit []string
			for _, b := range fn.Blocks {
				if !(b == head || (reach[head.Index][b.Index] && reach[b.Index][head.Index])) {
					continue
				}
				for _, ins := range b.Instrs {
					if u, ok := ins.(*ssa.UnOp); ok && u.Op == token.MUL {
						if fa, ok := u.X.(*ssa.FieldAddr); ok {
							if nn := namedOf(fa.X.Type()); nn != nil {
								k := TypeKey(nn) + "." + fieldName(fa.X.Type(), fa.Field)
								if w[k] {
									hit = append(hit, k)
								}
							}
						}
					}
				}
			}
			if len(hit) == 0 {
				r.Bad(rule, key, p.InstrPos(in), "the wait loop re-checks no field that "+strings.Join(closers[ck], ",")+" writes before broadcasting: Close cannot end the wait")
				return
			}
			sort.Strings(hit)
			// the closer's post-state must falsify a condition that is re-evaluated inside
			// the loop on the way to Wait (not one tested once before the loop)
			_, body := loopBody(in.Block())
			var ends []string
			for ifb := range body {
				iff, ok := ifb.Instrs[len(ifb.Instrs)-1].(*ssa.If)
				if !ok {
					continue
				}
				for k, succ := range ifb.Succs {
					if len(succ.Preds) != 1 || ifb.Succs[0] == ifb.Succs[1] {
						continue
					}
					if succ == in.Block() || succ.Dominates(in.Block()) {
						at := Atom{Cond: iff.Cond, Pol: k == 0}
						for _, part := range append([]Atom{at}, shortCircuitParts(at)...) {
							if fld, ok := falsifiedBy(part.Cond, part.Pol, facts[ck]); ok {
								ends = append(ends, NormAtom(part.Cond, part.Pol)+" (closer sets "+fld+")")
								if usedFacts[ck] == nil {
									usedFacts[ck] = map[string]bool{}
								}
								usedFacts[ck][fld] = true
							}
						}
					}
				}
			}
			if len(ends) == 0 {
				r.Bad(rule, key, p.InstrPos(in), "no condition on the way to this Wait, re-evaluated in the loop, is made false by what "+strings.Join(closers[ck], ",")+" writes: after Close broadcasts the loop simply waits again (the closed/unregistered state is only tested before the loop, or not at all)")
				return
			}
			sort.Strings(ends)
			r.OK(rule, key, p.InstrPos(in), "loop re-checks "+hit[0]+"; Close ends the wait through "+ends[0])
		})
	}
	r.Count("e4c.cond_waits", n)
	// Signal wakes ONE waiter: it is only right when at most one goroutine can wait on
	// the Cond (a single Wait site, in a function that only runs as the library's own
	// goroutine).  With several waiters (e.g. a Send and a Recv parked on one context)
	// the others sleep through the event.
	waitFns := map[string]map[*ssa.Function]bool{}
	for _, fn := range p.Funcs {
		EachInstr(fn, func(in ssa.Instruction) {
			if c := CallOf(in); c != nil && CalleeIs(c, "sync", "Cond", "Wait") {
				ck := condKey(c.Args[0])
				if waitFns[ck] == nil {
					waitFns[ck] = map[*ssa.Function]bool{}
				}
				waitFns[ck][fn] = true
			}
		})
	}
	gt := p.goTargets()
	ns := 0
	for _, fn := range p.Funcs {
		EachInstr(fn, func(in ssa.Instruction) {
			c := CallOf(in)
			if c == nil || !CalleeIs(c, "sync", "Cond", "Signal") {
				return
			}
			ns++
			ck := condKey(c.Args[0])
			key := p.FuncName(fn) + "/Signal(" + ck + ")"
			ok := len(waitFns[ck]) == 1
			var who []string
			for wf := range waitFns[ck] {
				who = append(who, p.FuncName(wf))
				if len(gt[wf]) == 0 || (wf.Parent() == nil && !lowerName(wf.Name())) {
					ok = false
				}
			}
			sort.Strings(who)
			r.Check(ok, rule, key, p.InstrPos(in), "single waiter: only the goroutine "+strings.Join(who, ",")+" waits on this Cond", "Signal() wakes one waiter, but several goroutines can wait on "+ck+" ("+strings.Join(who, ", ")+"): the others are not woken (lost wake-up); use Broadcast")
		})
	}
	r.Count("e4c.cond_signals", ns)
	// every closer that itself sets a wait-ending fact and broadcasts must broadcast on
	// every path that sets the fact (no early return in between)
	var cks []string
	for ck := range direct {
		cks = append(cks, ck)
	}
	sort.Strings(cks)
	nc := 0
	for _, ck := range cks {
		for _, dc := range direct[ck] {
			for fld := range usedFacts[ck] {
				for _, st := range dc.stores[fld] {
					nc++
					key := p.FuncName(dc.fn) + "/wakes-after-" + fld
					ok, where := closerWakes(st, dc.bcasts)
					r.Check(ok, rule, key, p.InstrPos(st), "every path that sets "+fld+" also broadcasts on "+ck, "a path sets "+fld+" and returns at "+where+" without broadcasting on "+ck+": goroutines waiting on it are never woken by this Close")
				}
			}
		}
	}
	r.Count("e4c.closer_wakeups", nc)
}

// closerWakes: a broadcast happens before the store in the same block / a dominating
// block (same critical section in practice), or every path from the store to a return
// passes a broadcast (a broadcast inside a loop over the waiters counts when the loop is
// entered on every such path).
func closerWakes(st ssa.Instruction, bcasts []ssa.Instruction) (bool, string) {
	via := map[ssa.Instruction]bool{}
	viaBlock := map[*ssa.BasicBlock]bool{}
	for _, b := range bcasts {
		if b.Parent() != st.Parent() {
			continue
		}
		if InstrDominates(b, st) {
			return true, ""
		}
		via[b] = true
		if h, _ := loopBody(b.Block()); h != nil && !loopContains(h, st.Block()) {
			viaBlock[h] = true
		}
	}
	seen := map[*ssa.BasicBlock]bool{}
	var walk func(b *ssa.BasicBlock, i int) (bool, string)
	walk = func(b *ssa.BasicBlock, i int) (bool, string) {
		if i == 0 && viaBlock[b] {
			return true, ""
		}
		for ; i < len(b.Instrs); i++ {
			in := b.Instrs[i]
			if via[in] {
				return true, ""
			}
			if _, ok := in.(*ssa.Return); ok {
				return false, b.Parent().Prog.Fset.Position(in.Pos()).String()
			}
			if _, ok := in.(*ssa.Panic); ok {
				return true, ""
			}
		}
		for _, s := range b.Succs {
			if seen[s] {
				continue
			}
			seen[s] = true
			if ok, where := walk(s, 0); !ok {
				return false, where
			}
		}
		return true, ""
	}
	return walk(st.Block(), instrIndex(st)+1)
}

func loopContains(head, b *ssa.BasicBlock) bool {
	_, body := loopBody(b)
	h2, _ := loopBody(b)
	_ = body
	return h2 == head
}

// falsifiedBy: the atom (cond with polarity) is false in the state the closer leaves
// behind; returns the field whose written value decides it.
func falsifiedBy(cond ssa.Value, pol bool, facts map[string]string) (string, bool) {
	if u, ok := cond.(*ssa.UnOp); ok && u.Op == token.NOT {
		return falsifiedBy(u.X, !pol, facts)
	}
	fieldOf := func(v ssa.Value) string {
		if u, ok := v.(*ssa.UnOp); ok && u.Op == token.MUL {
			if fa, ok := u.X.(*ssa.FieldAddr); ok {
				return fieldKeyOf(fa)
			}
		}
		return ""
	}
	switch x := cond.(type) {
	case *ssa.UnOp:
		if k := fieldOf(x); k != "" {
			switch facts[k] {
			case "true":
				if !pol {
					return k, true
				}
			case "false":
				if pol {
					return k, true
				}
			}
		}
	case *ssa.Extract:
		if lk, ok := x.Tuple.(*ssa.Lookup); ok && lk.CommaOk && x.Index == 1 {
			if k := fieldOf(lk.X); k != "" && facts[k] == "deleted" && pol {
				return k, true
			}
		}
	case *ssa.BinOp:
		var k string
		var other ssa.Value
		isLen := false
		side := func(v ssa.Value) (string, bool) {
			if c, ok := v.(*ssa.Call); ok {
				if b, ok := c.Call.Value.(*ssa.Builtin); ok && b.Name() == "len" {
					return fieldOf(c.Call.Args[0]), true
				}
			}
			return fieldOf(v), false
		}
		if kk, l := side(x.X); kk != "" {
			k, isLen, other = kk, l, x.Y
		} else if kk, l := side(x.Y); kk != "" {
			k, isLen, other = kk, l, x.X
		}
		c, isConst := other.(*ssa.Const)
		if k != "" && !isConst && !isLen && x.Op == token.EQL && pol {
			// field == snapshot: the other side is a local holding an earlier value of the
			// same field, taken under a guard that it differed from what the closer stores
			if f, has := facts[k]; has && f != "deleted" && snapshotDiffers(other, k, f) {
				return k, true
			}
		}
		if k == "" || !isConst {
			return "", false
		}
		f, has := facts[k]
		if !has || f == "deleted" {
			return "", false
		}
		// is "field (or its len) == const" true in the closer's post-state?
		eq := false
		switch {
		case isLen:
			if f != "nil" {
				return "", false
			}
			eq = c.Value != nil && c.Value.ExactString() == "0"
		case c.Value == nil:
			eq = f == "nil"
		default:
			eq = f == c.Value.ExactString()
		}
		truth := false
		switch x.Op {
		case token.EQL:
			truth = eq
		case token.NEQ:
			truth = !eq
		default:
			return "", false
		}
		if truth != pol {
			return k, true
		}
	}
	return "", false
}

func condKey(v ssa.Value) string {
	// the Cond may be a field holding *sync.Cond or an embedded sync.Cond
	switch x := v.(type) {
	case *ssa.UnOp:
		return condKey(x.X)
	case *ssa.FieldAddr:
		if n := namedOf(x.X.Type()); n != nil {
			return TypeKey(n) + "." + fieldName(x.X.Type(), x.Field)
		}
		return Desc(x)
	}
	return Desc(v)
}

// fieldKeyOf: "rel.Type.field" for a field of a named struct, the access path for a field
// of a package-level variable of unnamed struct type.
func fieldKeyOf(fa *ssa.FieldAddr) string {
	if n := namedOf(fa.X.Type()); n != nil {
		return TypeKey(n) + "." + fieldName(fa.X.Type(), fa.Field)
	}
	if _, ok := fa.X.(*ssa.Global); ok {
		return Desc(fa)
	}
	return ""
}

// snapshotDiffers: v is a load of a local cell whose only store is a load of field k, made
// under a guard "field != c" where c is the constant the closer stores.
func snapshotDiffers(v ssa.Value, k, c string) bool {
	u, ok := v.(*ssa.UnOp)
	if !ok || u.Op != token.MUL {
		return false
	}
	al, ok := u.X.(*ssa.Alloc)
	if !ok || al.Referrers() == nil {
		return false
	}
	var st *ssa.Store
	for _, ref := range *al.Referrers() {
		if s, ok := ref.(*ssa.Store); ok && s.Addr == al {
			if st != nil {
				return false
			}
			st = s
		}
	}
	if st == nil {
		return false
	}
	ld, ok := st.Val.(*ssa.UnOp)
	if !ok || ld.Op != token.MUL {
		return false
	}
	fa, ok := ld.X.(*ssa.FieldAddr)
	if !ok || fieldKeyOf(fa) != k {
		return false
	}
	want := Desc(fa) + " != " + c
	b := st.Block()
	for _, ifb := range b.Parent().Blocks {
		iff, ok := ifb.Instrs[len(ifb.Instrs)-1].(*ssa.If)
		if !ok {
			continue
		}
		for i, succ := range ifb.Succs {
			if len(succ.Preds) == 1 && (succ == b || succ.Dominates(b)) && NormAtom(iff.Cond, i == 0) == want {
				return true
			}
		}
	}
	return false
}

// condWakersComplete: a goroutine that waits on a condition variable for a list to become
// non-empty is woken by EVERY place that adds to that list.  For each Cond.Wait loop the
// slice fields whose length the loop tests are collected; every store elsewhere in the
// package that grows one of them (`x = append(x, e)`) must be followed, on every path to the
// function's return, by a Broadcast/Signal on that condition variable.  A wake-up that was made
// conditional ("only when this is the first pipe") strands work that was queued while the
// waiter was parked for a different reason.
func condWakersComplete(p *Prog, r *Report, R string, inPkg func(rel string) bool) {
	r.Describe(R, "every growth of a list a Cond.Wait loop waits on is followed by a wake-up on that condition variable on every path (no conditional wake-ups)")
	q := NewQ(p, r)
	type waitInfo struct {
		cond   string
		fields map[string]bool
		fn     *ssa.Function
	}
	var waits []waitInfo
	for _, fn := range p.Funcs {
		rel, _ := p.FuncRel(fn)
		if !inPkg(rel) {
			continue
		}
		EachInstr(fn, func(in ssa.Instruction) {
			c := CallOf(in)
			if c == nil || !CalleeIs(c, "sync", "Cond", "Wait") {
				return
			}
			_, body := loopBody(in.Block())
			if body == nil {
				return
			}
			wi := waitInfo{cond: condKey(c.Args[0]), fields: map[string]bool{}, fn: fn}
			for b := range body {
				iff, ok := b.Instrs[len(b.Instrs)-1].(*ssa.If)
				if !ok {
					continue
				}
				var leaves func(v ssa.Value, d int)
				leaves = func(v ssa.Value, d int) {
					if d > 5 {
						return
					}
					switch x := v.(type) {
					case *ssa.BinOp:
						leaves(x.X, d+1)
						leaves(x.Y, d+1)
					case *ssa.UnOp:
						if x.Op == token.NOT {
							leaves(x.X, d+1)
						}
					case *ssa.Phi:
						for _, e := range x.Edges {
							leaves(e, d+1)
						}
					case *ssa.Call:
						if bl, ok := x.Call.Value.(*ssa.Builtin); ok && bl.Name() == "len" {
							if u, ok := x.Call.Args[0].(*ssa.UnOp); ok && u.Op == token.MUL {
								if fa, ok := u.X.(*ssa.FieldAddr); ok {
									if _, isSlice := u.Type().Underlying().(*types.Slice); isSlice {
										if k := fieldKeyOf(fa); k != "" {
											wi.fields[k] = true
										}
									}
								}
							}
						}
					}
				}
				leaves(iff.Cond, 0)
			}
			if len(wi.fields) > 0 {
				waits = append(waits, wi)
			}
		})
	}
	n := 0
	for _, wi := range waits {
		for _, fn := range p.Funcs {
			rel, _ := p.FuncRel(fn)
			if !inPkg(rel) || fn == wi.fn {
				continue
			}
			var wakes Sel
			var grows []*ssa.Store
			EachInstr(fn, func(in ssa.Instruction) {
				if c := CallOf(in); c != nil && (CalleeIs(c, "sync", "Cond", "Broadcast") || CalleeIs(c, "sync", "Cond", "Signal")) && condKey(c.Args[0]) == wi.cond {
					wakes = append(wakes, &Ev{Kind: "call", In: in, Fn: fn})
				}
				st, ok := in.(*ssa.Store)
				if !ok {
					return
				}
				fa, ok := st.Addr.(*ssa.FieldAddr)
				if !ok || !wi.fields[fieldKeyOf(fa)] {
					return
				}
				// growth: append(<the same field>, elems…) with the field unsliced
				if call, ok := st.Val.(*ssa.Call); ok {
					if bl, ok := call.Call.Value.(*ssa.Builtin); ok && bl.Name() == "append" {
						if u, ok := call.Call.Args[0].(*ssa.UnOp); ok && u.Op == token.MUL {
							if fa2, ok := u.X.(*ssa.FieldAddr); ok && fieldKeyOf(fa2) == fieldKeyOf(fa) {
								grows = append(grows, st)
							}
						}
					}
				}
			})
			for i, st := range grows {
				n++
				fa := st.Addr.(*ssa.FieldAddr)
				key := fmt.Sprintf("%s/grows(%s)#%d->%s", p.FuncName(fn), fieldKeyOf(fa), i+1, wi.cond)
				ok := false
				why := "no wake-up on " + wi.cond + " in this function"
				if len(wakes) > 0 {
					var where string
					ok, where = q.mustPass(st, wakes)
					if !ok {
						why = "a path from here reaches the return at " + where + " without a wake-up on " + wi.cond
					}
				}
				if !ok && fn.Parent() == nil && lowerName(fn.Name()) {
					// a private helper that only does the growth: the wake-up follows its call
					if node := p.CG().Nodes[fn]; node != nil {
						sites, good := 0, true
						for _, e := range node.In {
							if e.Site == nil || e.Site.Common().StaticCallee() != fn {
								good = false
								continue
							}
							if _, isGo := e.Site.(*ssa.Go); isGo {
								good = false
								continue
							}
							sites++
							var cw Sel
							EachInstr(e.Caller.Func, func(in ssa.Instruction) {
								if c := CallOf(in); c != nil && (CalleeIs(c, "sync", "Cond", "Broadcast") || CalleeIs(c, "sync", "Cond", "Signal")) && condKey(c.Args[0]) == wi.cond {
									cw = append(cw, &Ev{Kind: "call", In: in, Fn: e.Caller.Func})
								}
							})
							if len(cw) == 0 {
								good = false
								continue
							}
							if okc, _ := q.mustPass(e.Site, cw); !okc {
								good = false
							}
						}
						if sites > 0 && good {
							ok = true
						}
					}
				}
				r.Check(ok, R, key, p.InstrPos(st), "followed by a wake-up on every path", p.FuncName(fn)+" adds to "+fieldKeyOf(fa)+", which "+p.FuncName(wi.fn)+" waits for, but "+why+": the waiter stays parked although there is work for it")
			}
		}
	}
	r.Count("e4c.list_growths_with_waiters", n)
}
