package an

import (
	"fmt"
	"go/token"
	"go/types"
	"strings"

	"golang.org/x/tools/go/ssa"
)

// E14 DERIVED-FIELD COHERENCE.  A field that is filled from a walk over a collection field of
// the same object (a list of the pipes kept next to the map of the pipes, a count kept next to
// a list) is a cache of that collection.  It is right only as long as every change of the
// collection clears or rebuilds it *in the same critical section*: if the two are in different
// lock regions, a reader that runs between them rebuilds the cache from the old collection and
// nothing invalidates it again — a peer that connected at that moment is left out for good.
// The rule finds the derived fields itself (nothing is listed) and then quantifies over every
// writer of their source collection.

type derivedField struct {
	cache, source *types.Var
	owner         *types.Named
	at            ssa.Instruction
}

// derivedFrom: value v (stored into a field) was built from the elements of a collection
// field of the object `base`: a merge / append chain that contains an element obtained by
// ranging over, or indexing, a load of base.<field>.
func derivedFrom(v ssa.Value, base string, owner *types.Named) *types.Var {
	seen := map[ssa.Value]bool{}
	var src *types.Var
	var walk func(v ssa.Value, d int)
	walk = func(v ssa.Value, d int) {
		if v == nil || seen[v] || d > 12 || src != nil {
			return
		}
		seen[v] = true
		switch x := v.(type) {
		case *ssa.Phi:
			for _, e := range x.Edges {
				walk(e, d+1)
			}
		case *ssa.Call:
			if IsBuiltin(&x.Call, "append") {
				for _, a := range x.Call.Args {
					walk(a, d+1)
				}
			}
		case *ssa.Slice:
			walk(x.X, d+1)
		case *ssa.Alloc:
			// a small array literal holding the appended element: look at what is stored in it
			for _, ref := range *x.Referrers() {
				if ia, ok := ref.(*ssa.IndexAddr); ok {
					for _, r2 := range *ia.Referrers() {
						if st, ok := r2.(*ssa.Store); ok && st.Addr == ia {
							walk(st.Val, d+1)
						}
					}
				}
			}
		case *ssa.Extract:
			// element of a range over a map/slice/string
			if nx, ok := x.Tuple.(*ssa.Next); ok {
				if rg, ok := nx.Iter.(*ssa.Range); ok {
					if fv, ow, b := loadedField(rg.X); fv != nil && ow == owner && Desc(b) == base {
						src = fv
					}
				}
			}
		case *ssa.UnOp:
			if x.Op == token.MUL {
				if ia, ok := x.X.(*ssa.IndexAddr); ok {
					if fv, ow, b := loadedField(ia.X); fv != nil && ow == owner && Desc(b) == base {
						src = fv
					}
				}
			}
		case *ssa.Lookup:
			if fv, ow, b := loadedField(x.X); fv != nil && ow == owner && Desc(b) == base {
				src = fv
			}
		}
	}
	walk(v, 0)
	return src
}

func (p *Prog) derivedFields(inPkg func(rel string) bool) []derivedField {
	var out []derivedField
	seen := map[[2]*types.Var]bool{}
	for _, fn := range p.Funcs {
		rel, _ := p.FuncRel(fn)
		if !inPkg(rel) {
			continue
		}
		EachInstr(fn, func(in ssa.Instruction) {
			st, ok := in.(*ssa.Store)
			if !ok {
				return
			}
			fa, ok := st.Addr.(*ssa.FieldAddr)
			if !ok {
				return
			}
			fv, owner := fieldAddrVar(fa)
			if fv == nil || owner == nil {
				return
			}
			switch fv.Type().Underlying().(type) {
			case *types.Slice, *types.Map:
			default:
				return
			}
			if freshBase(fa.X, 0) {
				return
			}
			src := derivedFrom(st.Val, Desc(fa.X), owner)
			if src == nil || src == fv {
				return
			}
			k := [2]*types.Var{fv, src}
			if !seen[k] {
				seen[k] = true
				out = append(out, derivedField{cache: fv, source: src, owner: owner, at: in})
			}
		})
	}
	return out
}

// writesCollection: in changes the contents or the identity of collection field src.
func writesCollection(in ssa.Instruction, src *types.Var) (string, bool) {
	switch x := in.(type) {
	case *ssa.MapUpdate:
		if fv, _, b := loadedField(x.Map); fv == src {
			return Desc(b), true
		}
	case *ssa.Store:
		if fa, ok := x.Addr.(*ssa.FieldAddr); ok {
			if fv, _ := fieldAddrVar(fa); fv == src && !freshBase(fa.X, 0) {
				return Desc(fa.X), true
			}
		}
	case *ssa.Call:
		if IsBuiltin(&x.Call, "delete") && len(x.Call.Args) > 0 {
			if fv, _, b := loadedField(x.Call.Args[0]); fv == src {
				return Desc(b), true
			}
		}
	}
	return "", false
}

func isUnlockCall(in ssa.Instruction) bool {
	c := CallOf(in)
	if c == nil {
		return false
	}
	if _, isDefer := in.(*ssa.Defer); isDefer {
		return false
	}
	n := CalleeName(c)
	return strings.HasSuffix(n, ".Unlock") || strings.HasSuffix(n, ").Unlock") || strings.HasSuffix(n, ".RUnlock")
}

// sameRegion: from a, every path reaches b before any Unlock or return (a before b), or the
// other way round.
func sameRegion(a, b ssa.Instruction) bool {
	reach := func(from, to ssa.Instruction) bool {
		seen := map[*ssa.BasicBlock]bool{}
		ok := true
		var walk func(bb *ssa.BasicBlock, i int)
		walk = func(bb *ssa.BasicBlock, i int) {
			for ; i < len(bb.Instrs) && ok; i++ {
				x := bb.Instrs[i]
				if x == to {
					return
				}
				if isUnlockCall(x) {
					ok = false
					return
				}
				if _, isRet := x.(*ssa.Return); isRet {
					ok = false
					return
				}
			}
			for _, s := range bb.Succs {
				if !seen[s] && ok {
					seen[s] = true
					walk(s, 0)
				}
			}
		}
		walk(from.Block(), instrIndex(from)+1)
		return ok
	}
	if InstrDominates(a, b) {
		return reach(a, b)
	}
	if InstrDominates(b, a) {
		return reach(b, a)
	}
	return false
}

func derivedCoherent(p *Prog, r *Report, R string, inPkg func(rel string) bool) {
	r.Describe(R, "a field filled from a walk over a collection field of the same object is cleared or rebuilt in the same critical section as every change of that collection: an invalidation in one lock region and the change in another lets a reader in between rebuild the cache from the old collection, and nothing invalidates it again")
	ds := p.derivedFields(inPkg)
	r.Count("e14.derived_fields."+R, len(ds))
	nStores := 0
	for _, fn := range p.Funcs {
		if rel, _ := p.FuncRel(fn); !inPkg(rel) {
			continue
		}
		EachInstr(fn, func(in ssa.Instruction) {
			if st, ok := in.(*ssa.Store); ok {
				if fa, ok := st.Addr.(*ssa.FieldAddr); ok {
					if fv, _ := fieldAddrVar(fa); fv != nil {
						switch fv.Type().Underlying().(type) {
						case *types.Slice, *types.Map:
							nStores++
						}
					}
				}
			}
		})
	}
	r.Count("e14.collection_field_stores."+R, nStores)
	r.Check(nStores > 0, R, "derived-fields-enumerated", "-", fmt.Sprintf("%d stores to slice- or map-typed fields examined, %d of them fill a field from a walk over a sibling collection", nStores, len(ds)), "no store to a collection-typed field found: the rule went blind")
	for _, d := range ds {
		n := 0
		for _, fn := range p.Funcs {
			rel, _ := p.FuncRel(fn)
			if !inPkg(rel) {
				continue
			}
			per := 0
			EachInstr(fn, func(in ssa.Instruction) {
				base, ok := writesCollection(in, d.source)
				if !ok {
					return
				}
				n++
				per++
				key := fmt.Sprintf("%s/%s<-%s#%d", p.FuncName(fn), d.cache.Name(), d.source.Name(), per)
				// an invalidation / rebuild of the cache on the same object in the same region
				found := false
				EachInstr(fn, func(i2 ssa.Instruction) {
					st, ok := i2.(*ssa.Store)
					if !ok || found {
						return
					}
					fa, ok := st.Addr.(*ssa.FieldAddr)
					if !ok {
						return
					}
					if fv, _ := fieldAddrVar(fa); fv == d.cache && Desc(fa.X) == base && sameRegion(in, i2) {
						found = true
					}
				})
				r.Check(found, R, key, p.InstrPos(in), "the derived field is cleared or rebuilt in the same critical section",
					fieldKey(d.cache, d.owner)+" is built from "+d.source.Name()+" (at "+p.InstrPos(d.at)+") but this change of "+d.source.Name()+" does not clear or rebuild it before the lock is released: a reader between the two sees, and keeps, a list that lacks the change")
			})
		}
		r.Count("e14.source_writes."+R, n)
	}
}
