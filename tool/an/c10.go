package an

import (
	"fmt"
	"go/token"
	"go/types"
	"strings"

	"golang.org/x/tools/go/ssa"
)

func init() {
	register(&PropInfo{ID: "C10", Run: runC10,
		Explanation: "close-awareness (E4c): every blocking select of the protocols/transports has a case on a channel that Close or RemovePipe closes (per-pipe goroutines: on their own pipe's channel), every Cond.Wait loop re-checks a field written by the closer before its Broadcast; anchored rules on core.socket.Close, protocol Close check-and-set, timers stopped on cancel/close, pipe-id pairing, listener Close.",
		Assumptions: commonAssumptions})
}

func protoOrTransport(rel string) bool {
	return strings.HasPrefix(rel, "protocol/") || strings.HasPrefix(rel, "transport") || rel == "internal/core" || rel == ""
}

func runC10(p *Prog, r *Report) {
	rearmStopsPrevious(p, r, "C10.25/rearm-stops-previous", func(rel string) bool {
		return strings.HasPrefix(rel, "protocol/") || strings.HasPrefix(rel, "transport") || rel == "internal/core"
	})
	r.Floor("C10.25/rearm-stops-previous", "timer_armings.C10.25/rearm-stops-previous", 5)
	channelsNotShared(p, r, "C10.21/channels-not-shared", func(rel string) bool {
		return strings.HasPrefix(rel, "protocol/") || strings.HasPrefix(rel, "transport") || rel == "internal/core"
	})
	r.Floor("C10.21/channels-not-shared", "e13.channel_stores.C10.21/channels-not-shared", 60)
	timerDiscipline(p, r, "C10.16/timer-discipline", func(rel string) bool { return strings.HasPrefix(rel, "protocol/") })
	r.Floor("C10.16/timer-discipline", "timer_fields.C10.16/timer-discipline", 4)
	noGoroutineForRefusedPipe(p, r, "C10.15/no-goroutine-for-refused-pipe")
	r.Floor("C10.15/no-goroutine-for-refused-pipe", "protocol.addpipe_goroutines", 20)
	runSweeps(p, r, "C10.14/close-sweeps", "every loop by which a Close closes all pipes, endpoints, contexts, pending connections or blocked accepters visits every entry: none can be left early", closeSweeps)
	r.Describe("C10.1/E4c", "every blocking select has a receive case on a channel closed by Close/RemovePipe; per-pipe goroutines wait on their own pipe's close channel")
	e4CloseAwareSelects(p, r, "C10.1/E4c", protoOrTransport)
	r.Floor("C10.1/E4c", "e4c.blocking_selects", 44)
	r.Describe("C10.1/cond", "every Cond.Wait loop re-checks a field that the closer writes before broadcasting on the same Cond")
	e4CondWaits(p, r, "C10.1/cond")
	r.Floor("C10.1/cond", "e4c.cond_waits", 4)
	c10Anchored(p, r)
	pipeIDPairing(p, r, "C10.7/id-pairing")
	{
		q := NewQ(p, r)
		R := "C10.11/close-affects-only-itself"
		r.Describe(R, "closing a listener affects only that object: the inproc registry entry is removed only if it is this listener's own (a listener whose Listen failed with ErrAddrInUse must not unregister the owner of the address)")
		if f := q.Fn(R, "transport/inproc", "listener", "Close"); f.OK() {
			del := f.Ev("delete", "delete").Arg(0, "transport/inproc.listeners.byAddr")
			ok := len(del) == 1 && del[0].Args[1] == "recv.addr" && len(del[0].Guard) == 1 && litEq(del[0].Guard[0], "transport/inproc.listeners.byAddr[recv.addr] == recv")
			r.Check(ok, R, "inproc.listener.Close/unregisters-only-itself", del.Pos(p), "delete(byAddr, l.addr) only when byAddr[l.addr] == l", "inproc listener.Close removes the registry entry of its address without checking that the entry is itself: closing a listener that never bound the address makes the still-open owner unreachable (every Dial is refused): "+guardsOf(del))
		}
	}
	r.Describe("C10.10/E3b", "no registration that Close tears down (endpoint lists, timers, the attached flag of a pipe, running flags) is conditional on a closed/closing test made in an earlier critical section: such a registration can slip past Close and outlive the socket")
	e3bObligations(p, r, "C10.10/E3b", nil)
	r.Describe("C10.9/closed-means-ErrClosed", "every error-returning method of a protocol socket/context returns ErrClosed on the branch of its own closed flag and on the select arm of its own close channel")
	closedMeansErrClosed(p, r, "C10.9/closed-means-ErrClosed")
	r.Floor("C10.9/closed-means-ErrClosed", "c10.closed_paths", 70)
	ownClosedObserved(p, r, "C10.13/own-closed-observed")
	r.Describe("C10.8/listen-vs-close", "Listen and Close of one listener are serialised: no address stays bound after Close")
	coreListenAtomic(p, r, "C10.8/listen-vs-close")
}

func c10Anchored(p *Prog, r *Report) {
	q := NewQ(p, r)
	// ---- C10.3 core.socket.Close
	coreCloseWaitsForNothing(p, r, "C10.17/close-waits-for-no-goroutine")
	listsClearedWhereSwept(p, r, "C10.18/lists-cleared-where-swept", func(rel string) bool {
		return strings.HasPrefix(rel, "transport") || rel == "internal/core" || strings.HasPrefix(rel, "protocol/")
	})
	r.Floor("C10.18/lists-cleared-where-swept", "list_resets.C10.18/lists-cleared-where-swept", 1)
	additionsTestedAgainstClose(p, r, "C10.27/additions-tested-against-close", func(rel string) bool {
		return strings.HasPrefix(rel, "transport") || rel == "internal/core" || strings.HasPrefix(rel, "protocol/")
	})
	r.Floor("C10.27/additions-tested-against-close", "guarded_additions.C10.27/additions-tested-against-close", 5)
	R := "C10.3/socket-close"
	r.Describe(R, "core socket.Close marks the socket closed under the lock, closes every listener and dialer, the protocol and all pipes; NewDialer/NewListener register an endpoint only if the socket is not closed, tested in the same critical section")
	sc := q.Fn(R, "internal/core", "socket", "Close")
	if sc.OK() {
		st := sc.Ev("store", "recv.closed").Arg(0, "true")
		q.Req(R, "sets-closed", len(st) == 1 && st[0].Unconditional() && st.AllHeld(coreSockMu), st.Pos(p), "closed=true under the lock", "socket.Close does not set closed=true unconditionally under the lock")
		for _, c := range [][2]string{{"core.(*listener).Close", "listeners"}, {"core.(*dialer).Close", "dialers"}} {
			ev := sc.Ev("call", c[0])
			q.Req(R, "closes-"+c[1], len(ev) == 1 && strings.Contains(ev[0].Args[0], "recv."+c[1]+"["), ev.Pos(p), "every element of "+c[1]+" closed", "socket.Close does not close every element of s."+c[1])
		}
		pcl := sc.Ev("call", "ProtocolBase.Close")
		ca := sc.Ev("call", "core.(*pipeList).CloseAll")
		// on every path: from the point where the socket is marked closed, every path to a
		// return passes the call (whatever form the loops in between take)
		onlyLoopGuards := func(s Sel) bool {
			if len(s) != 1 || len(st) != 1 {
				return false
			}
			ok, _ := q.FollowedBy(st, s)
			return ok
		}
		q.Req(R, "closes-protocol", onlyLoopGuards(pcl), pcl.Pos(p), "proto.Close() on every path", "socket.Close does not call proto.Close() on every path")
		q.Req(R, "closes-all-pipes", onlyLoopGuards(ca), ca.Pos(p), "pipes.CloseAll() on every path", "socket.Close does not call pipes.CloseAll() on every path")
		// the protocol refuses new pipes (AddPipe -> ErrClosed) only once it is closed: it must
		// be closed BEFORE the sweep of the attached pipes, otherwise a connection that is
		// attached between the sweep and proto.Close stays attached to a closed socket for good
		q.Req(R, "protocol-closed-before-pipe-sweep", len(pcl) == 1 && len(ca) == 1 && evDominates(pcl[0], ca[0]), ca.Pos(p), "proto.Close() precedes pipes.CloseAll()", "socket.Close sweeps the pipes before the protocol is closed: a pipe attached in between is never closed (connection, goroutines and pipe id outlive the socket)")
	}
	for _, nm := range [][2]string{{"NewDialer", "recv.dialers"}, {"NewListener", "recv.listeners"}} {
		f := q.Fn(R, "internal/core", "socket", nm[0])
		if !f.OK() {
			continue
		}
		st := f.Ev("store", nm[1])
		ok := len(st) == 1 && st.AllGuarded("!recv.closed") && st.AllHeld(coreSockMu)
		if ok {
			// the closed test and the append are in one critical section
			ok = false
			for _, b := range f.fn.Blocks {
				if iff, isIf := b.Instrs[len(b.Instrs)-1].(*ssa.If); isIf && Desc(iff.Cond) == "recv.closed" {
					for _, h1 := range p.E1().held[iff] {
						for _, h2 := range p.E1().held[st[0].In] {
							if h1.At == h2.At {
								ok = true
							}
						}
					}
				}
			}
		}
		q.Req(R, nm[0]+"-registers-only-if-open", ok, st.Pos(p), "appended only when !closed, tested in the same critical section", nm[0]+" can register an endpoint on a closed socket (closed is not tested in the critical section that appends): it is never closed and its accept/dial goroutine leaks")
		cl := f.Ev("call", "").Guarded("recv.closed")
		hasClose := false
		for _, e := range cl {
			if strings.HasSuffix(e.What, ".Close") {
				hasClose = true
			}
		}
		rc := f.Ev("return", "").Guarded("recv.closed")
		q.Req(R, nm[0]+"-closed-path", hasClose && len(rc) == 1 && len(rc[0].Args) == 2 && rc[0].Args[1] == "ErrClosed", rc.Pos(p), "closed socket: new endpoint closed and ErrClosed returned", nm[0]+" on a closed socket does not close the new endpoint and return ErrClosed")
	}

	// ---- C10.4 protocol Close
	R = "C10.4/proto-close"
	r.Describe(R, "every protocol Close is a check-and-set of closed under the socket lock (ErrClosed the second time) and wakes its waiters")
	n := 0
	for _, pk := range p.SubjectPkgs() {
		rel, _ := Rel(pk.PkgPath)
		if !strings.HasPrefix(rel, "protocol/") {
			continue
		}
		fn := p.Func(rel, "socket", "Close")
		if fn == nil || !p.InScope(fn) {
			continue
		}
		f := &F{q: q, fn: fn, Name: p.FuncName(fn), evs: p.Events(fn)}
		n++
		rc := f.Ev("return", "").Guarded("recv.closed")
		q.Req(R, f.Name+"/second-close-ErrClosed", len(rc) == 1 && rc[0].Args[0] == "ErrClosed", rc.Pos(p), "ErrClosed when already closed", "Close on a closed socket does not return ErrClosed")
		st := f.Ev("store", "recv.closed").Arg(0, "true")
		okSet := len(st) == 1 && st.AllGuarded("!recv.closed") && len(st[0].Held) > 0
		if !okSet && len(st) == 1 && st[0].Unconditional() && len(st[0].Held) > 0 && len(rc) == 1 {
			// test-and-set form: `was := s.closed; s.closed = true` in one critical section,
			// the second Close recognised by the value read before the store
			EachInstr(fn, func(in ssa.Instruction) {
				if u, ok := in.(*ssa.UnOp); ok && u.Op == token.MUL && Desc(u.X) == "recv.closed" && InstrDominates(in, st[0].In) && p.SameSection(in, st[0].In) {
					okSet = true
				}
			})
		}
		q.Req(R, f.Name+"/sets-closed", okSet, st.Pos(p), "closed=true under the lock, once", "Close does not set closed=true under the lock on the !closed edge")
	}
	r.Count("c10.protocol_close_impls", n)
	r.Floor(R, "c10.protocol_close_impls", 17)

	// ---- C10.5 transport pipe Close
	R = "C10.5/tranpipe-close"
	r.Describe(R, "a transport pipe's Close releases the underlying connection unless Close itself already did (the guard may only depend on state that Close owns)")
	for _, a := range [][5]string{{"transport", "conn", "Conn.Close", "recv.c", "transport.conn."}, {"transport/ws", "wsPipe", "websocket.(*Conn).Close", "recv.ws", "transport/ws.wsPipe."}} {
		f := q.Fn(R, a[0], a[1], "Close")
		if !f.OK() {
			continue
		}
		cl := f.Ev("call", a[2]).Arg(0, a[3])
		if len(cl) != 1 {
			q.Req(R, f.Name+"/closes-connection", false, f.Pos(), "", "ANCHOR-MISSING: no call closing "+a[3])
			continue
		}
		bad := ""
		for _, g := range cl[0].Guard {
			fld := strings.TrimPrefix(strings.TrimPrefix(g, "!"), "recv.")
			if strings.ContainsAny(fld, " .(") {
				bad = "guard " + g + " is not a simple flag"
				continue
			}
			w := p.PostPubWritersOf(a[4] + fld)
			for k := range w {
				if k != f.Name {
					bad = "the connection is closed only if `" + g + "`, and " + fld + " is also written by " + k + ": a Close issued before that (e.g. by the handshaker when its listener closes during a stalled handshake) does nothing, the connection and its goroutine outlive the socket"
				}
			}
		}
		q.Req(R, f.Name+"/closes-connection", bad == "", cl.Pos(p), "the underlying connection is closed unless Close already ran", bad)
	}
	ip := q.Fn(R, "transport/inproc", "inproc", "Close")
	if ip.OK() {
		c := ip.Closure(R, 0)
		cl := c.Ev("close", "close").Arg(0, "recv.closeq")
		q.Req(R, ip.Name+"/closes-closeq-once", len(cl) == 1 && cl[0].Unconditional() && len(ip.Ev("call", "sync.(*Once).Do")) == 1, cl.Pos(p), "closeq closed once", "inproc Close does not close closeq inside once.Do")
	}

	// ---- C10.6 timers
	R = "C10.6/timers"
	r.Describe(R, "every time.AfterFunc timer kept in a field is stopped by the owner's cancel/close path")
	nt := 0
	for _, fn := range p.Funcs {
		for _, e := range p.Events(fn) {
			if e.Kind != "store" || !strings.HasPrefix(e.Args[0], "time.AfterFunc(") {
				continue
			}
			st := e.In.(*ssa.Store)
			fa, ok := st.Addr.(*ssa.FieldAddr)
			if !ok {
				continue
			}
			nt++
			fv := FieldVar(fa)
			rel, _ := p.FuncRel(fn)
			stopped := ""
			for _, g := range p.Funcs {
				grel, _ := p.FuncRel(g)
				if grel != rel {
					continue
				}
				isCloser := func(h *ssa.Function) bool {
					switch h.Name() {
					case "cancel", "cancelSend", "close", "Close", "cancel$1":
						return true
					}
					return h.Parent() != nil && h.Parent().Name() == "cancel"
				}
				if !isCloser(g) {
					// a private helper reached only from cancel/close functions counts as them
					okAttr := false
					if attr := p.attributedTo(p.FuncName(g)); len(attr) > 0 && !(len(attr) == 1 && attr[0] == p.FuncName(g)) {
						okAttr = true
						for _, an := range attr {
							if h := p.byName[an]; h == nil || !isCloser(h) {
								okAttr = false
							}
						}
					}
					if !okAttr {
						continue
					}
				}
				EachInstr(g, func(in ssa.Instruction) {
					c := CallOf(in)
					if c == nil {
						return
					}
					// `stopTimer(&x.field)`: a helper that stops the timer whose address it gets
					if sc := c.StaticCallee(); sc != nil && !c.IsInvoke() && p.moduleFunc(sc) && sc.Blocks != nil {
						for ai, a := range c.Args {
							if sfa, ok := a.(*ssa.FieldAddr); ok && ai < len(sc.Params) && FieldVar(sfa) == fv {
								if st, _, _, _ := timerParamEffects(p, sc, sc.Params[ai]); st {
									stopped = p.FuncName(g)
								}
							}
						}
					}
					if !CalleeIs(c, "time", "Timer", "Stop") {
						return
					}
					if l, ok := c.Args[0].(*ssa.UnOp); ok {
						if sfa, ok := l.X.(*ssa.FieldAddr); ok && FieldVar(sfa) == fv {
							stopped = p.FuncName(g)
						}
					}
				})
			}
			key := p.FuncName(fn) + "/timer->" + fv.Name()
			q.Req(R, key, stopped != "", p.InstrPos(e.In), "stopped in "+stopped, "timer stored in ."+fv.Name()+" is never stopped by a cancel/close function of its package: it fires after Close")
		}
	}
	r.Count("c10.stored_timers", nt)
	r.Floor(R, "c10.stored_timers", 5)

	r.Describe("C10.8/handshaker", "closing a listener closes every connection still handshaking or waiting to be accepted; a handshake that completes after Close is closed by its worker")
	handshakerRules(p, r, "C10.8/handshaker")
}

// coreListenAtomic: core listener.Listen tests closed and calls the transport's Listen in
// one critical section (D15): otherwise Close can run in between, close the still unbound
// transport listener, and Listen then binds and serves on a closed listener.
func coreListenAtomic(p *Prog, r *Report, R string) {
	q := NewQ(p, r)
	f := q.Fn(R, "internal/core", "listener", "Listen")
	if !f.OK() {
		return
	}
	tl := f.Ev("call", "TranListener.Listen")
	ok := len(tl) == 1 && tl.AllGuarded("!recv.closed") && tl.AllHeld("internal/core.listener.Mutex") && closedReadInSameSection(p, f.fn, tl[0].In)
	r.Check(ok, R, "listener.Listen/closed-test-and-bind-atomic", tl.Pos(p), "closed is tested in the critical section that calls the transport's Listen", "core listener.Listen calls the transport's Listen outside the critical section that tested closed: a concurrent Close slips in between, and the address is then bound and served by a closed listener (both calls return nil)")
	cl := q.Fn(R, "internal/core", "listener", "Close")
	if cl.OK() {
		tc := cl.Ev("call", "TranListener.Close")
		r.Check(len(tc) == 1 && tc.AllHeld("internal/core.listener.Mutex"), R, "listener.Close/under-lock", tc.Pos(p), "the transport listener is closed under the same lock", "core listener.Close closes the transport listener outside the lock that Listen holds")
	}
}

// closedMeansErrClosed: in every error-returning method of a protocol socket or context,
// (a) the branch taken when the object's own closed flag is set, and (b) the select arm on
// the object's own close channel, return ErrClosed on every path — not nil, not a timeout.
// (Arms on a *pipe's* close channel mean "peer gone" and are not covered.)
func closedMeansErrClosed(p *Prog, r *Report, R string) {
	n := 0
	ownClose := func(v ssa.Value) bool {
		d := Desc(v)
		if !strings.Contains(strings.ToLower(d), "closeq") {
			return false
		}
		if t := chanOwner(v); t != nil && t.Obj().Name() == "pipe" {
			return false
		}
		return !strings.Contains(d, "Pipe.") && !strings.Contains(d, ".p.") && !strings.Contains(d, "pipe")
	}
	for _, fn := range p.Funcs {
		rel, _ := p.FuncRel(fn)
		if !strings.HasPrefix(rel, "protocol/") || fn.Signature.Recv() == nil || !returnsError(fn) {
			continue
		}
		rt := recvTypeName(fn)
		if rt != "socket" && rt != "context" {
			continue
		}
		check := func(start *ssa.BasicBlock, from *ssa.BasicBlock, what string, at ssa.Instruction) {
			n++
			bad := ""
			seen := map[[2]*ssa.BasicBlock]bool{}
			var walk func(b, prev *ssa.BasicBlock, depth int, env map[*ssa.Phi]ssa.Value)
			walk = func(b, prev *ssa.BasicBlock, depth int, env map[*ssa.Phi]ssa.Value) {
				if bad != "" || depth > 40 {
					return
				}
				// phis of b take the value of the edge this path came in by
				for _, in := range b.Instrs {
					ph, ok := in.(*ssa.Phi)
					if !ok {
						break
					}
					for k, pb := range b.Preds {
						if pb == prev {
							v := ph.Edges[k]
							if p2, ok := v.(*ssa.Phi); ok && env[p2] != nil {
								v = env[p2]
							}
							ne := map[*ssa.Phi]ssa.Value{}
							for a, c := range env {
								ne[a] = c
							}
							ne[ph] = v
							env = ne
						}
					}
				}
				for _, in := range b.Instrs {
					if ret, ok := in.(*ssa.Return); ok {
						ev := resolveSpill(ret.Results[len(ret.Results)-1], ret)
						if ph, ok := ev.(*ssa.Phi); ok && env[ph] != nil {
							ev = env[ph]
						}
						if d := Desc(ev); d != "ErrClosed" {
							// a phi defined further up: accept if every edge is ErrClosed
							bad = d + " at " + p.InstrPos(ret)
							if ph, ok := ev.(*ssa.Phi); ok {
								all := true
								for _, e := range ph.Edges {
									if Desc(e) != "ErrClosed" {
										all = false
									}
								}
								if all {
									bad = ""
								}
							}
						}
						return
					}
				}
				for _, s := range b.Succs {
					if seen[[2]*ssa.BasicBlock{s, b}] {
						continue
					}
					seen[[2]*ssa.BasicBlock{s, b}] = true
					walk(s, b, depth+1, env)
				}
			}
			walk(start, from, 0, map[*ssa.Phi]ssa.Value{})
			key := p.FuncName(fn) + "/" + what
			r.Check(bad == "", R, key, p.InstrPos(at), "returns ErrClosed", "a call on a closed "+rt+" does not fail with ErrClosed on this path: it returns "+bad)
		}
		for _, b := range fn.Blocks {
			iff, ok := b.Instrs[len(b.Instrs)-1].(*ssa.If)
			if !ok {
				continue
			}
			// (a) closed flag of the receiver (or of its socket); `a.closed || b.closed`
			// enters the block by several edges, all of them closed tests
			if d := Desc(iff.Cond); d == "recv.closed" || d == "recv.s.closed" {
				t := b.Succs[0]
				all := true
				for _, pb := range t.Preds {
					pif, ok := pb.Instrs[len(pb.Instrs)-1].(*ssa.If)
					if !ok || pb.Succs[0] != t {
						all = false
						break
					}
					if pd := Desc(pif.Cond); pd != "recv.closed" && pd != "recv.s.closed" {
						all = false
					}
				}
				if all && t.Preds[0] == b {
					check(t, b, "closed-flag("+d+")@"+strings.Join(p.GuardStrings(iff), "&&"), iff)
				}
			}
			// (b) select arm on an own close channel
			if bo, ok := iff.Cond.(*ssa.BinOp); ok {
				if ex, ok := bo.X.(*ssa.Extract); ok {
					if sel, ok := ex.Tuple.(*ssa.Select); ok {
						if k, ok := ConstInt(bo.Y); ok && int(k) < len(sel.States) && sel.States[k].Dir == types.RecvOnly && ownClose(sel.States[k].Chan) {
							check(b.Succs[0], b, fmt.Sprintf("close-arm(%s)#%d", Desc(sel.States[k].Chan), instrIndexInFn(sel)), iff)
						}
					}
				}
			}
		}
	}
	r.Count("c10.closed_paths", n)
}

// instrIndexInFn: ordinal of a select among the selects of its function (stable key).
func instrIndexInFn(in ssa.Instruction) int {
	k := 0
	for _, b := range in.Parent().Blocks {
		for _, x := range b.Instrs {
			if x == in {
				return k
			}
			if _, ok := x.(*ssa.Select); ok {
				k++
			}
		}
	}
	return k
}

// ownClosedObserved: a socket or context that can be closed on its own (it has a `closed`
// flag that its Close sets) refuses Send and Recv once closed: each of its SendMsg/RecvMsg
// looks at that flag, or waits on the object's own close channel.  (What it returns there is
// closedMeansErrClosed's obligation; this one is that the test exists at all — a context
// closed while its socket stays open must not accept a new request, survey or reply.)
func ownClosedObserved(p *Prog, r *Report, R string) {
	r.Describe(R, "every SendMsg/RecvMsg of a protocol socket or context with its own closed flag tests that flag (or selects on its own close channel): closing one context affects that context, and later calls on it fail")
	n := 0
	for _, fn := range p.Funcs {
		rel, _ := p.FuncRel(fn)
		if !strings.HasPrefix(rel, "protocol/") || fn.Signature.Recv() == nil || fn.Parent() != nil {
			continue
		}
		if fn.Name() != "SendMsg" && fn.Name() != "RecvMsg" {
			continue
		}
		rt := recvTypeName(fn)
		if rt != "socket" && rt != "context" {
			continue
		}
		// the receiver type has a `closed` field written by its own Close
		key := rel + "." + rt + ".closed"
		closers := p.WritersOf(key)
		hasClose := false
		for w := range closers {
			lw := strings.ToLower(w)
			if strings.HasSuffix(lw, "(*"+rt+").close") || strings.Contains(lw, "(*"+rt+").close$") {
				hasClose = true
			}
		}
		if !hasClose {
			continue
		}
		// an operation the pattern does not have touches no state at all
		touches := false
		observed := false
		visit := func(in ssa.Instruction) {
			switch x := in.(type) {
			case *ssa.FieldAddr:
				touches = true
				if fieldKeyOf(x) == key && Desc(x.X) == "recv" {
					observed = true
				}
			case *ssa.Call:
				// the socket-level call of a pattern with contexts is the default context's
				if cn := CalleeName(&x.Call); strings.HasSuffix(cn, ").SendMsg") || strings.HasSuffix(cn, ").RecvMsg") {
					if c := x.Call.StaticCallee(); c != nil {
						if cr, _ := p.FuncRel(c); cr == rel {
							observed = true
						}
					}
				}
			case *ssa.Select:
				for _, st := range x.States {
					d := strings.ToLower(Desc(st.Chan))
					if st.Dir == types.RecvOnly && strings.HasPrefix(d, "recv.") && strings.Contains(d, "closeq") && strings.Count(d, ".") == 1 {
						observed = true
					}
					// (through a local, a parameter or a snapshot helper: by field)
					if fa := chanField(st.Chan); fa != nil && st.Dir == types.RecvOnly {
						if k := fieldKeyOf(fa); strings.HasPrefix(k, rel+"."+rt+".") && strings.Contains(strings.ToLower(k[len(rel)+len(rt)+2:]), "closeq") {
							observed = true
						}
					}
				}
			}
		}
		f := &F{q: NewQ(p, r), fn: fn, Name: p.FuncName(fn), evs: p.Events(fn)}
		f.EachInstrDeep(visit)
		if !touches {
			continue
		}
		n++
		r.Check(observed, R, p.FuncName(fn), p.Pos(fn.Pos()), "tests its own closed flag / close channel", p.FuncName(fn)+" never looks at the "+rt+"'s own closed flag (nor waits on its own close channel): after this "+rt+" has been closed, while its socket is still open, the call is carried out instead of failing with ErrClosed")
	}
	r.Count("c10.own_closed_ops", n)
	r.Floor(R, "c10.own_closed_ops", 30)
}

// coreCloseWaitsForNothing: the Close methods of the core's socket, dialer, listener and pipe
// are called from application callbacks (a pipe-event hook that closes the listener after the
// first peer, or the socket on a bad peer): the callback runs on the library goroutine that
// accepted or lost the pipe.  A Close that waits for such a goroutine to finish — a receive
// from a channel the goroutine closes on exit, a WaitGroup, a condition variable — waits for
// itself.  So no Close of the core, and nothing it calls synchronously inside the core, blocks
// on a channel, a WaitGroup or a Cond.
func coreCloseWaitsForNothing(p *Prog, r *Report, R string) {
	r.Describe(R, "Close of the core's socket, dialer, listener and pipe (and what they call synchronously inside the core) never waits on a channel, WaitGroup or condition variable: those Close methods are called from pipe-event callbacks, which run on the library's own accept/attach/detach goroutines, so waiting for such a goroutine is waiting for oneself")
	n := 0
	for _, rt := range []string{"socket", "dialer", "listener", "pipe"} {
		fn := p.Func("internal/core", rt, "Close")
		if fn == nil {
			r.Bad(R, "anchor:internal/core.("+rt+").Close", "-", "ANCHOR-MISSING: internal/core."+rt+".Close not found")
			continue
		}
		n++
		bad := ""
		seen := map[*ssa.Function]bool{}
		var visit func(f *ssa.Function, d int)
		visit = func(f *ssa.Function, d int) {
			if seen[f] || d > 4 {
				return
			}
			seen[f] = true
			for _, ff := range WithClosures(f) {
				if ff != f {
					// closures started as goroutines do not hold Close up; closures run in
					// place (Once.Do) do
					isGo := false
					for _, ref := range refsOfClosure(ff) {
						if _, ok := ref.(*ssa.Go); ok {
							isGo = true
						}
					}
					if isGo {
						continue
					}
				}
				EachInstr(ff, func(in ssa.Instruction) {
					if bi := directBlocking(in); bi != nil {
						switch bi.Kind {
						case "chan-recv", "wg-wait", "cond-wait", "select":
							if bad == "" {
								bad = bi.What + " at " + p.InstrPos(in)
							}
						}
					}
					for _, callee := range p.SyncCallees(in) {
						if rel, ok := p.FuncRel(callee); ok && rel == "internal/core" {
							visit(callee, d+1)
						}
					}
				})
			}
		}
		visit(fn, 0)
		r.Check(bad == "", R, "internal/core.("+rt+").Close", p.Pos(fn.Pos()), "waits for no goroutine", "Close waits ("+bad+"): called from a pipe-event callback — which runs on the goroutine being waited for — it never returns, and the socket is never torn down")
	}
	r.Count("c10.core_close_methods", n)
}

// refsOfClosure: the instructions that use the MakeClosure of an anonymous function.
func refsOfClosure(fn *ssa.Function) []ssa.Instruction {
	var out []ssa.Instruction
	par := fn.Parent()
	if par == nil {
		return nil
	}
	EachInstr(par, func(in ssa.Instruction) {
		if mc, ok := in.(*ssa.MakeClosure); ok && mc.Fn == fn {
			if mc.Referrers() != nil {
				out = append(out, *mc.Referrers()...)
			}
		}
	})
	return out
}
