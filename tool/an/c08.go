package an

import (
	"strings"

	"golang.org/x/tools/go/ssa"
)

func init() {
	register(&PropInfo{ID: "C08", Run: runC08,
		Explanation: "anchored shape rules + natural-loop completeness + E5: xbus.SendMsg visits every pipe and skips exactly the pipe whose id equals the header word of a forwarded message (0 for locally originated ones; pipe ids are never 0), with balanced Clone/Free; the xbus receiver records the arrival pipe id; cooked BUS strips the header both ways and never forwards; xstar forwards each received message to every other pipe with its own copy, delivers a separate copy upward, counts the hop; raw STAR sends require a 4-byte header and visit every pipe; cooked STAR installs and strips the header.",
		Assumptions: commonAssumptions})
}

func runC08(p *Prog, r *Report) {
	crossCutting(p, r, "C08.X", "protocol/xbus", "protocol/xstar", "protocol/bus", "protocol/star")
	lockBalance(p, r, "C08.8/E1", "protocol/xbus", "protocol/xstar")
	q := NewQ(p, r)
	R := "C08.1/bus-send"
	r.Describe(R, "xbus.SendMsg: every pipe visited; a send only when p.p.ID() != id; id = header word iff len(Header) == 4 else 0; MakeUnique result used; Clone/Free balanced")
	bs := q.Fn(R, "protocol/xbus", "socket", "SendMsg")
	if bs.OK() {
		body := fanoutLoop(p, r, R, "xbus.SendMsg", bs.fn, "recv.pipes")
		var snd, cl Sel
		for _, e := range bs.All() {
			if e.Kind == "select-send" && strings.HasSuffix(e.What, ".sendQ") {
				snd = append(snd, e)
			}
			if e.Kind == "call" && e.What == "mangos.(*Message).Clone" {
				cl = append(cl, e)
			}
		}
		srcID := "" // the local the pipe ids are compared with: the source id
		skip := func(s Sel) bool {
			for _, e := range s {
				ok := false
				for _, g := range e.Guard {
					if i := strings.LastIndex(g, ".p.ID() != "); i >= 0 && localTok.FindString(g[i+11:]) == g[i+11:] && (srcID == "" || srcID == g[i+11:]) {
						ok, srcID = true, g[i+11:]
					}
				}
				if !ok {
					return false
				}
			}
			return len(s) == 1
		}
		r.Check(skip(snd) && skip(cl) && litEq(snd[0].Args[0], "φm") && len(snd[0].Args) == 2 && snd[0].Args[1] == "nonblocking", R, "never-back-to-source", snd.Pos(p), "a copy is queued only for pipes whose id differs from the source id", "a forwarded message can be sent back on the pipe it came from (the send is not guarded by p.p.ID() != id): "+guardsOf(snd))
		if len(snd) == 1 {
			fanoutNoBypass(p, r, R, "xbus.SendMsg", snd[0], func(a string) bool { return srcID != "" && strings.HasSuffix(a, ".p.ID() == "+srcID) }, " (skipped only for the source pipe)")
		}
		if body != nil && len(snd) == 1 {
			r.Check(inBody(body, snd[0]), R, "send-inside-loop", snd.Pos(p), "inside the loop over all pipes", "the send is outside the loop over the pipes")
		}
		// id := 0 unless len(Header)==4 then Uint32(Header)
		var idphi *ssa.Phi
		EachInstr(bs.fn, func(in ssa.Instruction) {
			if ph, ok := in.(*ssa.Phi); ok && srcID != "" && Desc(ph) == srcID {
				idphi = ph
			}
		})
		okID := false
		if idphi != nil && len(idphi.Edges) == 2 {
			z, u := false, false
			for _, e := range idphi.Edges {
				if k, ok := ConstInt(e); ok && k == 0 {
					z = true
				}
				if strings.HasPrefix(Desc(e), "binary.(bigEndian).Uint32(encoding/binary.BigEndian,") && strings.HasSuffix(Desc(e), ".Header)") {
					u = true
				}
			}
			okID = z && u
		}
		r.Check(okID, R, "source-id", bs.Pos(), "id = header word of a forwarded message, else 0", "the source id is not (header word when len(Header)==4, else 0)")
		mu := bs.Ev("call", "mangos.(*Message).MakeUnique")
		r.Check(len(mu) == 1 && mu.AllGuarded("len(arg1.Header) == 4"), R, "forwarded-made-unique", mu.Pos(p), "a forwarded message is made unique before its header is rewritten", "a forwarded message's header is rewritten without MakeUnique")
		var fin Sel
		for _, e := range bs.Ev("call", "mangos.(*Message).Free") {
			if body != nil && !inBody(body, e) {
				fin = append(fin, e)
			}
		}
		r.Check(len(fin) == 1, R, "own-reference-released", fin.Pos(p), "own reference released after the loop", "own reference not released after the loop")
	}
	R = "C08.2/bus-receive"
	r.Describe(R, "xbus receiver stores the arrival pipe's id as the 4-byte header; cooked bus strips the header on send and receive and never forwards")
	br := q.Fn(R, "protocol/xbus", "pipe", "receiver")
	if br.OK() {
		put := br.Ev("call", "binary.(bigEndian).PutUint32")
		r.Check(len(put) == 1 && strings.HasSuffix(put[0].Args[1], ".Header") && put[0].Args[2] == "recv.p.ID()", R, "records-arrival-pipe", put.Pos(p), "header = id of the arriving pipe", "the xbus receiver does not record the arriving pipe's id: a bouncing device would echo messages to their sender")
		hs := br.Ev("store", "recv.p.RecvMsg().Header")
		r.Check(len(hs) == 1 && strings.HasPrefix(hs[0].Args[0], "$makeslice[:4]"), R, "four-byte-header", hs.Pos(p), "header is exactly 4 bytes", "the recorded header is not 4 bytes")
	}
	for _, t := range [][2]string{{"SendMsg", "arg1.Header"}, {"RecvMsg", "recv.Protocol.RecvMsg()#0.Header"}} {
		f := q.Fn(R, "protocol/bus", "socket", t[0])
		if f.OK() {
			st := f.Ev("store", t[1])
			r.Check(len(st) == 1 && strings.HasSuffix(st[0].Args[0], ".Header[:0]"), R, "bus."+t[0]+"-strips-header", st.Pos(p), "header truncated", "cooked BUS "+t[0]+" does not discard the header (a received pipe id would exclude/route by a stale id)")
			if len(st) == 1 && t[0] == "SendMsg" {
				// whatever its length: xbus strips a 4-byte header only, so a header of any
				// other length would go on the wire in front of the body
				hl := "len(arg1.Header)"
				dom := map[string][]int64{hl: {0, 1, 3, 4, 5, 8, 12}}
				res := ComparePred(predBlock(st[0]), dom, nil, func(env map[string]int64) bool { return env[hl] > 0 })
				if !res.OK && res.Undec == "" {
					res = ComparePred(predBlock(st[0]), dom, nil, func(env map[string]int64) bool { return true })
				}
				switch {
				case res.Undec != "":
					r.Unk(R, "bus.SendMsg-strips-any-header", st.Pos(p), "cannot evaluate when the header is discarded: "+res.Undec)
				default:
					r.Check(res.OK, R, "bus.SendMsg-strips-any-header", st.Pos(p), "a header of any length is discarded", "cooked BUS SendMsg keeps a stale header of some lengths ("+res.Counter+"): xbus strips only a 4-byte header, the rest goes on the wire in front of the body")
				}
			}
		}
	}
	if f := q.Fn(R, "protocol/bus", "socket", "RecvMsg"); f.OK() {
		n := 0
		for _, e := range f.All() {
			if e.Kind == "call" && strings.HasSuffix(e.What, ".SendMsg") {
				n++
			}
		}
		r.Check(n == 0, R, "cooked-bus-never-forwards", f.Pos(), "RecvMsg does not send", "cooked BUS passes received messages on")
	}

	R = "C08.4/star-forward"
	r.Describe(R, "xstar receiver: forwards to every pipe except the arrival pipe, each with its own Dup, delivers a separate Dup upward, increments the hop byte; SendMsg requires a 4-byte header and visits every pipe")
	sr := q.Fn(R, "protocol/xstar", "pipe", "receiver")
	if sr.OK() {
		body := fanoutLoop(p, r, R, "xstar.receiver", sr.fn, "recv.s.pipes")
		var snd Sel
		for _, e := range sr.All() {
			if e.Kind == "select-send" && strings.HasSuffix(e.What, ".sendq") {
				snd = append(snd, e)
			}
		}
		ok := len(snd) == 1 && strings.HasPrefix(snd[0].Args[0], "mangos.(*Message).Dup(") && Sel(snd).AllHeld("protocol/xstar.socket.Mutex")
		if ok {
			ok = false
			for _, g := range snd[0].Guard {
				if strings.HasSuffix(g, "!= recv") {
					ok = true
				}
			}
		}
		r.Check(ok, R, "not-back-to-source-own-copy", snd.Pos(p), "forwarded (as a private Dup) to every pipe p2 != p", "the STAR forwarder does not send a private copy to every pipe other than the arrival pipe: "+argsOf(snd)+" "+guardsOf(snd))
		if len(snd) == 1 {
			fanoutNoBypass(p, r, R, "xstar.receiver", snd[0], func(a string) bool { return strings.HasSuffix(a, "== recv") }, " (skipped only for the arrival pipe)")
		}
		if body != nil && len(snd) == 1 {
			r.Check(inBody(body, snd[0]), R, "forward-inside-loop", snd.Pos(p), "inside the loop over all pipes", "forwarding is outside the loop")
		}
		var up Sel
		for _, e := range sr.All() {
			if e.Kind == "select-send" && strings.HasSuffix(e.What, "recvq") {
				up = append(up, e)
			}
		}
		r.Check(len(up) == 1 && strings.HasPrefix(up[0].Args[0], "mangos.(*Message).Dup("), R, "delivers-own-copy-upward", up.Pos(p), "the application gets its own Dup", "the message delivered upward is not a separate copy")
	}
	xstarDropPredicate(p, r, R)
	ss := q.Fn(R, "protocol/xstar", "socket", "SendMsg")
	if ss.OK() {
		body := fanoutLoop(p, r, R, "xstar.SendMsg", ss.fn, "recv.pipes")
		fanoutBalanced(p, r, R, "xstar.SendMsg", ss, body, "arg1", ".sendq")
		for _, e := range ss.All() {
			if e.Kind == "select-send" {
				r.Check(hasAtom(e.Guard, "len(arg1.Header) == 4"), R, "xstar.SendMsg/needs-header", p.InstrPos(e.In), "only messages with the 4-byte hop header are sent", "raw STAR sends a message without the 4-byte header")
			}
		}
	}
	R = "C08.5/star-cooked"
	r.Describe(R, "cooked star installs a zero 4-byte header on send (removed again on error) and strips it on receive")
	if f := q.Fn(R, "protocol/star", "socket", "SendMsg"); f.OK() {
		st := f.Ev("store", "arg1.Header")
		ok := len(st) == 2 && strings.HasPrefix(st[0].Args[0], "$makeslice[:4]") && strings.HasSuffix(st[1].Args[0], ".Header[:0]")
		r.Check(ok, R, "star.SendMsg", f.Pos(), "Header = make([]byte,4); restored to empty on error", "cooked STAR does not install a fresh 4-byte header (and undo it on error): "+argsOf(st))
	}
	if f := q.Fn(R, "protocol/star", "socket", "RecvMsg"); f.OK() {
		st := f.Ev("store", "*.Header")
		r.Check(len(st) == 1 && strings.HasSuffix(st[0].Args[0], ".Header[:0]"), R, "star.RecvMsg", f.Pos(), "header stripped before delivery", "cooked STAR does not strip the hop header before delivery")
	}
	R = "C08.9/E5"
	r.Describe(R, "message ownership (E5) on the BUS/STAR paths")
	n := 0
	for _, is := range p.E5().issues {
		rel, _ := p.FuncRel(is.Fn)
		switch rel {
		case "protocol/bus", "protocol/xbus", "protocol/star", "protocol/xstar":
			n++
			r.Bad(R, p.FuncName(is.Fn)+"/"+is.Kind+"/"+is.What, p.InstrPos(is.In), is.Msg)
		}
	}
	if n == 0 {
		r.OK(R, "bus-star", "-", "no ownership issue on the BUS/STAR paths")
	}
	r.Describe("C08.8/length-checks-exact", "BUS/STAR receivers do not drop messages with an empty payload")
	e6dNotOverStrict(p, r, "C08.8/length-checks-exact", func(rel string) bool { return rel == "protocol/xstar" || rel == "protocol/xbus" })
	r.Describe("C08.7/E6d", "the STAR/BUS receive paths never index a short message")
	e6dObligations(p, r, "C08.7/E6d", func(rel string) bool {
		return rel == "protocol/xstar" || rel == "protocol/xbus" || rel == "protocol/star" || rel == "protocol/bus"
	}, nil)
}
