package an

import (
	"fmt"
	"go/token"
	"go/types"
	"strings"

	"golang.org/x/tools/go/ssa"
)

// E10 CHAN: channel typestate — close-once idioms, capacity of option-fed channels,
// resize arms of per-pipe goroutines.

// chanField returns the field a channel value was loaded from (nil if not a field load).
func chanField(v ssa.Value) *ssa.FieldAddr {
	switch x := v.(type) {
	case *ssa.UnOp:
		if x.Op == token.MUL {
			if fa, ok := x.X.(*ssa.FieldAddr); ok {
				return fa
			}
			// a local that function literals assign (`var q chan T; s.withLock(func() { q =
			// s.recvQ })`): the field every assignment loads
			if al, ok := x.X.(*ssa.Alloc); ok {
				return chanCellField(al)
			}
			if fv, ok := x.X.(*ssa.FreeVar); ok {
				if al := freeVarCell(fv); al != nil {
					return chanCellField(al)
				}
			}
		}
	case *ssa.ChangeType:
		return chanField(x.X)
	case *ssa.Parameter:
		// a channel handed to a goroutine body / helper as an argument: the field every
		// call site passes (Prog.resolveChanParams)
		return chanParamField[x]
	case *ssa.Extract:
		// a snapshot helper `func (s *socket) queues() (recvQ, sizeQ, closeQ chan …)`: result i
		// is the field every return of the helper loads for it
		if call, ok := x.Tuple.(*ssa.Call); ok {
			return chanResultField(call, x.Index)
		}
	case *ssa.Call:
		return chanResultField(x, 0)
	case *ssa.Phi:
		// all edges loads of the same field
		var fa *ssa.FieldAddr
		for _, e := range x.Edges {
			f := chanField(e)
			if f == nil {
				return nil
			}
			if fa != nil && FieldVar(fa) != FieldVar(f) {
				return nil
			}
			fa = f
		}
		return fa
	}
	return nil
}

// freeVarCell: the local variable cell of the enclosing function that a captured variable is.
func freeVarCell(fv *ssa.FreeVar) *ssa.Alloc {
	k := fv.Parent()
	if k == nil || k.Parent() == nil {
		return nil
	}
	idx := -1
	for i, f := range k.FreeVars {
		if f == fv {
			idx = i
		}
	}
	var out *ssa.Alloc
	EachInstr(k.Parent(), func(in ssa.Instruction) {
		if mc, ok := in.(*ssa.MakeClosure); ok && mc.Fn == ssa.Value(k) && idx >= 0 && idx < len(mc.Bindings) {
			if al, ok := mc.Bindings[idx].(*ssa.Alloc); ok {
				out = al
			}
		}
	})
	return out
}

// chanCellField: all stores to the cell — in its function and, through captures, in the
// function literals of that function — store loads of one channel field.
func chanCellField(al *ssa.Alloc) *ssa.FieldAddr {
	if chanCellDepth > 2 {
		return nil
	}
	chanCellDepth++
	defer func() { chanCellDepth-- }()
	var fa *ssa.FieldAddr
	ok := true
	n := 0
	note := func(v ssa.Value) {
		n++
		f := chanField(v)
		if f == nil || (fa != nil && FieldVar(fa) != FieldVar(f)) {
			ok = false
			return
		}
		fa = f
	}
	if al.Referrers() == nil {
		return nil
	}
	for _, ref := range *al.Referrers() {
		switch x := ref.(type) {
		case *ssa.Store:
			if x.Addr == ssa.Value(al) {
				note(x.Val)
			}
		case *ssa.MakeClosure:
			k, isFn := x.Fn.(*ssa.Function)
			if !isFn {
				continue
			}
			for j, b := range x.Bindings {
				if b != ssa.Value(al) || j >= len(k.FreeVars) {
					continue
				}
				fv := k.FreeVars[j]
				if fv.Referrers() == nil {
					continue
				}
				for _, r2 := range *fv.Referrers() {
					if st, isSt := r2.(*ssa.Store); isSt && st.Addr == ssa.Value(fv) {
						note(st.Val)
					}
				}
			}
		}
	}
	if !ok || n == 0 {
		return nil
	}
	return fa
}

var chanCellDepth int

// chanResultField: result i of a call of a module function whose every return yields, for
// that result, a load of one and the same channel field.
func chanResultField(call *ssa.Call, i int) *ssa.FieldAddr {
	sc := call.Call.StaticCallee()
	if sc == nil || len(sc.Blocks) == 0 || chanResultDepth > 2 {
		return nil
	}
	if sc.Pkg == nil || !strings.HasPrefix(sc.Pkg.Pkg.Path(), ModPath) {
		return nil
	}
	chanResultDepth++
	defer func() { chanResultDepth-- }()
	var fa *ssa.FieldAddr
	ok := true
	n := 0
	EachInstr(sc, func(in ssa.Instruction) {
		ret, isRet := in.(*ssa.Return)
		if !isRet || in.Block() == sc.Recover || i >= len(ret.Results) {
			return
		}
		n++
		f := chanField(resolveSpill(ret.Results[i], ret))
		if f == nil || (fa != nil && FieldVar(fa) != FieldVar(f)) {
			ok = false
			return
		}
		fa = f
	})
	if !ok || n == 0 {
		return nil
	}
	return fa
}

var chanResultDepth int

// chanParamField: channel-typed parameter -> the struct field whose value every call site
// (call, go, defer) of its function passes for it.
var chanParamField = map[*ssa.Parameter]*ssa.FieldAddr{}

func (p *Prog) resolveChanParams() {
	chanParamField = map[*ssa.Parameter]*ssa.FieldAddr{}
	type site struct {
		args []ssa.Value
	}
	sites := map[*ssa.Function][]site{}
	for _, fn := range p.Funcs {
		EachInstr(fn, func(in ssa.Instruction) {
			ci, ok := in.(ssa.CallInstruction)
			if !ok {
				return
			}
			c := ci.Common()
			sc := c.StaticCallee()
			if sc == nil || !p.InScope(sc) {
				return
			}
			sites[sc] = append(sites[sc], site{c.Args})
		})
	}
	for i := 0; i < 2; i++ { // twice: a parameter forwarded through one more helper
		for fn, ss := range sites {
			for k, par := range fn.Params {
				if _, isChan := par.Type().Underlying().(*types.Chan); !isChan {
					continue
				}
				var fa *ssa.FieldAddr
				ok := true
				for _, s := range ss {
					if k >= len(s.args) {
						ok = false
						break
					}
					f := chanField(s.args[k])
					if f == nil || (fa != nil && FieldVar(fa) != FieldVar(f)) {
						ok = false
						break
					}
					fa = f
				}
				if ok && fa != nil {
					chanParamField[par] = fa
				}
			}
		}
	}
}

// freshFromCtor: the access is rooted at the result of a call, made in the same function, of
// a module function every return of which yields an object it has just allocated and has
// not published.
func (p *Prog) freshFromCtor(v ssa.Value) bool {
	for i := 0; i < 10; i++ {
		switch x := v.(type) {
		case *ssa.FieldAddr:
			v = x.X
			continue
		case *ssa.Call:
			sc := x.Call.StaticCallee()
			if sc == nil || len(sc.Blocks) == 0 || !p.InScope(sc) {
				return false
			}
			n := 0
			ok := true
			EachInstr(sc, func(in ssa.Instruction) {
				ret, isRet := in.(*ssa.Return)
				if !isRet || len(ret.Results) == 0 || in.Block() == sc.Recover {
					return
				}
				n++
				al, isAl := ret.Results[0].(*ssa.Alloc)
				if !isAl || !al.Heap || len(escapePoints(al)) > 0 {
					ok = false
				}
			})
			return ok && n > 0
		}
		return false
	}
	return false
}

// classifyClose decides which close-once idiom a builtin close(x) follows ("" = none).
func (p *Prog) classifyClose(fn *ssa.Function, in ssa.Instruction, c *ssa.CallCommon) (string, string) {
	arg := c.Args[0]
	e3 := p.E3()
	// I5: package init
	if fn.Name() == "init" || strings.HasPrefix(fn.Name(), "init#") {
		return "init", "closed in package init"
	}
	// I1: inside a Once.Do closure
	for k := range e3.entry[fn] {
		if strings.HasPrefix(k, "once:") {
			return "once", "inside the closure of " + k
		}
	}
	// I6a: fresh channel made in this function
	if _, ok := arg.(*ssa.MakeChan); ok {
		return "fresh", "channel created in the same function"
	}
	fa := chanField(arg)
	// I6b: channel field of an object freshly allocated in this function
	if fa != nil {
		if al := freshRoot(fa); al != nil {
			return "fresh-object", "channel of an object allocated in the same function"
		}
	}
	// I6c: … or freshly built by a private constructor called in this function
	if fa != nil && p.freshFromCtor(fa) {
		return "fresh-object", "channel of an object a private constructor has just built for this function"
	}
	// I3: swap — the closed value is the old value of a field that this function replaces
	// with a fresh channel under a common lock
	if fa != nil {
		fv := FieldVar(fa)
		var load ssa.Instruction
		switch x := arg.(type) {
		case *ssa.UnOp:
			load = x
		case *ssa.Phi:
			load = in
		}
		for _, b := range fn.Blocks {
			for _, ins := range b.Instrs {
				st, ok := ins.(*ssa.Store)
				if !ok {
					continue
				}
				sfa, ok := st.Addr.(*ssa.FieldAddr)
				if !ok || FieldVar(sfa) != fv || Desc(sfa) != Desc(fa) {
					continue
				}
				if !isFreshChan(st.Val) {
					continue
				}
				// common lock between the load and the store
				hl := p.heldAbs(fn, load)
				hs := p.heldAbs(fn, st)
				for k := range hl {
					if hs[k] && !strings.HasPrefix(k, "once:") {
						return "swap", "old value of " + Desc(fa) + " replaced by a fresh channel under " + k
					}
				}
			}
		}
	}
	// I2: check-and-set of a closed flag: the close is guarded by !X.closed and X.closed
	// is set to true in this function before the close
	for _, a := range p.GuardsOf(in.Block()) {
		na := NormAtom(a.Cond, a.Pol)
		if !strings.HasPrefix(na, "!") {
			continue
		}
		flag := strings.TrimPrefix(na, "!")
		// find a dominating store flag = true
		found := false
		EachInstr(fn, func(ins ssa.Instruction) {
			if st, ok := ins.(*ssa.Store); ok {
				if Desc(st.Addr) == flag && Desc(st.Val) == "true" && InstrDominates(st, in) {
					if len(p.heldAbs(fn, st)) > 0 {
						found = true
					}
				}
			}
		})
		if found {
			return "flag", "guarded by check-and-set of " + flag + " under a lock"
		}
	}
	// I4: RemovePipe (called at most once per pipe by the core — C13.3) closing a channel
	// of the pipe object
	if fn.Name() == "RemovePipe" && fn.Signature.Recv() != nil && fa != nil {
		return "removepipe", "in RemovePipe, which the core calls once per pipe (C13.3)"
	}
	// I8: the close sits in a single-use private helper and the channel belongs to one of its
	// parameters: judge the owner where the helper is called, as if its body stood there
	if fa != nil {
		root := fa.X
		for {
			if f2, ok := root.(*ssa.FieldAddr); ok {
				root = f2.X
				continue
			}
			break
		}
		if par, ok := root.(*ssa.Parameter); ok && p.singleUse(fn) {
			idx := -1
			for i, q := range fn.Params {
				if q == par {
					idx = i
				}
			}
			if n := p.CG().Nodes[fn]; n != nil && idx >= 0 {
				for _, e := range n.In {
					if e.Site == nil || e.Site.Common().StaticCallee() != fn || idx >= len(e.Site.Common().Args) {
						continue
					}
					av := e.Site.Common().Args[idx]
					if al := freshRoot(av); al != nil {
						return "fresh-object", "channel of an object the (only) caller " + p.FuncName(e.Caller.Func) + " has just allocated"
					}
					if k, why := p.detachedOwner(e.Caller.Func, e.Site, av); k != "" {
						return k, why + " (in the only caller, " + p.FuncName(e.Caller.Func) + ")"
					}
				}
			}
		}
	}
	// I7: the owner object was taken out of a container field (slice) that this function
	// re-stores under a lock before the close (inproc accepters popped / detached)
	if fa != nil {
		if k, why := p.detachedOwner(fn, in, fa.X); k != "" {
			return k, why
		}
	}
	return "", ""
}

// detachedOwner: obj was read out of a container field (slice) that fn re-stores under a
// lock before instruction in.
func (p *Prog) detachedOwner(fn *ssa.Function, in ssa.Instruction, obj ssa.Value) (string, string) {
	// a variable that is nil until the element is taken (`var server *T … server = list[i]`):
	// where it is used it is the element
	if ph, ok := obj.(*ssa.Phi); ok {
		var only ssa.Value
		seen := map[*ssa.Phi]bool{}
		okShape := true
		var walk func(x *ssa.Phi)
		walk = func(x *ssa.Phi) {
			if seen[x] {
				return
			}
			seen[x] = true
			for _, e := range x.Edges {
				switch y := e.(type) {
				case *ssa.Const:
					if !y.IsNil() {
						okShape = false
					}
				case *ssa.Phi:
					walk(y)
				default:
					if only != nil && only != e {
						okShape = false
					}
					only = e
				}
			}
		}
		walk(ph)
		if okShape && only != nil {
			obj = only
		}
	}
	{
		if u, ok := obj.(*ssa.UnOp); ok && u.Op == token.MUL {
			if ia, ok := u.X.(*ssa.IndexAddr); ok {
				if cf := chanField(ia.X); cf != nil {
					cfv := FieldVar(cf)
					found := ""
					EachInstr(fn, func(ins ssa.Instruction) {
						st, ok := ins.(*ssa.Store)
						if !ok {
							return
						}
						sfa, ok := st.Addr.(*ssa.FieldAddr)
						if !ok || FieldVar(sfa) != cfv {
							return
						}
						if (InstrDominates(st, in) || MustPassFeasible(st, in)) && len(p.heldAbs(fn, st)) > 0 {
							found = Desc(sfa)
						}
					})
					if found != "" {
						return "detached", "owner was removed from " + found + " under a lock before the close"
					}
				}
			}
		}
	}
	return "", ""
}

func isFreshChan(v ssa.Value) bool {
	switch x := v.(type) {
	case *ssa.MakeChan:
		return true
	case *ssa.ChangeType:
		return isFreshChan(x.X)
	case *ssa.Phi:
		for _, e := range x.Edges {
			if !isFreshChan(e) {
				return false
			}
		}
		return len(x.Edges) > 0
	}
	return false
}

// heldAbs: abstract locks held at an instruction (local ∪ entry).
func (p *Prog) heldAbs(fn *ssa.Function, in ssa.Instruction) map[string]bool {
	out := map[string]bool{}
	if in != nil {
		for _, h := range p.E1().held[in] {
			out[h.Abs] = true
		}
	}
	for k := range p.E3().entry[fn] {
		out[k] = true
	}
	return out
}

// e10Close: every builtin close in scope follows a close-once idiom.
func e10Close(p *Prog, r *Report, rule string) {
	n := 0
	perFn := map[string]int{}
	for _, fn := range p.Funcs {
		EachInstr(fn, func(in ssa.Instruction) {
			c := CallOf(in)
			if c == nil || !IsBuiltin(c, "close") {
				return
			}
			if _, isDefer := in.(*ssa.Defer); isDefer {
				r.Unk(rule, p.FuncName(fn)+"/deferred-close", p.InstrPos(in), "deferred close: idiom not enumerated")
				return
			}
			n++
			fname := p.FuncName(fn)
			perFn[fname]++
			key := fmt.Sprintf("%s/close(%s)#%d", fname, Desc(c.Args[0]), perFn[fname])
			kind, why := p.classifyClose(fn, in, c)
			if kind == "" {
				r.Bad(rule, key, p.InstrPos(in), "close of a channel that follows none of the close-once idioms (once / flag check-and-set / swap under lock / RemovePipe / init / fresh): a second close would panic")
				return
			}
			r.OK(rule, key, p.InstrPos(in), kind+": "+why)
		})
	}
	r.Count("e10.close_sites", n)
}

// ---------------------------------------------------------------------------------
// capacity: non-negative sizes for every make(chan T, n)

type nonnegCtx struct {
	p     *Prog
	depth int
	seenF map[*types.Var]bool
}

// nonneg reports whether v is provably >= min (min is 0 or 1) at instruction `at`.
func (p *Prog) nonneg(v ssa.Value, at ssa.Instruction, min int64) (bool, string) {
	ctx := &nonnegCtx{p: p, seenF: map[*types.Var]bool{}}
	return ctx.nonneg(v, at, min)
}

func (c *nonnegCtx) nonneg(v ssa.Value, at ssa.Instruction, min int64) (bool, string) {
	c.depth++
	defer func() { c.depth-- }()
	if c.depth > 8 {
		return false, "too deep"
	}
	if k, ok := ConstInt(v); ok {
		if k >= min {
			return true, fmt.Sprintf("constant %d", k)
		}
		return false, fmt.Sprintf("constant %d < %d", k, min)
	}
	d := Desc(v)
	// guard atoms at the use
	if at != nil {
		for _, g := range c.p.GuardStrings(at) {
			if ok := atomImplies(g, d, min); ok {
				return true, "guarded by " + g
			}
		}
	}
	switch x := v.(type) {
	case *ssa.Call:
		if IsBuiltin(&x.Call, "len") || IsBuiltin(&x.Call, "cap") {
			if min == 0 {
				return true, "len/cap"
			}
		}
		// a private getter (`func (s *socket) writeQLen() int { lock; v := s.sendQLen; unlock; return v }`):
		// every value it can return must satisfy the bound
		if sc := x.Call.StaticCallee(); sc != nil && sc.Blocks != nil && c.p.moduleFunc(sc) && sc.Signature.Results().Len() == 1 {
			n := 0
			for _, b := range sc.Blocks {
				ret, isRet := b.Instrs[len(b.Instrs)-1].(*ssa.Return)
				if !isRet || (sc.Recover != nil && b == sc.Recover) {
					continue
				}
				n++
				if ok, why := c.nonneg(resolveSpill(ret.Results[0], ret), nil, min); !ok {
					return false, "value returned by " + c.p.FuncName(sc) + ": " + why
				}
			}
			if n > 0 {
				return true, "every value returned by " + c.p.FuncName(sc)
			}
		}
	case *ssa.Convert:
		return c.nonneg(x.X, at, min)
	case *ssa.ChangeType:
		return c.nonneg(x.X, at, min)
	case *ssa.Extract:
		// comma-ok type assertion result: need a guard (handled above)
		// also accept guards that dominate the definition when `at` is in another block
	case *ssa.Phi:
		for _, e := range x.Edges {
			if ok, why := c.nonneg(e, nil, min); !ok {
				return false, "phi edge: " + why
			}
		}
		return true, "all phi edges"
	case *ssa.UnOp:
		if x.Op == token.MUL {
			if fa, ok := x.X.(*ssa.FieldAddr); ok {
				return c.fieldNonneg(fa, min)
			}
		}
	case *ssa.Parameter:
		return c.paramNonneg(x, min)
	}
	return false, "no dominating guard `" + d + fmt.Sprintf(" >= %d` and not derivable", min)
}

// atomImplies: does guard atom g imply `d >= min`?
func atomImplies(g, d string, min int64) bool {
	if !strings.HasPrefix(g, d+" ") {
		return false
	}
	rest := strings.TrimPrefix(g, d+" ")
	parts := strings.SplitN(rest, " ", 2)
	if len(parts) != 2 {
		return false
	}
	var k int64
	if _, err := fmt.Sscanf(parts[1], "%d", &k); err != nil {
		return false
	}
	switch parts[0] {
	case ">=":
		return k >= min
	case ">":
		return k+1 >= min
	case "==":
		return k >= min
	}
	return false
}

// fieldNonneg: every store to the field anywhere in scope stores a value >= min.
func (c *nonnegCtx) fieldNonneg(fa *ssa.FieldAddr, min int64) (bool, string) {
	fv := FieldVar(fa)
	if fv == nil {
		return false, "unknown field"
	}
	if c.seenF[fv] {
		return true, "recursive"
	}
	c.seenF[fv] = true
	n := 0
	for _, fn := range c.p.Funcs {
		var bad string
		EachInstr(fn, func(in ssa.Instruction) {
			st, ok := in.(*ssa.Store)
			if !ok || bad != "" {
				return
			}
			sfa, ok := st.Addr.(*ssa.FieldAddr)
			if !ok || FieldVar(sfa) != fv {
				return
			}
			n++
			if ok, why := c.nonneg(st.Val, st, min); !ok {
				bad = fmt.Sprintf("store to %s at %s: %s", fv.Name(), c.p.InstrPos(st), why)
			}
		})
		if bad != "" {
			return false, bad
		}
	}
	// zero value of an int field is 0
	if min > 0 {
		// the field must be initialised explicitly wherever the struct is allocated:
		// accept only if some store exists (constructors) — conservative note
		if n == 0 {
			return false, "field never stored (zero value 0 < min)"
		}
	}
	return true, fmt.Sprintf("all %d stores to field %s are >= %d", n, fv.Name(), min)
}

// paramNonneg: every static call site passes a value >= min.
func (c *nonnegCtx) paramNonneg(par *ssa.Parameter, min int64) (bool, string) {
	fn := par.Parent()
	e3 := c.p.E3()
	if e3.open[fn] || len(e3.callers[fn]) == 0 {
		return false, "parameter of a function with unknown callers"
	}
	idx := -1
	for i, pp := range fn.Params {
		if pp == par {
			idx = i
		}
	}
	for _, site := range e3.callers[fn] {
		cc := CallOf(site)
		if cc == nil || cc.StaticCallee() != fn || idx >= len(cc.Args) {
			return false, "non-static call site"
		}
		if ok, why := c.nonneg(cc.Args[idx], site, min); !ok {
			return false, "call site " + c.p.InstrPos(site) + ": " + why
		}
	}
	return true, "all call sites"
}

// e10Capacity: every make(chan T, n) with non-constant n has n >= 0 (n >= 1 for the
// channels listed in needOne: package-rel + "." + field the channel is stored to).
func e10Capacity(p *Prog, r *Report, rule string, needOne map[string]string, only ...func(dest string) bool) {
	n := 0
	per := map[string]int{}
	for _, fn := range p.Funcs {
		EachInstr(fn, func(in ssa.Instruction) {
			mc, ok := in.(*ssa.MakeChan)
			if !ok {
				return
			}
			// which field does this channel end up in?
			dest := ""
			for _, ref := range *mc.Referrers() {
				if st, ok := ref.(*ssa.Store); ok && st.Val == mc {
					if fa, ok := st.Addr.(*ssa.FieldAddr); ok {
						if nn := namedOf(fa.X.Type()); nn != nil {
							dest = TypeKey(nn) + "." + fieldName(fa.X.Type(), fa.Field)
						}
					}
				}
			}
			if len(only) > 0 && !only[0](dest) {
				return
			}
			min := int64(0)
			why1 := ""
			if w, ok := needOne[dest]; ok {
				min = 1
				why1 = " (needs capacity >= 1: " + w + ")"
			}
			if _, isConst := ConstInt(mc.Size); isConst && min == 0 {
				return // constant sizes are compile-time checked
			}
			n++
			fname := p.FuncName(fn)
			per[fname+dest]++
			key := fmt.Sprintf("%s/make(chan->%s)#%d", fname, dest, per[fname+dest])
			ok2, why := p.nonneg(mc.Size, mc, min)
			if ok2 {
				r.OK(rule, key, p.InstrPos(in), fmt.Sprintf("size %s >= %d: %s", Desc(mc.Size), min, why))
			} else {
				r.Bad(rule, key, p.InstrPos(in), fmt.Sprintf("channel size %s not proven >= %d%s: %s", Desc(mc.Size), min, why1, why))
			}
		})
	}
	r.Count("e10.option_fed_make_chan", n)
}

// ---------------------------------------------------------------------------------
// resize arms

// swapFields: channel fields whose old value some function closes after replacing it
// (the resize-notify channels, e.g. sizeQ).
func (p *Prog) swapFields() map[*types.Var]bool {
	out := map[*types.Var]bool{}
	for _, fn := range p.Funcs {
		EachInstr(fn, func(in ssa.Instruction) {
			c := CallOf(in)
			if c == nil || !IsBuiltin(c, "close") {
				return
			}
			if kind, _ := p.classifyClose(fn, in, c); kind == "swap" {
				if fa := chanField(c.Args[0]); fa != nil {
					out[FieldVar(fa)] = true
				}
			}
		})
	}
	return out
}

// selectArmTarget returns the block executed when select `sel` takes case k.
func selectArmTarget(sel *ssa.Select, k int) *ssa.BasicBlock {
	// find Extract #0 of the select, then the If chain comparing it to constants
	var idx ssa.Value
	for _, ref := range *sel.Referrers() {
		if ex, ok := ref.(*ssa.Extract); ok && ex.Index == 0 {
			idx = ex
		}
	}
	if idx == nil {
		return nil
	}
	for _, ref := range *idx.Referrers() {
		bo, ok := ref.(*ssa.BinOp)
		if !ok || bo.Op != token.EQL {
			continue
		}
		kv, ok := ConstInt(bo.Y)
		if !ok || int(kv) != k {
			continue
		}
		for _, r2 := range *bo.Referrers() {
			if iff, ok := r2.(*ssa.If); ok {
				return iff.Block().Succs[0]
			}
		}
	}
	return nil
}

// innermostLoopHead: header of the innermost natural loop containing b, nil if none.
// The natural loop of a back edge t->h (h dominates t) is h plus every block that reaches
// t without passing through h.
func innermostLoopHead(b *ssa.BasicBlock, reach [][]bool) *ssa.BasicBlock {
	fn := b.Parent()
	var best *ssa.BasicBlock
	bestSize := 0
	for _, t := range fn.Blocks {
		for _, h := range t.Succs {
			if !h.Dominates(t) {
				continue // not a back edge
			}
			body := map[*ssa.BasicBlock]bool{h: true}
			stack := []*ssa.BasicBlock{t}
			for len(stack) > 0 {
				x := stack[len(stack)-1]
				stack = stack[:len(stack)-1]
				if body[x] {
					continue
				}
				body[x] = true
				stack = append(stack, x.Preds...)
			}
			if !body[b] {
				continue
			}
			if best == nil || len(body) < bestSize {
				best, bestSize = h, len(body)
			}
		}
	}
	return best
}

// e10ResizeArms: in per-pipe goroutines, the select arm on a resize-notify channel leads
// back to the loop head on every path, never to a return or a Close call.
func e10ResizeArms(p *Prog, r *Report, rule string) {
	sf := p.swapFields()
	n := 0
	for _, fn := range p.Funcs {
		if fn.Signature.Recv() == nil && fn.Parent() == nil {
			continue
		}
		reach := blockReach(fn)
		EachInstr(fn, func(in ssa.Instruction) {
			sel, ok := in.(*ssa.Select)
			if !ok {
				return
			}
			for k, st := range sel.States {
				if st.Dir != types.RecvOnly {
					continue
				}
				fa := chanField(st.Chan)
				if fa == nil || !sf[FieldVar(fa)] {
					continue
				}
				head := innermostLoopHead(sel.Block(), reach)
				if head == nil {
					continue // not in a loop: API-side select, the arm may return
				}
				// only goroutine loops that end by closing the pipe are in scope
				n++
				// (keyed by the field, not by how this function reaches the object)
				key := fmt.Sprintf("%s/select-arm(<-%s)", p.FuncName(fn), fieldKeyOf(fa))
				tgt := selectArmTarget(sel, k)
				if tgt == nil {
					r.Unk(rule, key, p.InstrPos(in), "cannot locate the arm of the select")
					continue
				}
				// DFS from tgt, not crossing head
				seen := map[*ssa.BasicBlock]bool{}
				stack := []*ssa.BasicBlock{tgt}
				bad := ""
				for len(stack) > 0 && bad == "" {
					b := stack[len(stack)-1]
					stack = stack[:len(stack)-1]
					if seen[b] || b == head {
						continue
					}
					seen[b] = true
					for _, ins := range b.Instrs {
						if _, ok := ins.(*ssa.Return); ok {
							bad = "reaches a return at " + p.InstrPos(ins)
						}
						if cc := CallOf(ins); cc != nil {
							name := ""
							if cc.IsInvoke() {
								name = cc.Method.Name()
							} else if sc := cc.StaticCallee(); sc != nil {
								name = sc.Name()
							}
							if name == "Close" || name == "close" {
								bad = "reaches " + name + "() at " + p.InstrPos(ins)
							}
						}
					}
					if !reach[b.Index][head.Index] && b != head {
						if bad == "" {
							bad = "leaves the loop at block " + fmt.Sprint(b.Index)
						}
					}
					stack = append(stack, b.Succs...)
				}
				if bad != "" {
					r.Bad(rule, key, p.InstrPos(in), "queue-resize arm does not return to the loop: "+bad+" (a resize would disconnect the peer / end the goroutine)")
				} else {
					r.OK(rule, key, p.InstrPos(in), "arm leads back to the loop head")
				}
			}
		})
	}
	r.Count("e10.resize_arms", n)
}

// ---------------------------------------------------------------------------------
// E10b: no send on a closed channel.  A channel field that is both closed and sent to is
// safe only if every sender obtains the owner by a lookup in a container M under a lock L
// and sends inside that same critical section, and every close is dominated by the
// removal of the owner from M under L.

func e10SendOnClosable(p *Prog, r *Report, rule string) {
	type site struct {
		fn *ssa.Function
		in ssa.Instruction
		ch ssa.Value
	}
	closes := map[*types.Var][]site{}
	sends := map[*types.Var][]site{}
	for _, fn := range p.Funcs {
		EachInstr(fn, func(in ssa.Instruction) {
			switch x := in.(type) {
			case *ssa.Send:
				if fa := chanField(x.Chan); fa != nil {
					sends[FieldVar(fa)] = append(sends[FieldVar(fa)], site{fn, in, x.Chan})
				}
			case *ssa.Select:
				for _, st := range x.States {
					if st.Dir == types.SendOnly {
						if fa := chanField(st.Chan); fa != nil {
							sends[FieldVar(fa)] = append(sends[FieldVar(fa)], site{fn, in, st.Chan})
						}
					}
				}
			case ssa.CallInstruction:
				c := x.Common()
				if IsBuiltin(c, "close") {
					if fa := chanField(c.Args[0]); fa != nil {
						closes[FieldVar(fa)] = append(closes[FieldVar(fa)], site{fn, in, c.Args[0]})
					}
				}
			}
		})
	}
	n := 0
	for fv, ss := range sends {
		cs := closes[fv]
		if len(cs) == 0 {
			continue
		}
		n++
		fkey := fv.Pkg().Name() + "." + fv.Name()
		// senders
		var mapField *types.Var
		lockAbs := ""
		for _, s := range ss {
			key := fmt.Sprintf("%s/send(%s)", p.FuncName(s.fn), fkey)
			fa := chanField(s.ch)
			owner := fa.X
			// owner must come from a comma-ok map lookup
			var lk *ssa.Lookup
			if ex, ok := owner.(*ssa.Extract); ok {
				lk, _ = ex.Tuple.(*ssa.Lookup)
			}
			if lk == nil || !lk.CommaOk {
				r.Bad(rule, key, p.InstrPos(s.in), "send on "+fkey+", a channel that is closed elsewhere, whose owner is not obtained by a checked lookup in the same critical section: a concurrent close makes this send panic")
				continue
			}
			mfa := chanField(lk.X)
			if mfa == nil {
				r.Bad(rule, key, p.InstrPos(s.in), "owner lookup is not in a container field")
				continue
			}
			// same critical section: a lock acquisition instance held at both
			same := ""
			for _, h1 := range p.E1().held[lk] {
				for _, h2 := range p.E1().held[s.in] {
					if h1.At == h2.At {
						same = h1.Abs
					}
				}
			}
			if same == "" {
				r.Bad(rule, key, p.InstrPos(s.in), "the send on "+fkey+" is not in the critical section in which its owner was looked up (lock released in between): the owner can be cancelled and the channel closed before the send => panic: send on closed channel")
				continue
			}
			mapField = FieldVar(mfa)
			lockAbs = same
			r.OK(rule, key, p.InstrPos(s.in), "owner looked up in "+Desc(mfa)+" and sent to within one critical section of "+same)
		}
		for _, c := range cs {
			key := fmt.Sprintf("%s/close(%s)", p.FuncName(c.fn), fkey)
			if mapField == nil {
				r.Bad(rule, key, p.InstrPos(c.in), "close of "+fkey+" which is also sent to, and no disciplined sender was found")
				continue
			}
			// the removal: a delete(map, …) under the lock, or a call of a private helper that
			// performs one on every path
			var removes func(in ssa.Instruction, d int) bool
			removes = func(in ssa.Instruction, d int) bool {
				cc := CallOf(in)
				if cc == nil {
					return false
				}
				if _, isGo := in.(*ssa.Go); isGo {
					return false
				}
				if IsBuiltin(cc, "delete") {
					mfa := chanField(cc.Args[0])
					if mfa == nil || FieldVar(mfa) != mapField {
						return false
					}
					for _, h := range p.E1().held[in] {
						if h.Abs == lockAbs {
							return true
						}
					}
					return false
				}
				sc := cc.StaticCallee()
				if sc == nil || sc.Blocks == nil || d >= 2 || in.Parent() == nil || sc.Pkg != in.Parent().Pkg || !lowerName(sc.Name()) {
					return false
				}
				found := false
				EachInstr(sc, func(x ssa.Instruction) {
					if !found && removes(x, d+1) && everyPath(x) {
						found = true
					}
				})
				return found
			}
			var dominatedAt func(fn *ssa.Function, at ssa.Instruction, d int) bool
			dominatedAt = func(fn *ssa.Function, at ssa.Instruction, d int) bool {
				ok := false
				EachInstr(fn, func(in ssa.Instruction) {
					if !ok && in != at && InstrDominates(in, at) && removes(in, 0) {
						ok = true
					}
				})
				if ok || d >= 2 || fn.Parent() != nil || !lowerName(fn.Name()) {
					return ok
				}
				// the close sits in a private helper: the removal precedes every call of it
				node := p.CG().Nodes[fn]
				if node == nil {
					return false
				}
				sites := 0
				for _, e := range node.In {
					if e.Site == nil || e.Site.Common().StaticCallee() != fn {
						return false
					}
					if _, isGo := e.Site.(*ssa.Go); isGo {
						return false
					}
					sites++
					if !dominatedAt(e.Caller.Func, e.Site, d+1) {
						return false
					}
				}
				return sites > 0
			}
			ok := dominatedAt(c.fn, c.in, 0)
			if ok {
				r.OK(rule, key, p.InstrPos(c.in), "dominated by the removal of the owner from "+mapField.Name()+" under "+lockAbs)
			} else {
				r.Bad(rule, key, p.InstrPos(c.in), "close of "+fkey+" is not dominated by delete("+mapField.Name()+", …) under "+lockAbs+": a sender that still finds the owner sends on a closed channel")
			}
		}
	}
	r.Count("e10.closed_and_sent_channel_fields", n)
}

// queueSwapWakes: whenever a published object's message queue (recvQ/sendQ) is replaced by
// a new channel, the goroutines blocked on the OLD channel must be told: the object's
// sizeQ is closed (and replaced) in the same step.  If the wake-up is skipped or made
// conditional, a Recv/Send parked on the orphaned channel waits for messages that now go
// to the new one.
func queueSwapWakes(p *Prog, r *Report, R string, inPkg func(rel string) bool) {
	n := 0
	for _, fn := range p.Funcs {
		rel, _ := p.FuncRel(fn)
		if !inPkg(rel) {
			continue
		}
		evs := p.Events(fn)
		for _, e := range evs {
			if e.Kind != "store" || !strings.HasPrefix(e.Args[0], "make(chan,") {
				continue
			}
			i := strings.LastIndex(e.What, ".")
			if i < 0 {
				continue
			}
			base, fld := e.What[:i], strings.ToLower(e.What[i+1:])
			if (fld != "recvq" && fld != "sendq") || strings.HasPrefix(base, "$complit") {
				continue
			}
			st, ok := e.In.(*ssa.Store)
			if !ok {
				continue
			}
			fa, ok := st.Addr.(*ssa.FieldAddr)
			if !ok {
				continue
			}
			hasSizeQ := false
			if pt, ok := fa.X.Type().Underlying().(*types.Pointer); ok {
				if stt, ok := pt.Elem().Underlying().(*types.Struct); ok {
					for k := 0; k < stt.NumFields(); k++ {
						if stt.Field(k).Name() == "sizeQ" {
							hasSizeQ = true
						}
					}
				}
			}
			if !hasSizeQ {
				continue
			}
			n++
			ok = false
			var closes Sel
			for _, c := range evs {
				if c.Kind == "close" && len(c.Args) == 1 && strings.HasSuffix(c.Args[0], ".sizeQ") && strings.HasPrefix(c.Args[0], base+".") {
					closes = append(closes, c)
					if c.In.Block() == e.In.Block() {
						ok = true
					}
				}
			}
			if !ok && len(closes) > 0 {
				// not in the same block: then on every path from the replacement to the return
				ok, _ = NewQ(p, r).mustPass(e.In, closes)
			}
			r.Check(ok, R, p.FuncName(fn)+"/"+e.What, p.InstrPos(e.In), "the old sizeQ is closed in the step that replaces the queue", "the queue "+e.What+" is replaced without (unconditionally, in the same step) closing the object's sizeQ: a call blocked on the old channel is never woken and misses everything sent to the new one")
		}
	}
	r.Count("e10.queue_swaps", n)
}
