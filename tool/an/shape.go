package an

import (
	"fmt"
	"go/constant"
	"go/token"
	"go/types"
	"sort"
	"strings"

	"golang.org/x/tools/go/ssa"
)

// E7 SHAPE: the predicates anchored rules are written in.  An anchored rule selects
// instructions of a named function by resolved callee / field / canonical access path
// (never by source text or line) and states a relation in the IR: dominance, guard atoms,
// must-reach, who-may-call, who-may-write.

// Ev is one notable event (instruction) of a function in canonical form.
type Ev struct {
	Fn    *ssa.Function
	In    ssa.Instruction
	Kind  string   // call, go, defer, store, mapupdate, delete, send, recv, select-send, select-recv, return, close, makechan, panic
	What  string   // canonical description: callee name / address path / channel path
	Args  []string // call args / stored value / returned values
	Arm   int      // select arm index (select-* kinds)
	Guard []string // normalised guard atoms dominating the event
	Held  []string // abstract locks held (local ∪ entry)
	// Site is set for an event that was found in a helper function called (statically,
	// same package) from the anchor function: the call instruction in the anchor function
	// through which it is reached.  Its descriptions are in the anchor's terms (arguments
	// substituted), its guards and locks include those of the call site.
	Site ssa.Instruction
	// Subst: for a helper event, how the helper's parameters read in the anchor's terms.
	Subst map[*ssa.Parameter]string
	// Way: for a return split per way into a merge of result values (splitReturn), the block
	// through which this way enters the merge: what dominates that block precedes this return.
	Way *ssa.BasicBlock
}

// At is the instruction that locates the event inside the anchor function: the event's own
// instruction, or the call site of the helper it was found in.
func (e *Ev) At() ssa.Instruction {
	if e.Site != nil {
		return e.Site
	}
	return e.In
}

func (e *Ev) String() string {
	s := e.Kind + " " + e.What
	if len(e.Args) > 0 {
		s += " (" + strings.Join(e.Args, ", ") + ")"
	}
	return s
}

// CalleeName: canonical name of what a call invokes.
func CalleeName(c *ssa.CallCommon) string {
	if c.IsInvoke() {
		t := c.Value.Type()
		tn := typeShort(t)
		if n, ok := t.(*types.Named); ok {
			tn = n.Obj().Name()
		} else if a, ok := t.(*types.Alias); ok {
			if n, ok := types.Unalias(a).(*types.Named); ok {
				tn = n.Obj().Name()
			}
		}
		return tn + "." + c.Method.Name()
	}
	switch f := c.Value.(type) {
	case *ssa.Function:
		return FuncShort(f)
	case *ssa.Builtin:
		return f.Name()
	case *ssa.MakeClosure:
		if fn, ok := f.Fn.(*ssa.Function); ok {
			return FuncShort(fn)
		}
	}
	if isHookType(c.Value.Type()) {
		return "PipeEventHook"
	}
	return "dyn:" + Desc(c.Value)
}

// ConstVal returns the canonical rendering of a package-level constant of the module.
func (p *Prog) ConstVal(rel, name string) string {
	pk := p.ByRel[rel]
	if pk == nil {
		return "?" + name
	}
	c, ok := pk.Types.Scope().Lookup(name).(*types.Const)
	if !ok {
		return "?" + name
	}
	if c.Val().Kind() == constant.String {
		return c.Val().ExactString()
	}
	return c.Val().String()
}

// Events lists the notable events of fn (not of nested closures) in block order.
func (p *Prog) Events(fn *ssa.Function) []*Ev {
	var out []*Ev
	for _, b := range fn.Blocks {
		for _, in := range b.Instrs {
			var ev *Ev
			switch x := in.(type) {
			case *ssa.Go:
				ev = &Ev{Kind: "go", What: CalleeName(&x.Call)}
				for _, a := range x.Call.Args {
					ev.Args = append(ev.Args, Desc(a))
				}
				if x.Call.IsInvoke() {
					ev.Args = append([]string{Desc(x.Call.Value)}, ev.Args...)
				}
			case *ssa.Defer:
				ev = &Ev{Kind: "defer", What: CalleeName(&x.Call)}
				for _, a := range x.Call.Args {
					ev.Args = append(ev.Args, Desc(a))
				}
			case *ssa.Call:
				c := &x.Call
				name := CalleeName(c)
				kind := "call"
				if name == "close" {
					kind = "close"
				} else if name == "delete" {
					kind = "delete"
				} else if name == "len" || name == "cap" || name == "append" || name == "copy" {
					if name == "len" || name == "cap" {
						continue
					}
				}
				ev = &Ev{Kind: kind, What: name}
				if c.IsInvoke() {
					ev.Args = append(ev.Args, Desc(c.Value))
				}
				for _, a := range c.Args {
					ev.Args = append(ev.Args, Desc(a))
				}
			case *ssa.Store:
				ev = &Ev{Kind: "store", What: Desc(x.Addr), Args: []string{Desc(x.Val)}}
			case *ssa.MapUpdate:
				ev = &Ev{Kind: "mapupdate", What: Desc(x.Map), Args: []string{Desc(x.Key), Desc(x.Value)}}
			case *ssa.Send:
				ev = &Ev{Kind: "send", What: Desc(x.Chan), Args: []string{Desc(x.X)}}
			case *ssa.UnOp:
				if x.Op == token.ARROW {
					ev = &Ev{Kind: "recv", What: Desc(x.X)}
				}
			case *ssa.Select:
				for i, st := range x.States {
					k := "select-recv"
					var args []string
					if st.Dir == types.SendOnly {
						k = "select-send"
						args = []string{Desc(st.Send)}
					}
					e := &Ev{Fn: fn, In: in, Kind: k, What: Desc(st.Chan), Args: args, Arm: i}
					if !x.Blocking {
						e.Args = append(e.Args, "nonblocking")
					}
					e.Guard = p.GuardStrings(in)
					e.Held = p.mutexesHeld(fn, in)
					out = append(out, e)
				}
				continue
			case *ssa.Return:
				if vs := p.splitReturn(fn, x); vs != nil {
					out = append(out, vs...)
					continue
				}
				ev = &Ev{Kind: "return"}
				for _, rv := range x.Results {
					ev.Args = append(ev.Args, Desc(resolveSpill(rv, in)))
				}
			case *ssa.MakeChan:
				ev = &Ev{Kind: "makechan", What: Desc(x.Size)}
			case *ssa.Panic:
				ev = &Ev{Kind: "panic", What: Desc(x.X)}
			}
			if ev == nil {
				continue
			}
			ev.Fn = fn
			ev.In = in
			ev.Guard = p.GuardStrings(in)
			ev.Held = p.mutexesHeld(fn, in)
			out = append(out, ev)
		}
	}
	return out
}

// splitReturn: a function written with a single exit (`err = X … return err`) returns a merge
// of values.  Such a return is reported as one return per way into the merge: the value that
// way carries, under the conditions of that way (and, where the code between the merge and
// the return tests merged values — `if drop { m.Free() }` — those tests folded for that way).
// The rules then see what they see in the multi-exit form of the same function.
func (p *Prog) splitReturn(fn *ssa.Function, ret *ssa.Return) []*Ev {
	var join *ssa.BasicBlock
	res := make([]ssa.Value, len(ret.Results))
	for i, rv := range ret.Results {
		res[i] = resolveSpill(rv, ret)
		if ph, ok := res[i].(*ssa.Phi); ok {
			if join == nil {
				join = ph.Block()
			} else if join != ph.Block() {
				return nil
			}
		}
	}
	if join == nil || len(join.Preds) < 2 || len(join.Preds) > 8 {
		return nil
	}
	rb := ret.Block()
	if join != rb && !join.Dominates(rb) {
		return nil
	}
	// a merge at a loop header is not an exit merge
	for _, pr := range join.Preds {
		if join.Dominates(pr) {
			return nil
		}
	}
	// the conditions between the merge and the return
	base := map[Atom]bool{}
	for _, a := range p.GuardsOf(join) {
		base[a] = true
	}
	var between []Atom
	for _, a := range p.GuardsOf(rb) {
		if !base[a] {
			between = append(between, a)
		}
	}
	held := p.mutexesHeld(fn, ret)
	var out []*Ev
	for k, pr := range join.Preds {
		env := map[*ssa.Phi]ssa.Value{}
		for _, in := range join.Instrs {
			if ph, ok := in.(*ssa.Phi); ok {
				env[ph] = ph.Edges[k]
			}
		}
		subst := func(v ssa.Value) ssa.Value {
			if ph, ok := v.(*ssa.Phi); ok {
				if e, ok := env[ph]; ok {
					return e
				}
			}
			return v
		}
		e := &Ev{Fn: fn, In: ret, Kind: "return", Held: held, Way: pr}
		for _, rv := range res {
			e.Args = append(e.Args, Desc(subst(rv)))
		}
		seen := map[string]bool{}
		add := func(s string) {
			if !seen[s] {
				seen[s] = true
				e.Guard = append(e.Guard, s)
			}
		}
		if len(pr.Instrs) > 0 {
			for _, g := range p.GuardStrings(pr.Instrs[len(pr.Instrs)-1]) {
				add(g)
			}
			if iff, ok := pr.Instrs[len(pr.Instrs)-1].(*ssa.If); ok && pr.Succs[0] != pr.Succs[1] {
				for j, sc := range pr.Succs {
					if sc == join {
						add(NormAtom(iff.Cond, j == 0))
					}
				}
			}
		}
		feasible := true
		for _, a := range between {
			c := a.Cond
			// fold tests on merged values for this way
			if v, known := foldUnder(c, env); known {
				if v != a.Pol {
					feasible = false
				}
				continue
			}
			add(NormAtom(c, a.Pol))
		}
		if feasible {
			out = append(out, e)
		}
	}
	if len(out) == 0 {
		return nil
	}
	return out
}

// foldUnder evaluates a condition on merged values once the way into the merge is fixed:
// a boolean merge that is a constant on that way, or a comparison of a merge with nil / a
// constant where that way's value is a constant too.
func foldUnder(c ssa.Value, env map[*ssa.Phi]ssa.Value) (bool, bool) {
	val := func(v ssa.Value) ssa.Value {
		if ph, ok := v.(*ssa.Phi); ok {
			if e, ok := env[ph]; ok {
				return e
			}
		}
		return v
	}
	switch x := c.(type) {
	case *ssa.Phi:
		if k, ok := val(x).(*ssa.Const); ok && k.Value != nil && k.Value.Kind() == constant.Bool {
			return constant.BoolVal(k.Value), true
		}
	case *ssa.UnOp:
		if x.Op == token.NOT {
			if v, ok := foldUnder(x.X, env); ok {
				return !v, true
			}
		}
	case *ssa.BinOp:
		if x.Op != token.EQL && x.Op != token.NEQ {
			return false, false
		}
		_, px := x.X.(*ssa.Phi)
		_, py := x.Y.(*ssa.Phi)
		if !px && !py {
			return false, false
		}
		a, b := val(x.X), val(x.Y)
		ca, oka := constLikeValue(a)
		cb, okb := constLikeValue(b)
		if oka && okb {
			eq := ca == cb
			return eq == (x.Op == token.EQL), true
		}
	}
	return false, false
}

// constLikeValue: a rendering of a compile-time constant (through interface conversions).
func constLikeValue(v ssa.Value) (string, bool) {
	for {
		switch x := v.(type) {
		case *ssa.MakeInterface:
			v = x.X
			continue
		case *ssa.ChangeType:
			v = x.X
			continue
		case *ssa.Const:
			if x.Value == nil {
				return "nil", true
			}
			return x.Value.ExactString(), true
		}
		return "", false
	}
}

// resolveSpill: functions with defer return through spilled result variables
// (`store new (x); rundefers; return *new`).  For a returned load of a local Alloc, use
// the value of the last store to that Alloc in the same block.
func resolveSpill(v ssa.Value, at ssa.Instruction) ssa.Value {
	u, ok := v.(*ssa.UnOp)
	if !ok || u.Op != token.MUL {
		return v
	}
	al, ok := u.X.(*ssa.Alloc)
	if !ok {
		return v
	}
	b := at.Block()
	var last ssa.Value
	for _, in := range b.Instrs {
		if in == at {
			break
		}
		if st, ok := in.(*ssa.Store); ok && st.Addr == al {
			last = st.Val
		}
	}
	if last != nil {
		return last
	}
	// single predecessor chain
	for pb := b; len(pb.Preds) == 1; {
		pb = pb.Preds[0]
		for _, in := range pb.Instrs {
			if st, ok := in.(*ssa.Store); ok && st.Addr == al {
				last = st.Val
			}
		}
		if last != nil {
			return last
		}
	}
	return v
}

// DumpFn prints the events of a function and its closures (debug aid for writing rules).
func (p *Prog) DumpFn(fn *ssa.Function) {
	for _, f := range WithClosures(fn) {
		fmt.Printf("== %s  entry-locks=%s\n", p.FuncName(f), lockList(p.E3().entry[f]))
		for _, e := range p.Events(f) {
			extra := ""
			if strings.HasPrefix(e.Kind, "select") {
				extra = fmt.Sprintf(" arm=%d", e.Arm)
			}
			fmt.Printf("  %-22s b%-3d %s%s\n        guard=%v held=%v\n", p.InstrPos(e.In), e.In.Block().Index, e.String(), extra, e.Guard, e.Held)
		}
	}
}

// ---------------------------------------------------------------------------------
// query DSL

// Q evaluates anchored obligations for one rule family.
type Q struct {
	p *Prog
	r *Report
}

func NewQ(p *Prog, r *Report) *Q { return &Q{p: p, r: r} }

// F is a resolved anchor function (nil fn = missing anchor, already reported).
type F struct {
	q    *Q
	fn   *ssa.Function
	Name string
	evs  []*Ev
	deep []*Ev // helper-function events (lazy)
	gotD bool
}

func (f *F) deepEvs() []*Ev {
	if !f.gotD && f.fn != nil {
		f.gotD = true
		f.deep = f.q.p.EventsDeep(f.fn)
	}
	return f.deep
}

// Fn resolves an anchor; a missing anchor is a violation (ANCHOR-MISSING, fail closed).
func (q *Q) Fn(rule, rel, recv, name string) *F {
	fn := q.p.Func(rel, recv, name)
	key := rel + "." + name
	if recv != "" {
		key = rel + ".(" + recv + ")." + name
	}
	if fn == nil {
		q.r.Bad(rule, "anchor:"+key, "-", "ANCHOR-MISSING: function "+key+" not found; the mechanism this rule is anchored in was renamed or removed")
		return &F{q: q, Name: key}
	}
	return &F{q: q, fn: fn, Name: q.p.FuncName(fn), evs: q.p.Events(fn)}
}

// Closure returns the i-th (0-based) anonymous function nested in f.
func (f *F) Closure(rule string, i int) *F {
	if f.fn == nil {
		return &F{q: f.q, Name: f.Name + "$?"}
	}
	if i >= len(f.fn.AnonFuncs) {
		// `once.Do(x.method)` instead of `once.Do(func() {…})`
		if i == 0 {
			for m, parent := range f.q.p.onceBodies() {
				if parent == f.fn {
					return &F{q: f.q, fn: m, Name: f.q.p.FuncName(m), evs: f.q.p.Events(m)}
				}
			}
		}
		// `go x.named(a, b)` / `go named(a, b)` instead of `go func() {…}()`: the i-th private
		// function of the package that this function starts as a goroutine, read with its
		// parameters in the caller's terms
		var started []*ssa.Go
		EachInstr(f.fn, func(in ssa.Instruction) {
			if g, ok := in.(*ssa.Go); ok {
				if sc := g.Call.StaticCallee(); sc != nil && sc.Blocks != nil && sc.Pkg == f.fn.Pkg && sc.Parent() == nil && lowerName(sc.Name()) {
					started = append(started, g)
				}
			}
		})
		if k := i - len(f.fn.AnonFuncs); k >= 0 && k < len(started) {
			g := started[k]
			sc := g.Call.StaticCallee()
			saved := descSubst
			ns := map[*ssa.Parameter]string{}
			for kk, v := range saved {
				ns[kk] = v
			}
			for j, par := range sc.Params {
				if j < len(g.Call.Args) {
					ns[par] = Desc(g.Call.Args[j])
				}
			}
			descSubst = ns
			evs := f.q.p.Events(sc)
			descSubst = saved
			return &F{q: f.q, fn: sc, Name: f.q.p.FuncName(sc), evs: evs}
		}
		// the statement that builds the closure was moved into a private helper of the package
		// (`s.timer = time.AfterFunc(d, func() {…})` -> `s.armTimer(d)`): its closures, read
		// with the helper's parameters in the caller's terms
		{
			k := i - len(f.fn.AnonFuncs) - len(started)
			var found *F
			EachInstr(f.fn, func(in ssa.Instruction) {
				if found != nil {
					return
				}
				c := CallOf(in)
				if c == nil {
					return
				}
				if _, isGo := in.(*ssa.Go); isGo {
					return
				}
				sc := c.StaticCallee()
				if sc == nil || sc.Blocks == nil || sc.Pkg != f.fn.Pkg || sc.Parent() != nil || !lowerName(sc.Name()) || !f.q.p.inlinable(sc) {
					return
				}
				if k < len(sc.AnonFuncs) {
					saved := descSubst
					ns := map[*ssa.Parameter]string{}
					for kk, v := range saved {
						ns[kk] = v
					}
					for j, par := range sc.Params {
						if j < len(c.Args) {
							ns[par] = Desc(c.Args[j])
						}
					}
					descSubst = ns
					cf := sc.AnonFuncs[k]
					found = &F{q: f.q, fn: cf, Name: f.q.p.FuncName(cf), evs: f.q.p.Events(cf)}
					descSubst = saved
				} else {
					k -= len(sc.AnonFuncs)
				}
			})
			if found != nil {
				return found
			}
		}
		f.q.r.Bad(rule, "anchor:"+f.Name+fmt.Sprintf("$%d", i+1), "-", "ANCHOR-MISSING: closure not found")
		return &F{q: f.q, Name: f.Name + "$?"}
	}
	c := f.fn.AnonFuncs[i]
	return &F{q: f.q, fn: c, Name: f.q.p.FuncName(c), evs: f.q.p.Events(c)}
}

func (f *F) OK() bool { return f.fn != nil }

// Pos of the function.
func (f *F) Pos() string {
	if f.fn == nil {
		return "-"
	}
	return f.q.p.Pos(f.fn.Pos())
}

// Sel is a set of events.
type Sel []*Ev

// Ev selects events by kind and a match on What ("" = any; prefix "~" = contains).
func (f *F) Ev(kind, what string) Sel {
	var out Sel
	for _, e := range f.evs {
		if e.Kind != kind {
			continue
		}
		if !matchStr(e.What, what) {
			continue
		}
		out = append(out, e)
	}
	// plus the single-use private helpers it calls (a helper with exactly one call site is
	// part of its caller; its events are rendered in f's terms) ...
	for _, e := range f.deepEvs() {
		if e.Kind == kind && matchStr(e.What, what) && f.q.p.inlinable(e.In.Parent()) {
			out = append(out, e)
		}
	}
	if len(out) == 0 {
		// ... and, when the construct is nowhere in those, any private helper
		for _, e := range f.deepEvs() {
			if e.Kind == kind && matchStr(e.What, what) {
				out = append(out, e)
			}
		}
	}
	return out
}

// EvOwn: events of the function itself only.
func (f *F) EvOwn(kind, what string) Sel {
	var out Sel
	for _, e := range f.evs {
		if e.Kind == kind && matchStr(e.What, what) {
			out = append(out, e)
		}
	}
	return out
}

// AllEv selects events of f and all nested closures.
func (f *F) AllEv(kind, what string) Sel {
	var out Sel
	if f.fn == nil {
		return out
	}
	for _, fn := range WithClosures(f.fn) {
		for _, e := range f.q.p.Events(fn) {
			if e.Kind == kind && matchStr(e.What, what) {
				out = append(out, e)
			}
		}
	}
	return out
}

func matchStr(s, pat string) bool {
	if pat == "" {
		return true
	}
	if strings.HasPrefix(pat, "~") {
		return strings.Contains(s, pat[1:])
	}
	if strings.HasPrefix(pat, "*") {
		return strings.HasSuffix(s, pat[1:])
	}
	if strings.HasSuffix(pat, "*") {
		return strings.HasPrefix(s, strings.TrimSuffix(pat, "*"))
	}
	return litEq(s, pat)
}

// Arg keeps events whose i-th argument matches.
func (s Sel) Arg(i int, pat string) Sel {
	var out Sel
	for _, e := range s {
		if i < len(e.Args) && matchStr(e.Args[i], pat) {
			out = append(out, e)
		}
	}
	return out
}

// Guarded keeps events guarded by the atom.
func (s Sel) Guarded(atom string) Sel {
	var out Sel
	for _, e := range s {
		if hasAtom(e.Guard, atom) {
			out = append(out, e)
		}
	}
	return out
}

// HeldLock keeps events executed with the abstract lock held.
func (s Sel) HeldLock(lock string) Sel {
	var out Sel
	for _, e := range s {
		for _, h := range e.Held {
			if h == lock {
				out = append(out, e)
				break
			}
		}
	}
	return out
}

func (s Sel) Pos(p *Prog) string {
	if len(s) == 0 {
		return "-"
	}
	return p.InstrPos(s[0].In)
}

// AllGuarded: every event of s has the atom.
func (s Sel) AllGuarded(atom string) bool {
	for _, e := range s {
		if !hasAtom(e.Guard, atom) {
			return false
		}
	}
	return len(s) > 0
}

// AllHeld: every event is executed with some mutex held matching the abstract lock.
func (s Sel) AllHeld(lock string) bool {
	return len(s) > 0 && len(s.HeldLock(lock)) == len(s)
}

// DominatedBy: every event of s is dominated by some event of a.
func (s Sel) DominatedBy(a Sel) bool {
	if len(s) == 0 || len(a) == 0 {
		return false
	}
	for _, e := range s {
		ok := false
		for _, d := range a {
			if evDominates(d, e) {
				ok = true
				break
			}
		}
		if !ok {
			return false
		}
	}
	return true
}

// mustPass: every path from just after `from` to a normal return of the function passes
// through an event of `via`.
func (q *Q) mustPass(from ssa.Instruction, via Sel) (bool, string) {
	viaSet := map[ssa.Instruction]bool{}
	for _, e := range via {
		viaSet[e.In] = true
	}
	fn := from.Parent()
	_ = fn
	type pt struct {
		b *ssa.BasicBlock
		i int
	}
	start := pt{from.Block(), instrIndex(from) + 1}
	seen := map[*ssa.BasicBlock]bool{}
	var walk func(b *ssa.BasicBlock, i int) (bool, string)
	walk = func(b *ssa.BasicBlock, i int) (bool, string) {
		for ; i < len(b.Instrs); i++ {
			in := b.Instrs[i]
			if viaSet[in] {
				return true, ""
			}
			if _, ok := in.(*ssa.Return); ok {
				return false, q.p.InstrPos(in)
			}
			if _, ok := in.(*ssa.Panic); ok {
				return true, ""
			}
		}
		for _, s := range b.Succs {
			if seen[s] {
				continue
			}
			seen[s] = true
			if ok, where := walk(s, 0); !ok {
				return false, where
			}
		}
		return true, ""
	}
	return walk(start.b, start.i)
}

// FollowedBy: after every event of s, every path to a return passes an event of via.
func (q *Q) FollowedBy(s Sel, via Sel) (bool, string) {
	if len(s) == 0 {
		return false, "no anchor event"
	}
	for _, e := range s {
		if ok, where := q.mustPass(e.In, via); !ok {
			return false, "a path from " + q.p.InstrPos(e.In) + " reaches the return at " + where + " without it"
		}
	}
	return true, ""
}

// Req records one anchored obligation.
func (q *Q) Req(rule, key string, cond bool, pos, okmsg, badmsg string) bool {
	return q.r.Check(cond, rule, key, pos, okmsg, badmsg)
}

// ---------------------------------------------------------------------------------
// who-may-call / who-may-write

// CallersOf returns the in-scope functions that contain a call (static or, for
// interface methods, an invoke) matching name, e.g. "ProtocolBase.AddPipe" or
// "core.(*socket).remPipe".
func (p *Prog) CallersOf(name string) map[string][]string {
	out := map[string][]string{}
	for _, fn := range p.Funcs {
		EachInstr(fn, func(in ssa.Instruction) {
			c := CallOf(in)
			if c == nil {
				return
			}
			if CalleeName(c) == name {
				out[p.FuncName(fn)] = append(out[p.FuncName(fn)], p.InstrPos(in))
			}
		})
	}
	return out
}

// WritersOf returns the in-scope functions that store to (or map-update / delete in) the
// field "rel.Type.field".
func (p *Prog) WritersOf(fieldKey string) map[string][]string {
	out := map[string][]string{}
	fi := p.E3().fields[fieldKey]
	if fi == nil {
		return out
	}
	for _, a := range fi.Accesses {
		if a.Write {
			out[p.FuncName(a.Fn)] = append(out[p.FuncName(a.Fn)], p.InstrPos(a.In))
		}
	}
	return out
}

// PostPubWritersOf: like WritersOf but ignoring initialisation of not-yet-published objects.
func (p *Prog) PostPubWritersOf(fieldKey string) map[string][]string {
	out := map[string][]string{}
	fi := p.E3().fields[fieldKey]
	if fi == nil {
		return out
	}
	for _, a := range fi.Accesses {
		if a.Write && !a.PrePub {
			out[p.FuncName(a.Fn)] = append(out[p.FuncName(a.Fn)], p.InstrPos(a.In))
		}
	}
	return out
}

// OnlyIn checks that the keys of got are all in the allowed set and that every required
// one is present.
func (q *Q) OnlyIn(rule, key string, got map[string][]string, allowed []string, required []string) {
	al := map[string]bool{}
	for _, a := range allowed {
		al[a] = true
	}
	var extra []string
	for k := range got {
		if !al[k] {
			// a private helper counts as (all of) its callers
			ok := true
			for _, a := range q.p.attributedTo(k) {
				if !al[a] {
					ok = false
				}
			}
			// ... where a caller that is itself allowed ends the search (a helper of a private
			// allowed function is not judged by that function's own callers)
			if !ok {
				if homes := q.p.callersWithin(k, al); len(homes) > 0 {
					for _, h := range homes {
						got[h] = append(got[h], got[k]...)
					}
					delete(got, k)
					continue
				}
			}
			if !ok {
				// a private function started only by `go` statements of one function is
				// the goroutine closure of that function under a name
				if homes := q.p.goStartedBy(k); len(homes) > 0 {
					var tgt []string
					for _, h := range homes {
						t := ""
						if al[h] {
							t = h
						}
						for _, a := range allowed {
							if strings.HasPrefix(a, h+"$") {
								t = a
							}
						}
						if t == "" {
							tgt = nil
							break
						}
						tgt = append(tgt, t)
					}
					if len(tgt) > 0 {
						for _, t := range tgt {
							got[t] = append(got[t], got[k]...)
						}
						delete(got, k)
						continue
					}
				}
				extra = append(extra, k+" ("+strings.Join(got[k], ",")+")")
				continue
			}
			for _, a := range q.p.attributedTo(k) {
				got[a] = append(got[a], got[k]...)
			}
			delete(got, k)
		}
	}
	sort.Strings(extra)
	var missing []string
	for _, rq := range required {
		if _, ok := got[rq]; !ok {
			missing = append(missing, rq)
		}
	}
	pos := "-"
	if len(extra) > 0 {
		q.r.Bad(rule, key, pos, "unexpected site(s): "+strings.Join(extra, "; "))
		return
	}
	if len(missing) > 0 {
		q.r.Bad(rule, key, pos, "ANCHOR-MISSING: expected site(s) not found: "+strings.Join(missing, "; "))
		return
	}
	var ks []string
	for k := range got {
		ks = append(ks, k)
	}
	sort.Strings(ks)
	q.r.OK(rule, key, pos, "only in {"+strings.Join(ks, ", ")+"}")
}

// StoreClasses: state-transition ownership.  Every post-publication store to the field
// is classified "nil" (nil / zero / false constant) or "set" (anything else); `allowed`
// maps a function to the classes it may store ("nil", "set", "nil,set").  A store by an
// unlisted function, or of a class the function is not allowed, is a violation; a listed
// (function, class) pair with no store is an anchor failure.
func (q *Q) StoreClasses(rule, key, fieldKey string, allowed map[string]string) {
	fi := q.p.E3().fields[fieldKey]
	if fi == nil {
		q.r.Bad(rule, key, "-", "ANCHOR-MISSING: field "+fieldKey+" not found")
		return
	}
	seen := map[string]bool{}
	var bad []string
	for _, a := range fi.Accesses {
		if !a.Write || a.PrePub {
			continue
		}
		cls := "set"
		switch x := a.In.(type) {
		case *ssa.Store:
			if c, ok := x.Val.(*ssa.Const); ok && (c.Value == nil || c.Value.ExactString() == "0" || c.Value.ExactString() == "false") {
				cls = "nil"
			}
		}
		fn := q.p.FuncName(a.Fn)
		if _, listed := allowed[fn]; !listed {
			// a private helper counts as its callers (all of them must allow the class)
			attr := q.p.attributedTo(fn)
			okAll := len(attr) > 0
			for _, an := range attr {
				al2, ok2 := allowed[an]
				if !ok2 || !strings.Contains(","+strings.ReplaceAll(al2, "?", "")+",", ","+cls+",") {
					okAll = false
				}
			}
			if okAll {
				for _, an := range attr {
					seen[an+"/"+cls] = true
				}
				continue
			}
		}
		seen[fn+"/"+cls] = true
		al, ok := allowed[fn]
		if !ok || !strings.Contains(","+strings.ReplaceAll(al, "?", "")+",", ","+cls+",") {
			bad = append(bad, fmt.Sprintf("%s stores a %s value at %s", fn, map[string]string{"nil": "cleared", "set": "live"}[cls], q.p.InstrPos(a.In)))
		}
	}
	// a whole-struct copy of the owner (`*c = *other`) writes every field at once, the
	// per-request state included: it is outside every transition table
	owner := fieldKey[:strings.LastIndex(fieldKey, ".")]
	for _, fn := range q.p.Funcs {
		EachInstr(fn, func(in ssa.Instruction) {
			st, ok := in.(*ssa.Store)
			if !ok {
				return
			}
			n := namedOf(st.Val.Type())
			if n == nil || TypeKey(n) != owner {
				return
			}
			if _, isStruct := st.Val.Type().Underlying().(*types.Struct); !isStruct {
				return
			}
			bad = append(bad, fmt.Sprintf("%s copies a whole %s (all of its state, %s included) at %s", q.p.FuncName(fn), owner, fieldKey[len(owner)+1:], q.p.InstrPos(in)))
		})
	}
	sort.Strings(bad)
	if len(bad) > 0 {
		q.r.Bad(rule, key, "-", "state field "+fieldKey+" is written outside its transition table: "+strings.Join(bad, "; "))
		return
	}
	var missing []string
	for fn, al := range allowed {
		for _, c := range strings.Split(al, ",") {
			if strings.HasSuffix(c, "?") {
				continue
			}
			if !seen[fn+"/"+c] {
				missing = append(missing, fn+"/"+c)
			}
		}
	}
	sort.Strings(missing)
	if len(missing) > 0 {
		q.r.Bad(rule, key, "-", "ANCHOR-MISSING: expected transition(s) of "+fieldKey+" not found: "+strings.Join(missing, "; "))
		return
	}
	var ks []string
	for k := range seen {
		ks = append(ks, k)
	}
	sort.Strings(ks)
	q.r.OK(rule, key, "-", fieldKey+" transitions: "+strings.Join(ks, ", "))
}

// ListRemoval: f removes one element from the slice `list` by the idiom
// list = append(list[:i], list[i+1:]...) — the store shortens the slice — and does so
// only for the i whose element equals the departing object (a guard atom comparing
// list[i] with ==).  An in-place copy without truncation, or a removal on another
// condition, leaves a stale (or drops a live) entry.
func (q *Q) ListRemoval(rule, key string, f *F, list, lock, badmsg string) {
	if !f.OK() {
		return
	}
	st := f.Ev("store", list)
	var hit Sel
	for _, e := range st {
		v := e.Args[0]
		pre := "append(" + list + "[:"
		if !strings.HasPrefix(v, pre) {
			continue
		}
		rest := v[len(pre):]
		k := strings.Index(rest, "],"+list+"[(")
		if k < 0 {
			continue
		}
		idx := rest[:k]
		if rest[k:] != "],"+list+"[("+idx+" + 1):])" {
			continue
		}
		elem := list + "[" + idx + "]"
		okG := false
		for _, a := range e.Guard {
			if isElemEq(a, elem) {
				okG = true
			}
		}
		if okG && (lock == "" || Sel{e}.AllHeld(lock)) {
			hit = append(hit, e)
		}
	}
	// the equivalent two-step form: copy(list[i:], list[i+1:]) ; list = list[:len(list)-1]
	if len(hit) == 0 && len(st) == 1 && st[0].Args[0] == list+"[:(len("+list+") - 1)]" {
		for _, c := range f.Ev("call", "copy") {
			if len(c.Args) != 2 || !strings.HasPrefix(c.Args[0], list+"[") || !strings.HasSuffix(c.Args[0], ":]") {
				continue
			}
			idx := strings.TrimSuffix(strings.TrimPrefix(c.Args[0], list+"["), ":]")
			if c.Args[1] != list+"[("+idx+" + 1):]" || !evDominates(c, st[0]) {
				continue
			}
			elem := list + "[" + idx + "]"
			okG := false
			for _, a := range st[0].Guard {
				if isElemEq(a, elem) {
					okG = true
				}
			}
			if okG && (lock == "" || Sel{st[0]}.AllHeld(lock)) {
				hit = append(hit, st[0])
			}
		}
	}
	q.r.Check(len(hit) == 1 && len(st) == 1, rule, key, st.Pos(q.p), list+" = append("+list+"[:i], "+list+"[i+1:]...) for the i whose element is the departing one, under the lock", badmsg+": "+argsOf(st)+" "+guardsOf(st))
}

// TokenReleased: f sets the in-progress flag `field` (a bool field of the receiver) and
// must clear it again on EVERY path to a return: the flag makes concurrent/later calls
// fail fast (ErrProtoState), so a path that forgets to clear it — a timeout or close
// return — wedges the object for good.
func (q *Q) TokenReleased(rule, key string, f *F, field string) {
	if !f.OK() {
		return
	}
	set := f.Ev("store", field).Arg(0, "true")
	clr := f.Ev("store", field).Arg(0, "false")
	if len(set) != 1 || len(clr) == 0 {
		q.r.Bad(rule, key, f.Pos(), "ANCHOR-MISSING: expected one `"+field+" = true` and a `"+field+" = false` in "+f.Name)
		return
	}
	ok, where := q.mustPass(set[0].In, clr)
	q.r.Check(ok, rule, key, set.Pos(q.p), field+" is cleared on every path from where it is set to a return", "a path from `"+field+" = true` reaches the return at "+where+" without clearing it: after that return (a receive timeout or close) every later call sees the flag still set and fails immediately instead of waiting")
}

// NilReturnsPass: every path from the entry of f to a return whose error result is nil
// passes through one of the events of via.  ("Send returned nil" must mean "the frame was
// written / queued": no shortcut returns success without doing the work.)
func (q *Q) NilReturnsPass(rule, key string, f *F, via Sel, okmsg, badmsg string) {
	if !f.OK() {
		return
	}
	if len(via) == 0 {
		q.r.Bad(rule, key, f.Pos(), "ANCHOR-MISSING: the operation this rule requires on every successful path was not found")
		return
	}
	viaSet := map[ssa.Instruction]bool{}
	for _, e := range via {
		viaSet[e.In] = true
	}
	bad := ""
	seen := map[*ssa.BasicBlock]bool{}
	var walk func(b *ssa.BasicBlock)
	walk = func(b *ssa.BasicBlock) {
		if seen[b] || bad != "" {
			return
		}
		seen[b] = true
		for _, in := range b.Instrs {
			if viaSet[in] {
				return
			}
			if sel, ok := in.(*ssa.Select); ok {
				for _, e := range via {
					if e.In == sel {
						// a select counts only on its own arm: handled by the arm test below
					}
				}
			}
			if ret, ok := in.(*ssa.Return); ok {
				if len(ret.Results) > 0 {
					ev := resolveSpill(ret.Results[len(ret.Results)-1], ret)
					if Desc(ev) == "nil" {
						bad = q.p.InstrPos(ret)
					}
				}
				return
			}
		}
		for _, s := range b.Succs {
			walk(s)
		}
	}
	walk(f.fn.Blocks[0])
	q.r.Check(bad == "", rule, key, via.Pos(q.p), okmsg, badmsg+" (the return at "+bad+" is reachable without it)")
}

// EventsDeep: the events of fn followed by those of the helper functions it calls — static
// calls to functions of the same package, two levels deep, no recursion — rendered in fn's
// own terms.  Anchored rules fall back to this view when the construct they require is not
// in the anchor function itself, so that extracting part of a function into a private
// helper (or passing a method value where a closure stood) does not change the verdict.
func (p *Prog) EventsDeep(fn *ssa.Function) []*Ev {
	var out []*Ev
	var rec func(f *ssa.Function, site ssa.Instruction, pre []string, held []string, depth int, stack []*ssa.Function)
	rec = func(f *ssa.Function, site ssa.Instruction, pre []string, held []string, depth int, stack []*ssa.Function) {
		evs := p.Events(f)
		for _, e := range evs {
			if site != nil {
				if e.Kind == "return" {
					e.Kind = "callee-return"
				}
				e.Site = site
				e.Subst = descSubst
				e.Guard = append(append([]string{}, pre...), e.Guard...)
				e.Held = unionStr(held, e.Held)
				out = append(out, e)
			}
			if depth >= 2 {
				continue
			}
			c := CallOf(e.In)
			if c == nil || (e.Kind != "call" && e.Kind != "defer") {
				continue
			}
			sc := c.StaticCallee()
			if sc == nil || sc.Blocks == nil || !p.moduleFunc(sc) || sc.Pkg != f.Pkg {
				continue
			}
			onStack := sc == fn
			for _, s := range stack {
				if s == sc {
					onStack = true
				}
			}
			if onStack {
				continue
			}
			// actual arguments, described in the current (already substituted) context
			saved := descSubst
			ns := map[*ssa.Parameter]string{}
			for k, v := range saved {
				ns[k] = v
			}
			for i, par := range sc.Params {
				if i < len(c.Args) {
					ns[par] = Desc(c.Args[i])
				}
			}
			descSubst = ns
			s2 := site
			if s2 == nil {
				s2 = e.In
			}
			rec(sc, s2, e.Guard, e.Held, depth+1, append(stack, f))
			descSubst = saved
			// `s.withLock(func() { … })`: a function literal handed to a private helper that
			// runs it at once (under a lock it takes) is part of the caller's body, executed
			// with whatever the helper holds at the call
			for i, a := range c.Args {
				mc, ok := a.(*ssa.MakeClosure)
				if !ok || i >= len(sc.Params) {
					continue
				}
				k, ok := mc.Fn.(*ssa.Function)
				if !ok {
					continue
				}
				var inv ssa.Instruction
				nInv := 0
				EachInstr(sc, func(in ssa.Instruction) {
					if cc := CallOf(in); cc != nil && cc.Value == ssa.Value(sc.Params[i]) {
						if _, isGo := in.(*ssa.Go); !isGo {
							inv = in
							nInv++
						}
					}
				})
				if nInv != 1 {
					continue
				}
				savedF := descFreeSubst
				nf := map[*ssa.FreeVar]string{}
				for kf, v := range savedF {
					nf[kf] = v
				}
				for j, fv := range k.FreeVars {
					if j >= len(mc.Bindings) {
						continue
					}
					b := mc.Bindings[j]
					d := Desc(b)
					if al, isAl := b.(*ssa.Alloc); isAl {
						var only ssa.Value
						cnt := 0
						for _, ref := range *al.Referrers() {
							if st, isSt := ref.(*ssa.Store); isSt && st.Addr == al {
								cnt++
								only = st.Val
							}
						}
						if cnt == 1 {
							d = Desc(only)
						}
					}
					nf[fv] = d
				}
				descFreeSubst = nf
				if p.wrapped == nil {
					p.wrapped = map[*ssa.Function]bool{}
				}
				p.wrapped[k] = true
				rec(k, s2, e.Guard, unionStr(e.Held, p.mutexesHeld(sc, inv)), depth+1, append(stack, f))
				descFreeSubst = savedF
			}
		}
	}
	rec(fn, nil, nil, nil, 0, nil)
	return out
}

func unionStr(a, b []string) []string {
	seen := map[string]bool{}
	var out []string
	for _, x := range append(append([]string{}, a...), b...) {
		if !seen[x] {
			seen[x] = true
			out = append(out, x)
		}
	}
	sort.Strings(out)
	return out
}

// evDominates: d executes before e on every path to e.  Two events found in the same helper
// through the same call are compared inside the helper; otherwise their locations in the
// anchor function (own instruction or call site) are compared.
func evDominates(d, e *Ev) bool {
	if d.In == e.In {
		return false
	}
	if e.Way != nil && e.Site == nil && d.At().Parent() == e.In.Parent() {
		return d.At().Block() == e.Way || d.At().Block().Dominates(e.Way) || InstrDominates(d.At(), e.In)
	}
	if d.Site != nil && e.Site != nil && d.Site == e.Site && d.In.Parent() == e.In.Parent() {
		return InstrDominates(d.In, e.In)
	}
	a, b := d.At(), e.At()
	if a.Parent() != b.Parent() || a == b {
		return false
	}
	return InstrDominates(a, b)
}

// attributedTo: a private helper function is judged as part of the functions that call it.
// Returns the names of the functions the effects of `name` are attributed to: name itself
// when it is exported, has no in-module caller, or is reached through a go statement or a
// function value; otherwise the (transitive, depth <= 3) static callers.  Who-may-call and
// who-may-write tables accept a site in a helper when everything it is attributed to is in
// the table — so extracting a block of an allowed function into a helper changes nothing.
func (p *Prog) attributedTo(name string) []string {
	if p.byName == nil {
		p.byName = map[string]*ssa.Function{}
		for _, fn := range p.Funcs {
			p.byName[p.FuncName(fn)] = fn
		}
	}
	fn := p.byName[name]
	if fn == nil {
		return []string{name}
	}
	out := map[string]bool{}
	var rec func(f *ssa.Function, d int)
	rec = func(f *ssa.Function, d int) {
		nm := p.FuncName(f)
		n := p.CG().Nodes[f]
		exported := f.Parent() == nil && !lowerName(f.Name())
		if n == nil || exported || d >= 3 || f.Parent() != nil {
			out[nm] = true
			return
		}
		callers := 0
		for _, e := range n.In {
			if !p.moduleFunc(e.Caller.Func) || e.Site == nil {
				continue
			}
			if _, isGo := e.Site.(*ssa.Go); isGo {
				out[nm] = true
				return
			}
			if e.Site.Common().StaticCallee() != f {
				out[nm] = true // dynamic edge: cannot attribute
				return
			}
			callers++
		}
		if callers == 0 {
			out[nm] = true
			return
		}
		for _, e := range n.In {
			if p.moduleFunc(e.Caller.Func) && e.Site != nil {
				rec(e.Caller.Func, d+1)
			}
		}
	}
	rec(fn, 0)
	var names []string
	for k := range out {
		names = append(names, k)
	}
	sort.Strings(names)
	return names
}

// goStartedBy: the functions whose `go` statements are the only uses of the private,
// non-closure function `name` (nil if it is used in any other way).
func (p *Prog) goStartedBy(name string) []string {
	if p.byName == nil {
		p.attributedTo(name)
	}
	name = strings.SplitN(name, "#", 2)[0]
	fn := p.byName[name]
	if fn == nil || fn.Parent() != nil || !lowerName(fn.Name()) {
		return nil
	}
	n := p.CG().Nodes[fn]
	if n == nil {
		return nil
	}
	set := map[string]bool{}
	for _, e := range n.In {
		if !p.moduleFunc(e.Caller.Func) || e.Site == nil {
			continue
		}
		if _, isGo := e.Site.(*ssa.Go); !isGo || e.Site.Common().StaticCallee() != fn {
			return nil
		}
		set[p.FuncName(e.Caller.Func)] = true
	}
	var out []string
	for k := range set {
		out = append(out, k)
	}
	sort.Strings(out)
	return out
}

// singleUse: fn (an unexported, non-closure function of the module) has exactly one static
// call site in the module and is not used as a value.
func (p *Prog) singleUse(fn *ssa.Function) bool {
	if p.single == nil {
		p.single = map[*ssa.Function]bool{}
		cnt := map[*ssa.Function]int{}
		dyn := map[*ssa.Function]bool{}
		for f := range p.All {
			if !p.moduleFunc(f) || f.Blocks == nil {
				continue
			}
			EachInstr(f, func(in ssa.Instruction) {
				if c := CallOf(in); c != nil {
					if sc := c.StaticCallee(); sc != nil {
						if _, isGo := in.(*ssa.Go); isGo {
							dyn[sc] = true
						}
						cnt[sc]++
					}
				}
				// used as a value (operand that is the function itself, outside call position)
				for _, op := range in.Operands(nil) {
					if op == nil || *op == nil {
						continue
					}
					if g, ok := (*op).(*ssa.Function); ok {
						if c := CallOf(in); c == nil || c.Value != g {
							dyn[g] = true
						}
					}
				}
			})
		}
		for f, n := range cnt {
			if n == 1 && !dyn[f] && f.Parent() == nil && lowerName(f.Name()) && p.moduleFunc(f) {
				if node := p.CG().Nodes[f]; node != nil && len(node.In) == 1 {
					p.single[f] = true
				}
			}
		}
	}
	return p.single[fn]
}

// isElemEq: the guard atom says "this element is the one looked for": elem == x, x == elem,
// or bytes.Equal(elem, x) / bytes.Equal(x, elem).
func isElemEq(a, elem string) bool {
	if strings.HasPrefix(a, "!") {
		return false
	}
	if strings.HasSuffix(a, " == "+elem) || strings.HasPrefix(a, elem+" == ") {
		return true
	}
	if strings.HasPrefix(a, "bytes.Equal(") && (strings.HasPrefix(a, "bytes.Equal("+elem+",") || strings.HasSuffix(a, ","+elem+")")) {
		return true
	}
	return false
}

// EachInstrDeep visits the instructions of f and of the private helpers it calls (static
// calls within the package, two levels).
func (f *F) EachInstrDeep(visit func(in ssa.Instruction)) {
	if f.fn == nil {
		return
	}
	seen := map[*ssa.Function]bool{}
	var rec func(fn *ssa.Function, d int)
	rec = func(fn *ssa.Function, d int) {
		if seen[fn] {
			return
		}
		seen[fn] = true
		EachInstr(fn, func(in ssa.Instruction) {
			visit(in)
			if d >= 2 {
				return
			}
			if c := CallOf(in); c != nil {
				if _, isGo := in.(*ssa.Go); isGo {
					return
				}
				if sc := c.StaticCallee(); sc != nil && sc.Blocks != nil && sc.Pkg == fn.Pkg && f.q.p.moduleFunc(sc) {
					rec(sc, d+1)
				}
			}
		})
	}
	rec(f.fn, 0)
}

// All: the events of the function and of the single-use private helpers it calls.
func (f *F) All() []*Ev {
	out := append([]*Ev{}, f.evs...)
	for _, e := range f.deepEvs() {
		if f.q.p.inlinable(e.In.Parent()) {
			out = append(out, e)
		}
	}
	return out
}

// inlinable: a private helper whose events are read as part of its callers: it has a single
// call site, or it is a small leaf (no calls into the module, no goroutines, at most 60
// instructions) — the shape of a block of code factored out for reuse.
func (p *Prog) inlinable(fn *ssa.Function) bool {
	if p.singleUse(fn) || p.wrapped[fn] {
		return true
	}
	if p.leaf == nil {
		p.leaf = map[*ssa.Function]bool{}
	}
	if v, ok := p.leaf[fn]; ok {
		return v
	}
	ok := fn.Parent() == nil && lowerName(fn.Name()) && p.moduleFunc(fn) && fn.Blocks != nil
	n := 0
	if ok {
		EachInstr(fn, func(in ssa.Instruction) {
			n++
			if _, isGo := in.(*ssa.Go); isGo {
				ok = false
			}
			if c := CallOf(in); c != nil {
				if sc := c.StaticCallee(); sc != nil && p.moduleFunc(sc) && msgMethod(c) == "" {
					ok = false
				}
				if _, isMC := c.Value.(*ssa.MakeClosure); isMC {
					ok = false
				}
			}
		})
	}
	ok = ok && n <= 60
	p.leaf[fn] = ok
	return ok
}

// ReturnDesc: v described through one level of private constructor-like helper: when v is
// the result of a static call to a function of the same package with a single return
// statement, the description of the value that function returns, in the caller's terms.
func (p *Prog) ReturnDesc(v ssa.Value) string {
	call, ok := v.(*ssa.Call)
	if !ok {
		return Desc(v)
	}
	sc := call.Call.StaticCallee()
	if sc == nil || sc.Blocks == nil || !p.moduleFunc(sc) || sc.Pkg != call.Parent().Pkg || sc.Signature.Results().Len() != 1 {
		return Desc(v)
	}
	var ret *ssa.Return
	n := 0
	EachInstr(sc, func(in ssa.Instruction) {
		if r, ok := in.(*ssa.Return); ok && !(sc.Recover != nil && r.Block() == sc.Recover) {
			ret = r
			n++
		}
	})
	if n != 1 {
		return Desc(v)
	}
	saved := descSubst
	ns := map[*ssa.Parameter]string{}
	for k, val := range saved {
		ns[k] = val
	}
	for i, par := range sc.Params {
		if i < len(call.Call.Args) {
			ns[par] = Desc(call.Call.Args[i])
		}
	}
	descSubst = ns
	d := Desc(resolveSpill(ret.Results[0], ret))
	descSubst = saved
	return d
}

// Unconditional: the event is under no condition AND on every path: no test dominates it, and
// no path from the entry of its function to a normal return avoids it.  (Dominating conditions
// alone do not say the second: a `return` inside a nested `if` earlier in the function leaves
// the statements after that `if` without any dominating condition, yet skips them.)
func (e *Ev) Unconditional() bool {
	return len(e.Guard) == 0 && everyPath(e.At())
}

func everyPath(in ssa.Instruction) bool {
	fn := in.Parent()
	if fn == nil || len(fn.Blocks) == 0 {
		return false
	}
	target := in.Block()
	seen := map[*ssa.BasicBlock]bool{}
	var escapes func(b *ssa.BasicBlock) bool
	escapes = func(b *ssa.BasicBlock) bool {
		if b == target || seen[b] || b == fn.Recover {
			return false
		}
		seen[b] = true
		if len(b.Instrs) > 0 {
			if _, ok := b.Instrs[len(b.Instrs)-1].(*ssa.Return); ok {
				return true
			}
		}
		for _, s := range b.Succs {
			if escapes(s) {
				return true
			}
		}
		return false
	}
	return !escapes(fn.Blocks[0])
}

// predBlock: the block whose path condition decides when the event happens, for rules that
// compare that condition with a specification.  For an event found in a private helper that
// performs it unconditionally (in the helper's entry block), it is the block of the call in
// the anchor function: the helper adds no condition of its own.
func predBlock(e *Ev) *ssa.BasicBlock {
	if e.Site != nil && e.In.Block() == e.In.Parent().Blocks[0] {
		return e.Site.Block()
	}
	// ... or after a diamond that re-joins: under no condition of the helper, on every path of it
	if e.Site != nil && len(guardAtomsOfBlock(e.In.Block())) == 0 && everyPath(e.In) {
		return e.Site.Block()
	}
	return e.In.Block()
}

// callersWithin: every static call chain upwards from the private function `name` reaches a
// function of the allowed set (directly, or through further private helpers / closures run in
// place) before it reaches anything else.
func (p *Prog) callersWithin(name string, allowed map[string]bool) []string {
	if p.byName == nil {
		p.attributedTo(name)
	}
	fn := p.byName[name]
	if fn == nil {
		return nil
	}
	homes := map[string]bool{}
	seen := map[*ssa.Function]bool{}
	var up func(f *ssa.Function, d int) bool
	up = func(f *ssa.Function, d int) bool {
		if seen[f] {
			return true
		}
		seen[f] = true
		if d > 0 && allowed[p.FuncName(f)] {
			homes[p.FuncName(f)] = true
			return true
		}
		if d > 0 && allowed[p.FuncName(p.closureHome(f))] {
			homes[p.FuncName(p.closureHome(f))] = true
			return true
		}
		if d >= 4 {
			return false
		}
		if f.Parent() != nil {
			// a closure: judged as its enclosing function unless that started it as a goroutine
			return up(f.Parent(), d+1)
		}
		if !lowerName(f.Name()) {
			return false
		}
		n := p.CG().Nodes[f]
		if n == nil {
			return false
		}
		callers := 0
		for _, e := range n.In {
			if !p.moduleFunc(e.Caller.Func) || e.Site == nil {
				continue
			}
			if _, isGo := e.Site.(*ssa.Go); isGo {
				return false
			}
			if e.Site.Common().StaticCallee() != f {
				return false
			}
			callers++
			if !up(e.Caller.Func, d+1) {
				return false
			}
		}
		return callers > 0
	}
	if !up(fn, 0) {
		return nil
	}
	var out []string
	for h := range homes {
		out = append(out, h)
	}
	sort.Strings(out)
	return out
}
