package an

import "strings"

func init() {
	register(&PropInfo{ID: "C19", Run: runC19,
		Explanation: "option contract: E10c capacity guards of option-fed channels, E10d resize arms, option switch shape (comma-ok assertions, ErrBadValue/ErrBadOption edges), Set/Get symmetry, ranges against the option table, unsupported operations return ErrProtoOp.",
		Assumptions: commonAssumptions})
}

// channels that must have capacity >= 1 (E4a allow-list entries depend on it)
var needCapOne = map[string]string{
	"protocol/sub.context.recvQ": "sub.receiver re-sends after making room and unsubscribe re-queues while holding the socket lock",
}

func runC19(p *Prog, r *Report) {
	acceptedOptionsKnownToGet(p, r, "C19.19/accepted-options-known-to-get")
	r.Floor("C19.19/accepted-options-known-to-get", "endpoint_option_pairs.C19.19/accepted-options-known-to-get", 6)
	ipcPermissionsOnEveryBind(p, r, "C19.20/ipc-permissions-on-every-bind")
	wsCheckOriginBothWays(p, r, "C19.16/switch-option-both-ways")
	runSweeps(p, r, "C19.14/option-reaches-every-endpoint", "a socket option that endpoints inherit is passed to every dialer and listener of the socket", optionSweeps)
	optionTypeAgreement(p, r, "C19.12/option-type-agreement")
	gatedOptionFlags(p, r, "C19.13/gated-option-flags")
	r.Describe("C19.2/E10c", "every make(chan T, n) fed by an option value has n >= 0 (>= 1 where a blocking re-send under the lock depends on it)")
	e10Capacity(p, r, "C19.2/E10c", needCapOne)
	r.Floor("C19.2/E10c", "e10.option_fed_make_chan", 25)
	r.Describe("C19.5/E10d", "queue resize never disconnects a peer: the select arm on a resize-notify channel leads back to the loop head")
	e10ResizeArms(p, r, "C19.5/E10d")
	r.Floor("C19.5/E10d", "e10.resize_arms", 20)
	c19Shape(p, r)
	c19Ranges(p, r)
	c19Symmetry(p, r)
	c19Inheritance(p, r)
	c19QueueLengths(p, r)
	importFrom(p, r, "C19.10/ttl-takes-effect", "an accepted OptionTTL value N admits exactly the hop counts C09 states for N (the extracted hop-guard normal forms, shared with C09.1): the option takes effect as documented, on raw and cooked sockets alike", func(t *Report, rule string) { runC09(p, t) }, "rule=C09.1/hop-normal-form")
	c19OptionsReadAtUse(p, r, "C19.9/options-read-at-use")
	r.Describe("C19.8/queue-swap-wakes", "a queue-length option takes effect for calls already blocked: the step that installs the new queue closes the object's sizeQ")
	queueSwapWakes(p, r, "C19.8/queue-swap-wakes", func(rel string) bool { return strings.HasPrefix(rel, "protocol/") })
	r.Floor("C19.8/queue-swap-wakes", "e10.queue_swaps", 15)
	waitedChannelStable(p, r, "C19.21/waited-channel-stable", func(rel string) bool {
		return strings.HasPrefix(rel, "protocol/") || strings.HasPrefix(rel, "transport") || rel == "internal/core"
	})
	r.Floor("C19.21/waited-channel-stable", "e13.waited_fields.C19.21/waited-channel-stable", 40)
	r.Floor("C19.21/waited-channel-stable", "e13.replacements.C19.21/waited-channel-stable", 15)
	waitersReread(p, r, "C19.24/waiters-reread", func(rel string) bool { return strings.HasPrefix(rel, "protocol/") })
	r.Floor("C19.24/waiters-reread", "e13c.rereading_waiters.C19.24/waiters-reread", 10)
	{
		q := NewQ(p, r)
		R := "C19.7/refused-device-has-no-effect"
		r.Describe(R, "Device(): a call that returns an error (ErrClosed, ErrBadProto, ErrNotRaw, option error) has started no forwarder: every validation precedes the first go statement")
		dv := q.Fn(R, "", "", "Device")
		if dv.OK() {
			reach := blockReach(dv.fn)
			bad := ""
			nret := 0
			for _, g := range dv.Ev("go", "") {
				for _, rt := range dv.Ev("return", "") {
					if len(rt.Args) == 1 && rt.Args[0] != "nil" {
						nret++
						if CanPrecede(reach, g.In, rt.In) {
							bad = "the forwarder started at " + p.InstrPos(g.In) + " can be followed by the error return at " + p.InstrPos(rt.In)
						}
					}
				}
			}
			r.Check(bad == "" && nret > 0, R, "Device", dv.Pos(), "no go statement can precede an error return", "Device fails with an error after it has already started forwarding ("+bad+"): the refused call keeps moving traffic between the sockets")
		}
	}
	c19Unsupported(p, r)
	// zero duration = no limit: timers armed from an option duration are guarded by > 0
	r.Describe("C19.7/zero-means-no-limit", "a timer armed from an option duration whose zero value is documented as 'no limit' is guarded by > 0 (deadline selects: C18.1; survey time: C07.7; retry time: C04.3)")
	q := NewQ(p, r)
	if st := q.Fn("C19.7/zero-means-no-limit", "protocol/surveyor", "survey", "start"); st.OK() {
		af := st.Ev("call", "time.AfterFunc")
		r.Check(len(af) == 1 && af.AllGuarded("arg2 > 0"), "C19.7/zero-means-no-limit", "surveyor/survey-time", af.Pos(p), "expiry armed only for a positive survey time", "SURVEY-TIME 0 (documented: infinite) arms AfterFunc(0) and expires the survey at once")
	}
	if sd := q.Fn("C19.7/zero-means-no-limit", "protocol/req", "socket", "send"); sd.OK() {
		af := sd.Ev("call", "time.AfterFunc")
		r.Check(len(af) == 1 && strings.HasSuffix(af[0].Args[0], ".resendTime") && af.AllGuarded(af[0].Args[0]+" > 0"), "C19.7/zero-means-no-limit", "req/retry-time", af.Pos(p), "retry armed only for a positive retry time", "RETRY-TIME 0 arms a retry timer")
	}
}
