package an

func init() {
	register(&PropInfo{ID: "C19", Run: runC19,
		Explanation: "option contract: E10c capacity guards of option-fed channels, E10d resize arms, option switch shape (comma-ok assertions, ErrBadValue/ErrBadOption edges), Set/Get symmetry, ranges against the option table, unsupported operations return ErrProtoOp.",
		Assumptions: commonAssumptions})
}

// channels that must have capacity >= 1 (E4a allow-list entries depend on it)
var needCapOne = map[string]string{
	"protocol/sub.context.recvQ": "sub.receiver re-sends after making room and unsubscribe re-queues while holding the socket lock",
}

func runC19(p *Prog, r *Report) {
	r.Describe("C19.2/E10c", "every make(chan T, n) fed by an option value has n >= 0 (>= 1 where a blocking re-send under the lock depends on it)")
	e10Capacity(p, r, "C19.2/E10c", needCapOne)
	r.Floor("C19.2/E10c", "e10.option_fed_make_chan", 25)
	r.Describe("C19.5/E10d", "queue resize never disconnects a peer: the select arm on a resize-notify channel leads back to the loop head")
	e10ResizeArms(p, r, "C19.5/E10d")
	r.Floor("C19.5/E10d", "e10.resize_arms", 20)
}
