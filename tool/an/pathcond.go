package an

import (
	"fmt"
	"go/constant"
	"go/token"
	"go/types"
	"sort"
	"strings"

	"golang.org/x/tools/go/ssa"
)

// E6b ORDERING TABLES: the condition under which a block is reached is extracted as a
// DNF over branch atoms (all acyclic paths from the function entry), and compared with a
// specified predicate by evaluating both on every assignment of a small finite domain to
// the terms involved (all weak orderings of the operands and their signs).  This is the
// evaluation of an extracted Boolean formula, not execution of mangos code.

type Lit struct {
	Cond ssa.Value
	Pol  bool
}

// PathConds: the DNF (list of conjunctions) of reaching block b from the entry along
// acyclic paths.  ok=false if there are too many paths.
func PathConds(b *ssa.BasicBlock) ([][]Lit, bool) {
	fn := b.Parent()
	var out [][]Lit
	onPath := map[*ssa.BasicBlock]bool{}
	var path []*ssa.BasicBlock
	okAll := true
	// a condition that is a merge of values (a flag set on some ways, the result of a
	// short-circuit `a || b`) is, on a given path, the value its way into the merge carries
	var resolve func(c ssa.Value, pol bool, depth int) (ssa.Value, bool)
	resolve = func(c ssa.Value, pol bool, depth int) (ssa.Value, bool) {
		if depth > 6 {
			return c, pol
		}
		switch x := c.(type) {
		case *ssa.UnOp:
			if x.Op == token.NOT {
				return resolve(x.X, !pol, depth+1)
			}
		case *ssa.Phi:
			jb := x.Block()
			for i := len(path) - 1; i > 0; i-- {
				if path[i] != jb {
					continue
				}
				for k, pr := range jb.Preds {
					if pr == path[i-1] && k < len(x.Edges) {
						return resolve(x.Edges[k], pol, depth+1)
					}
				}
				break
			}
		}
		return c, pol
	}
	var dfs func(cur *ssa.BasicBlock, lits []Lit)
	dfs = func(cur *ssa.BasicBlock, lits []Lit) {
		if !okAll {
			return
		}
		if cur == b {
			out = append(out, append([]Lit{}, lits...))
			if len(out) > 256 {
				okAll = false
			}
			return
		}
		if onPath[cur] {
			return
		}
		onPath[cur] = true
		path = append(path, cur)
		defer func() { onPath[cur] = false; path = path[:len(path)-1] }()
		if len(cur.Instrs) > 0 {
			if iff, ok := cur.Instrs[len(cur.Instrs)-1].(*ssa.If); ok && cur.Succs[0] != cur.Succs[1] {
				c, pol := resolve(iff.Cond, true, 0)
				if k, isC := c.(*ssa.Const); isC && k.Value != nil && k.Value.Kind() == constant.Bool {
					// decided by the way we came: only one branch continues this path
					v := constant.BoolVal(k.Value) == pol
					if v {
						dfs(cur.Succs[0], lits)
					} else {
						dfs(cur.Succs[1], lits)
					}
					return
				}
				dfs(cur.Succs[0], append(lits, Lit{c, pol}))
				dfs(cur.Succs[1], append(lits, Lit{c, !pol}))
				return
			}
		}
		for _, s := range cur.Succs {
			dfs(s, lits)
		}
	}
	dfs(fn.Blocks[0], nil)
	return out, okAll
}

// evalLit evaluates a literal under env (term description -> value). Returns (value,
// known).  Atoms listed in assume (normalised, positive form) are taken as true.
// curAssume: the assumptions of the comparison in progress, visible to nested evaluation of
// private predicates (single-threaded).
var curAssume map[string]bool

func evalLit(l Lit, env map[string]int64, assume map[string]bool) (bool, bool) {
	if assume != nil {
		saved := curAssume
		curAssume = assume
		defer func() { curAssume = saved }()
	}
	pos := NormAtom(l.Cond, true)
	neg := NormAtom(l.Cond, false)
	for a := range assume {
		if matchStr(pos, a) {
			return l.Pol, true
		}
		if matchStr(neg, a) {
			return !l.Pol, true
		}
	}
	// string dispatch: if `T == "C"` is assumed, `T == "D"` is false for any other constant D
	if i := strings.Index(pos, " == \""); i > 0 {
		lhs := pos[:i]
		for a := range assume {
			if strings.HasPrefix(a, lhs+" == \"") && a != pos {
				return !l.Pol, true
			}
		}
	}
	v, ok := evalBool(l.Cond, env)
	if !ok {
		// a loop-control flag (`running := true; for running { … running = false }`): a bool
		// phi fed only by constants.  On a path into the loop body it holds; it carries no
		// information about the data the predicate is about.
		if ph, isPhi := l.Cond.(*ssa.Phi); isPhi {
			allConst := len(ph.Edges) > 0
			for _, e := range ph.Edges {
				if _, isC := e.(*ssa.Const); !isC {
					if e2, isP := e.(*ssa.Phi); !isP || e2 != ph {
						allConst = false
					}
				}
			}
			if allConst {
				return l.Pol, true
			}
		}
		return false, false
	}
	if !l.Pol {
		v = !v
	}
	return v, true
}

// predAliases: other access paths to a term of the domain (the same object reached through a
// back pointer, e.g. a context's c.s.pipes for the socket's s.pipes), set by a rule for the
// duration of one comparison.
var predAliases map[string]string

func evalInt(v ssa.Value, env map[string]int64) (int64, bool) {
	if k, ok := ConstInt(v); ok {
		return k, true
	}
	if a, ok := predAliases[Desc(v)]; ok {
		if x, ok := env[a]; ok {
			return x, true
		}
	}
	if IsNilConst(v) {
		return 0, true // a nil pointer/interface: 0 in a domain where the term is 0 (nil) or not
	}
	d := Desc(v)
	if x, ok := env[d]; ok {
		return x, true
	}
	switch x := v.(type) {
	case *ssa.Convert:
		return evalInt(x.X, env)
	case *ssa.ChangeType:
		return evalInt(x.X, env)
	case *ssa.BinOp:
		a, ok1 := evalInt(x.X, env)
		b, ok2 := evalInt(x.Y, env)
		if ok1 && ok2 {
			switch x.Op {
			case token.ADD:
				return a + b, true
			case token.SUB:
				return a - b, true
			case token.AND:
				return a & b, true
			}
		}
	}
	return 0, false
}

func evalBool(v ssa.Value, env map[string]int64) (bool, bool) {
	d := Desc(v)
	if x, ok := env[d]; ok {
		return x != 0, true
	}
	switch x := v.(type) {
	case *ssa.Call:
		// a private bool predicate: evaluate the conditions under which it returns true
		if dnf, subst, ok := boolHelperDNF(x); ok {
			saved := descSubst
			descSubst = subst
			defer func() { descSubst = saved }()
			unknown := false
			for _, conj := range dnf {
				all := true
				for _, l := range conj {
					val, known := evalLit(l, env, curAssume)
					if !known {
						unknown = true
						all = false
						break
					}
					if !val {
						all = false
						break
					}
				}
				if all {
					return true, true
				}
			}
			if unknown {
				return false, false
			}
			return false, true
		}
	case *ssa.UnOp:
		if x.Op == token.NOT {
			b, ok := evalBool(x.X, env)
			return !b, ok
		}
	case *ssa.BinOp:
		if _, isCmp := negOp[x.Op]; isCmp {
			// `validator(…) == nil` / `!= nil`: evaluate the private validator's own
			// path conditions (which return is taken) in the caller's terms
			if x.Op == token.EQL || x.Op == token.NEQ {
				if c, ok := x.Y.(*ssa.Const); ok && c.Value == nil {
					if call, ok := x.X.(*ssa.Call); ok {
						if isNil, known := evalReturnsNil(call, env); known {
							return isNil == (x.Op == token.EQL), true
						}
					}
				}
			}
			a, ok1 := evalInt(x.X, env)
			b, ok2 := evalInt(x.Y, env)
			if !ok1 || !ok2 {
				// pointer / nil comparisons through env of the non-nil side
				return false, false
			}
			switch x.Op {
			case token.EQL:
				return a == b, true
			case token.NEQ:
				return a != b, true
			case token.LSS:
				return a < b, true
			case token.LEQ:
				return a <= b, true
			case token.GTR:
				return a > b, true
			case token.GEQ:
				return a >= b, true
			}
		}
	}
	return false, false
}

// PredResult of comparing an extracted reach-condition with a specification.
type PredResult struct {
	OK       bool
	Undec    string
	Counter  string // first disagreeing assignment
	Combos   int
	Disjunct int
}

// ComparePred enumerates the domain (term -> candidate values) and checks that block b is
// reached exactly when spec holds.  assume lists atoms (normalised) taken as true.
func ComparePred(b *ssa.BasicBlock, domain map[string][]int64, assume []string, spec func(env map[string]int64) bool) PredResult {
	dnf, ok := PathConds(b)
	if !ok {
		return PredResult{Undec: "too many paths"}
	}
	as := map[string]bool{}
	for _, a := range assume {
		as[a] = true
	}
	var terms []string
	for t := range domain {
		terms = append(terms, t)
	}
	sort.Strings(terms)
	res := PredResult{OK: true, Disjunct: len(dnf)}
	env := map[string]int64{}
	var rec func(i int)
	rec = func(i int) {
		if !res.OK || res.Undec != "" {
			return
		}
		if i == len(terms) {
			res.Combos++
			got, undec := reachUnder(dnf, env, as, b)
			if undec != "" {
				res.Undec = undec
				return
			}
			if got != spec(env) {
				res.OK = false
				var parts []string
				for _, t := range terms {
					parts = append(parts, fmt.Sprintf("%s=%d", t, env[t]))
				}
				res.Counter = fmt.Sprintf("%s: code reaches it = %v, specification = %v", strings.Join(parts, ", "), got, spec(env))
			}
			return
		}
		for _, v := range domain[terms[i]] {
			env[terms[i]] = v
			rec(i + 1)
		}
	}
	rec(0)
	return res
}

// evalReturnsNil: for a call to a private, side-effect-free validator of the same package
// (`func (h *connHeader) check(peer uint16) error`), decide under env whether the return
// that is taken yields nil, by evaluating the path condition of each of its returns with
// the parameters read as the caller's arguments.
func evalReturnsNil(call *ssa.Call, env map[string]int64) (bool, bool) {
	sc := call.Call.StaticCallee()
	if sc == nil || sc.Blocks == nil || sc.Pkg != call.Parent().Pkg || sc.Signature.Results().Len() != 1 {
		return false, false
	}
	pure := true
	EachInstr(sc, func(in ssa.Instruction) {
		switch x := in.(type) {
		case *ssa.Store:
			if _, local := x.Addr.(*ssa.Alloc); !local {
				pure = false
			}
		case *ssa.Send, *ssa.Go, *ssa.MapUpdate, *ssa.Select, *ssa.Defer:
			pure = false
		case *ssa.Call:
			if _, isB := x.Call.Value.(*ssa.Builtin); !isB {
				pure = false
			}
		}
	})
	if !pure {
		return false, false
	}
	saved := descSubst
	ns := map[*ssa.Parameter]string{}
	for k, v := range saved {
		ns[k] = v
	}
	for i, par := range sc.Params {
		if i < len(call.Call.Args) {
			ns[par] = Desc(call.Call.Args[i])
		}
	}
	descSubst = ns
	defer func() { descSubst = saved }()
	for _, b := range sc.Blocks {
		ret, ok := b.Instrs[len(b.Instrs)-1].(*ssa.Return)
		if !ok || len(ret.Results) != 1 {
			continue
		}
		dnf, okp := PathConds(b)
		if !okp {
			return false, false
		}
		for _, conj := range dnf {
			all, unknown := true, false
			for _, l := range conj {
				v, known := evalLit(l, env, nil)
				if !known {
					unknown = true
					continue
				}
				if !v {
					all = false
					break
				}
			}
			if !all {
				continue
			}
			if unknown {
				return false, false
			}
			c, isConst := ret.Results[0].(*ssa.Const)
			return isConst && c.Value == nil, true
		}
	}
	return false, false
}

// boolHelperDNF: for a call to a private, side-effect-free bool function of the same
// package (`func (c *context) noPeers() bool { return c.failNoPeers && len(c.s.pipes) == 0 }`),
// the conditions under which it returns true, as a DNF over its own branch conditions and
// returned comparisons.  The caller must read the literals with descSubst set to subst.
func boolHelperDNF(call *ssa.Call) (dnf [][]Lit, subst map[*ssa.Parameter]string, ok bool) {
	sc := call.Call.StaticCallee()
	if sc == nil || sc.Blocks == nil || sc.Pkg != call.Parent().Pkg || sc.Signature.Results().Len() != 1 {
		return nil, nil, false
	}
	if b, isB := sc.Signature.Results().At(0).Type().Underlying().(*types.Basic); !isB || b.Kind() != types.Bool {
		return nil, nil, false
	}
	pure := true
	EachInstr(sc, func(in ssa.Instruction) {
		switch x := in.(type) {
		case *ssa.Store:
			if _, local := x.Addr.(*ssa.Alloc); !local {
				pure = false
			}
		case *ssa.Send, *ssa.Go, *ssa.MapUpdate, *ssa.Select:
			pure = false
		case ssa.CallInstruction:
			if classifyLockCall(x.Common()) == nil {
				if _, isB := x.Common().Value.(*ssa.Builtin); !isB {
					pure = false
				}
			}
		}
	})
	if !pure {
		return nil, nil, false
	}
	subst = map[*ssa.Parameter]string{}
	for k, v := range descSubst {
		subst[k] = v
	}
	for i, par := range sc.Params {
		if i < len(call.Call.Args) {
			subst[par] = Desc(call.Call.Args[i])
		}
	}
	for _, b := range sc.Blocks {
		ret, isRet := b.Instrs[len(b.Instrs)-1].(*ssa.Return)
		if !isRet || len(ret.Results) != 1 || (sc.Recover != nil && b == sc.Recover) {
			continue
		}
		rv := resolveSpill(ret.Results[0], ret)
		// per predecessor when the result is a phi of this block (short-circuit && / ||)
		type alt struct {
			blk *ssa.BasicBlock
			val ssa.Value
		}
		var alts []alt
		if ph, isPhi := rv.(*ssa.Phi); isPhi && ph.Block() == b {
			for i, e := range ph.Edges {
				alts = append(alts, alt{b.Preds[i], e})
			}
		} else {
			alts = append(alts, alt{b, rv})
		}
		for _, a := range alts {
			paths, okp := PathConds(a.blk)
			if !okp {
				return nil, nil, false
			}
			for _, conj := range paths {
				if a.blk != b {
					// the edge a.blk -> b must be the one taken
					if iff, isIf := a.blk.Instrs[len(a.blk.Instrs)-1].(*ssa.If); isIf && a.blk.Succs[0] != a.blk.Succs[1] {
						conj = append(append([]Lit{}, conj...), Lit{iff.Cond, a.blk.Succs[0] == b})
					}
				}
				if c, isC := a.val.(*ssa.Const); isC {
					if c.Value != nil && c.Value.ExactString() == "true" {
						dnf = append(dnf, conj)
					}
					continue
				}
				dnf = append(dnf, append(append([]Lit{}, conj...), Lit{a.val, true}))
			}
		}
	}
	return dnf, subst, true
}

// PredSet is the set of domain assignments (rendered "t=v, …") under which a block is reached.
type PredSet struct {
	True  map[string]bool
	Undec string
}

// ComparePredSet enumerates the domain and returns the assignments under which b is reached.
func ComparePredSet(b *ssa.BasicBlock, domain map[string][]int64, assume []string) PredSet {
	out := PredSet{True: map[string]bool{}}
	all := ComparePredEnum(domain, func(map[string]int64) bool { return true })
	_ = all
	dnf, ok := PathConds(b)
	if !ok {
		out.Undec = "too many paths"
		return out
	}
	as := map[string]bool{}
	for _, a := range assume {
		as[a] = true
	}
	enumDomain(domain, func(env map[string]int64, key string) bool {
		got, undec := reachUnder(dnf, env, as, b)
		if undec != "" {
			out.Undec = undec
			return false
		}
		if got {
			out.True[key] = true
		}
		return true
	})
	return out
}

// ComparePredEnum: the assignments of the domain that satisfy spec.
func ComparePredEnum(domain map[string][]int64, spec func(env map[string]int64) bool) map[string]bool {
	out := map[string]bool{}
	enumDomain(domain, func(env map[string]int64, key string) bool {
		if spec(env) {
			out[key] = true
		}
		return true
	})
	return out
}

func enumDomain(domain map[string][]int64, visit func(env map[string]int64, key string) bool) {
	var terms []string
	for t := range domain {
		terms = append(terms, t)
	}
	sort.Strings(terms)
	env := map[string]int64{}
	stop := false
	var rec func(i int)
	rec = func(i int) {
		if stop {
			return
		}
		if i == len(terms) {
			var parts []string
			for _, t := range terms {
				parts = append(parts, fmt.Sprintf("%s=%d", t, env[t]))
			}
			if !visit(env, strings.Join(parts, ", ")) {
				stop = true
			}
			return
		}
		for _, v := range domain[terms[i]] {
			env[terms[i]] = v
			rec(i + 1)
		}
	}
	rec(0)
}

// exitedLoopLit: l is the condition of a loop header whose loop does not contain b: on every
// acyclic path to b it is taken on its exit edge, and it says nothing about the data the
// predicate at b is about (how many entries an earlier loop walked through).
func exitedLoopLit(l Lit, b *ssa.BasicBlock) bool {
	refs := l.Cond.Referrers()
	if refs == nil {
		return false
	}
	for _, ref := range *refs {
		iff, ok := ref.(*ssa.If)
		if !ok {
			continue
		}
		h := iff.Block()
		isHeader := false
		for _, pr := range h.Preds {
			if h.Dominates(pr) {
				isHeader = true
			}
		}
		if !isHeader {
			continue
		}
		reach := blockReach(h.Parent())
		inLoop := h.Dominates(b) && (b == h || reach[b.Index][h.Index])
		if !inLoop {
			return true
		}
	}
	return false
}

// reachUnder: is the block reached under env?  A branch condition that the domain does not
// determine (a test on something the specification does not mention) is left free: the
// answer must then be the same whichever way such tests go — they sit on a diamond that
// re-joins before the block — otherwise the comparison is undecided and says which test.
func reachUnder(dnf [][]Lit, env map[string]int64, as map[string]bool, b *ssa.BasicBlock) (bool, string) {
	type lv struct {
		known, val bool
		key        string
		pol        bool
	}
	free := map[string]bool{}
	var order []string
	ev := make([][]lv, len(dnf))
	for i, conj := range dnf {
		for _, l := range conj {
			v, known := evalLit(l, env, as)
			if !known && exitedLoopLit(l, b) {
				continue
			}
			x := lv{known: known, val: v}
			if !known {
				x.key, x.pol = NormAtom(l.Cond, true), l.Pol
				if !free[x.key] {
					free[x.key] = true
					order = append(order, x.key)
				}
			}
			ev[i] = append(ev[i], x)
		}
	}
	eval := func(assign map[string]bool) bool {
		for _, conj := range ev {
			all := true
			for _, x := range conj {
				v := x.val
				if !x.known {
					v = assign[x.key] == x.pol
				}
				if !v {
					all = false
					break
				}
			}
			if all {
				return true
			}
		}
		return false
	}
	if len(order) == 0 {
		return eval(nil), ""
	}
	if len(order) > 8 {
		return false, "cannot evaluate atom " + order[0]
	}
	first, have := false, false
	for m := 0; m < 1<<len(order); m++ {
		assign := map[string]bool{}
		for k, key := range order {
			assign[key] = m&(1<<k) != 0
		}
		g := eval(assign)
		if !have {
			first, have = g, true
		} else if g != first {
			// which one matters?
			for _, key := range order {
				a2 := map[string]bool{}
				for k, v := range assign {
					a2[k] = v
				}
				a2[key] = !a2[key]
				if eval(a2) != g {
					return false, "cannot evaluate atom " + key + " (the outcome depends on it and the specification does not mention it)"
				}
			}
			return false, "cannot evaluate atom " + order[0]
		}
	}
	return first, ""
}
