package an

import "strings"

func init() {
	register(&PropInfo{ID: "C01", Run: runC01,
		Explanation: "structural necessary conditions of byte-identical, whole delivery: pool-class capacity and empty fresh messages, stream framing (prefix value, byte order, segment order, complete reads into Body[0:sz]), inclusive receive limit checked before allocation, one binary websocket frame Header‖Body, inproc copy Header‖Body, API Send/Recv copy all bytes, buffer-bound dataflow of every transport and protocol receive path.",
		Assumptions: commonAssumptions})
}

func runC01(p *Prog, r *Report) {
	r.Describe("C01.1/pool", "a recycled buffer has capacity >= the requested size; a fresh message is empty")
	poolRules(p, r, "C01.1/pool")
	r.Describe("C01.3/framing", "stream framing: prefix = len(Header)+len(Body) big-endian, Header then Body, complete reads, Body[0:sz] of NewMessage(sz)")
	framingRules(p, r, "C01.3/framing")
	r.Describe("C01.4/recv-limit", "a message whose size equals the receive limit is delivered; 0 = unlimited; the check precedes allocation")
	recvLimitRules(p, r, "C01.4/recv-limit")
	for _, a := range [][3]string{{"transport", "conn", "Recv"}, {"transport", "connipc", "Recv"}} {
		ok, why := sliceWithinNewMessage(p, a[0], a[1], a[2])
		r.Check(ok, "C01.5/whole-message", a[0]+".(*"+a[1]+").Recv/body-within-capacity", "-", why, "msg.Body[0:sz] is not justified by NewMessage(int(sz)): "+why)
	}
	r.Describe("C01.5/whole-message", "Body[0:sz] is sliced from the message allocated with that very size")
	r.Describe("C01.6/websocket", "one binary frame per message, payload Header‖Body, whole frame delivered as Body")
	wsRules(p, r, "C01.6/websocket")
	r.Describe("C01.7/inproc", "inproc queues a fresh copy whose Body is Header‖Body")
	inprocRules(p, r, "C01.7/inproc")
	c01API(p, r)
	r.Describe("C01.11/send-contract", "every transport pipe's Send consumes the message exactly when it returns nil: a message released on a failed write is released again by the protocol that sees the error, and its buffer is recycled while other pipes still have the same (shared) message queued — they then send another message's bytes")
	e5SendContracts(p, r, "C01.11/send-contract", func(rel string) bool { return strings.HasPrefix(rel, "transport") })
	r.Describe("C01.9/E6d", "no index/slice on a message buffer without a sufficient length check on any transport or protocol path (shared with C16.1)")
	allow := map[string]string{}
	for _, a := range [][3]string{{"transport", "conn", "Recv"}, {"transport", "connipc", "Recv"}} {
		if ok, why := sliceWithinNewMessage(p, a[0], a[1], a[2]); ok {
			allow[a[0]+".(*"+a[1]+").Recv/X.Body[0:n]"] = why
		}
	}
	e6dObligations(p, r, "C01.9/E6d", func(rel string) bool {
		return strings.HasPrefix(rel, "transport") || rel == "internal/core" || rel == ""
	}, allow)
	r.Describe("C01.10/length-checks-exact", "no receive path demands more bytes than it consumes: a body of length zero (only protocol header words) is delivered by every pattern")
	e6dNotOverStrict(p, r, "C01.10/length-checks-exact", notMacat)
	r.Floor("C01.10/length-checks-exact", "e6d.min_length_checks", 10)
}

// c01API: C01.8 — the byte-slice API copies all of the caller's bytes in and all of the
// message's bytes out, before the message is released.
func c01API(p *Prog, r *Report) {
	q := NewQ(p, r)
	R := "C01.8/api-copies"
	r.Describe(R, "socket/context Send append all of b into a fresh message sized len(b); Recv copies all of msg.Body before Free")
	for _, t := range []string{"socket", "context"} {
		sd := q.Fn(R, "internal/core", t, "Send")
		if sd.OK() {
			nm := sd.Ev("call", "mangos.NewMessage").Arg(0, "len(arg1)")
			ap := sd.Ev("call", "append")
			okA := len(ap) == 1 && strings.HasSuffix(ap[0].Args[0], ".Body") && ap[0].Args[1] == "arg1"
			st := sd.Ev("store", "*.Body")
			okS := len(st) == 1 && strings.HasPrefix(st[0].Args[0], "append(")
			r.Check(len(nm) == 1 && okA && okS, R, t+".Send", sd.Pos(), "NewMessage(len(b)); Body = append(Body, b...)", "Send does not copy all of b into the message body: "+argsOf(ap))
		}
		rc := q.Fn(R, "internal/core", t, "Recv")
		if rc.OK() {
			ap := rc.Ev("call", "append")
			fr := rc.Ev("call", "mangos.(*Message).Free")
			okC := len(ap) == 1 && strings.HasSuffix(ap[0].Args[1], ".Body") && strings.HasPrefix(ap[0].Args[0], "make([],0,len(")
			r.Check(okC, R, t+".Recv/copies-all", ap.Pos(p), "b = append(make([]byte,0,len(Body)), Body...)", "Recv does not copy the whole message body into a fresh slice: "+argsOf(ap))
			r.Check(len(fr) == 1 && len(ap) == 1 && fr.DominatedBy(ap), R, t+".Recv/copy-before-free", fr.Pos(p), "copy precedes Free", "Recv frees the message before copying its body")
			var ret Sel
			for _, e := range rc.Ev("return", "") {
				if len(e.Args) == 2 && e.Args[1] == "nil" {
					ret = append(ret, e)
				}
			}
			r.Check(len(ret) == 1 && strings.HasPrefix(ret[0].Args[0], "append("), R, t+".Recv/returns-copy", ret.Pos(p), "returns the copy", "Recv does not return the private copy: "+argsOf(ret))
		}
	}
}
