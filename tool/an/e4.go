package an

import (
	"fmt"
	"go/token"
	"go/types"
	"sort"
	"strings"

	"golang.org/x/tools/go/ssa"
)

// E4 BLOCKING: classification of potentially blocking instructions, transitive
// may-block summaries, blocking under a mutex, callbacks under a mutex.

type blockInfo struct {
	Kind string // chan-send, chan-recv, select, cond-wait, sleep, net-io, callback, wg-wait
	What string
}

func pkgPathOf(fn *ssa.Function) string {
	if fn == nil {
		return ""
	}
	if fn.Pkg != nil {
		return fn.Pkg.Pkg.Path()
	}
	if o := fn.Object(); o != nil && o.Pkg() != nil {
		return o.Pkg().Path()
	}
	return ""
}

func recvTypeName(fn *ssa.Function) string {
	if fn == nil || fn.Signature.Recv() == nil {
		return ""
	}
	t := fn.Signature.Recv().Type()
	if pt, ok := t.(*types.Pointer); ok {
		t = pt.Elem()
	}
	if n, ok := t.(*types.Named); ok {
		return n.Obj().Name()
	}
	return ""
}

func isHookType(t types.Type) bool {
	if n, ok := t.(*types.Named); ok {
		return n.Obj().Name() == "PipeEventHook"
	}
	if a, ok := t.(*types.Alias); ok {
		return isHookType(types.Unalias(a))
	}
	return false
}

// directBlocking classifies one instruction (not following calls into the module).
func directBlocking(in ssa.Instruction) *blockInfo {
	switch x := in.(type) {
	case *ssa.Send:
		return &blockInfo{"chan-send", "send on " + Desc(x.Chan)}
	case *ssa.UnOp:
		if x.Op == token.ARROW {
			return &blockInfo{"chan-recv", "receive from " + Desc(x.X)}
		}
	case *ssa.Select:
		if x.Blocking {
			return &blockInfo{"select", "blocking select"}
		}
	case ssa.CallInstruction:
		if _, isGo := in.(*ssa.Go); isGo {
			return nil
		}
		c := x.Common()
		if c.IsInvoke() {
			switch c.Method.Name() {
			case "Read", "Write", "Accept", "ReadFrom", "WriteTo", "ReadMessage", "WriteMessage":
				// only network-ish interfaces (net.Conn, net.Listener, io.Reader/Writer)
				tn := typeShort(c.Value.Type())
				if strings.HasPrefix(tn, "net.") || strings.HasPrefix(tn, "io.") {
					return &blockInfo{"net-io", tn + "." + c.Method.Name()}
				}
			}
			return nil
		}
		if sc := c.StaticCallee(); sc != nil {
			pk, rt, nm := pkgPathOf(sc), recvTypeName(sc), sc.Name()
			switch {
			case pk == "sync" && rt == "Cond" && nm == "Wait":
				return &blockInfo{"cond-wait", "Cond.Wait on " + Desc(c.Args[0])}
			case pk == "sync" && rt == "WaitGroup" && nm == "Wait":
				return &blockInfo{"wg-wait", "WaitGroup.Wait"}
			case pk == "time" && nm == "Sleep":
				return &blockInfo{"sleep", "time.Sleep"}
			case pk == "io" && (nm == "ReadFull" || nm == "ReadAtLeast" || nm == "Copy"):
				return &blockInfo{"net-io", "io." + nm}
			case pk == "encoding/binary" && (nm == "Read" || nm == "Write") && rt == "":
				return &blockInfo{"net-io", "binary." + nm}
			case pk == "net" && (strings.HasPrefix(nm, "Dial") || strings.HasPrefix(nm, "Accept") || nm == "WriteTo" || nm == "Read" || nm == "Write"):
				return &blockInfo{"net-io", "net." + rt + "." + nm}
			case pk == "crypto/tls" && (strings.HasPrefix(nm, "Dial") || nm == "Handshake" || nm == "Read" || nm == "Write"):
				return &blockInfo{"net-io", "tls." + nm}
			case pk == "github.com/gorilla/websocket" && (nm == "Dial" || nm == "DialContext" || nm == "ReadMessage" || nm == "WriteMessage" || nm == "NextReader" || nm == "Upgrade"):
				return &blockInfo{"net-io", "websocket." + nm}
			case pk == "net/http" && (nm == "Serve" || nm == "ListenAndServe"):
				return &blockInfo{"net-io", "http." + nm}
			case pk == "github.com/Microsoft/go-winio" && (strings.HasPrefix(nm, "Dial")):
				return &blockInfo{"net-io", "winio." + nm}
			}
			return nil
		}
		// dynamic call of an application callback
		if isHookType(c.Value.Type()) {
			return &blockInfo{"callback", "application PipeEventHook"}
		}
	}
	return nil
}

type e4Result struct {
	may map[*ssa.Function]*blockChain
}

type blockChain struct {
	Info  *blockInfo
	Pos   string
	Chain []string
}

// MayBlock: transitive (synchronous, in-module) may-block summary of every function.
func (p *Prog) E4() *e4Result {
	if p.e4 != nil {
		return p.e4
	}
	r := &e4Result{may: map[*ssa.Function]*blockChain{}}
	p.e4 = r
	e1 := p.E1()
	var fns []*ssa.Function
	for fn := range p.All {
		if p.moduleFunc(fn) && fn.Blocks != nil {
			fns = append(fns, fn)
		}
	}
	sort.Slice(fns, func(i, j int) bool { return fns[i].String() < fns[j].String() })
	for _, fn := range fns {
		EachInstr(fn, func(in ssa.Instruction) {
			if r.may[fn] != nil {
				return
			}
			if _, isDefer := in.(*ssa.Defer); isDefer {
				return
			}
			if bi := directBlocking(in); bi != nil {
				if bi.Kind == "cond-wait" {
					return // releases its lock; judged at the site itself
				}
				r.may[fn] = &blockChain{Info: bi, Pos: p.InstrPos(in), Chain: []string{p.FuncName(fn)}}
			}
		})
	}
	for iter := 0; iter < 15; iter++ {
		changed := false
		for _, fn := range fns {
			if r.may[fn] != nil {
				continue
			}
			EachInstr(fn, func(in ssa.Instruction) {
				if r.may[fn] != nil {
					return
				}
				for _, callee := range e1.syncCallees[in] {
					if bc := r.may[callee]; bc != nil {
						ch := append([]string{p.FuncName(fn)}, bc.Chain...)
						if len(ch) > 8 {
							ch = ch[:8]
						}
						r.may[fn] = &blockChain{Info: bc.Info, Pos: bc.Pos, Chain: ch}
						changed = true
						return
					}
				}
			})
		}
		if !changed {
			break
		}
	}
	return r
}

// mutexesHeld: abstract mutexes (not Once pseudo-locks) held at an instruction.
func (p *Prog) mutexesHeld(fn *ssa.Function, in ssa.Instruction) []string {
	var out []string
	for k := range p.heldAbs(fn, in) {
		if !strings.HasPrefix(k, "once:") {
			out = append(out, k)
		}
	}
	sort.Strings(out)
	return out
}

// allowEntry: a frozen, justified exception to "nothing blocks under a mutex".
type allowEntry struct {
	Fn     string // function key
	Match  string // substring of the blocking description
	Reason string
	Guard  string // optional: a guard atom that must dominate the (direct) blocking site
	NotOS  string // the function does not exist on this GOOS
}

// e4UnderLock reports every blocking operation (direct or through a callee) executed with
// a mutex held, unless allow-listed; callbacks under a lock are never allowed.
func e4UnderLock(p *Prog, r *Report, rule string, allow []allowEntry) {
	e4 := p.E4()
	e1 := p.E1()
	used := map[int]bool{}
	nSites := 0
	for _, fn := range p.Funcs {
		fname := p.FuncName(fn)
		per := map[string]int{}
		// an allow-list entry written for a function also covers the private single-use
		// helper that part of its body was moved into
		homeOf := map[string]bool{fname: true}
		if p.singleUse(fn) {
			for _, h := range p.attributedTo(fname) {
				homeOf[h] = true
			}
		}
		EachInstr(fn, func(in ssa.Instruction) {
			if _, isDefer := in.(*ssa.Defer); isDefer {
				return
			}
			if _, isGo := in.(*ssa.Go); isGo {
				return
			}
			var bi *blockInfo
			var chain []string
			pos := p.InstrPos(in)
			if d := directBlocking(in); d != nil {
				if p.singleUse(fn) && len(p.EntryLocks(fn)) > 0 {
					// a single-use private helper is judged at its call site, in the caller's
					// terms; an allow-list entry written for the helper itself stays satisfied
					for i, a := range allow {
						if homeOf[a.Fn] && strings.Contains(d.Kind+": "+d.What, a.Match) {
							used[i] = true
						}
					}
					return
				}
				bi = d
				chain = []string{fname}
			} else {
				for _, callee := range e1.syncCallees[in] {
					if bc := e4.may[callee]; bc != nil {
						bi = bc.Info
						chain = append([]string{fname}, bc.Chain...)
						// the blocking operation sits directly in a single-use helper: describe it
						// as if the helper's body stood here
						if c := CallOf(in); c != nil && c.StaticCallee() == callee && p.singleUse(callee) {
							saved := descSubst
							ns := map[*ssa.Parameter]string{}
							for i, par := range callee.Params {
								if i < len(c.Args) {
									ns[par] = Desc(c.Args[i])
								}
							}
							descSubst = ns
							EachInstr(callee, func(x ssa.Instruction) {
								if d := directBlocking(x); d != nil && d.Kind == bc.Info.Kind && p.InstrPos(x) == bc.Pos {
									bi = d
								}
							})
							descSubst = saved
						}
						break
					}
				}
			}
			if bi == nil {
				return
			}
			held := p.mutexesHeld(fn, in)
			if len(held) == 0 {
				return
			}
			if bi.Kind == "cond-wait" && len(chain) == 1 {
				// Wait releases the Cond's own mutex; blocking only if another is held
				if len(held) <= 1 {
					return
				}
			}
			nSites++
			desc := bi.Kind + ": " + bi.What
			per[bi.Kind]++
			key := fmt.Sprintf("%s/%s#%d", fname, bi.Kind, per[bi.Kind])
			if bi.Kind == "callback" {
				r.Bad(rule, key, pos, "application callback invoked with "+strings.Join(held, ",")+" held", "chain: "+strings.Join(chain, " -> "))
				return
			}
			for i, a := range allow {
				if homeOf[a.Fn] && strings.Contains(desc+" "+strings.Join(chain, " -> "), a.Match) {
					used[i] = true
					if a.Guard != "" && !hasAtom(p.GuardStrings(in), a.Guard) {
						r.Bad(rule, key, pos, fmt.Sprintf("%s under %s is allow-listed only under the guard `%s`, which no longer dominates it (guards: %v)", desc, strings.Join(held, ","), a.Guard, p.GuardStrings(in)))
						return
					}
					r.OK(rule, key, pos, "allow-listed: "+a.Reason)
					return
				}
			}
			r.Bad(rule, key, pos, fmt.Sprintf("%s while holding %s: can stall every other user of the lock", desc, strings.Join(held, ",")),
				"chain: "+strings.Join(chain, " -> "))
		})
	}
	for i, a := range allow {
		if !used[i] && a.NotOS != p.Conf.GOOS {
			r.Bad(rule, "allow-list/"+a.Fn+"/"+a.Match, "-", "allow-list entry no longer matches any site (ANCHOR-MISSING): "+a.Reason)
		}
	}
	r.Count("e4.blocking_sites_under_lock", nSites)
}
