package an

import (
	"crypto/sha1"
	"encoding/json"
	"fmt"
	"os"
	"path/filepath"
	"sort"
	"strings"
)

// Status of an obligation.
const (
	Discharged = "discharged"
	Violated   = "violated"
	Undecided  = "undecided"
)

// Ob is one obligation: (property, rule, construct key) with its outcome.
type Ob struct {
	Prop    string   `json:"property"`
	Rule    string   `json:"rule"`
	Key     string   `json:"key"` // construct, never a line number
	Status  string   `json:"status"`
	Pos     string   `json:"pos,omitempty"`
	Msg     string   `json:"msg,omitempty"`
	Witness []string `json:"witness,omitempty"`
	Config  string   `json:"config,omitempty"`
	Known   string   `json:"known_finding,omitempty"`
}

func (o *Ob) ID() string { return o.Prop + "/" + o.Rule + "/" + o.Key }

// Report collects obligations and measured counters for one property on one configuration.
type Report struct {
	Prop   string            `json:"property"`
	Config string            `json:"config"`
	Obs    []*Ob             `json:"obligations"`
	Counts map[string]int    `json:"counts"`
	Rules  map[string]string `json:"rules"` // rule -> one-line description
	seen   map[string]*Ob
}

func NewReport(prop, config string) *Report {
	return &Report{Prop: prop, Config: config, Counts: map[string]int{}, Rules: map[string]string{}, seen: map[string]*Ob{}}
}

// Describe registers the one-line description of a rule (goes to evidence).
func (r *Report) Describe(rule, text string) { r.Rules[rule] = text }

func (r *Report) add(rule, key, status, pos, msg string, wit []string) *Ob {
	id := rule + "/" + key
	if o, ok := r.seen[id]; ok {
		// keep the worst outcome for a construct
		rank := map[string]int{Discharged: 0, Undecided: 1, Violated: 2}
		if rank[status] > rank[o.Status] {
			o.Status, o.Pos, o.Msg, o.Witness = status, pos, msg, wit
		}
		return o
	}
	o := &Ob{Prop: r.Prop, Rule: rule, Key: key, Status: status, Pos: pos, Msg: msg, Witness: wit, Config: r.Config}
	r.seen[id] = o
	r.Obs = append(r.Obs, o)
	return o
}

func (r *Report) OK(rule, key, pos, msg string) { r.add(rule, key, Discharged, pos, msg, nil) }
func (r *Report) Bad(rule, key, pos, msg string, wit ...string) {
	r.add(rule, key, Violated, pos, msg, wit)
}
func (r *Report) Unk(rule, key, pos, msg string, wit ...string) {
	r.add(rule, key, Undecided, pos, msg, wit)
}

// Check adds a discharged or violated obligation depending on cond.
func (r *Report) Check(cond bool, rule, key, pos, okmsg, badmsg string, wit ...string) bool {
	if cond {
		r.OK(rule, key, pos, okmsg)
	} else {
		r.Bad(rule, key, pos, badmsg, wit...)
	}
	return cond
}

// Count records a measured quantity.
func (r *Report) Count(name string, n int) { r.Counts[name] += n }

// Floor fails closed when a measured instance count is below the number confirmed by hand.
func (r *Report) Floor(rule, name string, min int) {
	n := r.Counts[name]
	if n < min {
		r.Bad(rule, "floor:"+name, "-", fmt.Sprintf("rule went blind: %s = %d, below the %d instances confirmed by hand", name, n, min))
	} else {
		r.OK(rule, "floor:"+name, "-", fmt.Sprintf("%s = %d (floor %d)", name, n, min))
	}
}

// ---------------------------------------------------------------------------------
// known findings

type KnownFinding struct {
	Property string `json:"property"`
	Status   string `json:"status"` // "known" | "fixed"
	Rule     string `json:"rule,omitempty"`
	Key      string `json:"key,omitempty"`
	Commit   string `json:"commit,omitempty"`
	What     string `json:"what"`
}

type KnownFile struct {
	Comment  string         `json:"comment"`
	Findings []KnownFinding `json:"findings"`
}

func LoadKnown(path string) (*KnownFile, error) {
	b, err := os.ReadFile(path)
	if err != nil {
		if os.IsNotExist(err) {
			return &KnownFile{}, nil
		}
		return nil, err
	}
	var k KnownFile
	if err := json.Unmarshal(b, &k); err != nil {
		return nil, err
	}
	return &k, nil
}

// Match returns the known (unrepaired) finding listed for exactly this obligation.
func (k *KnownFile) Match(o *Ob) *KnownFinding {
	for i := range k.Findings {
		f := &k.Findings[i]
		if f.Status == "known" && f.Property == o.Prop && f.Rule == o.Rule && f.Key == o.Key {
			return f
		}
	}
	return nil
}

// ---------------------------------------------------------------------------------
// evidence

type Evidence struct {
	PropertyID  string                 `json:"property_id"`
	Tier        string                 `json:"tier"`
	Seed        int                    `json:"seed"`
	Level       string                 `json:"level"`
	Coverage    map[string]interface{} `json:"coverage"`
	Assumptions []string               `json:"assumptions"`
	WallS       float64                `json:"wall_s"`
	Violations  int                    `json:"violations"`
}

func hashKey(s string) string {
	h := sha1.Sum([]byte(s))
	return fmt.Sprintf("%x", h[:6])
}

// Finish merges per-configuration reports, applies the known-findings file, prints
// VIOLATION / KNOWN-FINDING lines, writes replay files and the evidence file.  Returns
// the process exit code.
func Finish(verifDir, prop, tier string, seed int, reps []*Report, extra map[string]interface{},
	assumptions []string, wall float64, explanation string) int {

	known, kerr := LoadKnown(filepath.Join(verifDir, "known_findings.json"))
	evDir := filepath.Join(verifDir, "evidence")
	repDir := filepath.Join(evDir, "reports")
	_ = os.MkdirAll(repDir, 0o755)
	// remove stale replay files of this property
	if old, _ := filepath.Glob(filepath.Join(repDir, prop+"-*.json")); old != nil {
		for _, f := range old {
			_ = os.Remove(f)
		}
	}

	merged := map[string]*Ob{}
	var order []string
	counts := map[string]int{}
	rules := map[string]string{}
	var configs []string
	for _, r := range reps {
		configs = append(configs, r.Config)
		for k, v := range r.Counts {
			if v > counts[k] {
				counts[k] = v // max over configurations (same code mostly)
			}
		}
		for k, v := range r.Rules {
			rules[k] = v
		}
		for _, o := range r.Obs {
			id := o.ID()
			if m, ok := merged[id]; ok {
				rank := map[string]int{Discharged: 0, Undecided: 1, Violated: 2}
				if rank[o.Status] > rank[m.Status] {
					*m = *o
				}
				continue
			}
			c := *o
			merged[id] = &c
			order = append(order, id)
		}
	}
	sort.Strings(order)

	nviol, nknown, nund, ndis := 0, 0, 0, 0
	perRule := map[string][2]int{}
	var samples []interface{}
	var violList []interface{}
	exit := 0
	if kerr != nil {
		fmt.Printf("VIOLATION property=%s replay=%s\n", prop, filepath.Join(verifDir, "known_findings.json"))
		fmt.Printf("  known_findings.json unreadable: %v\n", kerr)
		exit = 1
		nviol++
	}
	sampleCap := map[string]int{}
	for _, id := range order {
		o := merged[id]
		pr := perRule[o.Rule]
		pr[0]++
		switch o.Status {
		case Discharged:
			ndis++
			pr[1]++
			if sampleCap[o.Rule] < 3 {
				sampleCap[o.Rule]++
				samples = append(samples, map[string]string{"rule": o.Rule, "construct": o.Key, "pos": o.Pos, "status": o.Status, "how": o.Msg})
			}
		default:
			if kf := known.Match(o); kf != nil && o.Status == Violated {
				nknown++
				o.Known = kf.What
				fmt.Printf("KNOWN-FINDING: property=%s %s [%s %s at %s]\n", prop, kf.What, o.Rule, o.Key, o.Pos)
				violList = append(violList, o)
			} else {
				if o.Status == Undecided {
					nund++
				} else {
					nviol++
				}
				exit = 1
				path := filepath.Join(repDir, fmt.Sprintf("%s-%s.json", prop, hashKey(id)))
				b, _ := json.MarshalIndent(o, "", " ")
				_ = os.WriteFile(path, b, 0o644)
				fmt.Printf("VIOLATION property=%s replay=%s\n", prop, path)
				fmt.Printf("  %s: %s: %s: %s [%s]\n", o.Pos, o.Rule, o.Key, o.Msg, o.Status)
				for _, w := range o.Witness {
					fmt.Printf("      %s\n", w)
				}
				violList = append(violList, o)
			}
		}
		perRule[o.Rule] = pr
	}
	ruleTab := []interface{}{}
	var rnames []string
	for k := range perRule {
		rnames = append(rnames, k)
	}
	sort.Strings(rnames)
	for _, k := range rnames {
		ruleTab = append(ruleTab, map[string]interface{}{"rule": k, "what": rules[k], "obligations": perRule[k][0], "discharged": perRule[k][1]})
	}
	cov := map[string]interface{}{
		"explanation":    explanation,
		"build_configs":  configs,
		"obligations":    len(order),
		"discharged":     ndis,
		"known_findings": nknown,
		"undecided":      nund,
		"violated":       nviol,
		"exhaustive":     true,
		"per_rule":       ruleTab,
		"measured":       counts,
		"samples":        samples,
		"checker_cmd":    fmt.Sprintf("./bin/mverif check %s --tier %s", prop, tier),
	}
	if len(violList) > 0 {
		cov["not_discharged"] = violList
	}
	for k, v := range extra {
		cov[k] = v
	}
	ev := Evidence{PropertyID: prop, Tier: tier, Seed: seed, Level: "other", Coverage: cov,
		Assumptions: assumptions, WallS: wall, Violations: nviol + nund}
	b, _ := json.MarshalIndent(ev, "", " ")
	if err := os.WriteFile(filepath.Join(evDir, prop+".json"), b, 0o644); err != nil {
		fmt.Printf("VIOLATION property=%s replay=-\n  cannot write evidence: %v\n", prop, err)
		return 1
	}
	fmt.Printf("%s %s: configs=%s obligations=%d discharged=%d known=%d violated=%d undecided=%d wall=%.1fs\n",
		prop, tier, strings.Join(configs, ","), len(order), ndis, nknown, nviol, nund, wall)
	return exit
}
