package an

import (
	"go/token"
	"go/types"
	"strings"

	"golang.org/x/tools/go/ssa"
)

// E11 CLOSER-LEAK: an operating-system resource acquired by a function (a listening socket, a
// connection, a file) is, on every path from the acquisition to a return, either closed or
// handed on (stored, returned, sent, given to a goroutine or to a function that keeps it).
// A bound listener that is dropped on an error return stays bound for the life of the process:
// the endpoint cannot be used again ("address already in use"), and Close has nothing left to
// close.  The rule is a typestate over the acquired value and its aliases on the SSA CFG, with
// a "does the callee keep its parameter" summary for calls into the module.

func hasCloseMethod(t types.Type) bool {
	if t == nil {
		return false
	}
	for _, tt := range []types.Type{t, types.NewPointer(t)} {
		ms := types.NewMethodSet(tt)
		for i := 0; i < ms.Len(); i++ {
			f := ms.At(i).Obj()
			if f.Name() != "Close" {
				continue
			}
			sig, ok := f.Type().(*types.Signature)
			if ok && sig.Params().Len() == 0 && sig.Results().Len() == 1 {
				return true
			}
		}
	}
	return false
}

var acquirePrefixes = []string{"Listen", "Dial", "Accept", "Open", "Create", "Upgrade", "FileListener", "FileConn"}

// acquires: the call obtains a fresh closeable resource from outside the module.
func (p *Prog) acquires(c *ssa.CallCommon) bool {
	name := ""
	if c.IsInvoke() {
		name = c.Method.Name()
		if pk := c.Method.Pkg(); pk != nil {
			if _, inMod := Rel(pk.Path()); inMod {
				return false
			}
		}
	} else {
		sc := c.StaticCallee()
		if sc == nil || p.moduleFunc(sc) {
			return false
		}
		name = sc.Name()
	}
	okName := false
	for _, pre := range acquirePrefixes {
		if strings.HasPrefix(name, pre) {
			okName = true
		}
	}
	if !okName {
		return false
	}
	res := c.Signature().Results()
	if res.Len() == 0 || res.Len() > 3 {
		return false
	}
	return hasCloseMethod(res.At(0).Type())
}

// wraps: an external function that takes a closeable value and returns a closeable value built
// around it (tls.NewListener, tls.Client, tls.Server, bufio-like): the result stands for the
// argument from then on.
func (p *Prog) wraps(c *ssa.CallCommon) bool {
	if c.IsInvoke() {
		return false
	}
	sc := c.StaticCallee()
	if sc == nil || p.moduleFunc(sc) {
		return false
	}
	res := c.Signature().Results()
	return res.Len() >= 1 && hasCloseMethod(res.At(0).Type())
}

type e11 struct {
	p    *Prog
	owns map[*ssa.Function]map[int]int // 0 unknown, 1 keeps, 2 borrows, 3 in progress
}

func (p *Prog) e11() *e11 {
	if p.e11c == nil {
		p.e11c = &e11{p: p, owns: map[*ssa.Function]map[int]int{}}
	}
	return p.e11c
}

// aliasesOf: the values that stand for v inside fn (conversions, type assertions, merges,
// wrappers, loads of a local cell it was stored in).
func (e *e11) aliasesOf(fn *ssa.Function, roots ...ssa.Value) map[ssa.Value]bool {
	A := map[ssa.Value]bool{}
	for _, r := range roots {
		A[r] = true
	}
	cells := map[*ssa.Alloc]bool{}
	parked := map[[2]interface{}]bool{}
	for changed := true; changed; {
		changed = false
		add := func(v ssa.Value) {
			if !A[v] {
				A[v] = true
				changed = true
			}
		}
		EachInstr(fn, func(in ssa.Instruction) {
			switch x := in.(type) {
			case *ssa.ChangeInterface:
				if A[x.X] {
					add(x)
				}
			case *ssa.MakeInterface:
				if A[x.X] {
					add(x)
				}
			case *ssa.ChangeType:
				if A[x.X] {
					add(x)
				}
			case *ssa.TypeAssert:
				if A[x.X] {
					add(x)
				}
			case *ssa.Extract:
				if ta, ok := x.Tuple.(*ssa.TypeAssert); ok && A[ta] && x.Index == 0 {
					add(x)
				}
				if call, ok := x.Tuple.(*ssa.Call); ok && A[call] && x.Index == 0 {
					add(x)
				}
			case *ssa.Phi:
				for _, ed := range x.Edges {
					if A[ed] {
						add(x)
					}
				}
			case *ssa.Call:
				if e.p.wraps(&x.Call) {
					for _, a := range x.Call.Args {
						if A[a] {
							add(x)
						}
					}
				}
			case *ssa.Store:
				if al, ok := x.Addr.(*ssa.Alloc); ok && A[x.Val] && !cells[al] {
					cells[al] = true
					changed = true
				}
				// stored into an object this function has just made: the object stands for
				// the resource from now on (returning or publishing the object hands it on)
				if obj := localObjectOf(x.Addr); obj != nil && A[x.Val] {
					add(obj)
					if fa, ok := x.Addr.(*ssa.FieldAddr); ok {
						k := [2]interface{}{fa.X, fa.Field}
						if !parked[k] {
							parked[k] = true
							changed = true
						}
					}
				}
			case *ssa.UnOp:
				if x.Op == token.MUL {
					if al, ok := x.X.(*ssa.Alloc); ok && cells[al] {
						add(x)
					}
					// read back out of the fresh object it was parked in
					if fa, ok := x.X.(*ssa.FieldAddr); ok && parked[[2]interface{}{fa.X, fa.Field}] {
						add(x)
					}
				}
			}
		})
	}
	// the cells themselves (captured by closures) count as the value
	for al := range cells {
		A[al] = true
	}
	return A
}

// localObjectOf: addr is a field (through value-embedded structs) of an object allocated by
// this very function (`w := &wsPipe{…}; w.ws = conn`): nobody else can reach it yet.
func localObjectOf(addr ssa.Value) *ssa.Alloc {
	for i := 0; i < 4; i++ {
		fa, ok := addr.(*ssa.FieldAddr)
		if !ok {
			return nil
		}
		switch b := fa.X.(type) {
		case *ssa.Alloc:
			if b.Heap || b.Comment == "complit" || b.Comment == "new" {
				return b
			}
			return nil
		case *ssa.FieldAddr:
			addr = b
		default:
			return nil
		}
	}
	return nil
}

// discharges: the instruction closes an alias or hands it on.
func (e *e11) discharges(in ssa.Instruction, A map[ssa.Value]bool, depth int) bool {
	switch x := in.(type) {
	case *ssa.Store:
		if A[x.Val] {
			if _, local := x.Addr.(*ssa.Alloc); !local && localObjectOf(x.Addr) == nil {
				return true
			}
		}
	case *ssa.MapUpdate:
		return A[x.Value]
	case *ssa.Send:
		return A[x.X]
	case *ssa.Return:
		for _, rv := range x.Results {
			if A[rv] {
				return true
			}
		}
	case *ssa.MakeClosure:
		for _, b := range x.Bindings {
			if A[b] {
				return true
			}
		}
	case *ssa.Go:
		for _, a := range x.Call.Args {
			if A[a] {
				return true
			}
		}
		if x.Call.IsInvoke() && A[x.Call.Value] {
			return true
		}
	}
	c := CallOf(in)
	if c == nil {
		return false
	}
	// Close on the value itself
	if c.IsInvoke() {
		if c.Method.Name() == "Close" && A[c.Value] {
			return true
		}
	} else if sc := c.StaticCallee(); sc != nil && sc.Name() == "Close" && len(c.Args) >= 1 && A[c.Args[0]] {
		return true
	}
	// handed to a function of the module that keeps it
	args := c.Args
	for i, a := range args {
		if !A[a] {
			continue
		}
		if c.IsInvoke() {
			// a method of a module interface (Handshaker.Start(pipe), …): implementations keep it
			if pk := c.Method.Pkg(); pk != nil {
				if _, inMod := Rel(pk.Path()); inMod {
					return true
				}
			}
			continue
		}
		sc := c.StaticCallee()
		if sc == nil {
			return true // a function value: assume it keeps it
		}
		if !e.p.moduleFunc(sc) {
			continue // external, not a wrapper (wrappers are aliases): borrows
		}
		if e.keeps(sc, i, depth+1) {
			return true
		}
	}
	return false
}

// keeps: does module function fn keep (store, return, close, hand on) its i-th parameter on
// some path?  (A function that only configures the value borrows it.)
func (e *e11) keeps(fn *ssa.Function, i int, depth int) bool {
	if fn.Blocks == nil || i >= len(fn.Params) || depth > 4 {
		return true
	}
	m := e.owns[fn]
	if m == nil {
		m = map[int]int{}
		e.owns[fn] = m
	}
	switch m[i] {
	case 1, 3:
		return true
	case 2:
		return false
	}
	m[i] = 3
	A := e.aliasesOf(fn, fn.Params[i])
	res := false
	for _, f := range WithClosures(fn) {
		EachInstr(f, func(in ssa.Instruction) {
			if !res && e.discharges(in, A, depth) {
				res = true
			}
		})
	}
	if res {
		m[i] = 1
	} else {
		m[i] = 2
	}
	return res
}

// closerLeaks reports every acquisition in the packages selected by filter from which a path
// reaches a return without closing the resource or handing it on.
func closerLeaks(p *Prog, r *Report, R string, filter func(rel string) bool) {
	r.Describe(R, "a listener, connection or file obtained from the operating system is closed or handed on (stored, returned, given to a goroutine or to a function that keeps it) on every path from its acquisition to a return: an error return that drops a bound listener leaves the address in use for the life of the process")
	e := p.e11()
	n := 0
	for _, fn := range p.Funcs {
		rel, ok := p.FuncRel(fn)
		if !ok || !filter(rel) || strings.HasSuffix(p.Fset.Position(fn.Pos()).Filename, "_test.go") {
			continue
		}
		EachInstr(fn, func(in ssa.Instruction) {
			call, ok := in.(*ssa.Call)
			if !ok || !p.acquires(&call.Call) {
				return
			}
			n++
			var v ssa.Value = call
			var errv ssa.Value
			if call.Call.Signature().Results().Len() > 1 {
				v = nil
				for _, ref := range *call.Referrers() {
					if ex, ok := ref.(*ssa.Extract); ok {
						if ex.Index == 0 {
							v = ex
						} else if isErrorType(ex.Type()) {
							errv = ex
						}
					}
				}
			}
			key := p.FuncName(fn) + "/" + CalleeName(&call.Call)
			if v == nil {
				r.Bad(R, key, p.InstrPos(in), "the resource returned by "+CalleeName(&call.Call)+" is discarded: nothing can ever close it")
				return
			}
			A := e.aliasesOf(fn, v)
			// the resource exists where the error is nil: the walk starts right after the call
			// (`l.l, err = Listen(…)` stores before it tests) and, at every test of that error
			// (or of a variable it was merged into) against nil, follows the nil side only
			start := in.Block()
			startIdx := instrIndex(in) + 1
			E := map[ssa.Value]bool{}
			if errv != nil {
				E[errv] = true
				for changed := true; changed; {
					changed = false
					EachInstr(fn, func(i2 ssa.Instruction) {
						if ph, ok := i2.(*ssa.Phi); ok && !E[ph] {
							for _, ed := range ph.Edges {
								if E[ed] {
									E[ph] = true
									changed = true
								}
							}
						}
					})
				}
			}
			nilSide := func(b *ssa.BasicBlock) *ssa.BasicBlock {
				iff, ok := b.Instrs[len(b.Instrs)-1].(*ssa.If)
				if !ok {
					return nil
				}
				bo, ok := iff.Cond.(*ssa.BinOp)
				if !ok || (bo.Op != token.NEQ && bo.Op != token.EQL) {
					return nil
				}
				if !((E[bo.X] && IsNilConst(bo.Y)) || (E[bo.Y] && IsNilConst(bo.X))) {
					return nil
				}
				if bo.Op == token.NEQ {
					return b.Succs[1]
				}
				return b.Succs[0]
			}
			leak := ""
			seen := map[*ssa.BasicBlock]bool{}
			var walk func(b *ssa.BasicBlock, from int)
			walk = func(b *ssa.BasicBlock, from int) {
				if leak != "" {
					return
				}
				for i := from; i < len(b.Instrs); i++ {
					x := b.Instrs[i]
					if e.discharges(x, A, 0) {
						return
					}
					if _, isRet := x.(*ssa.Return); isRet {
						leak = p.InstrPos(x)
						return
					}
					if _, isPanic := x.(*ssa.Panic); isPanic {
						return
					}
				}
				succs := b.Succs
				if ns := nilSide(b); ns != nil {
					succs = []*ssa.BasicBlock{ns}
				}
				for _, s := range succs {
					if !seen[s] {
						seen[s] = true
						walk(s, 0)
					}
				}
			}
			walk(start, startIdx)
			r.Check(leak == "", R, key, p.InstrPos(in), "closed or handed on on every path", "the "+typeShort(v.Type())+" obtained here is neither closed nor handed on before the return at "+leak+": it stays open (a listener stays bound to its address) with nothing left that could close it; a retry fails with 'address already in use'")
		})
	}
	r.Count("e11.acquisitions."+R, n)
}
