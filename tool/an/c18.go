package an

import (
	"fmt"
	"go/token"
	"go/types"
	"strings"

	"golang.org/x/tools/go/ssa"
)

func init() {
	register(&PropInfo{ID: "C18", Run: runC18,
		Explanation: "structure of every deadline wait in SendMsg/RecvMsg of the protocols: the timer case of each blocking select is fed only by {nil channel, closed channel under the best-effort flag, time.After(x)} with x the field the matching deadline option stores and the time.After guarded by x > 0 and armed once per call (not inside the wait loop); the timer arm returns the matching timeout constant (nil after freeing for best-effort); closed/nil channel globals are never reassigned; fail-no-peers tests precede the waits.",
		Assumptions: commonAssumptions})
}

// optionFieldMap: for SetOption-like method fn, option constant (string) -> access path
// of the field stored under the guard `arg1 == "<OPTION>"`.
func (p *Prog) optionFieldMap(fn *ssa.Function) map[string][]string {
	out := map[string][]string{}
	for _, f := range WithClosures(fn) {
		// (including the stores a private setter helper makes on the method's behalf: its
		// `*dst = v` with dst = &c.field is a store to c.field at the call site)
		for _, e := range append(append([]*Ev{}, p.Events(f)...), p.EventsDeep(f)...) {
			if e.Kind != "store" {
				continue
			}
			found := false
			for _, g := range e.Guard {
				if strings.HasPrefix(g, "arg1 == \"") {
					opt := strings.Trim(strings.TrimPrefix(g, "arg1 == "), "\"")
					out[opt] = append(out[opt], e.What)
					found = true
				}
			}
			if found || e.Site != nil {
				continue
			}
			// `case A, B:` with an inner `if name == A {…} else {…}`: the option is what the
			// feasible paths to the store say about the name
			dnf, ok := PathConds(e.In.Block())
			if !ok {
				continue
			}
			opts := map[string]bool{}
			for _, conj := range dnf {
				pos, neg := map[string]bool{}, map[string]bool{}
				for _, l := range conj {
					a := NormAtom(l.Cond, l.Pol)
					if strings.HasPrefix(a, "arg1 == \"") {
						pos[strings.Trim(strings.TrimPrefix(a, "arg1 == "), "\"")] = true
					} else if strings.HasPrefix(a, "arg1 != \"") {
						neg[strings.Trim(strings.TrimPrefix(a, "arg1 != "), "\"")] = true
					}
				}
				if len(pos) != 1 {
					continue // no option decided, or two different names at once: infeasible
				}
				for o := range pos {
					if !neg[o] {
						opts[o] = true
					}
				}
			}
			for o := range opts {
				out[o] = append(out[o], e.What)
			}
		}
	}
	return out
}

// timerSources collects the leaf definitions of a channel value through phis.
// helperResultSources: the sources of result idx of a call to a helper of the same package.
func helperResultSources(x *ssa.Call, idx int, seen map[ssa.Value]bool, out *[]ssa.Value) bool {
	sc := x.Call.StaticCallee()
	if sc == nil || sc.Blocks == nil || sc.Pkg != x.Parent().Pkg {
		return false
	}
	ns := map[*ssa.Parameter]string{}
	for k, val := range descSubst {
		ns[k] = val
	}
	for i, par := range sc.Params {
		if i < len(x.Call.Args) {
			ns[par] = Desc(x.Call.Args[i])
		}
	}
	n := 0
	for _, b := range sc.Blocks {
		ret, ok := b.Instrs[len(b.Instrs)-1].(*ssa.Return)
		if !ok || len(ret.Results) <= idx || (sc.Recover != nil && b == sc.Recover) {
			continue
		}
		n++
		before := len(*out)
		timerSources(resolveSpill(ret.Results[idx], ret), seen, out)
		for _, s := range (*out)[before:] {
			timerSubst[s] = ns
		}
	}
	return n > 0
}

func timerSources(v ssa.Value, seen map[ssa.Value]bool, out *[]ssa.Value) {
	if seen[v] {
		return
	}
	seen[v] = true
	switch x := v.(type) {
	case *ssa.Phi:
		for _, e := range x.Edges {
			timerSources(e, seen, out)
		}
	case *ssa.ChangeType:
		timerSources(x.X, seen, out)
	case *ssa.MakeInterface:
		timerSources(x.X, seen, out)
	case *ssa.Extract:
		// one result of a private helper that returns several (`be, tq := s.sendLimit()`)
		if call, ok := x.Tuple.(*ssa.Call); ok {
			if helperResultSources(call, x.Index, seen, out) {
				return
			}
		}
		*out = append(*out, v)
		return
	case *ssa.Call:
		// a private helper that picks the timer channel (`expireQ(bestEffort, d)`): its
		// sources are the values it can return, read with its parameters as the arguments
		if sc := x.Call.StaticCallee(); sc != nil && sc.Blocks != nil && sc.Pkg == x.Parent().Pkg && CalleeName(&x.Call) != "time.After" {
			ns := map[*ssa.Parameter]string{}
			for k, val := range descSubst {
				ns[k] = val
			}
			for i, par := range sc.Params {
				if i < len(x.Call.Args) {
					ns[par] = Desc(x.Call.Args[i])
				}
			}
			n := 0
			for _, b := range sc.Blocks {
				ret, ok := b.Instrs[len(b.Instrs)-1].(*ssa.Return)
				if !ok || len(ret.Results) != 1 || (sc.Recover != nil && b == sc.Recover) {
					continue
				}
				// a return that is unreachable for the constants passed at this call site
				// (expireQ(false, …) never yields the closed channel) is not a source
				infeasible := false
				savedS := descSubst
				descSubst = ns
				for _, blk := range []*ssa.BasicBlock{b} {
					for _, ga := range guardAtomsOfBlock(blk) {
						if ga == "false" || ga == "!true" {
							infeasible = true
						}
					}
				}
				descSubst = savedS
				n++
				if infeasible {
					continue
				}
				before := len(*out)
				timerSources(resolveSpill(ret.Results[0], ret), seen, out)
				for _, s := range (*out)[before:] {
					timerSubst[s] = ns
				}
			}
			if n > 0 {
				return
			}
		}
		*out = append(*out, v)
	default:
		*out = append(*out, v)
	}
}

// timerSubst: for a timer source found inside a private helper, how the helper's
// parameters read at the call site.
var timerSubst = map[ssa.Value]map[*ssa.Parameter]string{}

func isTimeChan(t types.Type) bool {
	ch, ok := t.Underlying().(*types.Chan)
	if !ok {
		return false
	}
	n, ok := ch.Elem().(*types.Named)
	return ok && n.Obj().Name() == "Time" && n.Obj().Pkg() != nil && n.Obj().Pkg().Path() == "time"
}

func runC18(p *Prog, r *Report) {
	crossCutting(p, r, "C18.X", "protocol/req")
	{
		q := NewQ(p, r)
		R := "C18.9/in-progress-flag-cleared"
		r.Describe(R, "the 'a receive is in progress' flag of REP and REQ contexts is cleared on every return of RecvMsg, including the timeout and closed returns: otherwise one expired deadline makes every later Recv fail at once")
		q.TokenReleased(R, "protocol/rep.(*context).RecvMsg/recvWait", q.Fn(R, "protocol/rep", "context", "RecvMsg"), "recv.recvWait")
		q.TokenReleased(R, "protocol/req.(*context).RecvMsg/receiveWait", q.Fn(R, "protocol/req", "context", "RecvMsg"), "recv.receiveWait")
	}
	R := "C18.1/deadline-select"
	r.Describe(R, "timer case of each API select: sources ⊆ {nil, closed channel (send side, best-effort), time.After(matching option field)}; time.After guarded by field > 0, armed once per call; timer arm returns the matching timeout error")
	nsel := 0
	for _, pk := range p.SubjectPkgs() {
		rel, _ := Rel(pk.PkgPath)
		if !strings.HasPrefix(rel, "protocol/") {
			continue
		}
		for _, tn := range []string{"socket", "context"} {
			setopt := p.Func(rel, tn, "SetOption")
			var omap map[string][]string
			if setopt != nil {
				omap = p.optionFieldMap(setopt)
			}
			for _, mn := range []string{"SendMsg", "RecvMsg"} {
				fn := p.Func(rel, tn, mn)
				if fn == nil || !p.InScope(fn) {
					continue
				}
				opt, terr := "SEND-DEADLINE", "ErrSendTimeout"
				if mn == "RecvMsg" {
					opt, terr = "RECV-DEADLINE", "ErrRecvTimeout"
				}
				reach := blockReach(fn)
				k := 0
				EachInstr(fn, func(in ssa.Instruction) {
					sel, ok := in.(*ssa.Select)
					if !ok || !sel.Blocking {
						return
					}
					k++
					base := fmt.Sprintf("%s/select#%d", p.FuncName(fn), k)
					// timer state
					arm := -1
					for i, st := range sel.States {
						if st.Dir == types.RecvOnly && isTimeChan(st.Chan.Type()) {
							arm = i
						}
					}
					if arm < 0 {
						return // no deadline case in this select (e.g. patterns without that option)
					}
					nsel++
					var srcs []ssa.Value
					timerSources(sel.States[arm].Chan, map[ssa.Value]bool{}, &srcs)
					okSrc := true
					hasClosedQ := false
					var afters []*ssa.Call
					why := ""
					for _, s := range srcs {
						switch x := s.(type) {
						case *ssa.Const:
							if x.Value != nil {
								okSrc, why = false, "constant source"
							}
						case *ssa.UnOp:
							g, isG := x.X.(*ssa.Global)
							if !isG {
								okSrc, why = false, "source "+Desc(s)
								break
							}
							switch g.Name() {
							case "nilQ":
							case "closedQ":
								hasClosedQ = true
								if mn != "SendMsg" {
									okSrc, why = false, "closed channel used on the receive side"
								}
							default:
								okSrc, why = false, "global "+g.Name()
							}
						case *ssa.Call:
							if CalleeName(&x.Call) == "time.After" {
								afters = append(afters, x)
							} else {
								okSrc, why = false, "call "+CalleeName(&x.Call)
							}
						default:
							okSrc, why = false, "source "+Desc(s)
						}
					}
					r.Check(okSrc, R, base+"/timer-sources", p.InstrPos(in), "timer channel sources are nil/closed/time.After only", "the deadline case waits on an unexpected channel: "+why)
					for _, a := range afters {
						arg := Desc(a.Call.Args[0])
						// in the caller's terms when the timer is armed inside a private helper
						argC := arg
						var gsC []string
						if ns := timerSubst[a]; ns != nil {
							saved := descSubst
							descSubst = ns
							argC = Desc(a.Call.Args[0])
							gsC = p.GuardStrings(a)
							descSubst = saved
						} else {
							gsC = p.GuardStrings(a)
						}
						want := omap[opt]
						match := false
						for _, w := range want {
							if fieldSuffix(w) == fieldSuffix(argC) {
								match = true
							}
						}
						r.Check(match, R, base+"/after-arg", p.InstrPos(a), "time.After("+arg+") uses the field SetOption("+opt+") stores", fmt.Sprintf("time.After(%s) does not use the field that SetOption(%s) stores (%v): wrong deadline applied", arg, opt, want))
						r.Check(hasAtom(p.GuardStrings(a), arg+" > 0"), R, base+"/after-guard", p.InstrPos(a), "armed only when "+arg+" > 0", "time.After("+arg+") is not guarded by "+arg+" > 0: a zero deadline (= no limit) would time out at once / a negative one fire early: guards "+strings.Join(p.GuardStrings(a), "; "))
						// exactly then: no further condition on a deadline or survey time decides
						// whether the timer is armed (a deadline that is armed only when it is
						// shorter than some other time is ignored when that other time is 0 = never)
						extra := ""
						for _, g := range p.GuardStrings(a) {
							if g == arg+" > 0" {
								continue
							}
							if strings.Contains(g, arg) || strings.Contains(g, "Expire") || strings.Contains(g, "Deadline") {
								extra = g
							}
						}
						// ... nor any other condition at all, if the wait can still be reached when
						// it fails ("arm the timer only if the queue looks empty now": the queue is
						// looked at again, later, by the select, and by then another receiver may
						// have taken the message)
						if extra == "" && timerSubst[a] == nil {
							for _, at := range p.GuardsOf(a.Block()) {
								g := NormAtom(at.Cond, at.Pol)
								if g == arg+" > 0" || strings.Contains(strings.ToLower(g), "besteffort") {
									continue
								}
								for _, ifb := range fn.Blocks {
									iff, ok := ifb.Instrs[len(ifb.Instrs)-1].(*ssa.If)
									if !ok || iff.Cond != at.Cond {
										continue
									}
									opp := ifb.Succs[1]
									if !at.Pol {
										opp = ifb.Succs[0]
									}
									if opp == sel.Block() || reach[opp.Index][sel.Block().Index] {
										extra = g
									}
								}
							}
						}
						r.Check(extra == "", R, base+"/after-guard-exact", p.InstrPos(a), "armed whenever "+arg+" > 0", "time.After("+arg+") is armed only under the further condition "+extra+": when that condition fails a positive deadline is ignored and the call can block beyond it")
						if mn == "SendMsg" && hasClosedQ {
							be := false
							for _, g := range gsC {
								if strings.HasPrefix(g, "!") && strings.Contains(strings.ToLower(g), "besteffort") {
									be = true
								}
							}
							r.Check(be, R, base+"/besteffort-overrides-deadline", p.InstrPos(a), "the deadline timer is armed only when best-effort is off", "with best-effort AND a send deadline set, the send waits on the deadline timer instead of the never-blocking channel: a best-effort send blocks for the whole deadline under back-pressure: guards "+strings.Join(p.GuardStrings(a), "; "))
						}
						inLoop := innermostLoopHead(a.Block(), reach) != nil
						r.Check(!inLoop, R, base+"/armed-once", p.InstrPos(a), "armed once per call", "time.After is inside the wait loop: every wake-up (queue resize) restarts the deadline, so the call can hang beyond it")
					}
					// best-effort: closed channel edge guarded by the best-effort flag
					if mn == "SendMsg" {
						tch := sel.States[arm].Chan
						for {
							ct, ok := tch.(*ssa.ChangeType)
							if !ok {
								break
							}
							tch = ct.X
						}
						if ph, ok := tch.(*ssa.Phi); ok {
							for i, e := range ph.Edges {
								for {
									ct, ok := e.(*ssa.ChangeType)
									if !ok {
										break
									}
									e = ct.X
								}
								// the converse: on every way into the wait on which best-effort is known
								// to be on, the timer channel is the closed one (anything else blocks)
								{
									isClosed := false
									if u, ok := e.(*ssa.UnOp); ok {
										if g, ok := u.X.(*ssa.Global); ok && g.Name() == "closedQ" {
											isClosed = true
										}
									}
									if !isClosed && i < len(ph.Block().Preds) {
										for _, a := range p.GuardsOf(ph.Block().Preds[i]) {
											if a.Pol && strings.Contains(strings.ToLower(Desc(a.Cond)), "besteffort") {
												r.Bad(R, base+"/besteffort-never-waits", p.InstrPos(in), "with best-effort on, a path reaches the blocking select of SendMsg with the timer channel "+Desc(e)+" instead of the closed (always ready) channel: the best-effort send blocks under back-pressure (a 'room in the queue' test made before the select does not help: the queue can fill, or have a smaller capacity than the option says, by the time of the send)")
											}
										}
									}
								}
								if u, ok := e.(*ssa.UnOp); ok {
									if g, ok := u.X.(*ssa.Global); ok && g.Name() == "closedQ" {
										pred := ph.Block().Preds[i]
										gs := p.GuardsOf(pred)
										okBE := false
										for _, a := range gs {
											if a.Pol && strings.Contains(strings.ToLower(Desc(a.Cond)), "besteffort") {
												okBE = true
											}
										}
										r.Check(okBE, R, base+"/closed-only-if-besteffort", p.InstrPos(in), "closed channel selected only under the best-effort flag", "the closed (never blocking) channel is selected without the best-effort flag")
									}
								}
							}
						}
					}
					// timer arm results
					tgt := selectArmTarget(sel, arm)
					if tgt == nil {
						r.Unk(R, base+"/timer-arm", p.InstrPos(in), "cannot locate the timer arm")
						return
					}
					okArm := true
					badArm := ""
					seen := map[*ssa.BasicBlock]bool{}
					entryPred := map[*ssa.BasicBlock]*ssa.BasicBlock{}
					type item struct{ b, prev *ssa.BasicBlock }
					stack := []item{{tgt, sel.Block()}}
					nret := 0
					for len(stack) > 0 {
						it := stack[len(stack)-1]
						stack = stack[:len(stack)-1]
						b := it.b
						if seen[b] || b == sel.Block() {
							continue
						}
						seen[b] = true
						entryPred[b] = it.prev
						if ret, ok := b.Instrs[len(b.Instrs)-1].(*ssa.Return); ok {
							nret++
							rv := resolveSpill(ret.Results[len(ret.Results)-1], ret)
							if ph, ok := rv.(*ssa.Phi); ok {
								if pr := entryPred[ph.Block()]; pr != nil {
									for i, pb := range ph.Block().Preds {
										if pb == pr {
											rv = ph.Edges[i]
										}
									}
								}
							}
							last := Desc(rv)
							if last == terr {
								continue
							}
							// best effort: nil allowed under a guard mentioning closedQ/bestEffort
							gs := strings.Join(p.GuardStrings(ret), " ")
							if mn == "SendMsg" && last == "nil" && (strings.Contains(gs, "closedQ") || strings.Contains(strings.ToLower(gs), "besteffort")) {
								// ... and the mode tested here is the reading that chose the timer
								// source (one value, branched on before the wait as well), not a
								// second look at an option that may have been changed meanwhile
								same := strings.Contains(gs, "closedQ")
								for _, a := range p.GuardsOf(ret.Block()) {
									if !strings.Contains(strings.ToLower(NormAtom(a.Cond, a.Pol)), "besteffort") {
										continue
									}
									if readsBeforeWait(a.Cond, sel, 0) {
										same = true
									}
								}
								if same {
									continue
								}
								okArm = false
								badArm = fmt.Sprintf("returns nil at %s under a reading of the best-effort option made after the wait: when the option is switched on while the call is blocked on its deadline, the call drops the message and reports success instead of returning %s", p.InstrPos(ret), terr)
								continue
							}
							okArm = false
							badArm = fmt.Sprintf("returns %s at %s", last, p.InstrPos(ret))
							continue
						}
						for _, sb := range b.Succs {
							stack = append(stack, item{sb, b})
						}
					}
					r.Check(okArm && nret > 0, R, base+"/timer-arm-error", p.InstrPos(in), "timer arm returns "+terr, "the deadline arm of "+mn+" does not return "+terr+": "+badArm)
				})
			}
		}
	}
	r.Count("c18.deadline_selects", nsel)
	r.Floor(R, "c18.deadline_selects", 20)
	c18Globals(p, r)
	c18NoPeers(p, r)
	c18ReqTimers(p, r)
}

// c18ReqTimers: REQ implements deadlines with timers + a condition variable.
func c18ReqTimers(p *Prog, r *Report) {
	q := NewQ(p, r)
	R := "C18.3/req-timers"
	r.Describe(R, "REQ: the send/receive timers are armed only for a positive deadline from the matching option field, their callbacks expire the call only if it is still the same request (under the lock), and each exit cause maps to its own error constant")
	so := p.Func("protocol/req", "context", "SetOption")
	var omap map[string][]string
	if so != nil {
		omap = p.optionFieldMap(so)
	}
	for _, t := range [][6]string{
		{"SendMsg", "SEND-DEADLINE", "recv.sendTimer", "ErrSendTimeout", "recv.sendMsg == arg1", "sendExpire"},
		{"RecvMsg", "RECV-DEADLINE", "recv.receiveTimer", "ErrRecvTimeout", "recv.reqID == $id", "receiveExpire"},
	} {
		f := q.Fn(R, "protocol/req", "context", t[0])
		if !f.OK() {
			continue
		}
		af := f.Ev("call", "time.AfterFunc")
		if len(af) != 1 {
			q.Req(R, "req."+t[0]+"/timer", false, f.Pos(), "", "ANCHOR-MISSING: expected one time.AfterFunc")
			continue
		}
		arg := af[0].Args[0]
		match := false
		for _, w := range omap[t[1]] {
			if fieldSuffix(w) == fieldSuffix(arg) {
				match = true
			}
		}
		q.Req(R, "req."+t[0]+"/timer-field", match, af.Pos(p), "timer duration is the field SetOption("+t[1]+") stores", "the "+t[0]+" timer uses "+arg+", not the field that SetOption("+t[1]+") stores")
		q.Req(R, "req."+t[0]+"/timer-guard", af.AllGuarded(arg+" > 0"), af.Pos(p), "armed only when > 0", "the "+t[0]+" timer is armed without the guard "+arg+" > 0: a zero deadline (no limit) fires at once")
		st := f.Ev("store", t[2])
		q.Req(R, "req."+t[0]+"/timer-stored", len(st) >= 1 && strings.HasPrefix(st[0].Args[0], "time.AfterFunc("), st.Pos(p), "timer kept so that cancel can stop it", "timer not stored in "+t[2])
		cl := f.Closure(R, 0)
		if cl.OK() {
			ex := cl.Ev("store", "$expired").Arg(0, "true")
			cn := cl.Ev("call", "req.(*context).cancel")
			q.Req(R, "req."+t[0]+"/callback-same-request", len(ex) == 1 && ex.AllGuarded(t[4]) && len(cn) == 1 && cn.AllGuarded(t[4]), ex.Pos(p),
				"expires and cancels only if it is still the same request", "the timer callback expires/cancels without checking that the request is still the same ("+t[4]+"): a later request is failed by an earlier deadline")
			q.Req(R, "req."+t[0]+"/callback-under-lock", len(ex) == 1 && len(ex[0].Held) > 0 && len(cn) == 1 && len(cn[0].Held) > 0, ex.Pos(p), "under the socket lock", "timer callback acts without the socket lock")
		}
		// error mapping
		var tmo, cls Sel
		for _, e := range f.Ev("return", "") {
			last := e.Args[len(e.Args)-1]
			if last == t[3] {
				tmo = append(tmo, e)
			}
			if last == "ErrClosed" {
				cls = append(cls, e)
			}
		}
		okT := len(tmo) >= 1
		for _, te := range tmo {
			if t[0] == "RecvMsg" {
				okT = okT && hasAtom(te.Guard, "$expired")
			}
			// not reported as a timeout when the context was closed
			okT = okT && hasAtom(te.Guard, "!recv.closed")
		}
		q.Req(R, "req."+t[0]+"/timeout-constant", okT, tmo.Pos(p), "returns "+t[3]+" for an expired deadline (and ErrClosed takes precedence)", "the deadline exit of req "+t[0]+" does not return "+t[3]+" (only when not closed): "+argsOf(tmo)+" "+guardsOf(tmo))
		other := "ErrRecvTimeout"
		if t[0] == "RecvMsg" {
			other = "ErrSendTimeout"
		}
		wrong := 0
		for _, e := range f.Ev("return", "") {
			if e.Args[len(e.Args)-1] == other {
				wrong++
			}
		}
		q.Req(R, "req."+t[0]+"/no-wrong-timeout", wrong == 0, f.Pos(), "never returns "+other, t[0]+" returns "+other)
	}
	// who may stop a deadline timer: the context has one slot per direction, and a call that
	// was superseded by a newer one returns while the slot holds the newer call's timer; only
	// cancel (which every new call runs before arming its own) stops the slot's timer — and the
	// receiver, for the context it looked up by the reply's id.  Decided by the timer table.
	timerDiscipline(p, r, R, func(rel string) bool { return rel == "protocol/req" })
}

// c18Globals: the closed channel is closed in init and never reassigned or sent to; the
// nil channel is never assigned.
func c18Globals(p *Prog, r *Report) {
	R := "C18.2/timer-globals"
	r.Describe(R, "closedQ is made and closed in the package init only; nilQ is never assigned; neither is sent to")
	n := 0
	for _, pk := range p.SubjectPkgs() {
		rel, _ := Rel(pk.PkgPath)
		if !strings.HasPrefix(rel, "protocol/") {
			continue
		}
		for _, gname := range []string{"closedQ", "nilQ"} {
			if pk.Types.Scope().Lookup(gname) == nil {
				continue
			}
			n++
			gdesc := rel + "." + gname
			var stores, closes, sends []string
			for _, fn := range p.Funcs {
				if frel, _ := p.FuncRel(fn); frel != rel {
					continue
				}
				for _, e := range p.Events(fn) {
					isInit := fn.Name() == "init" || strings.HasPrefix(fn.Name(), "init#")
					switch {
					case e.Kind == "store" && e.What == gdesc:
						if !(isInit && gname == "closedQ") {
							stores = append(stores, p.InstrPos(e.In))
						}
					case e.Kind == "close" && len(e.Args) > 0 && (e.Args[0] == gdesc || (isInit && gname == "closedQ" && strings.HasPrefix(e.Args[0], "make(chan"))):
						if isInit {
							closes = append(closes, p.InstrPos(e.In))
						} else {
							stores = append(stores, "close at "+p.InstrPos(e.In))
						}
					case (e.Kind == "send" || e.Kind == "select-send") && e.What == gdesc:
						sends = append(sends, p.InstrPos(e.In))
					}
				}
			}
			key := rel + "/" + gname
			if gname == "closedQ" {
				r.Check(len(closes) == 1, R, key+"/closed-in-init", "-", "closed once in init", "closedQ is not closed exactly once in the package init: a best-effort send would block")
			}
			r.Check(len(stores) == 0, R, key+"/never-reassigned", "-", "never (re)assigned outside init", gname+" is assigned outside init at "+strings.Join(stores, ", "))
			r.Check(len(sends) == 0, R, key+"/never-sent-to", "-", "never sent to", gname+" is sent to at "+strings.Join(sends, ", "))
		}
	}
	r.Count("c18.timer_globals", n)
	r.Floor(R, "c18.timer_globals", 15)
}

// c18NoPeers: fail-no-peers.
func c18NoPeers(p *Prog, r *Report) {
	q := NewQ(p, r)
	R := "C18.4/fail-no-peers"
	r.Describe(R, "with fail-no-peers set, Send/Recv return ErrNoPeers before waiting when no pipe is attached, the waits include the no-peer wake-up, and RemovePipe raises it whenever the last pipe leaves")
	// xpush
	sm := q.Fn(R, "protocol/xpush", "socket", "SendMsg")
	if sm.OK() {
		ret := sm.Ev("return", "").Arg(0, "ErrNoPeers")
		var pre, arm Sel
		for _, e := range ret {
			if hasAtom(e.Guard, "recv.failNoPeers") && hasAtom(e.Guard, "len(recv.pipes) == 0") {
				pre = append(pre, e)
			}
			if hasAtom(e.Guard, "arm(<-recv.noPeerQ)") {
				arm = append(arm, e)
			}
		}
		sel := sm.Ev("select-recv", "recv.noPeerQ")
		q.Req(R, "xpush.SendMsg/fast-fail", len(pre) == 1, pre.Pos(p), "ErrNoPeers iff failNoPeers && len(pipes)==0, before the wait", "xpush.SendMsg does not return ErrNoPeers under failNoPeers && len(pipes)==0 before waiting")
		if len(pre) == 1 {
			// exactly then: best-effort (or any other mode) does not switch the check off
			dom := map[string][]int64{"recv.closed": {0, 1}, "recv.failNoPeers": {0, 1}, "len(recv.pipes)": {0, 1}, "recv.bestEffort": {0, 1}}
			res := ComparePred(predBlock(pre[0]), dom, nil, func(env map[string]int64) bool {
				return env["recv.closed"] == 0 && env["recv.failNoPeers"] != 0 && env["len(recv.pipes)"] == 0
			})
			q.Req(R, "xpush.SendMsg/fast-fail-exact", res.OK && res.Undec == "", pre.Pos(p), "ErrNoPeers exactly when open, fail-no-peers and no pipe (whatever the other modes)", "xpush.SendMsg's immediate ErrNoPeers has a different condition than !closed && failNoPeers && len(pipes)==0: "+res.Counter+res.Undec)
		}
		q.Req(R, "xpush.SendMsg/waits-on-noPeerQ", len(sel) == 1 && len(arm) == 1, sel.Pos(p), "the wait includes noPeerQ and that arm returns ErrNoPeers", "the blocking select in xpush.SendMsg lacks the noPeerQ case returning ErrNoPeers")
	}
	rp := q.Fn(R, "protocol/xpush", "socket", "RemovePipe")
	if rp.OK() {
		cl := rp.Ev("close", "close").Arg(0, "recv.noPeerQ")
		del := rp.Ev("delete", "delete").Arg(0, "recv.pipes")
		st := rp.Ev("store", "recv.noPeerQ")
		okG := len(cl) == 1 && len(cl[0].Guard) == 2 && hasAtom(cl[0].Guard, "recv.failNoPeers") && hasAtom(cl[0].Guard, "len(recv.pipes) == 0")
		q.Req(R, "xpush.RemovePipe/wakes-when-last-pipe-leaves", okG, cl.Pos(p), "close(noPeerQ) exactly when failNoPeers && len(pipes)==0", "close(noPeerQ) has other/extra conditions ("+guardsOf(cl)+"): a Send blocked while the last pipe leaves is not failed with ErrNoPeers")
		q.Req(R, "xpush.RemovePipe/after-delete", cl.DominatedBy(del) && len(del) == 1 && del[0].Unconditional(), cl.Pos(p), "tested after the pipe is removed from the table", "the no-peer test does not follow an unconditional delete(s.pipes, id)")
		q.Req(R, "xpush.RemovePipe/replaces-channel", len(st) == 1 && st.DominatedBy(cl) && strings.HasPrefix(st[0].Args[0], "make(chan"), st.Pos(p), "noPeerQ replaced by a fresh channel", "noPeerQ is not replaced after being closed")
	}
	// req
	for _, mn := range []string{"SendMsg", "RecvMsg"} {
		f := q.Fn(R, "protocol/req", "context", mn)
		if !f.OK() {
			continue
		}
		var pre Sel
		for _, e := range f.Ev("return", "") {
			if e.Args[len(e.Args)-1] == "ErrNoPeers" && hasAtom(e.Guard, "recv.failNoPeers") && hasAtom(e.Guard, "len(recv.s.pipes) == 0") {
				pre = append(pre, e)
			}
		}
		waits := f.Ev("call", "sync.(*Cond).Wait")
		okPre := false
		for _, e := range pre {
			if len(waits) > 0 && !CanPrecede(blockReach(f.fn), waits[0].In, e.In) {
				okPre = true
			}
		}
		q.Req(R, "req."+mn+"/fast-fail", okPre, pre.Pos(p), "ErrNoPeers under failNoPeers && len(pipes)==0 before waiting", "req "+mn+" does not fail with ErrNoPeers before waiting")
		// the wait loop re-checks the no-peers condition, or a field that cancel() — which
		// RemovePipe calls when the last pipe leaves — writes
		okLoop := false
		cancelWrites := map[string]bool{}
		if cf := p.Func("protocol/req", "context", "cancel"); cf != nil {
			var visit func(fn *ssa.Function, d int)
			visit = func(fn *ssa.Function, d int) {
				if d > 2 {
					return
				}
				EachInstr(fn, func(in ssa.Instruction) {
					if st, ok := in.(*ssa.Store); ok {
						if fa, ok := st.Addr.(*ssa.FieldAddr); ok {
							cancelWrites[fieldName(fa.X.Type(), fa.Field)] = true
						}
					}
					for _, callee := range p.SyncCallees(in) {
						visit(callee, d+1)
					}
				})
			}
			visit(cf, 0)
		}
		if len(waits) == 1 {
			reach := blockReach(f.fn)
			head := innermostLoopHead(waits[0].In.Block(), reach)
			if head != nil {
				for _, b := range f.fn.Blocks {
					if b == head || (reach[head.Index][b.Index] && reach[b.Index][head.Index]) {
						for _, in := range b.Instrs {
							iff, ok := in.(*ssa.If)
							if !ok {
								continue
							}
							d := Desc(iff.Cond)
							// (a private predicate such as c.noPeers() is read as what it computes)
							for _, x := range p.boolHelperFacts(Atom{Cond: iff.Cond, Pol: true}) {
								d += " " + x
							}
							if strings.Contains(d, "len(recv.s.pipes)") {
								okLoop = true
							}
							for w := range cancelWrites {
								if strings.Contains(d, "recv."+w) {
									okLoop = true
								}
							}
						}
					}
				}
			}
		}
		q.Req(R, "req."+mn+"/loop-rechecks-no-peers", okLoop, waits.Pos(p), "the wait loop re-checks len(pipes)==0 or a field that cancel() writes", "the wait loop of req "+mn+" re-checks neither the no-peers condition nor any field that cancel() writes: the last peer leaving during the wait is not noticed")
	}
	rr := q.Fn(R, "protocol/req", "socket", "RemovePipe")
	if rr.OK() {
		var c Sel
		for _, e := range rr.Ev("call", "req.(*context).cancel") {
			has1, has2 := false, false
			for _, g := range e.Guard {
				// the flag of the very context that is cancelled (each context has its own)
				if len(e.Args) > 0 && g == e.Args[0]+".failNoPeers" {
					has1 = true
				}
				if strings.HasPrefix(g, "len(") && strings.HasSuffix(g, ".pipes) == 0") {
					has2 = true
				}
			}
			if has1 && has2 {
				c = append(c, e)
			}
		}
		del := rr.Ev("delete", "delete").Arg(0, "recv.pipes")
		q.Req(R, "req.RemovePipe/cancels-when-last-pipe-leaves", len(c) == 1 && c.DominatedBy(del), c.Pos(p), "contexts with failNoPeers are cancelled (woken) when the last pipe leaves", "req.RemovePipe does not cancel fail-no-peers contexts when len(pipes)==0 after the delete")
	}
}

func fieldSuffix(path string) string {
	i := strings.LastIndex(path, ".")
	if i < 0 {
		return path
	}
	return path[i+1:]
}

// guardAtomsOfBlock: normalised atoms of the conditional edges that dominate b (without a
// Prog: dominance over the function's own blocks).
func guardAtomsOfBlock(b *ssa.BasicBlock) []string {
	var out []string
	for _, ifb := range b.Parent().Blocks {
		iff, ok := ifb.Instrs[len(ifb.Instrs)-1].(*ssa.If)
		if !ok || ifb.Succs[0] == ifb.Succs[1] {
			continue
		}
		for k, succ := range ifb.Succs {
			if len(succ.Preds) == 1 && (succ == b || succ.Dominates(b)) {
				out = append(out, NormAtom(iff.Cond, k == 0))
			}
		}
	}
	return out
}

// readsBeforeWait: every field load and call that v is computed from is evaluated before the
// select (in a block that dominates it, or earlier in its own block), so the value is the one
// the call started with and not a second look at the option after the wait.
func readsBeforeWait(v ssa.Value, sel *ssa.Select, depth int) bool {
	if depth > 6 {
		return false
	}
	before := func(in ssa.Instruction) bool {
		b := in.Block()
		if b == nil {
			return false
		}
		if b == sel.Block() {
			for _, i := range b.Instrs {
				if i == in {
					return true
				}
				if i == ssa.Instruction(sel) {
					return false
				}
			}
			return false
		}
		return b.Dominates(sel.Block())
	}
	switch x := v.(type) {
	case *ssa.Const, *ssa.Parameter, *ssa.Global, *ssa.FreeVar:
		return true
	case *ssa.Call:
		return before(x)
	case *ssa.UnOp:
		if x.Op == token.MUL || x.Op == token.ARROW {
			return before(x)
		}
		return readsBeforeWait(x.X, sel, depth+1)
	case *ssa.BinOp:
		return readsBeforeWait(x.X, sel, depth+1) && readsBeforeWait(x.Y, sel, depth+1)
	case *ssa.Phi:
		for _, e := range x.Edges {
			if !readsBeforeWait(e, sel, depth+1) {
				return false
			}
		}
		return before(x)
	case ssa.Instruction:
		return before(x)
	}
	return false
}
