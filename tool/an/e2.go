package an

import (
	"fmt"
	"sort"
	"strings"

	"golang.org/x/tools/go/ssa"
)

// E2 LOCKORDER: global lock-order graph over abstract (type-based) locks and sync.Once
// pseudo-locks.  An edge a -> b means: somewhere b may be acquired (directly or through a
// synchronous call chain) while a is held.  Any cycle is a potential deadlock.

type LockEdge struct {
	From, To string
	Pos      string
	Fn       string
	Chain    []string
}

type e2Result struct {
	Edges  map[string]*LockEdge // "a->b" -> first witness
	Nodes  []string
	Cycles [][]string
}

func (p *Prog) E2() *e2Result {
	e1 := p.E1()
	e3 := p.E3()
	res := &e2Result{Edges: map[string]*LockEdge{}}
	addEdge := func(a, b string, in ssa.Instruction, fn *ssa.Function, chain []string) {
		k := a + "->" + b
		if _, ok := res.Edges[k]; ok {
			return
		}
		res.Edges[k] = &LockEdge{From: a, To: b, Pos: p.InstrPos(in), Fn: p.FuncName(fn), Chain: chain}
	}
	var fns []*ssa.Function
	for fn := range p.All {
		if p.moduleFunc(fn) && fn.Blocks != nil {
			if rel, _ := p.FuncRel(fn); subjectRel(rel) {
				fns = append(fns, fn)
			}
		}
	}
	sort.Slice(fns, func(i, j int) bool { return fns[i].String() < fns[j].String() })
	for _, fn := range fns {
		entry := e3.entry[fn]
		EachInstr(fn, func(in ssa.Instruction) {
			c := CallOf(in)
			if c == nil {
				return
			}
			if _, isGo := in.(*ssa.Go); isGo {
				return
			}
			if _, isDefer := in.(*ssa.Defer); isDefer {
				return
			}
			held := map[string]bool{}
			for _, h := range e1.held[in] {
				held[h.Abs] = true
			}
			for k := range entry {
				held[k] = true
			}
			if len(held) == 0 {
				return
			}
			var acq []string
			chains := map[string][]string{}
			if lo := classifyLockCall(c); lo != nil {
				if lo.op == "Lock" || lo.op == "RLock" {
					a := AbsLock(lo.recv)
					acq = append(acq, a)
					chains[a] = []string{p.FuncName(fn)}
				}
			} else {
				if _, recv, ok := isOnceDo(c); ok {
					a := "once:" + AbsLock(recv)
					acq = append(acq, a)
					chains[a] = []string{p.FuncName(fn)}
				}
				for _, callee := range e1.syncCallees[in] {
					for a, via := range e1.absAcq[callee] {
						if _, ok := chains[a]; !ok {
							acq = append(acq, a)
							chains[a] = append([]string{p.FuncName(fn)}, via...)
						}
					}
				}
			}
			sort.Strings(acq)
			for _, b := range acq {
				for a := range held {
					if a == b {
						// same abstract lock: instance-precise self-deadlock is E1's job; a
						// type-level self loop is recorded only through callees
						if classifyLockCall(c) != nil {
							continue
						}
					}
					addEdge(a, b, in, fn, chains[b])
				}
			}
		})
	}
	// nodes
	ns := map[string]bool{}
	for _, e := range res.Edges {
		ns[e.From] = true
		ns[e.To] = true
	}
	for n := range ns {
		res.Nodes = append(res.Nodes, n)
	}
	sort.Strings(res.Nodes)
	// SCCs (Tarjan)
	adj := map[string][]string{}
	for _, e := range res.Edges {
		adj[e.From] = append(adj[e.From], e.To)
	}
	for k := range adj {
		sort.Strings(adj[k])
	}
	index := map[string]int{}
	low := map[string]int{}
	on := map[string]bool{}
	var stack []string
	idx := 0
	var strong func(v string)
	strong = func(v string) {
		index[v] = idx
		low[v] = idx
		idx++
		stack = append(stack, v)
		on[v] = true
		for _, w := range adj[v] {
			if _, ok := index[w]; !ok {
				strong(w)
				if low[w] < low[v] {
					low[v] = low[w]
				}
			} else if on[w] && index[w] < low[v] {
				low[v] = index[w]
			}
		}
		if low[v] == index[v] {
			var comp []string
			for {
				w := stack[len(stack)-1]
				stack = stack[:len(stack)-1]
				on[w] = false
				comp = append(comp, w)
				if w == v {
					break
				}
			}
			self := false
			if len(comp) == 1 {
				if _, ok := res.Edges[comp[0]+"->"+comp[0]]; ok {
					self = true
				}
			}
			if len(comp) > 1 || self {
				sort.Strings(comp)
				res.Cycles = append(res.Cycles, comp)
			}
		}
	}
	for _, n := range res.Nodes {
		if _, ok := index[n]; !ok {
			strong(n)
		}
	}
	sort.Slice(res.Cycles, func(i, j int) bool { return strings.Join(res.Cycles[i], ",") < strings.Join(res.Cycles[j], ",") })
	return res
}

// e2Obligations: one obligation per edge (discharged if it is on no cycle) and one
// violation per cycle.
func e2Obligations(p *Prog, r *Report, rule string) {
	res := p.E2()
	inCycle := map[string]bool{}
	for _, c := range res.Cycles {
		set := map[string]bool{}
		for _, n := range c {
			set[n] = true
		}
		var wit []string
		var ks []string
		for k := range res.Edges {
			ks = append(ks, k)
		}
		sort.Strings(ks)
		for _, k := range ks {
			e := res.Edges[k]
			if set[e.From] && set[e.To] {
				inCycle[k] = true
				wit = append(wit, fmt.Sprintf("%s -> %s at %s in %s via %s", e.From, e.To, e.Pos, e.Fn, strings.Join(e.Chain, " -> ")))
			}
		}
		r.Bad(rule, "cycle:"+strings.Join(c, "<>"), "-", "lock-order cycle (potential deadlock) among "+strings.Join(c, ", "), wit...)
	}
	var ks []string
	for k := range res.Edges {
		ks = append(ks, k)
	}
	sort.Strings(ks)
	for _, k := range ks {
		if !inCycle[k] {
			e := res.Edges[k]
			r.OK(rule, "edge:"+k, e.Pos, "on no cycle; witness "+e.Fn)
		}
	}
	r.Count("e2.lock_nodes", len(res.Nodes))
	r.Count("e2.order_edges", len(res.Edges))
}
