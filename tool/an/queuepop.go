package an

import (
	"go/constant"
	"go/token"
	"strings"

	"golang.org/x/tools/go/ssa"
)

// Queue pops.  The repository pops its slice queues in two ways: from the head
// (`x := q[0]; q = q[1:]`) and from the tail (`x := q[len(q)-1]; q = q[:len(q)-1]`).  The
// element taken and the element removed must be the same one: a function that shortens a
// queue field at one end and reads the element at the other end hands out an entry that stays
// queued (it is handed out again) and discards one nobody saw.  With one entry queued — what
// the tests exercise — both ends are the same element.

func loadOfField(v ssa.Value) string {
	u, ok := v.(*ssa.UnOp)
	if !ok || u.Op != token.MUL {
		return ""
	}
	fa, ok := u.X.(*ssa.FieldAddr)
	if !ok {
		return ""
	}
	return fieldKeyOf(fa)
}

func constIs(v ssa.Value, n int64) bool {
	c, ok := v.(*ssa.Const)
	if !ok || c.Value == nil || c.Value.Kind() != constant.Int {
		return false
	}
	x, ok := constant.Int64Val(c.Value)
	return ok && x == n
}

// lenMinusOne: v is len(<load of field k>) - 1
func lenMinusOne(v ssa.Value, k string) bool {
	b, ok := v.(*ssa.BinOp)
	if !ok || b.Op != token.SUB || !constIs(b.Y, 1) {
		return false
	}
	c, ok := b.X.(*ssa.Call)
	if !ok {
		return false
	}
	bi, ok := c.Call.Value.(*ssa.Builtin)
	if !ok || bi.Name() != "len" || len(c.Call.Args) != 1 {
		return false
	}
	return loadOfField(c.Call.Args[0]) == k
}

func queuePops(p *Prog, r *Report, R string, filter func(rel string) bool) {
	r.Describe(R, "a function that shortens a queue field at one end reads the element it hands out at the same end (head: q[0] with q[1:]; tail: q[len-1] with q[:len-1])")
	n := 0
	for _, fn := range p.Funcs {
		rel, ok := Rel(fn.Pkg.Pkg.Path())
		if !ok || !filter(rel) || strings.HasSuffix(p.Fset.Position(fn.Pos()).Filename, "_test.go") {
			continue
		}
		type ends struct {
			dropHead, dropTail, readHead, readTail []ssa.Instruction
		}
		by := map[string]*ends{}
		get := func(k string) *ends {
			if by[k] == nil {
				by[k] = &ends{}
			}
			return by[k]
		}
		EachInstr(fn, func(in ssa.Instruction) {
			switch x := in.(type) {
			case *ssa.Store:
				fa, ok := x.Addr.(*ssa.FieldAddr)
				if !ok {
					return
				}
				k := fieldKeyOf(fa)
				sl, ok := x.Val.(*ssa.Slice)
				if !ok || k == "" || loadOfField(sl.X) != k {
					return
				}
				switch {
				case sl.Low != nil && constIs(sl.Low, 1) && sl.High == nil:
					get(k).dropHead = append(get(k).dropHead, in)
				case (sl.Low == nil || constIs(sl.Low, 0)) && sl.High != nil && lenMinusOne(sl.High, k):
					get(k).dropTail = append(get(k).dropTail, in)
				}
			case *ssa.IndexAddr:
				k := loadOfField(x.X)
				if k == "" {
					return
				}
				switch {
				case constIs(x.Index, 0):
					get(k).readHead = append(get(k).readHead, in)
				case lenMinusOne(x.Index, k):
					get(k).readTail = append(get(k).readTail, in)
				}
			}
		})
		for k, e := range by {
			if len(e.dropHead)+len(e.dropTail) == 0 || len(e.readHead)+len(e.readTail) == 0 {
				continue
			}
			n++
			key := p.FuncName(fn) + "/" + k
			switch {
			case len(e.dropHead) > 0 && len(e.dropTail) == 0:
				r.Check(len(e.readHead) > 0, R, key, p.InstrPos(e.dropHead[0]), "head popped: q[0] read, q[1:] kept", "the queue "+k+" is shortened at its head but the element handed out is read at its tail ("+posOfFirst(p, e.readTail)+"): with two or more entries one is handed out twice and one is lost")
			case len(e.dropTail) > 0 && len(e.dropHead) == 0:
				r.Check(len(e.readTail) > 0, R, key, p.InstrPos(e.dropTail[0]), "tail popped: q[len-1] read, q[:len-1] kept", "the queue "+k+" is shortened at its tail but the element handed out is read at its head ("+posOfFirst(p, e.readHead)+"): with two or more entries one is handed out twice and one is lost")
			default:
				r.Check(len(e.readHead) > 0 && len(e.readTail) > 0, R, key, p.InstrPos(e.dropHead[0]), "both ends popped and read", "the queue "+k+" is shortened at both ends but read at one only")
			}
			// the element taken is removed on every path: a return between the read and the
			// shortening hands out an element that stays at the head, so every later pop
			// hands out the same one again
			reads, drops := e.readHead, e.dropHead
			if len(e.dropHead) == 0 {
				reads, drops = e.readTail, e.dropTail
			}
			via := map[ssa.Instruction]bool{}
			for _, d := range drops {
				via[d] = true
			}
			bad := ""
			for _, rd := range reads {
				if ok, where := mustPassInstr(p, rd, via); !ok {
					bad = "the element read at " + p.InstrPos(rd) + " is still queued at the return at " + where
				}
			}
			r.Check(bad == "", R, key+"/removed-on-every-path", posOfFirst(p, drops), "the element taken is removed on every path", "a pop of "+k+" can return without removing the element it took ("+bad+"): the same element is handed out again by every later pop")
		}
	}
	r.Count("queue_pop_sites", n)
}

func posOfFirst(p *Prog, ins []ssa.Instruction) string {
	if len(ins) == 0 {
		return "-"
	}
	return p.InstrPos(ins[0])
}

// mustPassInstr: every path from just after `from` to a normal return passes an instruction
// of via (or `from` itself is preceded by one in its block: the removal may come first).
func mustPassInstr(p *Prog, from ssa.Instruction, via map[ssa.Instruction]bool) (bool, string) {
	b0 := from.Block()
	i0 := instrIndex(from)
	for i := 0; i < i0; i++ {
		if via[b0.Instrs[i]] {
			return true, ""
		}
	}
	seen := map[*ssa.BasicBlock]bool{}
	var walk func(b *ssa.BasicBlock, i int) (bool, string)
	walk = func(b *ssa.BasicBlock, i int) (bool, string) {
		for ; i < len(b.Instrs); i++ {
			in := b.Instrs[i]
			if via[in] {
				return true, ""
			}
			if _, ok := in.(*ssa.Return); ok {
				return false, p.InstrPos(in)
			}
			if _, ok := in.(*ssa.Panic); ok {
				return true, ""
			}
		}
		for _, s := range b.Succs {
			if seen[s] {
				continue
			}
			seen[s] = true
			if ok, where := walk(s, 0); !ok {
				return false, where
			}
		}
		return true, ""
	}
	return walk(b0, i0+1)
}
