package an

import (
	"fmt"
	"strings"

	"golang.org/x/tools/go/ssa"
)

func init() {
	register(&PropInfo{ID: "C03", Run: runC03,
		Explanation: "anchored shape rules on protocol/req: a reply is matched by the 32-bit id taken from the four bytes moved from body to header, by a comma-ok lookup in ctxByID under the socket lock; on a hit the id is forgotten unconditionally before the lock is released and the reply stored; misses are freed; ctxByID is written only by send (insert under c.reqID), receiver and cancel (delete, keyed by the still-valid id); a new Send cancels the previous request before installing the new id (top bit set); Recv returns ErrProtoState without a pending request and delivers at most once per request.",
		Assumptions: commonAssumptions})
}

const reqMu = "protocol/req.socket.Mutex"

func runC03(p *Prog, r *Report) {
	crossCutting(p, r, "C03.X", "protocol/req", "protocol/xreq")
	importFrom(p, r, "C03.9/req-timers", "REQ deadline timers expire only the request they were armed for (shared with C18.3): a stale timer must not cancel a newer or still current request", func(t *Report, rule string) { c18ReqTimers(p, t) }, "*")
	lockBalance(p, r, "C03.7/E1", "protocol/req", "protocol/xreq")
	q := NewQ(p, r)
	R := "C03.1/reply-matching"
	c03ReplyMatching(p, r, R)

	R = "C03.2/id-table-writers"
	r.Describe(R, "ctxByID is inserted only by socket.send under the context's current id, and deleted only by the receiver (on a hit) and by cancel")
	q.OnlyIn(R, "writers-of-ctxByID", p.PostPubWritersOf("protocol/req.socket.ctxByID"),
		[]string{"protocol/req.(*socket).send", "protocol/req.(*pipe).receiver", "protocol/req.(*context).cancel"},
		[]string{"protocol/req.(*socket).send", "protocol/req.(*pipe).receiver", "protocol/req.(*context).cancel"})
	sd := q.Fn(R, "protocol/req", "socket", "send")
	if sd.OK() {
		mu := sd.Ev("mapupdate", "recv.ctxByID")
		r.Check(len(mu) == 1 && strings.HasSuffix(mu[0].Args[0], ".reqID") && strings.TrimSuffix(mu[0].Args[0], ".reqID") == mu[0].Args[1], R, "insert-under-own-id", mu.Pos(p), "ctxByID[c.reqID] = c", "the context is not registered under its own current request id: "+argsOf(mu))
	}

	R = "C03.3/cancel"
	r.Describe(R, "cancel forgets the id (keyed by the id before it is zeroed), frees and clears reply and request, stops the timers, wakes waiters")
	cn := q.Fn(R, "protocol/req", "context", "cancel")
	if cn.OK() {
		del := cn.Ev("delete", "delete").Arg(0, "recv.s.ctxByID").Arg(1, "recv.reqID")
		z := cn.Ev("store", "recv.reqID").Arg(0, "0")
		ok := len(del) == 1 && len(z) == 1 && del.AllGuarded("recv.reqID != 0")
		if ok {
			call := del[0].In.(*ssa.Call)
			ok = loadBeforeStores(cn.fn, call.Call.Args[1])
		}
		r.Check(ok, R, "delete-keyed-by-live-id", del.Pos(p), "delete(ctxByID, reqID) uses the id before it is zeroed", "cancel zeroes reqID before using it as the key of delete(ctxByID, …): the abandoned id stays registered and a late reply to it is delivered to the next request")
		for _, f := range []string{"repMsg", "reqMsg"} {
			fr := cn.Ev("call", "mangos.(*Message).Free").Arg(0, "recv."+f)
			st := cn.Ev("store", "recv."+f).Arg(0, "nil")
			r.Check(len(fr) == 1 && len(st) == 1 && st.DominatedBy(fr), R, "clears-"+f, st.Pos(p), f+" freed and cleared", "cancel does not free and clear "+f)
		}
		for _, tmr := range []string{"resendTimer", "sendTimer", "receiveTimer"} {
			sp := cn.Ev("call", "time.(*Timer).Stop").Arg(0, "recv."+tmr)
			r.Check(len(sp) == 1, R, "stops-"+tmr, sp.Pos(p), tmr+" stopped", "cancel does not stop "+tmr)
		}
		bc := cn.Ev("call", "sync.(*Cond).Broadcast")
		r.Check(len(bc) == 1 && bc[0].Unconditional(), R, "wakes-waiters", bc.Pos(p), "Broadcast on every path", "cancel does not wake waiters unconditionally")
	}

	R = "C03.4/new-send-abandons-previous"
	r.Describe(R, "context.SendMsg: id has the top bit set; cancel() of the previous request dominates the installation of the new id")
	sm := q.Fn(R, "protocol/req", "context", "SendMsg")
	if sm.OK() {
		st := sm.Ev("store", "recv.reqID")
		var inst Sel
		for _, e := range st {
			arg := e.Args[0]
			if sx, ok := e.In.(*ssa.Store); ok {
				// the id may live in a local that a timer callback captures
				arg = DescCell(sx.Val)
			}
			if strings.Contains(arg, "| 2147483648)") {
				inst = append(inst, e)
			}
		}
		r.Check(len(inst) == 1, R, "top-bit-set", inst.Pos(p), "reqID = id | 0x80000000", "the request id is installed without the top bit (a device could not tell it from a routing word)")
		r.Describe("C03.12/id-end-marker", "every request id put on the wire has the top bit set: it is the word that ends the backtrace for REP, devices and the reply path")
		r.Check(len(inst) == 1, "C03.12/id-end-marker", "req.SendMsg/top-bit-set-per-id", inst.Pos(p), "id | 0x80000000 for every request", "the request id is not marked with the top bit each time it is generated (a marker applied to the counter's seed is lost when the counter wraps): REP and devices then take payload words for routing data")
		// ... and is drawn from the one counter all contexts of the socket share: ids are what
		// tells the outstanding requests of a socket apart, so two counters (one per context,
		// blocks of ids) can hand the same id to two requests that are outstanding together
		{
			R2 := "C03.15/one-id-counter"
			r.Describe(R2, "every request id is the next value of the single counter kept in the socket (atomic.AddUint32(&s.nextID, 1)), and nothing else writes that counter: the ids of requests that are outstanding together differ")
			ad := sm.Ev("call", "atomic.AddUint32")
			okSrc := len(ad) == 1 && len(ad[0].Args) == 2 && strings.HasSuffix(ad[0].Args[0], ".s.nextID") && ad[0].Args[1] == "1"
			instArg := ""
			if len(inst) == 1 {
				instArg = inst[0].Args[0]
				if sx, ok := inst[0].In.(*ssa.Store); ok {
					instArg = DescCell(sx.Val)
				}
			}
			okUse := len(inst) == 1 && okSrc && strings.Contains(instArg, "atomic.AddUint32("+ad[0].Args[0]+",1)")
			r.Check(okSrc && okUse, R2, "req.SendMsg/id-from-socket-counter", ad.Pos(p), "id = AddUint32(&s.nextID, 1) | marker", "the request id is not the next value of the socket-wide counter ("+argsOf(ad)+"): contexts that draw ids from counters of their own can give two outstanding requests the same id, and the reply to one is delivered as the reply to the other")
			w := p.PostPubWritersOf("protocol/req.socket.nextID")
			q.OnlyIn(R2, "writers-of-socket.nextID", w, []string{"protocol/req.(*context).SendMsg"}, nil)
			// the only other use of the field's address is that AddUint32
			n := 0
			for _, fn := range p.Funcs {
				if rel, ok := p.FuncRel(fn); !ok || rel != "protocol/req" || strings.HasSuffix(p.Fset.Position(fn.Pos()).Filename, "_test.go") {
					continue
				}
				for _, e := range p.Events(fn) {
					if e.Kind == "call" && strings.HasPrefix(e.What, "atomic.") && len(e.Args) > 0 && strings.HasSuffix(e.Args[0], ".nextID") {
						n++
					}
				}
			}
			r.Check(n == 1, R2, "one-draw-site", sm.Pos(), "ids are drawn at one place", fmt.Sprintf("the id counter is advanced at %d places (expected the one in SendMsg): ids handed out elsewhere (blocks reserved per context) are not known to be distinct from the ones SendMsg draws", n))
		}
		cn := sm.Ev("call", "req.(*context).cancel")
		r.Check(len(inst) == 1 && len(cn) >= 1 && inst.DominatedBy(cn), R, "cancel-before-new-id", inst.Pos(p), "the previous request is cancelled before the new id is installed", "a new Send installs its id without first cancelling the previous request: the late reply to the old request can still be delivered")
		hd := sm.Ev("store", "arg1.Header")
		okh := len(hd) == 1 && strings.HasPrefix(hd[0].Args[0], "append(")
		r.Check(okh, R, "header-carries-id", hd.Pos(p), "Header = 4 id bytes", "SendMsg does not install the id bytes as the header")
	}

	R = "C03.5/recv-state"
	r.Describe(R, "context.RecvMsg: ErrProtoState when no request is pending (before any wait); after the wait the reply and the id are cleared (at most one delivery per request); the fall-through error is ErrCanceled")
	rm := q.Fn(R, "protocol/req", "context", "RecvMsg")
	if rm.OK() {
		var ps Sel
		for _, e := range rm.Ev("return", "") {
			if len(e.Args) == 2 && e.Args[1] == "ErrProtoState" {
				ps = append(ps, e)
			}
		}
		waits := rm.Ev("call", "sync.(*Cond).Wait")
		okps := len(ps) == 1 && len(waits) == 1 && !CanPrecede(blockReach(rm.fn), waits[0].In, ps[0].In)
		if okps {
			dom := map[string][]int64{"recv.receiveWait": {0, 1}, "recv.reqID": {0, 1, 5}}
			res := ComparePred(predBlock(ps[0]), dom, []string{"!recv.s.closed", "!recv.closed", "!recv.failNoPeers"}, func(env map[string]int64) bool {
				return env["recv.receiveWait"] != 0 || env["recv.reqID"] == 0
			})
			okps = res.OK && res.Undec == ""
			if !okps {
				r.Bad(R, "protostate-iff-no-request", p.InstrPos(ps[0].In), "ErrProtoState is not returned exactly when receiveWait || reqID == 0: "+res.Counter+res.Undec)
			}
		}
		if okps {
			r.OK(R, "protostate-iff-no-request", ps.Pos(p), "ErrProtoState iff receiveWait || reqID == 0, before waiting")
		} else if len(ps) != 1 || len(waits) != 1 {
			r.Bad(R, "protostate-iff-no-request", rm.Pos(), "Recv without a pending request does not return ErrProtoState before waiting")
		}
		z1 := rm.Ev("store", "recv.reqID").Arg(0, "0")
		z2 := rm.Ev("store", "recv.repMsg").Arg(0, "nil")
		// at most one delivery: the block that takes the reply also clears reply and id,
		// after the wait loop
		okClr := len(z1) == 1 && len(z2) == 1 && len(waits) == 1
		if okClr {
			reach := blockReach(rm.fn)
			okClr = z1[0].In.Block() == z2[0].In.Block() && !CanPrecede(reach, z1[0].In, waits[0].In)
			// the returned message is loaded in that same block
			took := false
			for _, in := range z1[0].In.Block().Instrs {
				if u, ok := in.(*ssa.UnOp); ok && Desc(u) == "recv.repMsg" && isMsgPtr(u.Type()) {
					took = true
				}
			}
			okClr = okClr && took
		}
		// a Recv that was superseded by a newer Send must not consume the new request's
		// state: the id and the reply are taken/cleared only if the request is still ours
		own := len(z1) == 1 && len(z2) == 1 && z1.AllGuarded("recv.reqID == $id") && z2.AllGuarded("recv.reqID == $id")
		r.Check(own, R, "consumes-only-own-request", z1.Pos(p), "reqID/repMsg are consumed only when reqID is still this Recv's id",
			"after the wait RecvMsg clears c.reqID and takes c.repMsg unconditionally: a Recv superseded by a concurrent Send (the property's 'a new Send abandons the previous request') wipes the NEW request's id; the new id stays in ctxByID for ever, cancel() can no longer remove it, and its late reply is later delivered as the answer to a following request (or the old Recv returns the new request's reply)")
		var cc Sel
		for _, e := range rm.Ev("return", "") {
			if len(e.Args) == 2 && e.Args[1] == "ErrCanceled" {
				cc = append(cc, e)
			}
		}
		r.Check(len(cc) == 1 && (cc.AllGuarded("recv.repMsg == nil") || cc.AllGuarded("φm == nil")), R, "superseded-is-ErrCanceled", cc.Pos(p), "a superseded Recv fails with ErrCanceled", "a Recv whose request was superseded does not fail with ErrCanceled")
	}
}

// c03ReplyMatching: the REQ receiver's id matching (shared by C03.1 and C16.9).
func c03ReplyMatching(p *Prog, r *Report, R string) {
	q := NewQ(p, r)
	r.Describe(R, "req receiver: id = BigEndian.Uint32 of the moved header word (len(Body) >= 4 checked), comma-ok lookup under the lock, hit => store reply + delete id (unconditionally), miss => free")
	rc := q.Fn(R, "protocol/req", "pipe", "receiver")
	if rc.OK() {
		mv := rc.Ev("store", "recv.p.RecvMsg().Header")
		okMove := len(mv) == 1 && strings.HasSuffix(mv[0].Args[0], "recv.p.RecvMsg().Body[:4])") && mv.AllGuarded("len(recv.p.RecvMsg().Body) >= 4")
		r.Check(okMove, R, "moves-one-word", mv.Pos(p), "Header = append(Header, Body[:4]...) under len(Body) >= 4", "the receiver does not move exactly the first 4 body bytes to the header under a length check: "+argsOf(mv))
		bs := rc.Ev("store", "recv.p.RecvMsg().Body")
		r.Check(len(bs) == 1 && strings.HasSuffix(bs[0].Args[0], ".Body[4:]"), R, "strips-one-word", bs.Pos(p), "Body = Body[4:]", "the id word is not stripped from the body (the application would see it)")
		idc := rc.Ev("call", "binary.(bigEndian).Uint32")
		okId := len(idc) == 1 && idc[0].Args[1] == "recv.p.RecvMsg().Header" && idc.DominatedBy(mv)
		r.Check(okId, R, "id-from-moved-word", idc.Pos(p), "id = BigEndian.Uint32(Header) after the move", "the request id is not read (big-endian) from the moved header word")
		const hit = "recv.s.ctxByID[binary.(bigEndian).Uint32(encoding/binary.BigEndian,recv.p.RecvMsg().Header)]#1"
		st := rc.Ev("store", "*.repMsg")
		r.Check(len(st) == 1 && st[0].Args[0] == "recv.p.RecvMsg()" && st.AllGuarded(hit) && st.AllHeld(reqMu), R, "reply-stored-on-hit", st.Pos(p), "repMsg = m only on the lookup hit, under the lock", "the reply is stored without a successful id lookup under the lock: "+guardsOf(st))
		del := rc.Ev("delete", "delete").Arg(0, "recv.s.ctxByID")
		okDel := len(del) == 1 && del.AllHeld(reqMu) && len(del[0].Guard) == 3 && hasAtom(del[0].Guard, hit)
		r.Check(okDel, R, "id-forgotten-on-hit", del.Pos(p), "delete(ctxByID, id) on every hit", "on a matching reply the id is not removed from ctxByID unconditionally (extra conditions: "+guardsOf(del)+"): a late duplicate of that reply is delivered as the answer to the next request")
		// same critical section for lookup and delete
		var lk ssa.Instruction
		rc.EachInstrDeep(func(in ssa.Instruction) {
			if l, ok := in.(*ssa.Lookup); ok && l.CommaOk && strings.HasSuffix(Desc(l.X), ".ctxByID") {
				lk = in
			}
		})
		same := false
		if lk != nil && len(del) == 1 {
			same = p.SameSection(lk, del[0].In)
		}
		r.Check(same, R, "lookup-and-delete-atomic", del.Pos(p), "lookup and delete in one critical section", "the id lookup and its removal are not in one critical section")
		fr := rc.Ev("call", "mangos.(*Message).Free").Arg(0, "recv.p.RecvMsg()").Guarded("!" + hit)
		r.Check(len(fr) == 1, R, "miss-is-dropped", fr.Pos(p), "a reply with an unknown id is freed", "a reply that matches no pending request is not dropped")
		bc := rc.Ev("call", "sync.(*Cond).Broadcast").Guarded(hit)
		r.Check(len(bc) == 1, R, "wakes-receiver", bc.Pos(p), "the waiting Recv is woken", "the waiting Recv is not woken on a hit")
	}
}
