package an

import (
	"encoding/json"
	"fmt"
	"os"
	"os/exec"
	"path/filepath"
	"sort"
	"strings"
	"sync"
)

// Mutant is one single-edit variant of /repo applied through packages.Config.Overlay
// (no copy of the repository is made).  Mutants measure the sensitivity of a check;
// they never influence the verdict on the tree.
type Mutant struct {
	ID     string `json:"id"`
	Prop   string `json:"property"`
	File   string `json:"file"` // relative to the repo root
	Old    string `json:"old"`
	New    string `json:"new"`
	Nth    int    `json:"nth,omitempty"`    // which occurrence of Old (1-based; 0 = must be unique)
	Expect string `json:"expect,omitempty"` // substring of "rule/key" of an obligation that must be violated
	Why    string `json:"why,omitempty"`
	Benign bool   `json:"benign,omitempty"` // behaviour-preserving edit: the check must stay silent
}

type MutantResult struct {
	Property    string   `json:"property"`
	Total       int      `json:"catalogue"`
	Applied     int      `json:"applied"`
	Detected    int      `json:"detected"`
	Skipped     int      `json:"skipped"`
	Missed      int      `json:"missed"`
	Benign      int      `json:"benign_edits"` // behaviour-preserving variants tried
	FalseAlarms int      `json:"false_alarms_on_benign"`
	Details     []string `json:"details"`
}

func loadMutants(verifDir string) ([]Mutant, error) {
	files, _ := filepath.Glob(filepath.Join(verifDir, "mutants", "*.json"))
	sort.Strings(files)
	var all []Mutant
	for _, f := range files {
		b, err := os.ReadFile(f)
		if err != nil {
			return nil, err
		}
		var ms []Mutant
		if err := json.Unmarshal(b, &ms); err != nil {
			return nil, fmt.Errorf("%s: %v", f, err)
		}
		all = append(all, ms...)
	}
	return all, nil
}

func nthIndex(s, sub string, n int) int {
	if n <= 0 {
		if strings.Count(s, sub) != 1 {
			return -1
		}
		return strings.Index(s, sub)
	}
	idx := -1
	from := 0
	for i := 0; i < n; i++ {
		j := strings.Index(s[from:], sub)
		if j < 0 {
			return -1
		}
		idx = from + j
		from = idx + len(sub)
	}
	return idx
}

// RunMutants applies every catalogue mutant of the property (or "all") in its own
// subprocess and records whether the property's check reports it.
func RunMutants(verifDir, repo, prop, exe string) MutantResult {
	res := MutantResult{Property: prop}
	ms, err := loadMutants(verifDir)
	if err != nil {
		res.Details = append(res.Details, "catalogue unreadable: "+err.Error())
		return res
	}
	var sel []Mutant
	for _, m := range ms {
		if prop == "all" || m.Prop == prop {
			sel = append(sel, m)
		}
	}
	res.Total = len(sel)
	tmp, err := os.MkdirTemp("", "mverif-mut-")
	if err != nil {
		res.Details = append(res.Details, err.Error())
		return res
	}
	defer os.RemoveAll(tmp)
	type out struct {
		status string
		detail string
	}
	outs := make([]out, len(sel))
	var wg sync.WaitGroup
	sem := make(chan struct{}, 8)
	for i, m := range sel {
		wg.Add(1)
		go func(i int, m Mutant) {
			defer wg.Done()
			sem <- struct{}{}
			defer func() { <-sem }()
			src, err := os.ReadFile(filepath.Join(repo, m.File))
			if err != nil {
				outs[i] = out{"skipped", m.ID + ": " + err.Error()}
				return
			}
			idx := nthIndex(string(src), m.Old, m.Nth)
			if idx < 0 {
				outs[i] = out{"skipped", m.ID + ": old text not found (tree already edited?)"}
				return
			}
			mut := string(src[:idx]) + m.New + string(src[idx+len(m.Old):])
			mf := filepath.Join(tmp, fmt.Sprintf("m%d.go", i))
			_ = os.WriteFile(mf, []byte(mut), 0o644)
			of := filepath.Join(tmp, fmt.Sprintf("m%d.json", i))
			cmd := exec.Command(exe, "one", m.Prop, "--config", "linux/amd64/cgo0", "--repo", repo, "--verif", verifDir,
				"--overlay", filepath.Join(repo, m.File)+"="+mf, "--out", of)
			if b, err := cmd.CombinedOutput(); err != nil {
				outs[i] = out{"missed", fmt.Sprintf("%s: subprocess failed: %v %s", m.ID, err, string(b))}
				return
			}
			b, _ := os.ReadFile(of)
			var rep Report
			if err := json.Unmarshal(b, &rep); err != nil {
				outs[i] = out{"missed", m.ID + ": bad report"}
				return
			}
			known, _ := LoadKnown(filepath.Join(verifDir, "known_findings.json"))
			var hits []string
			loadFail := false
			for _, o := range rep.Obs {
				if o.Status == Discharged {
					continue
				}
				if o.Rule == "analyser" {
					loadFail = true
					hits = append(hits, o.Key+": "+o.Msg)
					continue
				}
				if known != nil && known.Match(o) != nil {
					continue
				}
				hits = append(hits, o.Rule+"/"+o.Key)
			}
			if loadFail {
				outs[i] = out{"skipped", m.ID + ": mutant does not type-check: " + strings.Join(hits, "; ")}
				return
			}
			if m.Benign {
				if len(hits) == 0 {
					outs[i] = out{"benign-ok", m.ID + ": benign edit, check silent (as required)"}
				} else {
					outs[i] = out{"false-alarm", m.ID + ": FALSE ALARM on a behaviour-preserving edit: " + strings.Join(hits, ", ")}
				}
				return
			}
			if len(hits) == 0 {
				outs[i] = out{"missed", m.ID + ": NOT DETECTED (" + m.File + ": " + m.Old + " -> " + m.New + ")"}
				return
			}
			if m.Expect != "" {
				ok := false
				for _, h := range hits {
					if strings.Contains(h, m.Expect) {
						ok = true
					}
				}
				if !ok {
					outs[i] = out{"missed", m.ID + ": reported, but not by the expected obligation " + m.Expect + ": " + strings.Join(hits, ", ")}
					return
				}
			}
			if len(hits) > 3 {
				hits = append(hits[:3], fmt.Sprintf("… %d more", len(hits)-3))
			}
			outs[i] = out{"detected", m.ID + ": detected by " + strings.Join(hits, ", ")}
		}(i, m)
	}
	wg.Wait()
	for _, o := range outs {
		switch o.status {
		case "skipped":
			res.Skipped++
		case "detected":
			res.Applied++
			res.Detected++
		case "missed":
			res.Applied++
			res.Missed++
		case "benign-ok":
			res.Benign++
		case "false-alarm":
			res.Benign++
			res.FalseAlarms++
			res.Missed++
		}
		res.Details = append(res.Details, o.detail)
	}
	return res
}

// SelfTestResult summarises the engine self-test corpus.
type SelfTestResult struct {
	OK       bool     `json:"ok"`
	Cases    int      `json:"cases"`
	Failures []string `json:"failures,omitempty"`
}
