package an

import "sort"

// PropFunc evaluates all obligations of one property on one loaded configuration.
type PropFunc func(p *Prog, r *Report)

// PropInfo describes a claimed property check.
type PropInfo struct {
	ID          string
	Run         PropFunc
	Explanation string
	Assumptions []string
}

var registry = map[string]*PropInfo{}

func register(pi *PropInfo) { registry[pi.ID] = pi }

func Lookup(id string) *PropInfo { return registry[id] }

func AllProps() []string {
	var out []string
	for k := range registry {
		out = append(out, k)
	}
	sort.Strings(out)
	return out
}

var commonAssumptions = []string{
	"Go memory model, sync.Mutex/Once/Cond and channel semantics (FIFO, close wakes all receivers) as documented",
	"go/types + go/ssa (x/tools v0.29.0) faithfully represent the source; VTA call graph over CHA is a sound over-approximation of dynamic calls inside the module",
	"only the structural necessary conditions listed in coverage.per_rule are decided; the run-time behaviour itself (timing, scheduling, bytes through kernel/TLS/websocket) is not",
}
