package an

import (
	"fmt"
	"go/token"
	"go/types"
	"regexp"
	"sort"
	"strings"

	"golang.org/x/tools/go/ssa"
)

// optionMethods: every SetOption / GetOption method in scope.
func optionMethods(p *Prog, name string) []*ssa.Function {
	var out []*ssa.Function
	for _, fn := range p.Funcs {
		if fn.Name() == name && fn.Signature.Recv() != nil && fn.Parent() == nil {
			out = append(out, fn)
		}
	}
	return out
}

// valueParam: the interface{} value parameter of a SetOption.
func valueParam(fn *ssa.Function) *ssa.Parameter {
	for _, pp := range fn.Params {
		if _, ok := pp.Type().Underlying().(interface{ NumMethods() int }); ok && pp.Type().String() == "interface{}" {
			return pp
		}
		if pp.Type().String() == "any" || pp.Type().String() == "interface{}" {
			return pp
		}
	}
	return nil
}

// c19Shape: C19.1 — uniform shape of option methods.
func c19Shape(p *Prog, r *Report) {
	R := "C19.1/option-shape"
	r.Describe(R, "SetOption: every type assertion on the value is comma-ok (or a type switch), no field is stored before the value passed its assertion, a failed assertion returns ErrBadValue; Set/GetOption return only nil, ErrBadValue, ErrBadOption/ErrBadProperty, or delegate; no explicit panic")
	// frozen exceptions: (function, reason)
	allowAssert := map[string]string{
		"transport.(*conn).SetOption": "ConnPipe.SetOption is not an application API: it is called only by the transports with an int (who-may-call checked below)",
	}
	nset := 0
	for _, fn := range optionMethods(p, "SetOption") {
		nset++
		fname := p.FuncName(fn)
		vp := valueParam(fn)
		var badAssert []string
		EachInstr(fn, func(in ssa.Instruction) {
			ta, ok := in.(*ssa.TypeAssert)
			if !ok {
				return
			}
			if vp == nil || stripCast(ta.X) != ssa.Value(vp) {
				return
			}
			if !ta.CommaOk {
				badAssert = append(badAssert, p.InstrPos(in)+" ."+"("+typeShort(ta.AssertedType)+")")
			}
		})
		if why, ok := allowAssert[fname]; ok {
			if len(badAssert) > 0 {
				callers := p.CallersOf("ConnPipe.SetOption")
				bad := ""
				for k := range callers {
					if !strings.HasPrefix(k, "transport") {
						bad = k
					}
				}
				r.Check(bad == "", R, fname+"/assertions", p.Pos(fn.Pos()), "allow-listed: "+why, "the unchecked assertion in "+fname+" is reachable from "+bad)
			} else {
				r.OK(R, fname+"/assertions", p.Pos(fn.Pos()), "all assertions comma-ok")
			}
		} else {
			r.Check(len(badAssert) == 0, R, fname+"/assertions", p.Pos(fn.Pos()), "every assertion on the value is comma-ok", "unchecked type assertion on the option value at "+strings.Join(badAssert, ", ")+": a value of the wrong type panics instead of returning ErrBadValue")
		}
		// returns
		var odd []string
		for _, e := range p.Events(fn) {
			switch e.Kind {
			case "panic":
				odd = append(odd, "panic at "+p.InstrPos(e.In))
			case "return":
				if len(e.Args) != 1 {
					continue
				}
				v := e.Args[0]
				switch {
				case v == "nil", v == "ErrBadValue", v == "ErrBadOption", v == "ErrBadProperty", v == "ErrClosed":
				case strings.Contains(v, "SetOption("), strings.Contains(v, ".set("), strings.HasPrefix(v, "φ"), strings.HasPrefix(v, "$"), v == "new":
				case strings.Contains(v, "subscribe") || strings.HasPrefix(v, "dyn:") || strings.Contains(v, "φfn("):
				case strings.HasPrefix(v, "Err"):
					odd = append(odd, "returns "+v+" at "+p.InstrPos(e.In))
				}
				// a failed assertion must yield ErrBadValue
				failed := false
				for _, g := range e.Guard {
					if strings.HasPrefix(g, "!arg2.(") && strings.HasSuffix(g, ")?#1") {
						failed = true
					}
				}
				okAny := false
				for _, g := range e.Guard {
					if strings.HasPrefix(g, "arg2.(") && strings.HasSuffix(g, ")?#1") {
						okAny = true
					}
				}
				if failed && !okAny && v != "ErrBadValue" && !strings.Contains(v, "(") && !strings.HasPrefix(v, "φ") {
					odd = append(odd, "a value of the wrong type yields "+v+" at "+p.InstrPos(e.In))
				}
			}
		}
		// the exit taken when no option name matched
		for _, e := range p.Events(fn) {
			if e.Kind != "return" || len(e.Args) != 1 {
				continue
			}
			pos, neg := 0, 0
			for _, g := range e.Guard {
				if strings.HasPrefix(g, `arg1 == "`) {
					pos++
				}
				if strings.HasPrefix(g, `arg1 != "`) {
					neg++
				}
			}
			if pos == 0 && neg > 0 && neg == len(e.Guard) && neg == optionCases(p, fn) {
				v := e.Args[0]
				if !(v == "ErrBadOption" || v == "ErrBadProperty" || strings.Contains(v, "Option(") || strings.Contains(v, ".set(")) {
					odd = append(odd, "an unknown option name yields "+v+" instead of ErrBadOption at "+p.InstrPos(e.In))
				}
			}
		}
		r.Check(len(odd) == 0, R, fname+"/returns", p.Pos(fn.Pos()), "returns only nil/ErrBadValue/ErrBadOption or delegates; unknown names yield ErrBadOption", strings.Join(odd, "; "))
		// stores to receiver fields only after a successful assertion (when the value is involved)
		var early []string
		for _, e := range p.Events(fn) {
			if e.Kind != "store" || !strings.HasPrefix(e.What, "recv.") || !strings.Contains(e.Args[0], "arg2") {
				continue
			}
			ok := false
			for _, g := range e.Guard {
				if strings.HasPrefix(g, "arg2.(") && strings.HasSuffix(g, ")?#1") {
					ok = true
				}
			}
			if !ok && !strings.Contains(e.Args[0], ")?#0") == false {
				// value component of a comma-ok assertion used without its ok edge
				early = append(early, e.What+" at "+p.InstrPos(e.In))
			}
		}
		r.Check(len(early) == 0, R, fname+"/store-after-check", p.Pos(fn.Pos()), "fields are stored only on the ok edge of the assertion", "option value stored without its type assertion having succeeded: "+strings.Join(early, ", "))
	}
	nget := 0
	for _, fn := range optionMethods(p, "GetOption") {
		nget++
		fname := p.FuncName(fn)
		var odd []string
		for _, e := range p.Events(fn) {
			if e.Kind == "panic" {
				odd = append(odd, "panic at "+p.InstrPos(e.In))
			}
			if e.Kind == "return" && len(e.Args) == 2 {
				v := e.Args[1]
				if strings.HasPrefix(v, "Err") && v != "ErrBadOption" && v != "ErrBadProperty" && v != "ErrBadValue" {
					odd = append(odd, "returns "+v+" at "+p.InstrPos(e.In))
				}
			}
		}
		for _, e := range p.Events(fn) {
			if e.Kind != "return" || len(e.Args) != 2 {
				continue
			}
			pos, neg := 0, 0
			for _, g := range e.Guard {
				if strings.HasPrefix(g, `arg1 == "`) {
					pos++
				}
				if strings.HasPrefix(g, `arg1 != "`) {
					neg++
				}
			}
			if pos == 0 && neg > 0 && neg == len(e.Guard) && neg == optionCases(p, fn) {
				v := e.Args[1]
				if !(v == "ErrBadOption" || v == "ErrBadProperty" || strings.Contains(v, "Option(") || strings.Contains(v, ".get(")) {
					odd = append(odd, "an unknown option name yields "+v+" instead of ErrBadOption at "+p.InstrPos(e.In))
				}
			}
		}
		r.Check(len(odd) == 0, R, fname+"/returns", p.Pos(fn.Pos()), "unknown names yield ErrBadOption/ErrBadProperty or are delegated", strings.Join(odd, "; "))
	}
	r.Count("c19.setoption_methods", nset)
	r.Count("c19.getoption_methods", nget)
	r.Floor(R, "c19.setoption_methods", 30)
	r.Floor(R, "c19.getoption_methods", 30)
}

// c19Symmetry: C19.3 — Set/Get use the same field; the stored value is the asserted one.
func c19Symmetry(p *Prog, r *Report) {
	R := "C19.3/set-get-symmetry"
	r.Describe(R, "for every option a type both sets and gets, GetOption returns the field SetOption stores, and what is stored is the asserted value itself")
	gets := map[string]*ssa.Function{}
	for _, fn := range optionMethods(p, "GetOption") {
		gets[strings.TrimSuffix(p.FuncName(fn), "GetOption")] = fn
	}
	n := 0
	for _, sfn := range optionMethods(p, "SetOption") {
		base := strings.TrimSuffix(p.FuncName(sfn), "SetOption")
		gfn := gets[base]
		if gfn == nil {
			continue
		}
		smap := map[string]string{} // opt -> field
		sval := map[string]string{}
		for _, e := range p.Events(sfn) {
			if e.Kind != "store" || !strings.HasPrefix(e.What, "recv.") {
				continue
			}
			opt := ""
			for _, g := range e.Guard {
				if strings.HasPrefix(g, `arg1 == "`) {
					opt = strings.Trim(strings.TrimPrefix(g, "arg1 == "), `"`)
				}
			}
			if opt == "" || !strings.Contains(e.Args[0], "arg2.(") {
				continue
			}
			if !strings.HasSuffix(e.Args[0], ")?#0") {
				continue // derived values (queues made from the length, etc.)
			}
			smap[opt] = fieldSuffix(e.What)
			sval[opt] = e.Args[0]
		}
		gmap := map[string]string{}
		for _, e := range p.Events(gfn) {
			if e.Kind != "return" || len(e.Args) != 2 || e.Args[1] != "nil" {
				continue
			}
			opt := ""
			for _, g := range e.Guard {
				if strings.HasPrefix(g, `arg1 == "`) {
					opt = strings.Trim(strings.TrimPrefix(g, "arg1 == "), `"`)
				}
			}
			if opt != "" && strings.HasPrefix(e.Args[0], "recv.") {
				gmap[opt] = fieldSuffix(e.Args[0])
			}
		}
		var opts []string
		for o := range smap {
			if _, ok := gmap[o]; ok {
				opts = append(opts, o)
			}
		}
		sort.Strings(opts)
		for _, o := range opts {
			n++
			r.Check(smap[o] == gmap[o], R, base+o, p.Pos(sfn.Pos()), fmt.Sprintf("Set stores .%s, Get returns .%s", smap[o], gmap[o]), fmt.Sprintf("SetOption(%s) stores .%s but GetOption(%s) returns .%s: an accepted value is not what Get then returns", o, smap[o], o, gmap[o]))
		}
	}
	r.Count("c19.set_get_pairs", n)
	r.Floor(R, "c19.set_get_pairs", 60)
}

// c19Ranges: C19.2 — accepted ranges against the option table.
func c19Ranges(p *Prog, r *Report) {
	R := "C19.2/ranges"
	r.Describe(R, "queue lengths accept exactly v >= 0 (sub: v >= 1), MaxRecvSize on the socket v >= 0, reconnect times v >= 0 on dialer and socket alike (a socket value is copied into new dialers without their own check)")
	type rng struct{ min int64 }
	oracle := func(fname, opt string) (int64, bool) {
		switch opt {
		case "READQ-LEN":
			if strings.HasPrefix(fname, "protocol/sub.") {
				return 1, true
			}
			return 0, true
		case "WRITEQ-LEN":
			return 0, true
		case "MAX-RCV-SIZE":
			if strings.HasPrefix(fname, "internal/core.(*socket)") {
				return 0, true
			}
		case "RECONNECT-TIME", "MAX-RECONNECT-TIME":
			if strings.HasPrefix(fname, "internal/core.") {
				return 0, true
			}
		}
		return 0, false
	}
	n := 0
	for _, fn := range optionMethods(p, "SetOption") {
		fname := p.FuncName(fn)
		seen := map[string]bool{}
		for _, e := range p.Events(fn) {
			if e.Kind != "store" || !strings.HasPrefix(e.What, "recv.") || !strings.HasSuffix(e.Args[0], ")?#0") {
				continue
			}
			opt := ""
			for _, g := range e.Guard {
				if strings.HasPrefix(g, `arg1 == "`) {
					opt = strings.Trim(strings.TrimPrefix(g, "arg1 == "), `"`)
				}
			}
			min, ok := oracle(fname, opt)
			if !ok || seen[opt] {
				continue
			}
			seen[opt] = true
			n++
			v := e.Args[0]
			okv := strings.TrimSuffix(v, "#0") + "#1"
			dom := map[string][]int64{v: {-2, -1, 0, 1, 2, 3}, okv: {1}}
			res := ComparePred(predBlock(e), dom, []string{`arg1 == "` + opt + `"`, okv, "*== ErrBadOption"}, func(env map[string]int64) bool { return env[v] >= min })
			key := fname + "/" + opt
			switch {
			case res.Undec != "":
				r.Unk(R, key, p.InstrPos(e.In), "cannot evaluate the accepted range: "+res.Undec)
			case !res.OK:
				r.Bad(R, key, p.InstrPos(e.In), fmt.Sprintf("accepted range of %s is not exactly v >= %d: %s", opt, min, res.Counter))
			default:
				r.OK(R, key, p.InstrPos(e.In), fmt.Sprintf("accepts exactly v >= %d", min))
			}
		}
	}
	r.Count("c19.range_checked_options", n)
	r.Floor(R, "c19.range_checked_options", 25)
}

// c19Unsupported: C19.6 — operations a pattern does not have.
func c19Unsupported(p *Prog, r *Report) {
	q := NewQ(p, r)
	R := "C19.6/unsupported-ops"
	r.Describe(R, "receiving on PUB/PUSH, sending on SUB/PULL and OpenContext on patterns without contexts return ErrProtoOp with no side effect; the cooked wrappers do not override them")
	type op struct{ rel, recv, name string }
	var ops []op
	for _, x := range []string{"xpub", "xpush"} {
		ops = append(ops, op{"protocol/" + x, "socket", "RecvMsg"})
	}
	for _, x := range []string{"xsub", "xpull"} {
		ops = append(ops, op{"protocol/" + x, "socket", "SendMsg"})
	}
	ops = append(ops, op{"protocol/sub", "socket", "SendMsg"}, op{"protocol/sub", "context", "SendMsg"})
	for _, x := range []string{"xpair", "xpair1", "xpub", "xsub", "xpush", "xpull", "xreq", "xrep", "xsurveyor", "xrespondent", "xbus", "xstar"} {
		ops = append(ops, op{"protocol/" + x, "socket", "OpenContext"})
	}
	for _, o := range ops {
		f := q.Fn(R, o.rel, o.recv, o.name)
		if !f.OK() {
			continue
		}
		ok := len(f.evs) == 1 && f.evs[0].Kind == "return" && f.evs[0].Args[len(f.evs[0].Args)-1] == "ErrProtoOp"
		r.Check(ok, R, f.Name, f.Pos(), "returns ErrProtoOp and does nothing else", f.Name+" is not `return ErrProtoOp` without side effects: "+func() string {
			var s []string
			for _, e := range f.evs {
				s = append(s, e.String())
			}
			return strings.Join(s, " | ")
		}())
	}
	// cooked wrappers must not define these methods
	for _, w := range [][2]string{{"protocol/pub", "RecvMsg"}, {"protocol/push", "RecvMsg"}, {"protocol/pull", "SendMsg"}, {"protocol/pair", "OpenContext"}, {"protocol/pair1", "OpenContext"}, {"protocol/pub", "OpenContext"}, {"protocol/push", "OpenContext"}, {"protocol/pull", "OpenContext"}, {"protocol/bus", "OpenContext"}, {"protocol/star", "OpenContext"}} {
		fn := p.Func(w[0], "socket", w[1])
		r.Check(fn == nil, R, w[0]+".(*socket)."+w[1]+"/not-overridden", "-", "the cooked wrapper inherits the raw socket's ErrProtoOp stub", w[0]+" overrides "+w[1]+" (the unsupported operation may now succeed or fail differently)")
	}
}

// c19Inheritance: C19.4 — new contexts inherit the default context's options.
func c19Inheritance(p *Prog, r *Report) {
	q := NewQ(p, r)
	R := "C19.4/inheritance"
	r.Describe(R, "OpenContext copies every inheritable option field from the default context (same-named field, under the socket lock); NewDialer/NewListener copy the socket's settings")
	type inh struct {
		rel, def string
		fields   []string
	}
	for _, t := range []inh{
		{"protocol/req", "recv.defCtx", []string{"bestEffort", "resendTime", "sendExpire", "receiveExpire", "failNoPeers"}},
		{"protocol/sub", "recv.master", []string{"recvQLen", "recvExpire"}},
		{"protocol/surveyor", "recv.master", []string{"recvQLen", "recvExpire", "survExpire"}},
		{"protocol/respondent", "recv.defCtx", []string{"recvExpire", "sendExpire", "bestEffort"}},
	} {
		f := q.Fn(R, t.rel, "socket", "OpenContext")
		if !f.OK() {
			continue
		}
		// the new context: a composite literal, or whatever OpenContext returns (a value built
		// by a private constructor and completed here)
		bases := map[string]bool{"$complit": true}
		for _, e := range f.EvOwn("return", "") {
			if len(e.Args) == 2 && e.Args[0] != "nil" {
				bases[e.Args[0]] = true
			}
		}
		for _, fld := range t.fields {
			var st Sel
			for _, e := range f.Ev("store", "*."+fld) {
				if bases[strings.TrimSuffix(e.What, "."+fld)] {
					st = append(st, e)
				}
			}
			ok := len(st) == 1 && st[0].Args[0] == t.def+"."+fld && len(st[0].Held) > 0
			r.Check(ok, R, t.rel+"/OpenContext/"+fld, st.Pos(p), "new context's "+fld+" = default context's "+fld+" (under the lock)", fmt.Sprintf("OpenContext does not inherit %s from the default context's %s under the lock: %s", fld, fld, argsOf(st)))
		}
		// every option field SetOption can store is either copied or listed
		so := p.Func(t.rel, "context", "SetOption")
		if so != nil {
			set := map[string]bool{}
			for _, paths := range p.optionFieldMap(so) {
				for _, pth := range paths {
					if strings.HasPrefix(pth, "recv.") && !strings.Contains(strings.TrimPrefix(pth, "recv."), ".") {
						set[strings.TrimPrefix(pth, "recv.")] = true
					}
				}
			}
			notInherited := map[string]bool{"recvQ": true, "sizeQ": true, "subs": true}
			var missing []string
			for fld := range set {
				in := false
				for _, x := range t.fields {
					if x == fld {
						in = true
					}
				}
				if !in && !notInherited[fld] {
					missing = append(missing, fld)
				}
			}
			sort.Strings(missing)
			r.Check(len(missing) == 0, R, t.rel+"/OpenContext/covers-all-option-fields", f.Pos(), "every option field of the context is inherited", "option field(s) "+strings.Join(missing, ", ")+" can be set on the default context but are not inherited by new contexts")
		}
	}
	nd := q.Fn(R, "internal/core", "socket", "NewDialer")
	if nd.OK() {
		for fld, src := range map[string]string{"reconnMinTime": "recv.reconnMinTime", "reconnMaxTime": "recv.reconnMaxTime", "asynch": "recv.dialAsynch"} {
			// (the construction itself: own stores, or those of a single-use constructor)
			st := nd.EvOwn("store", "$complit."+fld)
			if len(st) == 0 {
				st = nd.Ev("store", "$complit."+fld)
			}
			r.Check(len(st) == 1 && st[0].Args[0] == src, R, "NewDialer/"+fld, st.Pos(p), fld+" = socket's "+src, "NewDialer does not inherit "+fld+" from "+src)
		}
	}
	for _, nm := range []string{"NewDialer", "NewListener"} {
		f := q.Fn(R, "internal/core", "socket", nm)
		if !f.OK() {
			continue
		}
		ok := false
		exact := false
		guards := ""
		for _, e := range f.All() {
			if e.Kind == "call" && strings.HasSuffix(e.What, ".SetOption") && len(e.Args) >= 3 && e.Args[1] == `"MAX-RCV-SIZE"` && strings.HasSuffix(e.Args[2], "maxRxSize") {
				ok = true
				guards = strings.Join(e.Guard, "; ")
				for _, g := range e.Guard {
					if strings.HasPrefix(g, "!") && strings.HasSuffix(g, `["MAX-RCV-SIZE"]#1`) {
						exact = true
					}
				}
			}
		}
		r.Check(ok, R, nm+"/max-recv-size", f.Pos(), "the socket's MaxRecvSize is applied to the new endpoint", nm+" does not apply the socket's MaxRecvSize to the new endpoint")
		r.Check(!ok || exact, R, nm+"/max-recv-size-unless-given", f.Pos(), "applied exactly when the options given to the call do not set it themselves", nm+" does not decide by looking MAX-RCV-SIZE up in the options it was given whether the endpoint inherits the socket's receive limit: an endpoint created with some other option loses the limit (guards: "+guards+")")
	}
	_ = token.ADD
}

// optionCases: number of distinct option-name constants a Set/GetOption dispatches on.
func optionCases(p *Prog, fn *ssa.Function) int {
	set := map[string]bool{}
	for _, b := range fn.Blocks {
		if iff, ok := b.Instrs[len(b.Instrs)-1].(*ssa.If); ok {
			a := NormAtom(iff.Cond, true)
			if strings.HasPrefix(a, `arg1 == "`) {
				set[a] = true
			}
		}
	}
	return len(set)
}

// c19QueueLengths: C19.6 — wherever a message queue is (re)built, its capacity is the
// queue-length option value that the same object reports through GetOption: the value
// stored into the matching …QLen field in the same function, or a load of a …QLen field.
func c19QueueLengths(p *Prog, r *Report) {
	R := "C19.6/queue-length-agrees"
	r.Describe(R, "every make(chan *Message, N) stored into a recvQ/sendQ field uses the N that the object's …QLen option field holds (the value GetOption reports is the capacity actually in force)")
	n := 0
	for _, fn := range p.Funcs {
		rel, _ := p.FuncRel(fn)
		if !strings.HasPrefix(rel, "protocol/") {
			continue
		}
		evs := p.Events(fn)
		for _, e := range evs {
			if e.Kind != "store" || !strings.HasPrefix(e.Args[0], "make(chan,") {
				continue
			}
			i := strings.LastIndex(e.What, ".")
			if i < 0 {
				continue
			}
			base, fld := e.What[:i], e.What[i+1:]
			lf := strings.ToLower(fld)
			if lf != "recvq" && lf != "sendq" {
				continue
			}
			// only queues whose owner has a matching …Len option field
			hasLen := false
			if st, ok := e.In.(*ssa.Store); ok {
				if fa, ok := st.Addr.(*ssa.FieldAddr); ok {
					if pt, ok := fa.X.Type().Underlying().(*types.Pointer); ok {
						if stt, ok := pt.Elem().Underlying().(*types.Struct); ok {
							for k := 0; k < stt.NumFields(); k++ {
								if strings.EqualFold(stt.Field(k).Name(), fld+"Len") {
									hasLen = true
								}
							}
						}
					}
				}
			}
			capExpr := strings.TrimSuffix(strings.TrimPrefix(e.Args[0], "make(chan,"), ")")
			if !hasLen {
				// a queue of a per-pipe object sized from its socket's option: the option
				// must be the one of this direction (sendQ <- sendQLen, recvQ <- recvQLen)
				j := strings.LastIndex(capExpr, ".")
				if j < 0 || !strings.HasSuffix(strings.ToLower(capExpr[j+1:]), "qlen") {
					continue
				}
			}
			n++
			key := p.FuncName(fn) + "/" + e.What
			// (a) same-base …Len store in this function
			var lenVal string
			for _, e2 := range evs {
				if e2.Kind == "store" && strings.HasPrefix(e2.What, base+".") && strings.EqualFold(e2.What[len(base)+1:], fld+"Len") {
					lenVal = e2.Args[0]
				}
			}
			ok := false
			how := ""
			switch {
			case lenVal != "":
				ok = lenVal == capExpr
				how = "capacity " + capExpr + " vs " + fld + "Len = " + lenVal + " stored in the same function"
			default:
				j := strings.LastIndex(capExpr, ".")
				// the length option of THIS queue: recvQ <- …recvQLen, sendQ <- …sendQLen
				ok = j >= 0 && strings.ToLower(capExpr[j+1:]) == lf+"len"
				how = "capacity " + capExpr + " for " + fld
			}
			r.Check(ok, R, key, p.InstrPos(e.In), how, "a message queue is built with a capacity that is not the object's queue-length option ("+how+"): GetOption reports one length while another is in force")
		}
	}
	r.Count("c19.queue_constructions", n)
	r.Floor(R, "c19.queue_constructions", 20)
}

// c19OptionsReadAtUse: C19.9 — a long-lived goroutine (accept loop, per-pipe sender or
// receiver) reads an option field inside its loop, each time it is about to apply it, not
// once before the loop: otherwise a value that SetOption accepts (and GetOption reports)
// after the goroutine started never takes effect for later connections/messages.
func c19OptionsReadAtUse(p *Prog, r *Report, R string) {
	r.Describe(R, "goroutine loops read option fields inside the loop (per connection / per message), never as a snapshot taken before the loop")
	// option fields: every field some SetOption method stores a value-derived datum into
	optField := map[string]bool{}
	for _, fn := range p.Funcs {
		if fn.Name() != "SetOption" || fn.Signature.Recv() == nil {
			continue
		}
		for _, paths := range p.optionFieldMap(fn) {
			for _, pth := range paths {
				if strings.HasPrefix(pth, "recv.") && !strings.Contains(pth[5:], ".") {
					if n := recvNamed(fn); n != nil {
						optField[TypeKey(n)+"."+pth[5:]] = true
					}
				}
			}
		}
	}
	gt := p.goTargets()
	n := 0
	for _, fn := range p.Funcs {
		if len(gt[fn]) == 0 {
			continue
		}
		EachInstr(fn, func(in ssa.Instruction) {
			u, ok := in.(*ssa.UnOp)
			if !ok || u.Op != token.MUL {
				return
			}
			k := loadFieldKey(u)
			if k == "" || !optField[k] {
				return
			}
			n++
			if _, body := loopBody(u.Block()); body != nil {
				// inside the loop — but not on the far side of the loop's blocking receive from
				// its use: a value read before `m := p.RecvMsg()` and applied to m is the one
				// in force when the previous message was done, not when this one arrived
				stale := ""
				for b := range body {
					for _, bi := range b.Instrs {
						c := CallOf(bi)
						if c == nil || !c.IsInvoke() || (c.Method.Name() != "RecvMsg" && c.Method.Name() != "Recv") {
							continue
						}
						if !InstrDominates(u, bi) {
							continue
						}
						// is the loaded value used after the receive?
						var uses func(v ssa.Value, d int) bool
						seenU := map[ssa.Value]bool{}
						uses = func(v ssa.Value, d int) bool {
							if d > 5 || seenU[v] || v.Referrers() == nil {
								return false
							}
							seenU[v] = true
							for _, ref := range *v.Referrers() {
								if _, isPhi := ref.(*ssa.Phi); !isPhi && InstrDominates(bi, ref) {
									return true
								}
								if rv, ok := ref.(ssa.Value); ok && uses(rv, d+1) {
									return true
								}
							}
							return false
						}
						if uses(u, 0) {
							stale = p.InstrPos(bi)
						}
					}
				}
				r.Check(stale == "", R, p.FuncName(fn)+"/"+k+"@loop", p.InstrPos(u), "read inside the loop, on the same side of the blocking receive as its use", "the option field "+k+" is read before the loop's blocking receive (at "+stale+") and applied to the message that receive returns: the first message after SetOption is judged by the old value")
				return
			}
			// read outside any loop: fine unless the value is used inside a loop
			usedInLoop := ""
			var walk func(v ssa.Value, d int)
			seen := map[ssa.Value]bool{}
			walk = func(v ssa.Value, d int) {
				if d > 6 || seen[v] || v.Referrers() == nil {
					return
				}
				seen[v] = true
				for _, ref := range *v.Referrers() {
					if _, body := loopBody(ref.Block()); body != nil {
						if _, isPhi := ref.(*ssa.Phi); !isPhi {
							usedInLoop = p.InstrPos(ref)
						}
					}
					if rv, ok := ref.(ssa.Value); ok {
						walk(rv, d+1)
					}
					if st, ok := ref.(*ssa.Store); ok {
						if al, ok := st.Addr.(*ssa.Alloc); ok {
							walk(al, d+1)
						}
					}
				}
			}
			walk(u, 0)
			r.Check(usedInLoop == "", R, p.FuncName(fn)+"/"+k, p.InstrPos(u), "not a pre-loop snapshot used in the loop", "the option field "+k+" is read once before the goroutine's loop and the snapshot is used inside it (at "+usedInLoop+"): a value set later is accepted and reported but never applied")
		})
	}
	// a snapshot taken by the spawning function and captured by the goroutine's closure
	for _, fn := range p.Funcs {
		EachInstr(fn, func(in ssa.Instruction) {
			g, ok := in.(*ssa.Go)
			if !ok {
				return
			}
			mc, ok := g.Call.Value.(*ssa.MakeClosure)
			if !ok {
				return
			}
			cl, ok := mc.Fn.(*ssa.Function)
			if !ok {
				return
			}
			hasLoop := false
			for _, b := range cl.Blocks {
				if h, _ := loopBody(b); h != nil {
					hasLoop = true
				}
			}
			if !hasLoop {
				return
			}
			for i, b := range mc.Bindings {
				var loads []*ssa.UnOp
				switch x := b.(type) {
				case *ssa.UnOp:
					loads = append(loads, x)
				case *ssa.Alloc:
					if refs := x.Referrers(); refs != nil {
						for _, ref := range *refs {
							if st, ok := ref.(*ssa.Store); ok && st.Addr == x {
								if u, ok := st.Val.(*ssa.UnOp); ok {
									loads = append(loads, u)
								}
							}
						}
					}
				}
				for _, u := range loads {
					if u.Op != token.MUL {
						continue
					}
					k := loadFieldKey(u)
					if k == "" || !optField[k] {
						continue
					}
					n++
					name := "?"
					if i < len(cl.FreeVars) {
						name = cl.FreeVars[i].Name()
					}
					r.Bad(R, p.FuncName(cl)+"/captured:"+k, p.InstrPos(u), "the option field "+k+" is read once by "+p.FuncName(fn)+" and the snapshot ("+name+") is captured by the goroutine's loop: a value set after the goroutine started is accepted and reported but never applied to later connections/messages")
				}
			}
		})
	}
	r.Count("c19.option_reads_in_goroutines", n)
}

// optionTypeAgreement: the websocket transport keeps validated option values in a map and
// reads them back with type assertions.  Every such read asserts the type under which the
// option was validated and stored (`set`): a read as another type never succeeds, so with the
// comma-ok form the option silently never takes effect (a receive limit that is never applied).
func optionTypeAgreement(p *Prog, r *Report, R string) {
	r.Describe(R, "ws: an option value is read back from the option map as the type it was validated and stored as (a mismatching comma-ok assertion silently disables the option)")
	set := p.Func("transport/ws", "options", "set")
	if set == nil {
		r.Bad(R, "anchor:transport/ws.(options).set", "-", "ANCHOR-MISSING: function transport/ws.(options).set not found")
		return
	}
	stored := map[string]types.Type{}
	EachInstr(set, func(in ssa.Instruction) {
		ta, ok := in.(*ssa.TypeAssert)
		if !ok {
			return
		}
		for _, g := range p.GuardStrings(in) {
			if strings.HasPrefix(g, `arg1 == "`) {
				stored[strings.TrimPrefix(g, "arg1 == ")] = ta.AssertedType
			}
		}
	})
	n := 0
	for _, fn := range p.Funcs {
		if rel, _ := p.FuncRel(fn); rel != "transport/ws" || fn == set {
			continue
		}
		EachInstr(fn, func(in ssa.Instruction) {
			ta, ok := in.(*ssa.TypeAssert)
			if !ok {
				return
			}
			key := ""
			src := ta.X
			if ex, ok := src.(*ssa.Extract); ok {
				src = ex.Tuple
			}
			switch x := src.(type) {
			case *ssa.Call:
				if sc := x.Call.StaticCallee(); sc != nil && sc.Name() == "get" && len(x.Call.Args) == 2 {
					key = Desc(x.Call.Args[1])
				}
			case *ssa.Lookup:
				if _, isMap := x.X.Type().Underlying().(*types.Map); isMap {
					key = Desc(x.Index)
				}
			}
			if _, known := stored[key]; !known {
				return
			}
			n++
			want := stored[key]
			r.Check(types.Identical(ta.AssertedType, want), R, p.FuncName(fn)+"/"+strings.Trim(key, `"`), p.InstrPos(in), "read as "+typeShort(want), "the option "+key+" is validated and stored as "+typeShort(want)+" but read back as "+typeShort(ta.AssertedType)+": the assertion never succeeds and the configured value is never applied")
		})
	}
	r.Count("c19.ws_option_reads", n)
	r.Floor(R, "c19.ws_option_reads", 3)
}

// gatedOptionFlags: in the IPC listener an option value takes effect in Listen only under a
// flag (`if l.chown { os.Chown(path, l.owner, l.group) }`).  Which flag gates which value is
// read off Listen; SetOption must then raise exactly that flag wherever it stores one of the
// values it gates — raising another flag applies a different setting (with its zero value)
// and leaves the accepted one without effect.
func gatedOptionFlags(p *Prog, r *Report, R string) {
	r.Describe(R, "ipc listener: every option value that Listen applies under a flag is stored together with that very flag set to true")
	if p.Conf.GOOS == "windows" {
		return // named pipes: no file ownership or mode
	}
	q := NewQ(p, r)
	ls := q.Fn(R, "transport/ipc", "listener", "Listen")
	so := q.Fn(R, "transport/ipc", "listener", "SetOption")
	if !ls.OK() || !so.OK() {
		return
	}
	gate := map[string]string{} // value field -> flag field
	for _, e := range ls.All() {
		if e.Kind != "call" || !strings.HasPrefix(e.What, "os.Ch") {
			continue
		}
		flag := ""
		for _, g := range e.Guard {
			if strings.HasPrefix(g, "recv.") && !strings.ContainsAny(g, " (![") {
				flag = g
			}
		}
		if flag == "" {
			continue
		}
		for _, a := range e.Args {
			for _, m := range recvFieldRe.FindAllString(a, -1) {
				if m != flag && m != "recv.addr" {
					gate[m] = flag
				}
			}
		}
	}
	n := 0
	for _, e := range so.Ev("store", "recv.*") {
		flag, gated := gate[e.What]
		if !gated {
			continue
		}
		n++
		ok := false
		var raises Sel
		for _, f := range so.Ev("store", flag) {
			if f.Args[0] == "true" {
				raises = append(raises, f)
				if f.In.Block() == e.In.Block() || evDominates(f, e) {
					ok = true
				}
			}
		}
		if !ok && len(raises) > 0 {
			// raised after the store, on every path to the return
			ok, _ = q.mustPass(e.In, raises)
		}
		r.Check(ok, R, "SetOption/"+e.What+"->"+flag, p.InstrPos(e.In), e.What+" stored together with "+flag+" = true", "SetOption stores "+e.What+" without setting "+flag+", the flag under which Listen applies it: the accepted value has no effect (and whatever flag is raised instead applies another setting with its zero value)")
	}
	r.Count("c19.gated_option_values", n)
	r.Floor(R, "c19.gated_option_values", 3)
}

var recvFieldRe = regexp.MustCompile(`recv\.[A-Za-z_][A-Za-z0-9_]*`)

// wsCheckOriginBothWays: the websocket listener's origin check follows the option in both
// directions: turning it off installs the accept-all function, turning it (back) on restores
// the default.  A setter that only acts on one value leaves the effect of the other value in
// place when the option is changed a second time (GetOption then reports a check that is off).
func wsCheckOriginBothWays(p *Prog, r *Report, R string) {
	r.Describe(R, "an option whose value switches a behaviour on and off applies both values: WEBSOCKET-CHECKORIGIN true restores the upgrader's default check, false installs the accept-all function")
	q := NewQ(p, r)
	f := q.Fn(R, "transport/ws", "listener", "SetOption")
	if !f.OK() {
		return
	}
	var on, off Sel
	for _, e := range f.All() {
		if e.Kind != "store" || !strings.HasSuffix(e.What, ".ug.CheckOrigin") {
			continue
		}
		pos, neg := false, false
		for _, g := range e.Guard {
			if strings.HasSuffix(g, ".(bool)?#0") {
				if strings.HasPrefix(g, "!") {
					neg = true
				} else {
					pos = true
				}
			}
		}
		switch {
		case e.Args[0] == "nil" && pos && !neg:
			on = append(on, e)
		case e.Args[0] != "nil" && neg && !pos:
			off = append(off, e)
		}
	}
	r.Check(len(off) >= 1, R, "ws.CheckOrigin/false-installs-accept-all", f.Pos(), "false: accept-all installed", "setting WEBSOCKET-CHECKORIGIN to false does not install the accept-all origin function")
	r.Check(len(on) >= 1, R, "ws.CheckOrigin/true-restores-default", f.Pos(), "true: default check restored (CheckOrigin = nil)", "setting WEBSOCKET-CHECKORIGIN (back) to true does not restore the upgrader's default origin check: after false-then-true the option reads true while every origin is still accepted")
}
