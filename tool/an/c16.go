package an

import (
	"fmt"
	"go/types"
	"regexp"
	"strings"

	"golang.org/x/tools/go/ssa"
)

func init() {
	register(&PropInfo{ID: "C16", Run: runC16,
		Explanation: "E6d buffer-bound dataflow (go/cfg) over every function of the protocols, transports, core and root package: each constant index / slice bound / BigEndian access on a []byte path has a dominating sufficient length fact; peer-keyed map lookups are comma-ok; the receive-size predicate is checked before allocation; handshake validation covers every header field; errors on one pipe close only that pipe.",
		Assumptions: commonAssumptions})
}

// e6dObligations reports every bounded use in the selected packages.
func e6dObligations(p *Prog, r *Report, rule string, sel func(rel string) bool, allowUndec map[string]string) {
	uses := p.E6dUses(sel)
	per := map[string]int{}
	n := 0
	for _, u := range uses {
		n++
		base := u.Fn + "/" + strings.ReplaceAll(stripObj(u.Expr), " ", "")
		per[base]++
		key := fmt.Sprintf("%s#%d", base, per[base])
		pos := p.Pos(u.Pos)
		if u.Undec != "" {
			why, ok := allowUndec[base]
			if !ok && bodySliceRe.MatchString(strings.ReplaceAll(stripObj(u.Expr), " ", "")) {
				// `X.Body[0:n]` in a function where every such slice was shown to be of
				// NewMessage(int(n)) (sliceWithinNewMessage), whatever X and n are called
				why, ok = allowUndec[u.Fn+"/X.Body[0:n]"]
			}
			if ok {
				r.OK(rule, key, pos, "allow-listed: "+why)
			} else {
				r.Unk(rule, key, pos, fmt.Sprintf("%s on %s: %s — cannot bound statically", u.Undec, stripObj(u.Path), u.Expr))
			}
			continue
		}
		if u.Have >= u.Need {
			r.OK(rule, key, pos, fmt.Sprintf("len(%s) >= %d proven (needs %d)", stripObj(u.Path), u.Have, u.Need))
		} else {
			r.Bad(rule, key, pos, fmt.Sprintf("%s needs len(%s) >= %d but only >= %d is established on some path: a short (hostile) message panics here", u.Expr, stripObj(u.Path), u.Need, u.Have))
		}
	}
	r.Count("e6d.bounded_uses", n)
}

var bodySliceRe = regexp.MustCompile(`^[A-Za-z_][A-Za-z0-9_]*\.Body\[0?:[A-Za-z_][A-Za-z0-9_]*\]$`)

func notMacat(rel string) bool { return !strings.HasPrefix(rel, "macat") }

// sliceWithinNewMessage: in fn, every slice of a Body with a non-constant high bound is
// `X.Body[0:n]` where X is the result of NewMessage(int(n)) in the same function (the pool
// invariant C01.1 guarantees cap(Body) >= n).
func sliceWithinNewMessage(p *Prog, rel, recv, name string) (bool, string) {
	fn := p.Func(rel, recv, name)
	if fn == nil {
		return false, "function not found"
	}
	found := 0
	bad := ""
	EachInstr(fn, func(in ssa.Instruction) {
		sl, ok := in.(*ssa.Slice)
		if !ok || sl.High == nil {
			return
		}
		if _, isConst := ConstInt(sl.High); isConst {
			return
		}
		if !strings.HasSuffix(Desc(sl.X), ".Body") {
			return
		}
		root, _ := RootOf(sl.X)
		call, ok := root.(*ssa.Call)
		if !ok || CalleeName(&call.Call) != "mangos.NewMessage" {
			bad = "Body sliced with a non-constant bound but the message is not a fresh NewMessage result"
			return
		}
		want := "int(" + Desc(sl.High) + ")"
		if Desc(call.Call.Args[0]) != want {
			bad = fmt.Sprintf("Body[0:%s] but the message was allocated with NewMessage(%s)", Desc(sl.High), Desc(call.Call.Args[0]))
			return
		}
		if sl.Low != nil {
			if k, ok := ConstInt(sl.Low); !ok || k != 0 {
				bad = "low bound is not 0"
				return
			}
		}
		found++
	})
	if bad != "" {
		return false, bad
	}
	if found == 0 {
		return false, "no Body[0:n] slice of a NewMessage(int(n)) result found"
	}
	return true, fmt.Sprintf("%d slice(s) Body[0:n] of NewMessage(int(n))", found)
}

func runC16(p *Prog, r *Report) {
	completeReadFatal(p, r, "C16.20/complete-read-fatal", func(rel string) bool { return strings.HasPrefix(rel, "transport") })
	r.Floor("C16.20/complete-read-fatal", "complete_reads.C16.20/complete-read-fatal", 3)
	r.Describe("C16.1/E6d", "every index/slice/BigEndian access on a []byte path has a sufficient dominating length fact")
	allow := map[string]string{}
	for _, a := range [][3]string{{"transport", "conn", "Recv"}, {"transport", "connipc", "Recv"}} {
		ok, why := sliceWithinNewMessage(p, a[0], a[1], a[2])
		key := a[0] + ".(*" + a[1] + ").Recv/X.Body[0:n]"
		if ok {
			allow[key] = "slice within the capacity requested from NewMessage (pool invariant C01.1): " + why
		} else {
			r.Bad("C16.1/E6d", key+"/capacity", "-", "msg.Body[0:sz] is not justified by NewMessage(int(sz)): "+why)
		}
	}
	e6dObligations(p, r, "C16.1/E6d", notMacat, allow)
	r.Floor("C16.1/E6d", "e6d.bounded_uses", 40)

	r.Describe("C16.3/recv-limit", "stream Recv rejects exactly when sz<0 or (maxrx>0 and sz>maxrx), with ErrTooLong, before any allocation or payload read")
	recvLimitRules(p, r, "C16.3/recv-limit")
	r.Describe("C16.5/handshaker", "handshakes run on their own goroutine (a slow or silent peer never delays the accept loop); failed and late handshakes are closed")
	handshakerRules(p, r, "C16.5/handshaker")
	r.Describe("C16.10/drop-does-not-disconnect", "an unacceptable message (short, over the hop limit, unknown id) is discarded and the receiver carries on: it never costs the connection")
	dropDoesNotDisconnect(p, r, "C16.10/drop-does-not-disconnect", func(rel string) bool { return strings.HasPrefix(rel, "protocol/") })
	r.Floor("C16.10/drop-does-not-disconnect", "wire.receiver_drops", 15)
	c19OptionsReadAtUse(p, r, "C16.11/limit-read-per-connection")
	r.Describe("C16.8/accept-loop", "the accept goroutine of every stream transport never waits for an accepted peer (no read, TLS or SP handshake inside the loop around Accept) and never parks on a channel, WaitGroup or condition variable, directly or anywhere below the calls it makes (only another goroutine could end such a wait, and a peer that stays silent never does)")
	acceptLoopRules(p, r, "C16.8/accept-loop")
	r.Floor("C16.8/accept-loop", "wire.accept_loops", 3)
	acceptPauseBounded(p, r, "C16.21/accept-pause-bounded")
	pipeQueueSendsWatchClose(p, r, "C16.23/queue-sends-watch-close", func(rel string) bool { return strings.HasPrefix(rel, "protocol/") })
	r.Floor("C16.23/queue-sends-watch-close", "pipe_queue_sends.C16.23/queue-sends-watch-close", 3)
	r.Describe("C16.9/reply-matching", "a reply whose id matches no outstanding request (stale, replayed or forged) is dropped: the id of an answered or abandoned request is forgotten")
	c03ReplyMatching(p, r, "C16.9/reply-matching")
	r.Describe("C16.6/handshake-validation", "malformed or mismatched headers never yield a pipe and never look like 'listener closed' to the accept loop")
	handshakeValidation(p, r, "C16.6/handshake-validation")
	c16PipeErrors(p, r)
	crashSurface(p, r, "C16.12/crash-surface")
	wsSingleWriterReader(p, r, "C16.27/ws-single-writer")
	{
		reach := p.peerDriven()
		nilSafe(p, r, "C16.25/nil-safe", "on every path driven by a peer (receive goroutines and their callees, handshake/accept, pipe attach/detach)", func(fn *ssa.Function) bool { return reach[fn] })
		r.Floor("C16.25/nil-safe", "e12a.map_writes.C16.25/nil-safe", 8)
		r.Floor("C16.25/nil-safe", "e12b.uses.C16.25/nil-safe", 8)
	}
	limitBeforeStart(p, r, "C16.17/limit-before-start")
	r.Floor("C16.17/limit-before-start", "transport.handshake_starts", 6)
}

// recvLimitRules: shared by C01.4 and C16.3.
func recvLimitRules(p *Prog, r *Report, rule string) {
	q := NewQ(p, r)
	for _, a := range [][3]string{{"transport", "conn", "Recv"}, {"transport", "connipc", "Recv"}} {
		f := q.Fn(rule, a[0], a[1], a[2])
		if !f.OK() {
			continue
		}
		maxrx := "recv.maxrx"
		if a[1] == "connipc" {
			maxrx = "recv.conn.maxrx"
		}
		L, _, how := recvLength(p, f)
		if L == "" {
			r.Bad(rule, f.Name+"/length-value", f.Pos(), "ANCHOR-MISSING: cannot identify the announced frame length: "+how)
			continue
		}
		dom := map[string][]int64{L: {-2, -1, 0, 1, 2, 3}, maxrx: {-1, 0, 1, 2}}
		spec := func(env map[string]int64) bool {
			sz, mx := env[L], env[maxrx]
			return sz < 0 || (mx > 0 && sz > mx)
		}
		assume := []string{"~Read(* == nil", "~.Read(* == nil"}
		_ = assume
		as := []string{"~Read(", "~ReadFull("}
		// rejection block
		var rej Sel
		for _, e := range f.Ev("return", "") {
			if len(e.Args) == 2 && e.Args[1] == "ErrTooLong" {
				rej = append(rej, e)
			}
		}
		if len(rej) == 0 {
			r.Bad(rule, f.Name+"/reject-return", f.Pos(), "ANCHOR-MISSING: no `return nil, ErrTooLong`")
			continue
		}
		res := ComparePredAssumingNil(predBlock(rej[0]), dom, as, spec)
		if len(rej) > 1 {
			// several rejecting exits (one per reason): their union is compared
			res = PredResult{OK: true}
			got := map[string]bool{}
			seenB := map[*ssa.BasicBlock]bool{}
			for _, e := range rej {
				if seenB[e.In.Block()] {
					continue
				}
				seenB[e.In.Block()] = true
				one := comparePredSetAssumingNil(predBlock(e), dom, as)
				if one.Undec != "" {
					res.Undec = one.Undec
				}
				for k := range one.True {
					got[k] = true
				}
				res.Disjunct++
			}
			want := ComparePredEnum(dom, spec)
			res.Combos = len(ComparePredEnum(dom, func(map[string]int64) bool { return true }))
			for k := range want {
				if !got[k] {
					res.OK, res.Counter = false, k+": not rejected, specification rejects"
				}
			}
			for k := range got {
				if !want[k] {
					res.OK, res.Counter = false, k+": rejected, specification accepts"
				}
			}
		}
		key := f.Name + "/reject-iff-too-long"
		switch {
		case res.Undec != "":
			r.Unk(rule, key, p.InstrPos(rej[0].In), "cannot evaluate the extracted rejection predicate: "+res.Undec)
		case !res.OK:
			r.Bad(rule, key, p.InstrPos(rej[0].In), "rejection predicate differs from sz<0 || (maxrx>0 && sz>maxrx): "+res.Counter+" (a message of exactly the limit must be delivered, 0 means unlimited)")
		default:
			r.OK(rule, key, p.InstrPos(rej[0].In), fmt.Sprintf("equals the specification on all %d assignments (%d path disjuncts)", res.Combos, res.Disjunct))
		}
		nm := f.Ev("call", "mangos.NewMessage")
		var rf Sel
		for _, e := range f.Ev("call", "io.ReadFull") {
			if strings.HasSuffix(e.Args[1], ".Body") {
				rf = append(rf, e)
			}
		}
		if len(nm) != 1 || len(rf) != 1 {
			r.Bad(rule, f.Name+"/alloc-site", f.Pos(), "ANCHOR-MISSING: expected one NewMessage and one io.ReadFull")
			continue
		}
		res2 := ComparePredAssumingNil(predBlock(nm[0]), dom, as, func(env map[string]int64) bool { return !spec(env) })
		key = f.Name + "/alloc-only-if-accepted"
		switch {
		case res2.Undec != "":
			r.Unk(rule, key, p.InstrPos(nm[0].In), "cannot evaluate: "+res2.Undec)
		case !res2.OK:
			r.Bad(rule, key, p.InstrPos(nm[0].In), "NewMessage is reached for a size the limit rejects (allocation before the size check): "+res2.Counter)
		default:
			r.OK(rule, key, p.InstrPos(nm[0].In), "allocation reached exactly when the size is accepted")
		}
		q.Req(rule, f.Name+"/readfull-after-alloc", rf.DominatedBy(nm), rf.Pos(p), "payload read after allocation", "io.ReadFull not dominated by NewMessage")
		q.Req(rule, f.Name+"/alloc-arg", nm[0].Args[0] == "int("+L+")", nm.Pos(p), "NewMessage(int(sz))", "NewMessage is not sized by the received length: "+nm[0].Args[0])
	}
}

// ComparePredAssumingNil: like ComparePred, where atoms matching the assume patterns are
// error tests of earlier reads, taken as "no error" (== nil true).
func ComparePredAssumingNil(b *ssa.BasicBlock, domain map[string][]int64, errCalls []string, spec func(env map[string]int64) bool) PredResult {
	dnf, _ := PathConds(b)
	var assume []string
	seen := map[string]bool{}
	for _, conj := range dnf {
		for _, l := range conj {
			pos := NormAtom(l.Cond, true)
			for _, pat := range errCalls {
				if matchStr(pos, pat) && strings.HasSuffix(pos, "= nil") {
					a := strings.Replace(pos, " != nil", " == nil", 1)
					if !seen[a] {
						seen[a] = true
						assume = append(assume, a)
					}
				}
			}
		}
	}
	return ComparePred(b, domain, assume, spec)
}

func comparePredSetAssumingNil(b *ssa.BasicBlock, domain map[string][]int64, errCalls []string) PredSet {
	dnf, _ := PathConds(b)
	var assume []string
	seen := map[string]bool{}
	for _, conj := range dnf {
		for _, l := range conj {
			pos := NormAtom(l.Cond, true)
			for _, pat := range errCalls {
				if matchStr(pos, pat) && strings.HasSuffix(pos, "= nil") {
					a := strings.Replace(pos, " != nil", " == nil", 1)
					if !seen[a] {
						seen[a] = true
						assume = append(assume, a)
					}
				}
			}
		}
	}
	return ComparePredSet(b, domain, assume)
}

// c16PipeErrors: C16.4 — a receive/send error closes only that pipe; C16.2 peer-keyed
// lookups are comma-ok.
func c16PipeErrors(p *Prog, r *Report) {
	q := NewQ(p, r)
	R := "C16.4/error-closes-only-that-pipe"
	r.Describe(R, "core pipe.RecvMsg/SendMsg close their own pipe on a transport error and nothing else")
	for _, nm := range []string{"RecvMsg", "SendMsg"} {
		f := q.Fn(R, "internal/core", "pipe", nm)
		if !f.OK() {
			continue
		}
		cl := f.Ev("call", "core.(*pipe).Close")
		ok := len(cl) == 1 && cl[0].Args[0] == "recv"
		extra := ""
		if ok {
			ok = false
			for _, g := range cl[0].Guard {
				if strings.HasSuffix(g, "!= nil") && strings.Contains(g, "recv.p.") {
					ok = true
				} else {
					extra = g
				}
			}
		}
		r.Check(ok, R, "pipe."+nm+"/closes-self-on-error", cl.Pos(p), "on error: p.Close() (this pipe only)", "core pipe."+nm+" does not close exactly its own pipe on a transport error")
		// ... on every transport error, whatever it is: the close is what detaches the pipe
		// (RemovePipe), and the protocols rely on the detach to re-send or cancel what the
		// connection carried
		r.Check(ok && extra == "", R, "pipe."+nm+"/closes-on-every-error", cl.Pos(p), "the close depends on nothing but the transport call having failed", "core pipe."+nm+" closes its pipe only under the further condition "+extra+": for the other errors the pipe is never detached, the protocol is never told that the connection has gone, and what it carried is neither re-sent nor cancelled")
		others := 0
		for _, e := range f.Ev("call", "") {
			if strings.HasSuffix(e.What, ".Close") && e.What != "core.(*pipe).Close" {
				others++
			}
			if strings.Contains(e.What, "(*socket)") {
				others++
			}
		}
		r.Check(others == 0, R, "pipe."+nm+"/touches-nothing-else", f.Pos(), "no other Close / socket call", "core pipe."+nm+" closes or calls something beyond its own pipe")
	}
	R = "C16.2/peer-keyed-lookups"
	r.Describe(R, "the result of a map lookup keyed by a peer-supplied id is used only on the comma-ok (or non-nil) edge")
	n := 0
	for _, fn := range p.Funcs {
		rel, _ := p.FuncRel(fn)
		if !strings.HasPrefix(rel, "protocol/") {
			continue
		}
		EachInstr(fn, func(in ssa.Instruction) {
			lk, ok := in.(*ssa.Lookup)
			if !ok {
				return
			}
			if _, isMap := lk.X.Type().Underlying().(*types.Map); !isMap {
				return
			}
			kd := Desc(lk.Index)
			if !strings.Contains(kd, "Uint32(") && !p.paramFedBy(lk.Index, "Uint32(") {
				return // not keyed by bytes taken from a message
			}
			n++
			key := p.FuncName(fn) + "/lookup(" + Desc(lk.X) + ")"
			if !lk.CommaOk {
				// value must be nil-tested before any dereference: accept only if every use is a nil comparison or guarded by != nil
				r.Bad(R, key, p.InstrPos(in), "lookup keyed by a peer-supplied id without the comma-ok form")
				return
			}
			// every use of the value component is dominated by the ok edge
			okAll := true
			var okv, val ssa.Value
			for _, ref := range *lk.Referrers() {
				if ex, isEx := ref.(*ssa.Extract); isEx {
					if ex.Index == 1 {
						okv = ex
					} else {
						val = ex
					}
				}
			}
			if val != nil && okv != nil && val.Referrers() != nil {
				for _, use := range *val.Referrers() {
					if !hasAtom(p.GuardStrings(use), Desc(okv)) {
						if _, isPhi := use.(*ssa.Phi); isPhi {
							continue
						}
						okAll = false
					}
				}
			}
			r.Check(okAll, R, key, p.InstrPos(in), "value used only on the ok edge", "the value of a peer-keyed lookup is used without checking ok: an unknown id dereferences nil")
		})
	}
	r.Count("c16.peer_keyed_lookups", n)
	r.Floor(R, "c16.peer_keyed_lookups", 4)
}

// e6dNotOverStrict: a minimum-length test on a message buffer must not demand more bytes
// than the code behind it consumes: `len(m.Body) <= 4` instead of `< 4` silently drops
// every message with an empty payload.
func e6dNotOverStrict(p *Prog, r *Report, rule string, sel func(rel string) bool) {
	checks := p.E6dLenChecks(sel)
	uses := p.E6dUses(sel)
	n := 0
	per := map[string]int{}
	for _, c := range checks {
		if !strings.HasSuffix(c.Path, ".Body") {
			continue // header-format validations on the send side are protocol rules of their own
		}
		maxNeed := 0
		for _, u := range uses {
			if u.Fn == c.Fn && u.Path == c.Path && u.Need > maxNeed {
				maxNeed = u.Need
			}
		}
		if maxNeed == 0 {
			continue // the check guards nothing we model (e.g. a pure protocol test)
		}
		n++
		per[c.Fn]++
		key := fmt.Sprintf("%s/%s#%d", c.Fn, strings.ReplaceAll(stripObj(c.Expr), " ", ""), per[c.Fn])
		if c.L > maxNeed {
			r.Bad(rule, key, p.Pos(c.Pos), fmt.Sprintf("`%s` requires len(%s) >= %d but the code behind it consumes only %d bytes: valid messages of length %d..%d (e.g. an empty payload after the %d-byte header) are silently dropped", c.Expr, stripObj(c.Path), c.L, maxNeed, maxNeed, c.L-1, maxNeed))
		} else {
			r.OK(rule, key, p.Pos(c.Pos), fmt.Sprintf("requires >= %d, code consumes %d", c.L, maxNeed))
		}
	}
	r.Count("e6d.min_length_checks", n)
}

// paramFedBy: v is a parameter of a private function and some static call site in the module
// passes it a value whose description contains pat (one level: the id decoded from a message
// in the receiver and handed to a helper that does the lookup).
func (p *Prog) paramFedBy(v ssa.Value, pat string) bool {
	par, ok := v.(*ssa.Parameter)
	if !ok || par.Parent() == nil {
		return false
	}
	fn := par.Parent()
	idx := -1
	for i, q := range fn.Params {
		if q == par {
			idx = i
		}
	}
	n := p.CG().Nodes[fn]
	if n == nil || idx < 0 {
		return false
	}
	for _, e := range n.In {
		if e.Site == nil || e.Site.Common().StaticCallee() != fn {
			continue
		}
		args := e.Site.Common().Args
		if idx < len(args) && strings.Contains(Desc(args[idx]), pat) {
			return true
		}
	}
	return false
}

// acceptPauseBounded: a refused handshake comes back from Accept as an error, so any peer can
// make the accept loop take its error path as often as it likes.  Whatever the loop does there
// must not grow with the number of failures: every time.Sleep inside a loop around an Accept
// takes a compile-time constant of at most 100ms.
func acceptPauseBounded(p *Prog, r *Report, R string) {
	r.Describe(R, "the pause an accept loop takes after a failed Accept is a small constant (time.Sleep of a compile-time constant <= 100ms): refused handshakes are accept errors, so a pause that grows with consecutive failures lets misbehaving peers delay the well-behaved ones")
	n := 0
	for _, fn := range p.Funcs {
		rel, ok := p.FuncRel(fn)
		if !ok || !(rel == "internal/core" || strings.HasPrefix(rel, "transport")) || strings.HasSuffix(p.Fset.Position(fn.Pos()).Filename, "_test.go") {
			continue
		}
		EachInstr(fn, func(in ssa.Instruction) {
			c := CallOf(in)
			if c == nil || !c.IsInvoke() || c.Method.Name() != "Accept" {
				return
			}
			_, body := loopBody(in.Block())
			if body == nil {
				return
			}
			n++
			bad := ""
			for b := range body {
				for _, x := range b.Instrs {
					cc := CallOf(x)
					if cc == nil || CalleeName(cc) != "time.Sleep" || len(cc.Args) != 1 {
						continue
					}
					d, isConst := ConstInt(cc.Args[0])
					if !isConst {
						bad = "time.Sleep(" + Desc(cc.Args[0]) + ") at " + p.InstrPos(x) + " is not a constant"
					} else if d > 100_000_000 {
						bad = "time.Sleep of " + Desc(cc.Args[0]) + "ns at " + p.InstrPos(x)
					}
				}
			}
			r.Check(bad == "", R, p.FuncName(fn)+"/accept-loop", p.InstrPos(in), "pauses in the accept loop are constants <= 100ms", "the accept loop pauses for a time that is not a small constant ("+bad+"): a run of refused handshakes makes the loop sleep while completed handshakes of good peers wait to be accepted")
		})
	}
	r.Count("c16.accept_loops_with_pause_rule", n)
	r.Floor(R, "c16.accept_loops_with_pause_rule", 1)
}

// wsSingleWriterReader (C16.27): gorilla's connection supports one concurrent reader and one
// concurrent writer and panics ("concurrent write to websocket connection") otherwise.  The
// pipe's Send is the one writer and its Recv the one reader: nothing else in the transport
// calls a method of *websocket.Conn that writes or reads frames — in particular no ping / pong
// / close handler installed by the transport writes a data or control frame with
// WriteMessage/NextWriter from the reader's goroutine, where a peer can trigger it at will
// while a Send is in progress.
func wsSingleWriterReader(p *Prog, r *Report, R string) {
	r.Describe(R, "the websocket connection has one writer (wsPipe.Send) and one reader (wsPipe.Recv): no other function of the transport — a ping, pong or close handler included — calls a frame-writing or frame-reading method of *websocket.Conn, which gorilla answers with a panic when a peer makes the two overlap")
	writers := map[string]bool{"WriteMessage": true, "NextWriter": true, "WriteJSON": true, "WritePreparedMessage": true}
	readers := map[string]bool{"ReadMessage": true, "NextReader": true, "ReadJSON": true}
	n := 0
	for _, fn := range p.Funcs {
		if rel, _ := p.FuncRel(fn); rel != "transport/ws" {
			continue
		}
		EachInstr(fn, func(in ssa.Instruction) {
			c := CallOf(in)
			if c == nil || c.IsInvoke() {
				return
			}
			sc := c.StaticCallee()
			if sc == nil || pkgPathOf(sc) != "github.com/gorilla/websocket" || recvTypeName(sc) != "Conn" {
				return
			}
			home := p.FuncName(p.closureHome(fn))
			isHome := func(want string) bool {
				if fn.Parent() != nil {
					return false // a callback runs on whatever goroutine calls it
				}
				if home == want {
					return true
				}
				attr := p.attributedTo(home)
				for _, a := range attr {
					if a != want {
						return false
					}
				}
				return len(attr) > 0
			}
			switch {
			case writers[sc.Name()]:
				n++
				r.Check(isHome("transport/ws.(*wsPipe).Send"), R, p.FuncName(fn)+"/"+sc.Name(), p.InstrPos(in), "the pipe's Send", "websocket.Conn."+sc.Name()+" is called outside wsPipe.Send (from "+p.FuncName(fn)+"): a second writer; when it overlaps a Send in progress gorilla panics the process — a peer can make it do so")
			case readers[sc.Name()]:
				n++
				r.Check(isHome("transport/ws.(*wsPipe).Recv"), R, p.FuncName(fn)+"/"+sc.Name(), p.InstrPos(in), "the pipe's Recv", "websocket.Conn."+sc.Name()+" is called outside wsPipe.Recv (from "+p.FuncName(fn)+"): a second reader on the connection")
			}
		})
	}
	r.Count("c16.ws_frame_io_calls", n)
	r.Floor(R, "c16.ws_frame_io_calls", 2)
}
