package an

import (
	"fmt"
	"go/types"
	"sort"
	"strings"

	"golang.org/x/tools/go/ssa"
)

// crashSurface (C16.12): "whatever bytes a remote peer sends … the process does not panic".
// Index and slice expressions are E6d's business; this rule takes the two other constructs
// that panic by themselves — an explicit panic and a type assertion without the comma-ok
// form — in every function that runs because of something a peer did: the goroutines that
// receive from a pipe and everything they call, the handshake and accept paths, and the
// attach/detach path of a pipe (a peer connecting or hanging up).  Each such construct is an
// obligation that must be discharged by one of a small number of structural justifications,
// checked on the current tree:
//
//	pool      `P.Get().(T)`: P is a sync.Pool whose New returns a T and into which only T is Put
//	private   `X.GetPrivate().(T)` in package K: every SetPrivate call of K passes a T
//	stdlib    the result of Accept on a listener that only ever comes from tls.NewListener
//	dyntype   the operand's only possible dynamic types (VTA) all satisfy the asserted type
//	idpair    the panic of the pipe-id allocator: discharged by the pairing rule C10.7
//
// Anything else is reported: a new unchecked assertion or panic on a peer-driven path.
func crashSurface(p *Prog, r *Report, R string) {
	r.Describe(R, "no explicit panic and no unchecked type assertion on any path driven by a peer (receive goroutines and their callees, handshake/accept, pipe attach/detach) unless structurally justified: pool contents, SetPrivate/GetPrivate pairing, or the operand's possible dynamic types")
	reach := p.peerDriven()
	type site struct {
		fn   *ssa.Function
		in   ssa.Instruction
		kind string
	}
	var sites []site
	nfun := 0
	for _, fn := range p.Funcs {
		if !reach[fn] {
			continue
		}
		nfun++
		EachInstr(fn, func(in ssa.Instruction) {
			switch x := in.(type) {
			case *ssa.Panic:
				if c, ok := x.X.(*ssa.MakeInterface); ok {
					if k, ok := c.X.(*ssa.Const); ok && !in.Pos().IsValid() && strings.Contains(k.Value.String(), "blocking select matched no case") {
						return // the SSA builder's own unreachable arm of a select without default
					}
				}
				sites = append(sites, site{fn, in, "panic"})
			case *ssa.TypeAssert:
				if !x.CommaOk {
					sites = append(sites, site{fn, in, "assert"})
				}
			}
		})
	}
	r.Count("c16.peer_driven_functions", nfun)
	r.Count("c16.crash_sites", len(sites))
	per := map[string]int{}
	for _, s := range sites {
		fname := p.FuncName(s.fn)
		pos := p.InstrPos(s.in)
		switch s.kind {
		case "panic":
			key := fname + "/panic"
			per[key]++
			key = fmt.Sprintf("%s#%d", key, per[key])
			if fname == "internal/core.(*pipeIDAllocator).Free" {
				// reachable only with an id that is not allocated: the pairing rule
				// (every Free is of the id its own pipe obtained from Get, exactly once)
				ok, why := p.idFreePaired()
				r.Check(ok, R, key, pos, "the allocator's panic is unreachable: "+why, "pipeIDs.Free can be reached with an id that is not allocated (panic \"free of unused pipe ID\" when a peer disconnects): "+why)
				continue
			}
			r.Bad(R, key, pos, "explicit panic on a path driven by a peer: "+Desc(s.in.(*ssa.Panic).X))
		case "assert":
			ta := s.in.(*ssa.TypeAssert)
			key := fname + "/.(" + typeShort(ta.AssertedType) + ")"
			per[key]++
			key = fmt.Sprintf("%s#%d", key, per[key])
			ok, why := p.assertJustified(s.fn, ta)
			r.Check(ok, R, key, pos, why, "unchecked type assertion "+Desc(ta)+" on a path driven by a peer is not justified ("+why+"): a value of another type panics the process")
		}
	}
	r.Floor(R, "c16.peer_driven_functions", 60)
	r.Floor(R, "c16.crash_sites", 10)
}

// peerDriven: the subject functions that run because of peer activity.
func (p *Prog) peerDriven() map[*ssa.Function]bool {
	roots := map[*ssa.Function]bool{}
	for _, fn := range p.Funcs {
		rel, _ := p.FuncRel(fn)
		if !(strings.HasPrefix(rel, "protocol/") || strings.HasPrefix(rel, "transport") || rel == "internal/core") {
			continue
		}
		name := fn.Name()
		// a function that takes something from a pipe or a connection
		EachInstr(fn, func(in ssa.Instruction) {
			c := CallOf(in)
			if c == nil {
				return
			}
			n := CalleeName(c)
			switch {
			case strings.HasSuffix(n, "Pipe.RecvMsg"), strings.HasSuffix(n, "Pipe.Recv"), strings.HasSuffix(n, ".ReadMessage"),
				n == "io.ReadFull", n == "binary.Read", strings.HasSuffix(n, "Listener.Accept"), strings.HasSuffix(n, ".Upgrade"):
				roots[fn] = true
			}
		})
		switch name {
		case "handshake", "ServeHTTP", "serve", "addPipe", "remPipe", "AddPipe", "RemovePipe":
			if fn.Signature.Recv() != nil {
				roots[fn] = true
			}
		}
	}
	reach := map[*ssa.Function]bool{}
	var work []*ssa.Function
	for fn := range roots {
		reach[fn] = true
		work = append(work, fn)
	}
	cg := p.CG()
	for len(work) > 0 {
		fn := work[len(work)-1]
		work = work[:len(work)-1]
		// nested closures run as part of their parent
		for _, an := range fn.AnonFuncs {
			if !reach[an] {
				reach[an] = true
				work = append(work, an)
			}
		}
		n := cg.Nodes[fn]
		if n == nil {
			continue
		}
		for _, e := range n.Out {
			c := e.Callee.Func
			if c == nil || reach[c] || !p.InScope(c) {
				continue
			}
			if rel, ok := p.FuncRel(c); !ok || strings.HasPrefix(rel, "macat") {
				continue
			}
			// option plumbing is C19's business
			if c.Name() == "SetOption" || c.Name() == "GetOption" {
				continue
			}
			reach[c] = true
			work = append(work, c)
		}
	}
	return reach
}

// assertJustified decides one unchecked assertion.
func (p *Prog) assertJustified(fn *ssa.Function, ta *ssa.TypeAssert) (bool, string) {
	return p.operandJustified(fn, ta.X, ta.AssertedType, 0)
}

func (p *Prog) operandJustified(fn *ssa.Function, src ssa.Value, T types.Type, depth int) (bool, string) {
	for {
		switch x := src.(type) {
		case *ssa.ChangeInterface:
			src = x.X
			continue
		case *ssa.ChangeType:
			src = x.X
			continue
		}
		break
	}
	if call, ok := src.(*ssa.Call); ok {
		name := CalleeName(&call.Call)
		switch {
		case name == "sync.(*Pool).Get":
			return p.poolHoldsOnly(fn, T)
		case strings.HasSuffix(name, "Pipe.GetPrivate"):
			return p.privateIsAlways(fn, T)
		}
	}
	// a documented result type of the standard library
	if ex, ok := src.(*ssa.Extract); ok {
		if call, ok := ex.Tuple.(*ssa.Call); ok {
			if ok, why := p.stdlibContract(call, ex.Index, T); ok || why != "" {
				return ok, why
			}
		}
	}
	// a private helper handed the value: justified where it is called (all call sites)
	if par, ok := src.(*ssa.Parameter); ok && depth < 2 && fn.Parent() == nil && lowerName(fn.Name()) {
		idx := -1
		for k, q := range fn.Params {
			if q == par {
				idx = k
			}
		}
		if node := p.CG().Nodes[fn]; node != nil && idx >= 0 {
			n, why := 0, ""
			all := true
			for _, e := range node.In {
				if e.Site == nil || e.Site.Common().StaticCallee() != fn || idx >= len(e.Site.Common().Args) {
					all = false
					continue
				}
				n++
				ok, w := p.operandJustified(e.Caller.Func, e.Site.Common().Args[idx], T, depth+1)
				if !ok {
					all = false
				}
				why = w
			}
			if n > 0 && all {
				return true, why + " (at every call of " + p.FuncName(fn) + ")"
			}
		}
	}
	// the operand's possible dynamic types, from the values that flow into it
	return p.dynTypesSatisfy(fn, src, T)
}

// poolHoldsOnly: in the package of fn, every sync.Pool is created with a New that returns a
// T, and every Put passes a T (package-granular: the library's pools all hold messages).
func (p *Prog) poolHoldsOnly(fn *ssa.Function, T types.Type) (bool, string) {
	rel, _ := p.FuncRel(fn)
	nNew, nPut := 0, 0
	bad := ""
	for g := range p.All { // including the package initialiser, where the pools are built
		if gr, ok := p.FuncRel(g); !ok || gr != rel {
			continue
		}
		EachInstr(g, func(in ssa.Instruction) {
			if c := CallOf(in); c != nil && CalleeName(c) == "sync.(*Pool).Put" {
				nPut++
				if !types.Identical(dynType(c.Args[1]), T) {
					bad = p.InstrPos(in) + " puts a " + typeShort(dynType(c.Args[1]))
				}
			}
			st, ok := in.(*ssa.Store)
			if !ok {
				return
			}
			fa, ok := st.Addr.(*ssa.FieldAddr)
			if !ok || fieldName(fa.X.Type(), fa.Field) != "New" || !isSyncPool(fa.X.Type()) {
				return
			}
			nNew++
			var f *ssa.Function
			switch v := st.Val.(type) {
			case *ssa.MakeClosure:
				f, _ = v.Fn.(*ssa.Function)
			case *ssa.Function:
				f = v
			}
			if f == nil {
				bad = p.InstrPos(in) + " New is not a function literal"
				return
			}
			EachInstr(f, func(ri ssa.Instruction) {
				if ret, ok := ri.(*ssa.Return); ok && len(ret.Results) == 1 {
					if !types.Identical(dynType(ret.Results[0]), T) {
						bad = p.InstrPos(ri) + " New returns a " + typeShort(dynType(ret.Results[0]))
					}
				}
			})
		})
	}
	if bad != "" {
		return false, bad
	}
	if nNew == 0 {
		return false, "no sync.Pool with a New function in " + rel
	}
	return true, fmt.Sprintf("every pool of the package: New returns %s (%d pools), every Put passes %s (%d)", typeShort(T), nNew, typeShort(T), nPut)
}

func isSyncPool(t types.Type) bool {
	for i := 0; i < 2; i++ {
		if pt, ok := t.Underlying().(*types.Pointer); ok {
			t = pt.Elem()
		}
	}
	n, ok := t.(*types.Named)
	return ok && n.Obj().Name() == "Pool" && n.Obj().Pkg() != nil && n.Obj().Pkg().Path() == "sync"
}

// stdlibYields: contracts of the standard library the code relies on: a call of <method> on
// a value that can only have come from <constructor> yields <type>.
var stdlibYields = map[string]map[string]string{
	"Listener.Accept": {"crypto/tls.NewListener": "*crypto/tls.Conn", "crypto/tls.Listen": "*crypto/tls.Conn"},
}

// stdlibContract: the operand is the result of a method whose receiver is a field that is
// only ever assigned the result of a constructor with a documented result type.
func (p *Prog) stdlibContract(call *ssa.Call, idx int, T types.Type) (bool, string) {
	if !call.Call.IsInvoke() || idx != 0 {
		return false, ""
	}
	mname := typeShort(call.Call.Value.Type()) + "." + call.Call.Method.Name()
	var ctors map[string]string
	for k, v := range stdlibYields {
		if strings.HasSuffix(mname, k) {
			ctors = v
		}
	}
	if ctors == nil {
		return false, ""
	}
	u, ok := call.Call.Value.(*ssa.UnOp)
	if !ok {
		return false, "receiver of " + mname + " is not a field"
	}
	fa, ok := u.X.(*ssa.FieldAddr)
	if !ok {
		return false, "receiver of " + mname + " is not a field"
	}
	key := fieldKeyOf(fa)
	n := 0
	bad := ""
	for _, g := range p.Funcs {
		EachInstr(g, func(in ssa.Instruction) {
			st, ok := in.(*ssa.Store)
			if !ok {
				return
			}
			fa2, ok := st.Addr.(*ssa.FieldAddr)
			if !ok || key == "" || fieldKeyOf(fa2) != key {
				return
			}
			n++
			v := st.Val
			if ex, ok := v.(*ssa.Extract); ok {
				v = ex.Tuple
			}
			c, ok := v.(*ssa.Call)
			if !ok {
				bad = p.InstrPos(in) + " stores " + Desc(st.Val)
				return
			}
			callee := c.Call.StaticCallee()
			if callee == nil || callee.Pkg == nil {
				bad = p.InstrPos(in) + " stores the result of a dynamic call"
				return
			}
			full := callee.Pkg.Pkg.Path() + "." + callee.Name()
			if yt, ok := ctors[full]; !ok || yt != T.String() {
				bad = p.InstrPos(in) + " stores the result of " + full
			}
		})
	}
	if bad != "" {
		return false, key + ": " + bad
	}
	if n == 0 {
		return false, "no store to " + key
	}
	return true, fmt.Sprintf("%s is only ever the result of crypto/tls.NewListener (%d store(s)), whose Accept returns %s (standard library contract)", key, n, typeShort(T))
}

// dynType: the static type of the value inside an interface-typed operand.
func dynType(v ssa.Value) types.Type {
	for {
		switch x := v.(type) {
		case *ssa.MakeInterface:
			return x.X.Type()
		case *ssa.ChangeInterface:
			v = x.X
		default:
			return v.Type()
		}
	}
}

// privateIsAlways: every SetPrivate call in fn's package passes a T, and there is one.
func (p *Prog) privateIsAlways(fn *ssa.Function, T types.Type) (bool, string) {
	rel, _ := p.FuncRel(fn)
	n := 0
	bad := ""
	for _, g := range p.Funcs {
		if gr, _ := p.FuncRel(g); gr != rel {
			continue
		}
		EachInstr(g, func(in ssa.Instruction) {
			if c := CallOf(in); c != nil && strings.HasSuffix(CalleeName(c), "Pipe.SetPrivate") {
				n++
				if !types.Identical(dynType(c.Args[len(c.Args)-1]), T) {
					bad = p.InstrPos(in) + " stores a " + typeShort(dynType(c.Args[len(c.Args)-1]))
				}
			}
		})
	}
	if bad != "" {
		return false, bad
	}
	if n == 0 {
		return false, "no SetPrivate in " + rel
	}
	// the slot is filled on every path on which AddPipe accepts the pipe (core detaches only
	// pipes whose AddPipe returned nil: socket.addPipe / pipe.Close, rule C13)
	ap := p.Func(rel, "socket", "AddPipe")
	if ap == nil {
		return false, "no AddPipe in " + rel
	}
	// a private helper that fills the slot on all its paths ("make and configure the
	// per-pipe state") counts as the SetPrivate call it contains
	var always func(g *ssa.Function, d int) bool
	always = func(g *ssa.Function, d int) bool {
		if g == nil || g.Blocks == nil || d > 2 {
			return false
		}
		var in []ssa.Instruction
		EachInstr(g, func(i ssa.Instruction) {
			c := CallOf(i)
			if c == nil {
				return
			}
			if _, isGo := i.(*ssa.Go); isGo {
				return
			}
			if strings.HasSuffix(CalleeName(c), "Pipe.SetPrivate") {
				in = append(in, i)
			} else if sc := c.StaticCallee(); sc != nil && sc.Pkg == g.Pkg && sc != g && always(sc, d+1) {
				in = append(in, i)
			}
		})
		if len(in) == 0 {
			return false
		}
		ok := true
		EachInstr(g, func(i ssa.Instruction) {
			if _, isRet := i.(*ssa.Return); !isRet || i.Block() == g.Recover {
				return
			}
			dom := false
			for _, s := range in {
				if InstrDominates(s, i) {
					dom = true
				}
			}
			if !dom {
				ok = false
			}
		})
		return ok
	}
	var sets []ssa.Instruction
	EachInstr(ap, func(in ssa.Instruction) {
		c := CallOf(in)
		if c == nil {
			return
		}
		if _, isGo := in.(*ssa.Go); isGo {
			return
		}
		if strings.HasSuffix(CalleeName(c), "Pipe.SetPrivate") {
			sets = append(sets, in)
		} else if sc := c.StaticCallee(); sc != nil && sc.Pkg == ap.Pkg && always(sc, 1) {
			sets = append(sets, in)
		}
	})
	missing := ""
	EachInstr(ap, func(in ssa.Instruction) {
		ret, ok := in.(*ssa.Return)
		if !ok || len(ret.Results) != 1 || in.Block() == ap.Recover {
			return // (the recover block runs only after a panic)
		}
		if c, isC := ret.Results[0].(*ssa.Const); isC && c.Value != nil {
			return // an error constant
		}
		if mi, isMI := ret.Results[0].(*ssa.MakeInterface); isMI {
			if _, isC := mi.X.(*ssa.Const); isC {
				return // an error constant
			}
		}
		dom := false
		for _, st := range sets {
			if InstrDominates(st, in) {
				dom = true
			}
		}
		if !dom {
			missing = p.InstrPos(in)
		}
	})
	if missing != "" {
		return false, "AddPipe of " + rel + " can accept a pipe (" + missing + ") without having called SetPrivate: RemovePipe then asserts on a nil interface"
	}
	return true, fmt.Sprintf("every SetPrivate of %s stores a %s (%d call(s)) and AddPipe accepts a pipe only after SetPrivate; the private slot belongs to the protocol the pipe is attached to", rel, typeShort(T), n)
}

// dynTypesSatisfy: follow the operand back through phis, field loads (all stores to that
// field in the module), parameters (all call sites) and calls to module functions (all
// returns), collecting the concrete types that are put into the interface; justified when
// there is at least one and every one satisfies T.  Anything that cannot be followed
// (a value from outside the module, a map element, a channel) makes it unjustified.
func (p *Prog) dynTypesSatisfy(fn *ssa.Function, v ssa.Value, T types.Type) (bool, string) {
	seen := map[ssa.Value]bool{}
	tys := map[string]types.Type{}
	unknown := ""
	var walk func(v ssa.Value, depth int)
	walk = func(v ssa.Value, depth int) {
		if v == nil || seen[v] || unknown != "" {
			return
		}
		seen[v] = true
		if depth > 8 {
			unknown = "too deep"
			return
		}
		switch x := v.(type) {
		case *ssa.MakeInterface:
			tys[x.X.Type().String()] = x.X.Type()
		case *ssa.ChangeInterface:
			walk(x.X, depth)
		case *ssa.ChangeType:
			walk(x.X, depth)
		case *ssa.Phi:
			for _, e := range x.Edges {
				walk(e, depth)
			}
		case *ssa.Const:
			if x.Value == nil {
				tys["nil"] = nil
			}
		case *ssa.Extract:
			if call, ok := x.Tuple.(*ssa.Call); ok {
				p.walkCallResult(call, x.Index, func(r ssa.Value) { walk(r, depth+1) }, &unknown)
				return
			}
			unknown = "value of " + Desc(x)
		case *ssa.Call:
			p.walkCallResult(x, 0, func(r ssa.Value) { walk(r, depth+1) }, &unknown)
		case *ssa.UnOp:
			fa, ok := x.X.(*ssa.FieldAddr)
			if !ok {
				if al, ok := x.X.(*ssa.Alloc); ok {
					for _, ref := range *al.Referrers() {
						if st, ok := ref.(*ssa.Store); ok && st.Addr == al {
							walk(st.Val, depth)
						}
					}
					return
				}
				unknown = "load of " + Desc(x.X)
				return
			}
			key := fieldKeyOf(fa)
			n := 0
			for _, g := range p.Funcs {
				EachInstr(g, func(in ssa.Instruction) {
					if st, ok := in.(*ssa.Store); ok {
						if fa2, ok := st.Addr.(*ssa.FieldAddr); ok && fieldKeyOf(fa2) == key && key != "" {
							n++
							walk(st.Val, depth+1)
						}
					}
				})
			}
			// composite literals store through FieldAddr too (go/ssa), so n counts them
			if n == 0 {
				unknown = "no store to " + key
			}
		case *ssa.Parameter:
			par := x.Parent()
			idx := -1
			for i, pp := range par.Params {
				if pp == x {
					idx = i
				}
			}
			node := p.CG().Nodes[par]
			if node == nil || len(node.In) == 0 || idx < 0 {
				unknown = "parameter " + x.Name() + " of " + p.FuncName(par) + " has no known caller"
				return
			}
			for _, e := range node.In {
				if e.Site == nil {
					unknown = "synthetic caller"
					return
				}
				if !p.InScope(e.Caller.Func) {
					// callers outside the subject (tests, mocks) are not part of the library
					continue
				}
				cc := e.Site.Common()
				args := cc.Args
				if cc.IsInvoke() {
					// receiver is not in Args
					if idx == 0 {
						unknown = "receiver"
						return
					}
					if idx-1 < len(args) {
						walk(args[idx-1], depth+1)
					}
				} else if idx < len(args) {
					walk(args[idx], depth+1)
				}
			}
		default:
			unknown = fmt.Sprintf("%T %s", v, Desc(v))
		}
	}
	walk(v, 0)
	if unknown != "" {
		return false, "cannot determine what flows into the operand: " + unknown
	}
	var names []string
	for k, t := range tys {
		if t == nil {
			return false, "a nil interface can flow into the operand"
		}
		ok := false
		if it, isIface := T.Underlying().(*types.Interface); isIface {
			ok = types.Implements(t, it)
		} else {
			ok = types.Identical(t, T)
		}
		if !ok {
			return false, "a " + k + " can flow into the operand"
		}
		names = append(names, typeShort(t))
	}
	if len(names) == 0 {
		return false, "no concrete type found flowing into the operand"
	}
	sort.Strings(names)
	return true, "every value that flows into the operand is a " + strings.Join(names, " / ")
}

// walkCallResult: the values a call can return at result index i (module callees only).
func (p *Prog) walkCallResult(call *ssa.Call, i int, visit func(ssa.Value), unknown *string) {
	node := p.CG().Nodes[call.Parent()]
	found := false
	if node != nil {
		for _, e := range node.Out {
			if e.Site != ssa.CallInstruction(call) {
				continue
			}
			callee := e.Callee.Func
			if callee == nil || len(callee.Blocks) == 0 {
				*unknown = "result of " + CalleeName(&call.Call) + " (no body)"
				return
			}
			if _, ok := p.FuncRel(callee); !ok {
				*unknown = "result of " + CalleeName(&call.Call) + " (outside the module)"
				return
			}
			found = true
			EachInstr(callee, func(in ssa.Instruction) {
				if ret, ok := in.(*ssa.Return); ok && i < len(ret.Results) {
					visit(ret.Results[i])
				}
			})
		}
	}
	if !found && *unknown == "" {
		*unknown = "result of " + CalleeName(&call.Call)
	}
}

// idFreePaired: every call of pipeIDs.Free passes the id field of the receiver pipe, whose
// only writer stores the result of pipeIDs.Get (so the id is allocated), and the calls sit
// on exclusive once-only paths (the pairing obligations of C10.7 decide "exactly once").
func (p *Prog) idFreePaired() (bool, string) {
	n := 0
	bad := ""
	for _, fn := range p.Funcs {
		EachInstr(fn, func(in ssa.Instruction) {
			c := CallOf(in)
			if c == nil || CalleeName(c) != "core.(*pipeIDAllocator).Free" {
				return
			}
			n++
			if a := Desc(c.Args[len(c.Args)-1]); !strings.HasSuffix(a, ".id") {
				bad = p.InstrPos(in) + " frees " + a + ", not a pipe's own id"
			}
		})
	}
	w := p.WritersOf("internal/core.pipe.id")
	for who := range w {
		if who != "internal/core.newPipe" {
			bad = "pipe.id is also written by " + who
		}
	}
	if bad != "" {
		return false, bad
	}
	if n == 0 {
		return false, "no call of pipeIDs.Free found"
	}
	return true, fmt.Sprintf("%d Free call(s), each of the pipe's own id, which only newPipe sets (from pipeIDs.Get); exactly-once is C10.7/id-pairing", n)
}
