package an

import "fmt"

// SelfTestSummary runs the engine self-test corpus (see selftest_cases.go).
func SelfTestSummary(verifDir string) SelfTestResult {
	return runSelfTests(verifDir)
}

// SelfTest prints the result and returns an exit code.
func SelfTest(verifDir string) int {
	r := runSelfTests(verifDir)
	for _, f := range r.Failures {
		fmt.Println("SELFTEST FAIL:", f)
	}
	fmt.Printf("selftest: %d cases, ok=%v\n", r.Cases, r.OK)
	if !r.OK {
		return 1
	}
	return 0
}
