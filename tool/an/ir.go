package an

import (
	"fmt"
	"go/constant"
	"go/token"
	"go/types"
	"regexp"
	"sort"
	"strings"

	"golang.org/x/tools/go/ssa"
)

// ---------------------------------------------------------------------------------
// canonical descriptions of SSA values (access paths)

// Desc returns a canonical, position-free description of a value: a parameter or
// captured variable name followed by a field chain, a global, a constant, a call, ...
// Loads are transparent ("*x" of a field address is the field), so `s := c.s; s.Lock()`
// and `c.s.Lock()` both describe the mutex as "c.s.Mutex".
func Desc(v ssa.Value) string { return descN(v, 0) }

// descSubst, while non-nil, renders the parameters of an inlined callee as the caller's
// actual arguments, so that the events of a helper function read exactly as if its body
// stood at the call site (see Prog.EventsDeep).  The analysis is single-threaded.
var descSubst map[*ssa.Parameter]string

func descN(v ssa.Value, depth int) string {
	if v == nil {
		return "<nil>"
	}
	if depth > 12 {
		return "…"
	}
	d := depth + 1
	switch x := v.(type) {
	case *ssa.Parameter:
		if s, ok := descSubst[x]; ok {
			return s
		}
		return paramName(x)
	case *ssa.FreeVar:
		if v, ok := descFreeSubst[x]; ok {
			return v
		}
		return freeVarName(x)
	case *ssa.Global:
		if x.Pkg != nil {
			if rel, ok := Rel(x.Pkg.Pkg.Path()); ok {
				if rel == "" {
					rel = "mangos"
				}
				return rel + "." + x.Name()
			}
			return x.Pkg.Pkg.Path() + "." + x.Name()
		}
		return x.Name()
	case *ssa.Const:
		if x.Value == nil {
			return "nil"
		}
		if x.Value.Kind() == constant.String {
			if n, ok := x.Type().(*types.Named); ok && n.Obj().Pkg() != nil && n.Obj().Pkg().Path() == ModPath+"/errors" {
				if name, ok := errConstNames[constant.StringVal(x.Value)]; ok {
					return name
				}
			}
			return x.Value.ExactString()
		}
		return x.Value.String()
	case *ssa.Alloc:
		if x.Comment != "" {
			// a spilled parameter or local: look for the unique store of a parameter
			if src := allocSource(x); src != nil {
				return descN(src, d)
			}
			if x.Comment == "new" {
				// new(T) followed by field assignments and &T{…} are the same construction
				return "$complit"
			}
			return "$" + x.Comment
		}
		return "new"
	case *ssa.FieldAddr:
		return descN(derefBase(x.X), d) + "." + fieldName(x.X.Type(), x.Field)
	case *ssa.Field:
		return descN(x.X, d) + "." + fieldName(x.X.Type(), x.Field)
	case *ssa.UnOp:
		switch x.Op {
		case token.MUL:
			if descResolveCells {
				if rv := reachingStore(x); rv != nil {
					return descN(rv, d)
				}
			}
			return descN(x.X, d)
		case token.ARROW:
			return "<-" + descN(x.X, d)
		case token.NOT:
			return "!" + descN(x.X, d)
		case token.SUB:
			return "-" + descN(x.X, d)
		}
		return x.Op.String() + descN(x.X, d)
	case *ssa.BinOp:
		return "(" + descN(x.X, d) + " " + x.Op.String() + " " + descN(x.Y, d) + ")"
	case *ssa.Call:
		if s, ok := leafResult(x, 0, d); ok {
			return s
		}
		return callDesc(&x.Call, d)
	case *ssa.Extract:
		if call, ok := x.Tuple.(*ssa.Call); ok {
			if s, ok := leafResult(call, x.Index, d); ok {
				return s
			}
		}
		if sel, ok := x.Tuple.(*ssa.Select); ok && x.Index >= 2 {
			// the value received by an arm of a select is named by the arm's channel, not
			// by the arm's position among the cases (which has no meaning)
			k := 2
			for _, st := range sel.States {
				if st.Dir != types.RecvOnly {
					continue
				}
				if k == x.Index {
					return "select(<-" + descN(st.Chan, d) + ")"
				}
				k++
			}
		}
		return fmt.Sprintf("%s#%d", descN(x.Tuple, d), x.Index)
	case *ssa.MakeInterface:
		return descN(x.X, d)
	case *ssa.ChangeType:
		return descN(x.X, d)
	case *ssa.ChangeInterface:
		return descN(x.X, d)
	case *ssa.Convert:
		return typeShort(x.Type()) + "(" + descN(x.X, d) + ")"
	case *ssa.TypeAssert:
		if x.CommaOk {
			return descN(x.X, d) + ".(" + typeShort(x.AssertedType) + ")?"
		}
		return descN(x.X, d) + ".(" + typeShort(x.AssertedType) + ")"
	case *ssa.IndexAddr:
		return descN(x.X, d) + "[" + descN(x.Index, d) + "]"
	case *ssa.Index:
		return descN(x.X, d) + "[" + descN(x.Index, d) + "]"
	case *ssa.Lookup:
		return descN(x.X, d) + "[" + descN(x.Index, d) + "]"
	case *ssa.Slice:
		lo, hi := "", ""
		if x.Low != nil {
			lo = descN(x.Low, d)
		}
		if x.High != nil {
			hi = descN(x.High, d)
		}
		return descN(x.X, d) + "[" + lo + ":" + hi + "]"
	case *ssa.Phi:
		// a phi whose edges all describe the same thing is that thing
		var first string
		same := true
		for i, e := range x.Edges {
			if e == x {
				continue
			}
			s := descN(e, d+3)
			if i == 0 || first == "" {
				first = s
			} else if s != first {
				same = false
			}
		}
		if same && first != "" {
			return first
		}
		if x.Comment != "" {
			return "φ" + x.Comment
		}
		return "φ"
	case *ssa.MakeChan:
		return "make(chan," + descN(x.Size, d) + ")"
	case *ssa.MakeSlice:
		return "make([]," + descN(x.Len, d) + "," + descN(x.Cap, d) + ")"
	case *ssa.MakeMap:
		return "make(map)"
	case *ssa.MakeClosure:
		if fn, ok := x.Fn.(*ssa.Function); ok {
			return "closure:" + fn.Name()
		}
		return "closure"
	case *ssa.Function:
		return "func:" + x.Name()
	case *ssa.Builtin:
		return x.Name()
	case *ssa.Select:
		return "select"
	case *ssa.Next:
		return "next(" + descN(x.Iter, d) + ")"
	case *ssa.Range:
		return "range(" + descN(x.X, d) + ")"
	}
	return fmt.Sprintf("%T", v)
}

// derefBase: a pointer that is dereferenced is not nil.  For `var p *T; if c { p = X }` the
// merge of nil and X is X wherever a field of it is accessed (the nil case panics before).
func derefBase(v ssa.Value) ssa.Value {
	ph, ok := v.(*ssa.Phi)
	if !ok {
		return v
	}
	var only ssa.Value
	for _, e := range ph.Edges {
		if IsNilConst(e) || e == ssa.Value(ph) {
			continue
		}
		if only != nil && only != e {
			return v
		}
		only = e
	}
	if only == nil {
		return v
	}
	return only
}

// descFreeSubst, while non-nil, renders the captured variables of a function literal that a
// lock-wrapper helper runs at once as the values they were bound to at the call.
var descFreeSubst map[*ssa.FreeVar]string

// paramName gives a position-based canonical name, so that renaming a receiver or a
// parameter does not change any access path: "recv" for a method receiver, "argN" else.
func paramName(x *ssa.Parameter) string {
	fn := x.Parent()
	if fn == nil {
		return x.Name()
	}
	for i, pp := range fn.Params {
		if pp == x {
			if fn.Signature.Recv() != nil || recvLike[fn] {
				if i == 0 {
					return "recv"
				}
				return fmt.Sprintf("arg%d", i)
			}
			return fmt.Sprintf("arg%d", i+1)
		}
	}
	return x.Name()
}

// freeVarName: a captured variable is named after the enclosing function's parameter it
// captures (canonically), else by its own name prefixed with "~".
func freeVarName(x *ssa.FreeVar) string {
	fn := x.Parent()
	for fn != nil && fn.Parent() != nil {
		par := fn.Parent()
		for _, pp := range par.Params {
			if pp.Name() == x.Name() {
				return paramName(pp)
			}
		}
		found := false
		for _, fv := range par.FreeVars {
			if fv.Name() == x.Name() {
				found = true
			}
		}
		if !found {
			break
		}
		fn = par
	}
	return "$" + x.Name()
}

// errConstNames maps the text of the module's error constants to their names
// ("object closed" -> "ErrClosed"); filled by Load from the errors package scope.
var errConstNames = map[string]string{}

// allocSource: for a local Alloc that is written exactly once, at function entry, with
// a parameter or free variable (the spill of a captured receiver), return that value.
func allocSource(a *ssa.Alloc) ssa.Value {
	var src ssa.Value
	n := 0
	for _, r := range *a.Referrers() {
		if st, ok := r.(*ssa.Store); ok && st.Addr == a {
			n++
			src = st.Val
		}
	}
	if n != 1 {
		return nil
	}
	// an effectively-final local (`s := c.s` captured by a closure): the stored value is a
	// parameter, a captured variable, or a field chain rooted at one.  Only object
	// references are resolved this way; a scalar snapshot (`id := c.reqID`) is a value
	// of its own that must not be confused with the live field.
	switch src.(type) {
	case *ssa.Parameter, *ssa.FreeVar:
	default:
		if _, isPtr := src.Type().Underlying().(*types.Pointer); !isPtr {
			return nil
		}
	}
	v := src
	for i := 0; i < 10; i++ {
		switch x := v.(type) {
		case *ssa.Parameter, *ssa.FreeVar:
			return src
		case *ssa.UnOp:
			if x.Op != token.MUL {
				return nil
			}
			v = x.X
			continue
		case *ssa.FieldAddr:
			v = x.X
			continue
		case *ssa.Alloc:
			if x == a {
				return nil
			}
			inner := allocSource(x)
			if inner == nil {
				return nil
			}
			v = inner
			continue
		}
		return nil
	}
	return nil
}

// reachingStore: for a load of a local cell (a local variable that lives in memory because a
// closure captures it), the value of the one store that reaches the load: the latest store
// that dominates it, provided every other store to the cell comes before that one and nothing
// else can write the cell (no closure stores to it, its address is not passed on).  nil when
// there is no such store.
func reachingStore(load *ssa.UnOp) ssa.Value {
	a, ok := load.X.(*ssa.Alloc)
	if !ok || load.Op != token.MUL || a.Referrers() == nil {
		return nil
	}
	var stores []*ssa.Store
	for _, ref := range *a.Referrers() {
		switch x := ref.(type) {
		case *ssa.Store:
			if x.Addr != a {
				return nil // the address itself is stored somewhere
			}
			stores = append(stores, x)
		case *ssa.UnOp:
		case *ssa.MakeClosure:
			fn, ok := x.Fn.(*ssa.Function)
			if !ok {
				return nil
			}
			for i, b := range x.Bindings {
				if b != a || i >= len(fn.FreeVars) {
					continue
				}
				fv := fn.FreeVars[i]
				if fv.Referrers() == nil {
					continue
				}
				for _, r2 := range *fv.Referrers() {
					if st, ok := r2.(*ssa.Store); ok && st.Addr == fv {
						return nil
					}
					if _, ok := r2.(*ssa.UnOp); !ok {
						return nil
					}
				}
			}
		case *ssa.DebugRef:
		default:
			return nil
		}
	}
	var last *ssa.Store
	for _, s := range stores {
		if !InstrDominates(s, load) {
			continue
		}
		if last == nil || InstrDominates(last, s) {
			last = s
		}
	}
	if last == nil {
		return nil
	}
	var reach [][]bool
	for _, s := range stores {
		if s == last || InstrDominates(s, last) {
			continue
		}
		// a store that can never run before the load (it lies after it, outside any loop
		// that leads back) does not matter
		if reach == nil {
			reach = blockReach(load.Parent())
		}
		if CanPrecede(reach, s, load) {
			return nil
		}
	}
	return last.Val
}

// DescCell is Desc, except that a load of a captured local is described by the value that
// reaches it (see reachingStore).
func DescCell(v ssa.Value) string {
	descResolveCells = true
	defer func() { descResolveCells = false }()
	return Desc(v)
}

var descResolveCells bool

// leafResult: the result of a call to a tiny private straight-line helper of the module (one
// block, no calls into the module, no goroutines or channel operations) reads as the expression
// the helper returns, in the caller's terms: `q.pop()` written as `x := q.items[0]; q.items =
// q.items[1:]; return x` reads `q.items[0]`.  Factoring an expression out into such a helper
// (a pop, a header decoder, a predicate) then leaves every description as it was.
var leafInlineDepth int

func leafResult(call *ssa.Call, idx int, d int) (string, bool) {
	sc := call.Call.StaticCallee()
	if sc != nil && !call.Call.IsInvoke() && !leafHelper(sc) && leafInlineDepth < 2 {
		// a private helper with branches one of whose results is the same plain read on every
		// return (`return s.bestEffort, tq`): that result reads as the expression it is
		if v := constantResult(sc, idx); v != nil {
			ns := map[*ssa.Parameter]string{}
			for k, vv := range descSubst {
				ns[k] = vv
			}
			for j, par := range sc.Params {
				if j < len(call.Call.Args) {
					ns[par] = descN(call.Call.Args[j], d)
				}
			}
			saved := descSubst
			descSubst = ns
			leafInlineDepth++
			out := descN(v, d)
			leafInlineDepth--
			descSubst = saved
			return out, true
		}
	}
	if sc == nil || call.Call.IsInvoke() || !leafHelper(sc) || leafInlineDepth >= 2 {
		return "", false
	}
	var ret *ssa.Return
	for _, in := range sc.Blocks[0].Instrs {
		if r, ok := in.(*ssa.Return); ok {
			ret = r
		}
	}
	if ret == nil || idx >= len(ret.Results) {
		return "", false
	}
	ns := map[*ssa.Parameter]string{}
	for k, v := range descSubst {
		ns[k] = v
	}
	for j, par := range sc.Params {
		if j < len(call.Call.Args) {
			ns[par] = descN(call.Call.Args[j], d)
		}
	}
	saved := descSubst
	descSubst = ns
	leafInlineDepth++
	out := descN(resolveSpill(ret.Results[idx], ret), d)
	leafInlineDepth--
	descSubst = saved
	return out, true
}

var leafHelperCache = map[*ssa.Function]bool{}

// constantResult: result idx of private module function f is, on every return, the same value,
// computed in the entry block from loads of fields of its parameters only.
func constantResult(f *ssa.Function, idx int) ssa.Value {
	if f.Blocks == nil || f.Parent() != nil || !lowerName(f.Name()) || len(f.Blocks) > 12 {
		return nil
	}
	if _, in := Rel(pkgPathOf(f)); !in {
		return nil
	}
	var v ssa.Value
	for _, b := range f.Blocks {
		ret, ok := b.Instrs[len(b.Instrs)-1].(*ssa.Return)
		if !ok {
			continue
		}
		if idx >= len(ret.Results) {
			return nil
		}
		rv := ret.Results[idx]
		if v == nil {
			v = rv
		} else if v != rv {
			return nil
		}
	}
	if v == nil {
		return nil
	}
	// a pure read chain in the entry block
	x := v
	for i := 0; i < 6; i++ {
		switch y := x.(type) {
		case *ssa.UnOp:
			if y.Op != token.MUL || y.Block() != f.Blocks[0] {
				return nil
			}
			x = y.X
		case *ssa.FieldAddr:
			x = y.X
		case *ssa.Parameter:
			return v
		default:
			return nil
		}
	}
	return nil
}

func leafHelper(f *ssa.Function) bool {
	if v, ok := leafHelperCache[f]; ok {
		return v
	}
	ok := f.Blocks != nil && len(f.Blocks) == 1 && f.Parent() == nil && lowerName(f.Name()) && len(f.Blocks[0].Instrs) <= 30 && f.Signature.Results().Len() >= 1
	if ok {
		if _, in := Rel(pkgPathOf(f)); !in {
			ok = false
		}
	}
	if ok {
		for _, in := range f.Blocks[0].Instrs {
			switch x := in.(type) {
			case *ssa.Go, *ssa.Defer, *ssa.Send, *ssa.Select, *ssa.MakeClosure, *ssa.Panic, *ssa.RunDefers:
				ok = false
			case *ssa.UnOp:
				if x.Op == token.ARROW {
					ok = false
				}
			case *ssa.Call:
				if x.Call.IsInvoke() {
					ok = false
				} else if _, isB := x.Call.Value.(*ssa.Builtin); !isB {
					callee := x.Call.StaticCallee()
					if callee == nil {
						ok = false
					} else if _, in := Rel(pkgPathOf(callee)); in {
						ok = false
					} else if callee.Pkg != nil && callee.Pkg.Pkg.Path() == "sync" {
						ok = false
					}
				}
			}
		}
	}
	leafHelperCache[f] = ok
	return ok
}

func callDesc(c *ssa.CallCommon, d int) string {
	var args []string
	for _, a := range c.Args {
		args = append(args, descN(a, d))
	}
	if c.IsInvoke() {
		return descN(c.Value, d) + "." + c.Method.Name() + "(" + strings.Join(args, ",") + ")"
	}
	switch f := c.Value.(type) {
	case *ssa.Function:
		// results of in-module helpers with several arguments are abbreviated
		if _, ok := Rel(pkgPathOf(f)); ok && len(args) >= 2 {
			return FuncShort(f) + "(…)"
		}
		return FuncShort(f) + "(" + strings.Join(args, ",") + ")"
	case *ssa.Builtin:
		return f.Name() + "(" + strings.Join(args, ",") + ")"
	}
	return descN(c.Value, d) + "(" + strings.Join(args, ",") + ")"
}

// FuncShort: "sync.(*Mutex).Lock", "time.After", "xpair.(*socket).AddPipe".
func FuncShort(f *ssa.Function) string {
	if f == nil {
		return "?"
	}
	pk := ""
	if f.Pkg != nil {
		pk = f.Pkg.Pkg.Name()
	} else if o := f.Object(); o != nil && o.Pkg() != nil {
		pk = o.Pkg().Name()
	}
	if f.Signature.Recv() != nil || recvLike[f] {
		var t types.Type
		if f.Signature.Recv() != nil {
			t = f.Signature.Recv().Type()
		} else {
			t = f.Params[0].Type() // a package function standing in for a method
		}
		star := ""
		if pt, ok := t.(*types.Pointer); ok {
			t = pt.Elem()
			star = "*"
		}
		tn := t.String()
		if n, ok := t.(*types.Named); ok {
			tn = n.Obj().Name()
		}
		return pk + ".(" + star + tn + ")." + f.Name()
	}
	if f.Parent() != nil {
		return FuncShort(f.Parent()) + strings.TrimPrefix(f.Name(), f.Parent().Name())
	}
	return pk + "." + f.Name()
}

func typeShort(t types.Type) string {
	return types.TypeString(t, func(p *types.Package) string { return p.Name() })
}

func derefStruct(t types.Type) *types.Struct {
	if p, ok := t.Underlying().(*types.Pointer); ok {
		t = p.Elem()
	}
	s, _ := t.Underlying().(*types.Struct)
	return s
}

func fieldName(t types.Type, i int) string {
	if s := derefStruct(t); s != nil && i < s.NumFields() {
		return s.Field(i).Name()
	}
	return fmt.Sprintf("#%d", i)
}

// FieldVar returns the *types.Var of the field addressed/read by v (FieldAddr or Field).
func FieldVar(v ssa.Value) *types.Var {
	switch x := v.(type) {
	case *ssa.FieldAddr:
		if s := derefStruct(x.X.Type()); s != nil {
			return s.Field(x.Field)
		}
	case *ssa.Field:
		if s := derefStruct(x.X.Type()); s != nil {
			return s.Field(x.Field)
		}
	}
	return nil
}

// namedOf returns the named struct type that owns a FieldAddr/Field base.
func namedOf(t types.Type) *types.Named {
	if p, ok := t.Underlying().(*types.Pointer); ok {
		t = p.Elem()
	}
	if p, ok := t.(*types.Pointer); ok {
		t = p.Elem()
	}
	n, _ := t.(*types.Named)
	return n
}

// TypeKey: "protocol/xpair.socket" for a named type of the module, full path otherwise.
func TypeKey(n *types.Named) string {
	if n == nil {
		return "?"
	}
	o := n.Obj()
	if o.Pkg() == nil {
		return o.Name()
	}
	if rel, ok := Rel(o.Pkg().Path()); ok {
		if rel == "" {
			rel = "mangos"
		}
		return rel + "." + o.Name()
	}
	return o.Pkg().Path() + "." + o.Name()
}

// ---------------------------------------------------------------------------------
// callee resolution

// StaticCallee of a call instruction (nil for dynamic / interface calls).
func StaticCallee(c *ssa.CallCommon) *ssa.Function { return c.StaticCallee() }

// IsFunc reports whether fn is the function pkgpath.name or method pkgpath.(recv).name.
func IsFunc(fn *ssa.Function, pkgPath, recv, name string) bool {
	if fn == nil || fn.Name() != name {
		return false
	}
	var pk *types.Package
	if fn.Pkg != nil {
		pk = fn.Pkg.Pkg
	} else if o := fn.Object(); o != nil {
		pk = o.Pkg()
	}
	if pk == nil || pk.Path() != pkgPath {
		return false
	}
	r := fn.Signature.Recv()
	if recv == "" {
		return r == nil
	}
	if r == nil {
		return false
	}
	t := r.Type()
	if pt, ok := t.(*types.Pointer); ok {
		t = pt.Elem()
	}
	n, ok := t.(*types.Named)
	return ok && n.Obj().Name() == recv
}

// CalleeIs: static call to pkgpath.(recv).name.
func CalleeIs(c *ssa.CallCommon, pkgPath, recv, name string) bool {
	return IsFunc(c.StaticCallee(), pkgPath, recv, name)
}

// InvokeIs: interface method call named name on an interface type whose name is iface
// ("" = any).
func InvokeIs(c *ssa.CallCommon, iface, name string) bool {
	if !c.IsInvoke() || c.Method.Name() != name {
		return false
	}
	if iface == "" {
		return true
	}
	t := c.Value.Type()
	if n, ok := t.(*types.Named); ok {
		return n.Obj().Name() == iface
	}
	if a, ok := t.(*types.Alias); ok {
		if n, ok := types.Unalias(a).(*types.Named); ok {
			return n.Obj().Name() == iface
		}
	}
	return false
}

// CallOf returns the CallCommon of an instruction, or nil.
func CallOf(in ssa.Instruction) *ssa.CallCommon {
	if c, ok := in.(ssa.CallInstruction); ok {
		return c.Common()
	}
	return nil
}

// IsBuiltin: call to the named builtin.
func IsBuiltin(c *ssa.CallCommon, name string) bool {
	b, ok := c.Value.(*ssa.Builtin)
	return ok && b.Name() == name
}

// ---------------------------------------------------------------------------------
// control flow helpers

// reach[b] = set of blocks reachable from b by at least one edge.
func blockReach(fn *ssa.Function) [][]bool {
	n := len(fn.Blocks)
	r := make([][]bool, n)
	for i := range r {
		r[i] = make([]bool, n)
	}
	for _, b := range fn.Blocks {
		// DFS from b
		stack := append([]*ssa.BasicBlock{}, b.Succs...)
		for len(stack) > 0 {
			x := stack[len(stack)-1]
			stack = stack[:len(stack)-1]
			if r[b.Index][x.Index] {
				continue
			}
			r[b.Index][x.Index] = true
			stack = append(stack, x.Succs...)
		}
	}
	return r
}

func instrIndex(in ssa.Instruction) int {
	for i, x := range in.Block().Instrs {
		if x == in {
			return i
		}
	}
	return -1
}

// InstrDominates: a executes before b on every path to b.
func InstrDominates(a, b ssa.Instruction) bool {
	if a.Block() == b.Block() {
		return instrIndex(a) < instrIndex(b)
	}
	return a.Block().Dominates(b.Block())
}

// CanPrecede: some path executes a and later b.
func CanPrecede(reach [][]bool, a, b ssa.Instruction) bool {
	if a.Block() == b.Block() {
		if instrIndex(a) < instrIndex(b) {
			return true
		}
		return reach[a.Block().Index][b.Block().Index]
	}
	return reach[a.Block().Index][b.Block().Index]
}

// isPanicBlock: block ends in panic (not a normal exit).
func isPanicBlock(b *ssa.BasicBlock) bool {
	if len(b.Instrs) == 0 {
		return false
	}
	_, ok := b.Instrs[len(b.Instrs)-1].(*ssa.Panic)
	return ok
}

func isReturnBlock(b *ssa.BasicBlock) bool {
	if len(b.Instrs) == 0 {
		return false
	}
	_, ok := b.Instrs[len(b.Instrs)-1].(*ssa.Return)
	return ok
}

// ---------------------------------------------------------------------------------
// guards: branch conditions that hold on every path to an instruction

// Atom is one branch condition with polarity, e.g. {"(s.peer != nil)", false}.
type Atom struct {
	Cond ssa.Value
	Pol  bool
}

func (a Atom) String() string {
	s := Desc(a.Cond)
	if !a.Pol {
		return "!" + s
	}
	return s
}

type guardInfo struct {
	blockAtoms map[*ssa.BasicBlock][]Atom
}

// GuardsOf returns the conjunction of branch atoms that dominate block b: every `if c`
// whose true (false) successor dominates b and is entered only from that if.
func (p *Prog) GuardsOf(b *ssa.BasicBlock) []Atom {
	fn := b.Parent()
	gi := p.atoms[fn]
	if gi == nil {
		gi = &guardInfo{blockAtoms: map[*ssa.BasicBlock][]Atom{}}
		p.atoms[fn] = gi
		for _, blk := range fn.Blocks {
			var out []Atom
			for _, ifb := range fn.Blocks {
				if len(ifb.Instrs) == 0 {
					continue
				}
				iff, ok := ifb.Instrs[len(ifb.Instrs)-1].(*ssa.If)
				if !ok {
					continue
				}
				for k, succ := range ifb.Succs {
					if len(succ.Preds) != 1 {
						continue
					}
					if ifb.Succs[0] == ifb.Succs[1] {
						continue
					}
					if succ == blk || succ.Dominates(blk) {
						out = append(out, Atom{Cond: iff.Cond, Pol: k == 0})
					}
				}
			}
			gi.blockAtoms[blk] = out
		}
	}
	return gi.blockAtoms[b]
}

// GuardStrings: normalised textual atoms guarding an instruction.  Comparisons are
// normalised so that negative polarity flips the operator: !(x == y) -> "x != y".
func (p *Prog) GuardStrings(in ssa.Instruction) []string {
	var out []string
	seen := map[string]bool{}
	add := func(s string) {
		if !seen[s] {
			seen[s] = true
			out = append(out, s)
		}
	}
	for _, a := range p.GuardsOf(in.Block()) {
		add(NormAtom(a.Cond, a.Pol))
		for _, extra := range p.foundIndexFacts(a) {
			add(extra)
		}
		if extra := p.predicateHelperFact(a); extra != "" {
			add(extra)
		}
		if extra := p.closedPollFact(a); extra != "" {
			add(extra)
		}
		for _, extra := range p.validatorFacts(a) {
			add(extra)
		}
		for _, extra := range p.boolHelperFacts(a) {
			add(extra)
		}
		// a case expression `a || b` / `a && b` evaluated as a value: where the whole is false
		// (resp. true) every operand is
		for _, c := range shortCircuitParts(a) {
			add(NormAtom(c.Cond, c.Pol))
		}
		// `var ok bool; if pre { _, ok = lookup }; if ok {…}`: a flag that is false unless one
		// test set it.  Where the flag holds, that test held; where it does not, the test
		// failed or was never made ("maybe-not:" — for rules about what happens on a miss).
		if ph, isPhi := a.Cond.(*ssa.Phi); isPhi && ph.Comment != "||" && ph.Comment != "&&" {
			// leaves of the merge, through nested merges (a flag carried round a loop)
			var only ssa.Value
			var onlyFrom *ssa.BasicBlock
			okShape := true
			seenPh := map[*ssa.Phi]bool{}
			var leaves func(x *ssa.Phi)
			leaves = func(x *ssa.Phi) {
				if seenPh[x] {
					return
				}
				seenPh[x] = true
				for k, e := range x.Edges {
					if c, isC := e.(*ssa.Const); isC && c.Value != nil && c.Value.Kind() == constant.Bool && !constant.BoolVal(c.Value) {
						continue
					}
					if inner, isP := e.(*ssa.Phi); isP && inner.Comment != "||" && inner.Comment != "&&" {
						leaves(inner)
						continue
					}
					if only != nil && only != e {
						okShape = false
					}
					only = e
					if k < len(x.Block().Preds) {
						onlyFrom = x.Block().Preds[k]
					}
				}
			}
			leaves(ph)
			if okShape && only != nil {
				if a.Pol {
					add(NormAtom(only, true))
					// … and what guarded the one assignment that can have set it
					if onlyFrom != nil && len(onlyFrom.Instrs) > 0 && len(seenPh) > 1 {
						for _, g := range p.GuardsOf(onlyFrom) {
							add(NormAtom(g.Cond, g.Pol))
						}
					}
				} else {
					add("maybe-not:" + NormAtom(only, true))
				}
			}
		}
	}
	return out
}

// closedPollFact: `func (l *listener) isClosed() bool { select { case <-l.closeQ: return true;
// default: return false } }` — a guard that is a call of such a predicate stands for "the
// receive from that channel was ready", in the caller's terms.
func (p *Prog) closedPollFact(a Atom) string {
	call, ok := a.Cond.(*ssa.Call)
	if !ok {
		return ""
	}
	sc := call.Call.StaticCallee()
	if sc == nil || sc.Blocks == nil || !p.moduleFunc(sc) || sc.Pkg != call.Parent().Pkg || sc.Signature.Results().Len() != 1 {
		return ""
	}
	var sel *ssa.Select
	n := 0
	okShape := true
	EachInstr(sc, func(in ssa.Instruction) {
		n++
		switch x := in.(type) {
		case *ssa.Select:
			if sel != nil || x.Blocking || len(x.States) != 1 || x.States[0].Dir != types.RecvOnly {
				okShape = false
			}
			sel = x
		case *ssa.Store, *ssa.Send, *ssa.Go, *ssa.MapUpdate:
			okShape = false
		case *ssa.Call:
			okShape = false
		}
	})
	if !okShape || sel == nil || n > 20 {
		return ""
	}
	// the result is true exactly on the receive arm
	truthOnArm := -1
	EachInstr(sc, func(in ssa.Instruction) {
		ret, isRet := in.(*ssa.Return)
		if !isRet || len(ret.Results) != 1 || in.Block() == sc.Recover {
			return
		}
		for _, e := range p.splitReturn(sc, ret) {
			arm := hasAtomPrefix(e.Guard, "arm(<-")
			notArm := hasAtomPrefix(e.Guard, "!arm(<-")
			switch {
			case arm && e.Args[0] == "true", notArm && e.Args[0] == "false":
				if truthOnArm == 0 {
					truthOnArm = -2
				} else if truthOnArm == -1 {
					truthOnArm = 1
				}
			case arm && e.Args[0] == "false", notArm && e.Args[0] == "true":
				if truthOnArm == 1 {
					truthOnArm = -2
				} else if truthOnArm == -1 {
					truthOnArm = 0
				}
			default:
				truthOnArm = -2
			}
		}
		if len(p.splitReturn(sc, ret)) == 0 {
			gs := p.GuardStrings(in)
			v := Desc(resolveSpill(ret.Results[0], ret))
			arm := hasAtomPrefix(gs, "arm(<-")
			notArm := hasAtomPrefix(gs, "!arm(<-")
			switch {
			case arm && v == "true", notArm && v == "false":
				if truthOnArm == -1 || truthOnArm == 1 {
					truthOnArm = 1
				} else {
					truthOnArm = -2
				}
			case arm && v == "false", notArm && v == "true":
				if truthOnArm == -1 || truthOnArm == 0 {
					truthOnArm = 0
				} else {
					truthOnArm = -2
				}
			default:
				truthOnArm = -2
			}
		}
	})
	if truthOnArm < 0 {
		return ""
	}
	saved := descSubst
	ns := map[*ssa.Parameter]string{}
	for k, val := range saved {
		ns[k] = val
	}
	for i, par := range sc.Params {
		if i < len(call.Call.Args) {
			ns[par] = Desc(call.Call.Args[i])
		}
	}
	descSubst = ns
	armAtom := "arm(<-" + Desc(sel.States[0].Chan) + ")"
	descSubst = saved
	if (truthOnArm == 1) != a.Pol {
		return "!" + armAtom
	}
	return armAtom
}

// shortCircuitParts: for the atom !(a || b || …) or (a && b && …), where the operator was
// compiled to a merge of values (go/ssa does that for expressions that are not directly a
// branch condition, e.g. the cases of a tagless switch), the operand atoms it implies.
func shortCircuitParts(a Atom) []Atom {
	ph, ok := a.Cond.(*ssa.Phi)
	if !ok {
		return nil
	}
	var want bool // the constant the short-circuiting edges carry
	switch {
	case ph.Comment == "||" && !a.Pol:
		want = true
	case ph.Comment == "&&" && a.Pol:
		want = false
	default:
		return nil
	}
	var out []Atom
	jb := ph.Block()
	for k, e := range ph.Edges {
		if k >= len(jb.Preds) {
			return nil
		}
		if c, isC := e.(*ssa.Const); isC && c.Value != nil && c.Value.Kind() == constant.Bool && constant.BoolVal(c.Value) == want {
			// the operand tested at the end of that predecessor decided the whole
			pr := jb.Preds[k]
			iff, isIf := pr.Instrs[len(pr.Instrs)-1].(*ssa.If)
			if !isIf {
				return nil
			}
			// on this way the operand had the short-circuiting value; in our atom it has the other
			pol := !(pr.Succs[0] == jb)
			out = append(out, Atom{Cond: iff.Cond, Pol: pol})
			continue
		}
		out = append(out, Atom{Cond: e, Pol: a.Pol})
	}
	// nested operands
	var more []Atom
	for _, o := range out {
		more = append(more, shortCircuitParts(o)...)
	}
	return append(out, more...)
}

// predicateHelperFact: a guard that is a call to a side-effect-free private predicate
// (`func (l *listener) isClosed() bool { l.Lock(); defer l.Unlock(); return l.closed }`)
// also stands for the expression the predicate returns, in the caller's terms.
// validatorFacts: a guard `check(x) == nil` (or the false edge of `!= nil`) on a private
// validator of the same package — no stores, sends, goroutines or defers — stands for the
// conditions under which the validator reaches its (only) `return nil`, in the caller's terms.
func (p *Prog) validatorFacts(a Atom) []string {
	bo, ok := a.Cond.(*ssa.BinOp)
	if !ok || (bo.Op != token.EQL && bo.Op != token.NEQ) {
		return nil
	}
	c, isConst := bo.Y.(*ssa.Const)
	call, isCall := bo.X.(*ssa.Call)
	if !isConst || c.Value != nil || !isCall {
		return nil
	}
	if (bo.Op == token.EQL) != a.Pol {
		return nil // the atom says "returned an error": nothing conjunctive follows
	}
	sc := call.Call.StaticCallee()
	if sc == nil || sc.Blocks == nil || !p.moduleFunc(sc) || sc.Pkg != call.Parent().Pkg || sc.Signature.Results().Len() != 1 {
		return nil
	}
	pure := true
	var nilRet *ssa.Return
	nNil := 0
	EachInstr(sc, func(in ssa.Instruction) {
		switch x := in.(type) {
		case *ssa.Store:
			if _, local := x.Addr.(*ssa.Alloc); !local {
				pure = false
			}
		case *ssa.Send, *ssa.Go, *ssa.MapUpdate, *ssa.Select, *ssa.Defer:
			pure = false
		case *ssa.Return:
			if len(x.Results) == 1 {
				if k, ok := x.Results[0].(*ssa.Const); ok && k.Value == nil {
					nilRet = x
					nNil++
				}
			}
		}
	})
	if !pure || nNil != 1 {
		return nil
	}
	saved := descSubst
	ns := map[*ssa.Parameter]string{}
	for k, v := range saved {
		ns[k] = v
	}
	for i, par := range sc.Params {
		if i < len(call.Call.Args) {
			ns[par] = Desc(call.Call.Args[i])
		}
	}
	descSubst = ns
	var out []string
	for _, g := range p.GuardsOf(nilRet.Block()) {
		out = append(out, NormAtom(g.Cond, g.Pol))
	}
	descSubst = saved
	return out
}

func (p *Prog) predicateHelperFact(a Atom) string {
	call, ok := a.Cond.(*ssa.Call)
	if !ok {
		return ""
	}
	sc := call.Call.StaticCallee()
	if sc == nil || sc.Blocks == nil || !p.moduleFunc(sc) || sc.Pkg != call.Parent().Pkg {
		return ""
	}
	if sc.Signature.Results().Len() != 1 {
		return ""
	}
	var ret *ssa.Return
	pure := true
	n := 0
	EachInstr(sc, func(in ssa.Instruction) {
		n++
		switch x := in.(type) {
		case *ssa.Return:
			if sc.Recover != nil && x.Block() == sc.Recover {
				return // the synthetic return of the recover block
			}
			if ret != nil {
				pure = false
			}
			ret = x
		case *ssa.Store:
			if _, local := x.Addr.(*ssa.Alloc); !local {
				pure = false
			}
		case *ssa.Send, *ssa.Go, *ssa.MapUpdate, *ssa.Select:
			pure = false
		case ssa.CallInstruction:
			if classifyLockCall(x.Common()) == nil {
				if _, isDefer := in.(*ssa.Defer); !isDefer {
					if b, isB := x.Common().Value.(*ssa.Builtin); !isB || (b.Name() != "len" && b.Name() != "cap") {
						pure = false
					}
				}
			}
		}
	})
	if !pure || ret == nil || n > 25 || len(ret.Results) != 1 {
		return ""
	}
	v := resolveSpill(ret.Results[0], ret)
	saved := descSubst
	ns := map[*ssa.Parameter]string{}
	for k, val := range saved {
		ns[k] = val
	}
	for i, par := range sc.Params {
		if i < len(call.Call.Args) {
			ns[par] = Desc(call.Call.Args[i])
		}
	}
	descSubst = ns
	s := NormAtom(v, a.Pol)
	descSubst = saved
	return s
}

// foundIndexFacts: the search-then-act idiom
//
//	idx := -1; for i, x := range L { if P(x) { idx = i; break } }; if idx < 0 { return … }; act(L[idx])
//
// A guard "idx >= 0" (in any spelling) on a phi whose only other source is the constant -1
// implies everything that guarded the assignment idx = i, read with idx in place of i.  The
// implied atoms are added to the guards so that a rule written against
//
//	for i, x := range L { if P(x) { act(L[i]) … } }
//
// also recognises the two-phase form.
func (p *Prog) foundIndexFacts(a Atom) []string {
	bo, ok := a.Cond.(*ssa.BinOp)
	if !ok {
		return nil
	}
	ph, ok := bo.X.(*ssa.Phi)
	k, okc := ConstInt(bo.Y)
	if !ok || !okc {
		return nil
	}
	// does the atom (with its polarity) say ph != -1 given ph ∈ {-1} ∪ indices?
	op := bo.Op
	if !a.Pol {
		op = negOp[op]
	}
	found := (op == token.GEQ && k == 0) || (op == token.GTR && k == -1) || (op == token.NEQ && k == -1)
	if !found {
		return nil
	}
	// collect the non-sentinel sources of the phi (through other phis), each with its block
	type src struct {
		v    ssa.Value
		from *ssa.BasicBlock
	}
	var srcs []src
	okShape := true
	seen := map[*ssa.Phi]bool{}
	var walk func(x *ssa.Phi)
	walk = func(x *ssa.Phi) {
		if seen[x] {
			return
		}
		seen[x] = true
		for i, e := range x.Edges {
			switch y := e.(type) {
			case *ssa.Const:
				if c, ok := ConstInt(y); !ok || c != -1 {
					okShape = false
				}
			case *ssa.Phi:
				// a merge of the "found" variable is walked into; a loop counter (a merge whose
				// constant source is not the sentinel: `for i := 0; …`) is the index itself
				// ... unless it merges the found variable itself (one of its sources is a merge
				// already seen, or the sentinel): `pos` kept or set in the body of a loop that
				// runs `for i := 0; pos < 0 && i < n; i++`
				family := false
				for _, ye := range y.Edges {
					if yp, ok := ye.(*ssa.Phi); ok && seen[yp] {
						family = true
					}
					if c, ok := ConstInt(ye); ok && c == -1 {
						family = true
					}
				}
				if !family && phiHasOtherConst(y, -1, map[*ssa.Phi]bool{}) {
					srcs = append(srcs, src{e, x.Block().Preds[i]})
				} else {
					walk(y)
				}
			default:
				srcs = append(srcs, src{e, x.Block().Preds[i]})
			}
		}
	}
	walk(ph)
	if !okShape || len(srcs) != 1 {
		return nil
	}
	s := srcs[0]
	from := Desc(s.v)
	to := Desc(ph)
	var out []string
	for _, g := range p.GuardsOf(s.from) {
		out = append(out, strings.ReplaceAll(NormAtom(g.Cond, g.Pol), from, to))
	}
	return out
}

var negOp = map[token.Token]token.Token{token.EQL: token.NEQ, token.NEQ: token.EQL, token.LSS: token.GEQ,
	token.GEQ: token.LSS, token.GTR: token.LEQ, token.LEQ: token.GTR}
var swapOp = map[token.Token]token.Token{token.EQL: token.EQL, token.NEQ: token.NEQ, token.LSS: token.GTR,
	token.GTR: token.LSS, token.LEQ: token.GEQ, token.GEQ: token.LEQ}

// NormAtom renders cond (with polarity) as "x op y" (no parentheses) for comparisons,
// "x"/"!x" for booleans.
func NormAtom(c ssa.Value, pol bool) string {
	switch x := c.(type) {
	case *ssa.BinOp:
		// "which arm of the select was taken" is named by the arm's channel operation, not
		// by its position: the order of the cases of a select has no meaning
		if x.Op == token.EQL || x.Op == token.NEQ {
			if ex, ok := x.X.(*ssa.Extract); ok && ex.Index == 0 {
				if sel, ok := ex.Tuple.(*ssa.Select); ok {
					if k, ok := ConstInt(x.Y); ok && int(k) >= 0 && int(k) < len(sel.States) {
						st := sel.States[k]
						a := "arm(<-" + Desc(st.Chan) + ")"
						if st.Dir == types.SendOnly {
							a = "arm(" + Desc(st.Chan) + "<-)"
						}
						if (x.Op == token.EQL) != pol {
							a = "!" + a
						}
						return a
					}
				}
			}
		}
		if _, ok := negOp[x.Op]; ok {
			op := x.Op
			if !pol {
				op = negOp[op]
			}
			// (the operand order is canonical already: Prog.canonComparisons — except when a
			// parameter of an inlined helper is rendered as the caller's argument, which
			// may sort differently: the text is put into the same order again)
			c, _ := canonLit(Desc(x.X) + " " + op.String() + " " + Desc(x.Y))
			return c
		}
	case *ssa.UnOp:
		if x.Op == token.NOT {
			return NormAtom(x.X, !pol)
		}
	}
	s := Desc(c)
	if !pol {
		return "!" + s
	}
	return s
}

func hasAtom(atoms []string, want string) bool {
	for _, a := range atoms {
		if litEq(a, want) {
			return true
		}
	}
	return false
}

// Source-level names of local variables are not part of any rule: a token "$name" or
// "φname" in a rule's literal is a METAVARIABLE that stands for some local variable (resp.
// some merge of values) of the function, not for the variable that happens to be called
// `name` today.  litEq compares a description with such a literal: the text outside the
// local-variable tokens must be identical, and the tokens must correspond one to one (the
// same metavariable always the same local, different metavariables different locals) within
// the literal.  The names the SSA builder gives to its own temporaries ($complit, $makeslice,
// …) are not source names and are compared literally.
var localTok = regexp.MustCompile(`[φ$][A-Za-z_][A-Za-z0-9_]*`)

var builderNames = map[string]bool{"$complit": true, "$makeslice": true, "$slicelit": true, "$varargs": true, "$new": true, "$rangeindex": true}

func litEq(actual, pattern string) bool {
	if actual == pattern {
		return true
	}
	return litUnify(actual, pattern, map[string]string{})
}

var constText = regexp.MustCompile(`^(-?[0-9][0-9a-fx_.e+-]*|nil|true|false|".*"|'.*'|Err[A-Z][A-Za-z]*)(:[A-Za-z0-9_.]+)?$`)

// canonLit puts a literal comparison atom `l op r` into the operand order of
// Prog.canonComparisons; the second result is the mirrored form when the order of the two
// operands is not determined (two local variables in otherwise identical positions).
func canonLit(pat string) (string, string) {
	l, op, r := splitAtom(pat)
	if op == "" {
		return pat, ""
	}
	mirrored := r + " " + mirrorOp[op] + " " + l
	cl, cr := constText.MatchString(l), constText.MatchString(r)
	switch {
	case cl && !cr:
		return mirrored, ""
	case !cl && cr:
		return pat, ""
	}
	ml, mr := maskLocals(l), maskLocals(r)
	switch {
	case ml > mr:
		return mirrored, ""
	case ml == mr:
		return pat, mirrored
	}
	return pat, ""
}

var mirrorOp = map[string]string{"==": "==", "!=": "!=", "<=": ">=", ">=": "<=", "<": ">", ">": "<"}

// splitAtom splits a comparison atom `l op r` at its top-level operator ("" when the atom is
// not a comparison).
func splitAtom(pat string) (string, string, string) {
	depth, inStr := 0, false
	for i := 0; i < len(pat); i++ {
		ch := pat[i]
		if inStr {
			if ch == '\\' {
				i++
			} else if ch == '"' {
				inStr = false
			}
			continue
		}
		switch ch {
		case '"':
			inStr = true
		case '(', '[', '{':
			depth++
		case ')', ']', '}':
			depth--
		case ' ':
			if depth != 0 {
				continue
			}
			for _, op := range []string{" == ", " != ", " <= ", " >= ", " < ", " > "} {
				if strings.HasPrefix(pat[i:], op) {
					return pat[:i], strings.TrimSpace(op), pat[i+len(op):]
				}
			}
		}
	}
	return pat, "", ""
}

// atomSides: the two operands of a comparison atom with operator op, in either order:
// calls f(x, y) for (l, r) and, with the operator mirrored, for (r, l).
func atomSides(a, op string, f func(x, y string) bool) bool {
	l, o, r := splitAtom(a)
	if o == "" {
		return false
	}
	if o == op && f(l, r) {
		return true
	}
	return mirrorOp[o] == op && f(r, l)
}

func maskLocals(s string) string {
	return localTok.ReplaceAllStringFunc(s, func(t string) string {
		if builderNames[t] {
			return t
		}
		return "\uffff"
	})
}

// hasAtomB: hasAtom under a rule-wide binding of the metavariables.
func hasAtomB(atoms []string, want string, bind map[string]string) bool {
	for _, a := range atoms {
		if litUnify(a, want, bind) {
			return true
		}
	}
	return false
}

// litSubst replaces the bound metavariables of a literal by the locals they stand for.
func litSubst(pattern string, bind map[string]string) string {
	return localTok.ReplaceAllStringFunc(pattern, func(t string) string {
		if v, ok := bind[t]; ok {
			return v
		}
		return t
	})
}

// litUnify is litEq with a caller-supplied binding (pattern variable -> local), so that one
// rule can demand the same local in several literals.
func litUnify(actual, pattern string, bind map[string]string) bool {
	c1, c2 := canonLit(pattern)
	actual, _ = canonLit(actual) // (a no-op for atoms produced by NormAtom)
	if c1 == actual || litUnify1(actual, c1, bind) {
		return true
	}
	return c2 != "" && (c2 == actual || litUnify1(actual, c2, bind))
}

func litUnify1(actual, pattern string, bind map[string]string) bool {
	if !strings.ContainsAny(pattern, "φ$") {
		return false
	}
	pi := localTok.FindAllStringIndex(pattern, -1)
	ai := localTok.FindAllStringIndex(actual, -1)
	if len(pi) != len(ai) {
		return false
	}
	pp, ap := 0, 0
	nb := map[string]string{}
	for k := range pi {
		if pattern[pp:pi[k][0]] != actual[ap:ai[k][0]] {
			return false
		}
		pv, av := pattern[pi[k][0]:pi[k][1]], actual[ai[k][0]:ai[k][1]]
		pp, ap = pi[k][1], ai[k][1]
		if builderNames[pv] || builderNames[av] {
			if pv != av {
				return false
			}
			continue
		}
		if strings.HasPrefix(pv, "$") != strings.HasPrefix(av, "$") {
			return false // a merge is not a variable
		}
		got, has := bind[pv]
		if !has {
			got, has = nb[pv]
		}
		if has {
			if got != av {
				return false
			}
			continue
		}
		for _, m := range []map[string]string{bind, nb} {
			for _, v := range m {
				if v == av {
					return false // two metavariables never name the same local
				}
			}
		}
		nb[pv] = av
	}
	if pattern[pp:] != actual[ap:] {
		return false
	}
	for k, v := range nb {
		bind[k] = v
	}
	return true
}

// ---------------------------------------------------------------------------------
// misc

// EachInstr visits every instruction of fn.
func EachInstr(fn *ssa.Function, f func(ssa.Instruction)) {
	for _, b := range fn.Blocks {
		for _, in := range b.Instrs {
			f(in)
		}
	}
}

// WithClosures returns fn and all (transitively) nested anonymous functions.
func WithClosures(fn *ssa.Function) []*ssa.Function {
	out := []*ssa.Function{fn}
	for _, a := range fn.AnonFuncs {
		out = append(out, WithClosures(a)...)
	}
	return out
}

// ConstInt returns the integer value of a constant SSA value.
func ConstInt(v ssa.Value) (int64, bool) {
	c, ok := v.(*ssa.Const)
	if !ok || c.Value == nil {
		return 0, false
	}
	if c.Value.Kind() != constant.Int {
		return 0, false
	}
	i, ok := constant.Int64Val(c.Value)
	if !ok {
		if u, ok2 := constant.Uint64Val(c.Value); ok2 {
			return int64(u), true
		}
	}
	return i, ok
}

// IsNilConst reports whether v is the nil constant.
func IsNilConst(v ssa.Value) bool {
	c, ok := v.(*ssa.Const)
	return ok && c.Value == nil
}

// boolHelperFacts: a guard that is a call to a private bool predicate stands for the
// conjunction the predicate computes (when it is a single conjunction); its negation
// stands for the negated condition when the predicate is a single comparison.
func (p *Prog) boolHelperFacts(a Atom) []string {
	call, ok := a.Cond.(*ssa.Call)
	if !ok {
		return nil
	}
	dnf, subst, ok := boolHelperDNF(call)
	if !ok || len(dnf) != 1 {
		return nil
	}
	saved := descSubst
	descSubst = subst
	defer func() { descSubst = saved }()
	var out []string
	if a.Pol {
		for _, l := range dnf[0] {
			out = append(out, NormAtom(l.Cond, l.Pol))
		}
		return out
	}
	if len(dnf[0]) == 1 {
		return []string{NormAtom(dnf[0][0].Cond, !dnf[0][0].Pol)}
	}
	return nil
}

// phiHasOtherConst: some constant source of the merge (through nested merges) differs from k.
func phiHasOtherConst(ph *ssa.Phi, k int64, seen map[*ssa.Phi]bool) bool {
	if seen[ph] {
		return false
	}
	seen[ph] = true
	for _, e := range ph.Edges {
		switch y := e.(type) {
		case *ssa.Const:
			if c, ok := ConstInt(y); ok && c != k {
				return true
			}
		case *ssa.Phi:
			if phiHasOtherConst(y, k, seen) {
				return true
			}
		}
	}
	return false
}

// FeasiblyPrecedes: some path leads from a to b, where a branch on a boolean merge is followed
// only the way the merge's value on the edge just taken says (a flag set to a constant right
// before the test: `matched = true` followed by the loop's `for !matched`).
func FeasiblyPrecedes(a, b ssa.Instruction) bool {
	if a.Block() == b.Block() && instrIndex(a) < instrIndex(b) {
		return true
	}
	type st struct {
		blk  *ssa.BasicBlock
		from *ssa.BasicBlock
	}
	seen := map[st]bool{}
	var walk func(blk, from *ssa.BasicBlock) bool
	walk = func(blk, from *ssa.BasicBlock) bool {
		k := st{blk, from}
		if seen[k] {
			return false
		}
		seen[k] = true
		if blk == b.Block() && from != nil {
			return true
		}
		succs := blk.Succs
		if len(blk.Instrs) > 0 && from != nil {
			if iff, ok := blk.Instrs[len(blk.Instrs)-1].(*ssa.If); ok {
				cond, neg := iff.Cond, false
				if u, ok := cond.(*ssa.UnOp); ok && u.Op == token.NOT {
					cond, neg = u.X, true
				}
				if ph, ok := cond.(*ssa.Phi); ok && ph.Block() == blk {
					for i, pb := range blk.Preds {
						if pb != from || i >= len(ph.Edges) {
							continue
						}
						if c, ok := ph.Edges[i].(*ssa.Const); ok && c.Value != nil && c.Value.Kind() == constant.Bool {
							v := constant.BoolVal(c.Value)
							if neg {
								v = !v
							}
							if v {
								succs = blk.Succs[:1]
							} else {
								succs = blk.Succs[1:]
							}
						}
					}
				}
			}
		}
		for _, s := range succs {
			if walk(s, blk) {
				return true
			}
		}
		return false
	}
	return walk(a.Block(), nil)
}

// MustPassFeasible: every feasible path from the entry of the function to target passes via.
// Feasibility knows boolean flags: a merge of a boolean variable takes, on each way in, the
// constant (or the already known merge) that way carries, and a branch on a known merge is
// followed only the way its value says.
func MustPassFeasible(via, target ssa.Instruction) bool {
	fn := target.Parent()
	if via.Block() == target.Block() && instrIndex(via) < instrIndex(target) {
		return true
	}
	type key struct {
		blk  *ssa.BasicBlock
		from *ssa.BasicBlock
		env  string
	}
	seen := map[key]bool{}
	found := false // a path that reaches target without via
	var walk func(blk, from *ssa.BasicBlock, env map[*ssa.Phi]bool, depth int)
	walk = func(blk, from *ssa.BasicBlock, env map[*ssa.Phi]bool, depth int) {
		if found || depth > 400 {
			return
		}
		// bind the boolean merges of blk for the edge taken
		env2 := map[*ssa.Phi]bool{}
		for k, v := range env {
			env2[k] = v
		}
		if from != nil {
			pi := -1
			for i, pb := range blk.Preds {
				if pb == from {
					pi = i
				}
			}
			for _, in := range blk.Instrs {
				ph, ok := in.(*ssa.Phi)
				if !ok {
					break
				}
				delete(env2, ph)
				if pi < 0 || pi >= len(ph.Edges) || !isBoolType(ph.Type()) {
					continue
				}
				switch e := ph.Edges[pi].(type) {
				case *ssa.Const:
					if e.Value != nil && e.Value.Kind() == constant.Bool {
						env2[ph] = constant.BoolVal(e.Value)
					}
				case *ssa.Phi:
					if v, ok := env[e]; ok {
						env2[ph] = v
					}
				}
			}
		}
		var ks []string
		for k, v := range env2 {
			ks = append(ks, fmt.Sprintf("%p=%v", k, v))
		}
		sort.Strings(ks)
		k := key{blk, from, strings.Join(ks, ",")}
		if seen[k] {
			return
		}
		seen[k] = true
		for _, in := range blk.Instrs {
			if in == via {
				return // this path passes via
			}
			if in == target {
				found = true
				return
			}
		}
		succs := blk.Succs
		if len(blk.Instrs) > 0 {
			if iff, ok := blk.Instrs[len(blk.Instrs)-1].(*ssa.If); ok {
				cond, neg := iff.Cond, false
				if u, ok := cond.(*ssa.UnOp); ok && u.Op == token.NOT {
					cond, neg = u.X, true
				}
				if ph, ok := cond.(*ssa.Phi); ok {
					if v, known := env2[ph]; known {
						if neg {
							v = !v
						}
						if v {
							succs = blk.Succs[:1]
						} else {
							succs = blk.Succs[1:]
						}
					}
				}
			}
		}
		for _, s := range succs {
			walk(s, blk, env2, depth+1)
		}
	}
	walk(fn.Blocks[0], nil, map[*ssa.Phi]bool{}, 0)
	return !found
}
