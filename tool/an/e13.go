package an

import (
	"fmt"
	"go/token"
	"go/types"
	"strings"

	"golang.org/x/tools/go/ssa"
)

// E13 WAITED-CHANNEL-STABLE.  A goroutine that is parked on a channel it read out of a struct
// field (a sender waiting for its pipe's queue, a Recv waiting for the socket's queue) keeps
// waiting on *that* channel.  If the field is given another channel while somebody may be
// parked on the old one, everything sent from then on goes to a channel nobody looks at: the
// option "takes effect" and the connection falls silent.  The code base has one idiom for doing
// this safely — the step that installs the new channel wakes the waiters (it closes a channel
// of the same object that their select watches, or the old channel itself, or broadcasts on a
// condition variable).  The rule quantifies over every channel-typed field of every module
// struct on which some function blocks, and over every store to such a field outside the
// construction of its object.

var debugE13 = false

type e13Field struct {
	fv      *types.Var
	owner   *types.Named
	waiters []ssa.Instruction
}

// waitedChanFields: channel fields some in-scope function blocks on (plain receive / send,
// or an arm of a blocking select), read directly from the field.
func (p *Prog) waitedChanFields() map[*types.Var]*e13Field {
	out := map[*types.Var]*e13Field{}
	note := func(ch ssa.Value, at ssa.Instruction) {
		fv, owner, _ := loadedField(ch)
		if fv == nil || owner == nil {
			return
		}
		if _, ok := fv.Type().Underlying().(*types.Chan); !ok {
			return
		}
		if owner.Obj().Pkg() == nil {
			return
		}
		if rel, inMod := Rel(owner.Obj().Pkg().Path()); !inMod || !subjectRel(rel) {
			return
		}
		f := out[fv]
		if f == nil {
			f = &e13Field{fv: fv, owner: owner}
			out[fv] = f
		}
		f.waiters = append(f.waiters, at)
	}
	for _, fn := range p.Funcs {
		EachInstr(fn, func(in ssa.Instruction) {
			switch x := in.(type) {
			case *ssa.Select:
				if !x.Blocking {
					return
				}
				for _, st := range x.States {
					note(st.Chan, in)
				}
			case *ssa.Send:
				note(x.Chan, in)
			case *ssa.UnOp:
				if x.Op == token.ARROW {
					note(x.X, in)
				}
			}
		})
	}
	return out
}

// freshBase: the object whose field is written was created by this function (or is being
// built by a constructor and has not been handed to anyone yet).
func freshBase(v ssa.Value, depth int) bool {
	if depth > 4 {
		return false
	}
	switch x := v.(type) {
	case *ssa.Alloc:
		return true
	case *ssa.FieldAddr:
		return freshBase(x.X, depth+1)
	case *ssa.Phi:
		for _, e := range x.Edges {
			if !freshBase(e, depth+1) {
				return false
			}
		}
		return true
	case *ssa.UnOp:
		// a local cell holding a fresh object
		if a, ok := x.X.(*ssa.Alloc); ok && x.Op == token.MUL {
			if src := allocSource(a); src != nil {
				return freshBase(src, depth+1)
			}
		}
	case *ssa.Call:
		if sc := x.Call.StaticCallee(); sc != nil {
			n := sc.Name()
			return strings.HasPrefix(n, "new") || strings.HasPrefix(n, "New")
		}
	}
	return false
}

func waitedChannelStable(p *Prog, r *Report, R string, inPkg func(rel string) bool) {
	r.Describe(R, "a channel-typed field on which some goroutine or call may be parked is replaced only in a step that wakes whoever is parked on the old channel (closes a channel of the same object or the old channel, or broadcasts), or while its object is still under construction: otherwise the waiter stays on a channel nothing is ever sent to again")
	waited := p.waitedChanFields()
	r.Count("e13.waited_fields."+R, len(waited))
	n := 0
	per := map[string]int{}
	for _, fn := range p.Funcs {
		rel, _ := p.FuncRel(fn)
		if !inPkg(rel) {
			continue
		}
		EachInstr(fn, func(in ssa.Instruction) {
			st, ok := in.(*ssa.Store)
			if !ok {
				return
			}
			fa, ok := st.Addr.(*ssa.FieldAddr)
			if !ok {
				return
			}
			fv, _ := fieldAddrVar(fa)
			f := waited[fv]
			if f == nil {
				return
			}
			if freshBase(fa.X, 0) || p.freshParamBase(fn, fa.X) {
				return
			}
			// storing back the value just read (no replacement)
			if ld, _, _ := loadedField(st.Val); ld == fv {
				return
			}
			n++
			key := p.FuncName(fn) + "/" + pathOfFieldAddr(fa)
			per[key]++
			if per[key] > 1 {
				key = fmt.Sprintf("%s#%d", key, per[key])
			}
			ok2, why := p.wakesAfter(st, fa)
			if !ok2 && p.onlySendersPark(f) {
				var olds []ssa.Value
				EachInstr(fn, func(i2 ssa.Instruction) {
					if u, ok := i2.(*ssa.UnOp); ok && u.Op == token.MUL {
						if fa2, ok := u.X.(*ssa.FieldAddr); ok {
							if v, _ := fieldAddrVar(fa2); v == fv && Desc(fa2.X) == Desc(fa.X) && InstrDominates(u, st) {
								olds = append(olds, u)
							}
						}
					}
				})
				if drainsOld(st, olds) {
					ok2, why = true, "only senders park on this queue (its receives are polls or are taken under len != 0), and the step empties the old queue, so every parked sender completes"
				}
			}
			r.Check(ok2, R, key, p.InstrPos(in), why,
				"the channel "+fieldKey(fv, f.owner)+" (waited on at "+p.InstrPos(f.waiters[0])+") is replaced here and "+why+": whoever is parked on the old channel is never woken and sees nothing sent to the new one")
		})
	}
	r.Count("e13.replacements."+R, n)
}

// freshParamBase: the object is a parameter of an unexported function every one of whose
// callers (inside the module, none outside) passes an object it has just created.
func (p *Prog) freshParamBase(fn *ssa.Function, base ssa.Value) bool {
	if u, isLoad := base.(*ssa.UnOp); isLoad && u.Op == token.MUL {
		// the spill of a receiver that a closure captures
		if a, isAlloc := u.X.(*ssa.Alloc); isAlloc {
			if src := allocSource(a); src != nil {
				base = src
			}
		}
	}
	par, ok := base.(*ssa.Parameter)
	if !ok || fn.Parent() != nil {
		return false
	}
	if o := fn.Object(); o == nil || o.Exported() {
		return false
	}
	idx := -1
	for i, pp := range fn.Params {
		if pp == par {
			idx = i
		}
	}
	n := p.CG().Nodes[fn]
	if idx < 0 || n == nil || len(n.In) == 0 {
		return false
	}
	for _, e := range n.In {
		if e.Site == nil || e.Caller.Func == nil || !p.InScope(e.Caller.Func) {
			return false
		}
		c := e.Site.Common()
		var args []ssa.Value
		if c.IsInvoke() {
			args = append([]ssa.Value{c.Value}, c.Args...)
		} else {
			args = c.Args
		}
		if idx < len(args) && !freshBase(args[idx], 0) && e.Caller.Func != fn && p.freshParamDepth < 3 {
			// handed on by a helper that itself only ever gets fresh objects
			p.freshParamDepth++
			ok := p.freshParamBase(e.Caller.Func, args[idx])
			p.freshParamDepth--
			if ok {
				continue
			}
		}
		if idx >= len(args) || !freshBase(args[idx], 0) {
			if debugE13 {
				fmt.Printf("freshParamBase %s: caller %s passes %T %s\n", fn, e.Caller.Func, args[idx], Desc(args[idx]))
			}
			return false
		}
	}
	return true
}

// onlySendersPark: everything that can be parked on the field is parked in a send: receives
// from it are polls (non-blocking select) or are taken under `len(ch) != 0`.
func (p *Prog) onlySendersPark(f *e13Field) bool {
	for _, w := range f.waiters {
		switch x := w.(type) {
		case *ssa.Send:
		case *ssa.Select:
			for _, st := range x.States {
				if fv, _, _ := loadedField(st.Chan); fv == f.fv && st.Dir != types.SendOnly {
					return false
				}
			}
		case *ssa.UnOp:
			okGuard := false
			for _, g := range p.GuardStrings(w) {
				if strings.HasPrefix(g, "len(") && strings.HasSuffix(g, "."+f.fv.Name()+") != 0") {
					okGuard = true
				}
			}
			if !okGuard {
				return false
			}
		}
	}
	return true
}

// drainsOld: after the store the function empties the old channel with a polling receive in
// a loop (every sender parked on it gets room and completes).
func drainsOld(st *ssa.Store, oldLoads []ssa.Value) bool {
	found := false
	EachInstr(st.Parent(), func(in ssa.Instruction) {
		sel, ok := in.(*ssa.Select)
		if !ok || sel.Blocking {
			return
		}
		for _, s := range sel.States {
			if s.Dir != types.RecvOnly {
				continue
			}
			for _, o := range oldLoads {
				if s.Chan == o && (InstrDominates(st, in) || st.Block() == in.Block()) {
					found = true
				}
			}
		}
	})
	if found {
		return true
	}
	// ... or through a private polling helper (`for m := poll(oldQ); m != nil; m = poll(oldQ)`)
	isOld := func(v ssa.Value) bool {
		if ct, ok := v.(*ssa.ChangeType); ok {
			v = ct.X
		}
		for _, o := range oldLoads {
			if v == o {
				return true
			}
		}
		return false
	}
	EachInstr(st.Parent(), func(in ssa.Instruction) {
		call, ok := in.(*ssa.Call)
		if !ok || found || call.Call.IsInvoke() {
			return
		}
		sc := call.Call.StaticCallee()
		if sc == nil || sc.Blocks == nil {
			return
		}
		for i, a := range call.Call.Args {
			if !isOld(a) || i >= len(sc.Params) {
				continue
			}
			par := sc.Params[i]
			EachInstr(sc, func(i2 ssa.Instruction) {
				if sel, ok := i2.(*ssa.Select); ok && !sel.Blocking {
					for _, s := range sel.States {
						if s.Dir == types.RecvOnly && s.Chan == ssa.Value(par) {
							found = true
						}
					}
				}
			})
		}
	})
	return found
}

// wakesAfter: on every path from the store to a return something wakes the waiters.
func (p *Prog) wakesAfter(st *ssa.Store, fa *ssa.FieldAddr) (bool, string) {
	fn := st.Parent()
	base := Desc(fa.X)
	wake := map[ssa.Instruction]bool{}
	var oldLoads []ssa.Value
	EachInstr(fn, func(in ssa.Instruction) {
		if u, ok := in.(*ssa.UnOp); ok && u.Op == token.MUL {
			if fa2, ok := u.X.(*ssa.FieldAddr); ok {
				if v, _ := fieldAddrVar(fa2); v != nil && Desc(fa2.X) == base {
					if f1, _ := fieldAddrVar(fa); f1 == v && InstrDominates(u, st) {
						oldLoads = append(oldLoads, u)
					}
				}
			}
		}
	})
	isOld := func(v ssa.Value) bool {
		for _, o := range oldLoads {
			if o == v {
				return true
			}
		}
		return false
	}
	EachInstr(fn, func(in ssa.Instruction) {
		c := CallOf(in)
		if c == nil {
			return
		}
		if IsBuiltin(c, "close") && len(c.Args) == 1 {
			a := c.Args[0]
			if isOld(a) {
				wake[in] = true
				return
			}
			// a channel field of the very same object value
			if u, ok := a.(*ssa.UnOp); ok && u.Op == token.MUL {
				if fa2, ok := u.X.(*ssa.FieldAddr); ok && fa2.X == fa.X {
					wake[in] = true
					return
				}
			}
			d := Desc(a)
			// a channel of the same object, or of the object that owns this one
			if strings.HasPrefix(d, base+".") {
				wake[in] = true
				return
			}
			if i := strings.LastIndex(base, "."); i >= 0 && strings.HasPrefix(d, base[:i]+".") {
				wake[in] = true
			}
			return
		}
		n := CalleeName(c)
		if strings.HasSuffix(n, "Cond).Broadcast") || strings.HasSuffix(n, "Cond.Broadcast") {
			wake[in] = true
		}
	})
	if len(wake) == 0 {
		return false, "nothing in " + FuncShort(fn) + " wakes the waiters (no close of a channel of " + base + " or of the old channel, no Broadcast)"
	}
	// wake-ups before the store in the same critical section count too (close(old); F = new)
	for w := range wake {
		if InstrDominates(w, st) {
			return true, "the waiters are woken in the same step"
		}
	}
	var via Sel
	for w := range wake {
		via = append(via, &Ev{In: w})
	}
	ok, where := NewQ(p, nil).mustPass(st, via)
	if ok {
		return true, "the waiters are woken on every path after the replacement"
	}
	return false, "the return at " + where + " is reached without waking the waiters"
}

// freshChan: v is a channel made in this function (through merges and swaps of locals).
func freshChan(v ssa.Value, seen map[ssa.Value]bool) bool {
	if seen[v] {
		return true
	}
	seen[v] = true
	switch x := v.(type) {
	case *ssa.MakeChan:
		return true
	case *ssa.Const:
		return x.IsNil()
	case *ssa.ChangeType:
		return freshChan(x.X, seen)
	case *ssa.Phi:
		for _, e := range x.Edges {
			if !freshChan(e, seen) {
				return false
			}
		}
		return true
	}
	return false
}

// channelsNotShared: every channel stored into a waited-on channel field is made by the storing
// function (or is nil): a queue or close channel belongs to one object.  A channel that came
// from somewhere else — a field of another object, a parameter, a pool — is shared between two
// owners: what one of them is sent arrives at the other, and closing one closes both.
func channelsNotShared(p *Prog, r *Report, R string, inPkg func(rel string) bool) {
	r.Describe(R, "a channel installed in a field that some goroutine or call parks on is made by the function that installs it (or is nil): queues and close channels are never handed from one object to another, so what is queued for one connection cannot be delivered on the next and a close reaches only its own object (inproc's crossed queues, made for both ends by the function that creates the pair, are the one accepted hand-over)")
	waited := p.waitedChanFields()
	n := 0
	per := map[string]int{}
	for _, fn := range p.Funcs {
		rel, _ := p.FuncRel(fn)
		if !inPkg(rel) {
			continue
		}
		EachInstr(fn, func(in ssa.Instruction) {
			st, ok := in.(*ssa.Store)
			if !ok {
				return
			}
			fa, ok := st.Addr.(*ssa.FieldAddr)
			if !ok {
				return
			}
			fv, _ := fieldAddrVar(fa)
			f := waited[fv]
			if f == nil {
				return
			}
			n++
			key := p.FuncName(fn) + "/" + pathOfFieldAddr(fa)
			per[key]++
			if per[key] > 1 {
				key = fmt.Sprintf("%s#%d", key, per[key])
			}
			if freshChan(st.Val, map[ssa.Value]bool{}) {
				r.OK(R, key, p.InstrPos(in), "made here")
				return
			}
			// a parameter of an unexported constructor-like helper whose callers pass fresh channels
			if par, isPar := st.Val.(*ssa.Parameter); isPar && p.freshChanParam(fn, par) {
				r.OK(R, key, p.InstrPos(in), "made by every caller for this call")
				return
			}
			// the other end of a pair created in the same function
			if ofv, oowner, _ := loadedField(st.Val); ofv != nil && ofv != fv && oowner == f.owner && (freshBase(fa.X, 0) || p.freshParamBase(fn, fa.X)) {
				r.OK(R, key, p.InstrPos(in), "the crossed queue of a pair: the other queue of an object of the same type, installed in an end that is still under construction")
				return
			}
			r.Bad(R, key, p.InstrPos(in), "the channel stored into "+fieldKey(fv, f.owner)+" ("+Desc(st.Val)+") was not made here: it is shared with whatever else holds it — messages queued for one owner are delivered by the other, and a close of one closes both")
		})
	}
	r.Count("e13.channel_stores."+R, n)
}

func (p *Prog) freshChanParam(fn *ssa.Function, par *ssa.Parameter) bool {
	if fn.Parent() != nil {
		return false
	}
	if o := fn.Object(); o == nil || o.Exported() {
		return false
	}
	idx := -1
	for i, pp := range fn.Params {
		if pp == par {
			idx = i
		}
	}
	n := p.CG().Nodes[fn]
	if idx < 0 || n == nil || len(n.In) == 0 {
		return false
	}
	for _, e := range n.In {
		if e.Site == nil || e.Caller.Func == nil || !p.InScope(e.Caller.Func) {
			return false
		}
		c := e.Site.Common()
		var args []ssa.Value
		if c.IsInvoke() {
			args = append([]ssa.Value{c.Value}, c.Args...)
		} else {
			args = c.Args
		}
		if idx >= len(args) || !freshChan(args[idx], map[ssa.Value]bool{}) {
			return false
		}
	}
	return true
}

// DumpE13 prints every replacement of a waited-on channel field with its verdict.
func DumpE13(p *Prog) {
	debugE13 = true
	rep := NewReport("E13", p.Conf.String())
	waitedChannelStable(p, rep, "E13", func(string) bool { return true })
	channelsNotShared(p, rep, "E13s", func(string) bool { return true })
	for fv, f := range p.waitedChanFields() {
		fmt.Println("WAITED", fieldKey(fv, f.owner), len(f.waiters))
	}
	for _, o := range rep.Obs {
		fmt.Printf("%-10s %s %s  %s  %s\n", o.Status, o.Rule, o.Key, o.Pos, o.Msg)
	}
}

// waitersReread (E13c): the other half of the wake-up idiom.  A call that parks in a loop on a
// channel it took from a replaceable field, together with an arm whose only effect is to go
// round the loop again (the wake-up channel: `case <-sizeQ: continue`), must take the queue
// from the field again after every wake-up: the load of the field lies inside the loop.  A
// snapshot taken before the loop is the channel the setter has just discarded.
func waitersReread(p *Prog, r *Report, R string, inPkg func(rel string) bool) {
	r.Describe(R, "a wait loop that is woken through a wake-up channel (an arm that only goes round the loop again) takes every replaceable channel it waits on from its field inside the loop, after the wake-up: a snapshot taken before the loop is the queue the option setter has just discarded, and the call waits on it for ever")
	// channel fields that are replaced somewhere outside construction
	replaced := map[*types.Var]bool{}
	for _, fn := range p.Funcs {
		EachInstr(fn, func(in ssa.Instruction) {
			st, ok := in.(*ssa.Store)
			if !ok {
				return
			}
			fa, ok := st.Addr.(*ssa.FieldAddr)
			if !ok {
				return
			}
			fv, _ := fieldAddrVar(fa)
			if fv == nil {
				return
			}
			if _, isChan := fv.Type().Underlying().(*types.Chan); !isChan {
				return
			}
			if freshBase(fa.X, 0) || p.freshParamBase(fn, fa.X) {
				return
			}
			replaced[fv] = true
		})
	}
	n := 0
	for _, fn := range p.Funcs {
		rel, _ := p.FuncRel(fn)
		if !inPkg(rel) {
			continue
		}
		EachInstr(fn, func(in ssa.Instruction) {
			sel, ok := in.(*ssa.Select)
			if !ok || !sel.Blocking {
				return
			}
			_, body := loopBody(in.Block())
			if body == nil {
				return
			}
			// is there a wake-up arm: a receive arm on a replaced field (sizeQ is itself replaced)
			// whose channel is loaded inside the loop?  Then this is a re-reading waiter.
			hasWake := false
			for _, st := range sel.States {
				if st.Dir != types.RecvOnly {
					continue
				}
				fv, _, _ := loadedField(chanRoot(st.Chan))
				if fv != nil && replaced[fv] && strings.Contains(strings.ToLower(fv.Name()), "size") {
					hasWake = true
				}
			}
			if !hasWake {
				return
			}
			n++
			for _, st := range sel.States {
				fv, owner, okHow, where := rereadInLoop(st.Chan, body)
				if fv == nil || !replaced[fv] {
					continue
				}
				key := p.FuncName(fn) + "/" + fv.Name()
				r.Check(okHow, R, key, p.InstrPos(in), "taken from the field inside the loop on every way round it", "the wait loop is woken through a wake-up channel but, on a way round the loop, still waits on "+fieldKey(fv, owner)+" as it was read at "+p.InstrPos(where)+", outside the loop: after the queue is replaced the call goes on waiting on the discarded channel and never sees what is sent to the new one")
			}
		})
	}
	r.Count("e13c.rereading_waiters."+R, n)
}

// rereadInLoop: the channel value v waited on in a loop with blocks body is a load of field fv
// taken inside the loop, or a loop-carried variable that every way round the loop refreshes
// with such a load.  where = the load outside the loop that can still be waited on.
func rereadInLoop(v ssa.Value, body map[*ssa.BasicBlock]bool) (*types.Var, *types.Named, bool, ssa.Instruction) {
	for i := 0; i < 3; i++ {
		if ct, ok := v.(*ssa.ChangeType); ok {
			v = ct.X
			continue
		}
		if u, ok := v.(*ssa.UnOp); ok && u.Op == token.MUL {
			if rv := reachingStore(u); rv != nil {
				v = rv
				continue
			}
		}
		break
	}
	if fv, owner, _ := loadedField(v); fv != nil {
		li := v.(ssa.Instruction)
		return fv, owner, body[li.Block()], li
	}
	ph, ok := v.(*ssa.Phi)
	if !ok {
		return nil, nil, true, nil
	}
	var fv *types.Var
	var owner *types.Named
	okAll := true
	var where ssa.Instruction
	for i, e := range ph.Edges {
		pred := ph.Block().Preds[i]
		if ct, ok := e.(*ssa.ChangeType); ok {
			e = ct.X
		}
		f2, o2, _ := loadedField(e)
		if f2 != nil {
			fv, owner = f2, o2
		}
		if !body[pred] {
			if f2 != nil && where == nil {
				where = e.(ssa.Instruction)
			}
			continue // the value the loop is entered with
		}
		// a way round the loop: must carry a load made inside the loop
		if f2 == nil {
			if e == ssa.Value(ph) {
				okAll = false // unchanged round the loop
			} else if p2, isPhi := e.(*ssa.Phi); isPhi {
				// a merge inside the loop (the arms that go round): each of its sources
				for _, e2 := range p2.Edges {
					if f3, _, _ := loadedField(e2); f3 != nil {
						if li := e2.(ssa.Instruction); !body[li.Block()] {
							okAll = false
						}
					} else if e2 == ssa.Value(ph) {
						okAll = false
					}
				}
			}
			continue
		}
		if li := e.(ssa.Instruction); !body[li.Block()] {
			okAll = false
		}
	}
	if fv == nil {
		return nil, nil, true, nil
	}
	if where == nil {
		where = ph
	}
	return fv, owner, okAll, where
}

// chanRoot: the load behind a channel value that went through merges of the same load or a
// local cell.
func chanRoot(v ssa.Value) ssa.Value {
	for i := 0; i < 4; i++ {
		switch x := v.(type) {
		case *ssa.ChangeType:
			v = x.X
			continue
		case *ssa.UnOp:
			if x.Op == token.MUL {
				if rv := reachingStore(x); rv != nil {
					v = rv
					continue
				}
			}
		case *ssa.Phi:
			// a loop-carried snapshot: entry value and refreshed value; the entry edge decides
			if len(x.Edges) > 0 {
				v = x.Edges[0]
				continue
			}
		}
		break
	}
	return v
}
