package an

import (
	"bytes"
	"fmt"
	"go/ast"
	"go/format"
	"go/token"
	"go/types"
	"os"
	"sort"
	"strings"
)

// Mechanical behaviour-preserving rewrites of the library source, used to measure the false
// alarm rate of the checks on code whose behaviour is unchanged BY CONSTRUCTION:
//
//	rename-locals   every parameter, receiver, named result, local variable and label of every
//	                function gets a new name (old name + "_q"); nothing else changes
//	rotate-select   the cases of every select statement are rotated by one (the order of the
//	                cases of a select has no meaning in Go)
//	invert-if       `if c { A } else { B }` (no init statement, plain else block) becomes
//	                `if !(c) { B } else { A }`
//	nest-else       `if c { A; return }; B…` (A ending in return, continue, break, goto or panic, no
//	                else) becomes `if c { A; return } else { B… }`, at every level
//	reverse-decls   the function declarations of every file are put in the reverse order
//	switch-to-if    a `switch tag { case a, b: …; default: … }` whose tag is a variable or field
//	                path (no call), with no init statement, fallthrough or unlabelled break,
//	                becomes `if tag == a || tag == b { … } else if … else { … }`
//	split-and       `if a && b { X }` (no init, no else) becomes `if a { if b { X } }`
//	unlock-to-defer in a function whose body has exactly one top-level `X.Lock()` statement and
//	                where every return after it (and the end of the body) is immediately
//	                preceded by `X.Unlock()`, with nothing but plain values returned, and no other
//	                use of X's lock methods: `defer X.Unlock()` after the Lock, Unlocks removed
//	                (differs from the original only if the section panics)
//	range-to-index  `for k, v := range xs { B }` over a slice held in a local that B does not assign
//	                (no closures in B) becomes `for k := 0; k < len(xs); k++ { v := xs[k]; B }`
//	swap-compare    `a == b` -> `b == a`, `a != b` -> `b != a`, `a < b` -> `b > a`, … when neither
//	                operand contains a call, a receive or an index/slice expression that could
//	                panic in a different order
//
// The rewrite is applied to the files of the subject packages under dir (a scratch worktree,
// never /repo) and written back in place; the caller builds, vets and runs the test suite on
// the result and then runs the checks against it.
func MechRefactor(kind, dir string) (int, error) {
	p, err := Load(Config{Dir: dir})
	if err != nil {
		return 0, err
	}
	changed := 0
	for _, pk := range p.SubjectPkgs() {
		for i, f := range pk.Syntax {
			name := pk.CompiledGoFiles[i]
			if !strings.HasPrefix(name, dir) || strings.HasSuffix(name, "_test.go") {
				continue
			}
			n := 0
			kinds := []string{kind}
			if kind == "all" {
				// one load, every rewrite in turn on the same syntax trees (the type
				// information stays valid: nodes are mutated in place, new nodes are
				// treated conservatively by the later rewrites)
				kinds = []string{"range-to-index", "switch-to-if", "split-and", "invert-if", "nest-else", "unlock-to-defer", "rotate-select", "swap-compare", "rename-locals", "reverse-decls"}
			}
			for _, k := range kinds {
				switch k {
				case "rename-locals":
					n += mechRename(f, pk.TypesInfo, pk.Types)
				case "rotate-select":
					n += mechRotateSelect(f)
				case "invert-if":
					n += mechInvertIf(f)
				case "swap-compare":
					n += mechSwapCompare(f, pk.TypesInfo)
				case "nest-else":
					n += mechNestElse(f, pk.TypesInfo)
				case "reverse-decls":
					n += mechReverseDecls(f)
				case "switch-to-if":
					n += mechSwitchToIf(f, pk.TypesInfo)
				case "split-and":
					n += mechSplitAnd(f)
				case "unlock-to-defer":
					n += mechUnlockToDefer(f, p.Fset)
				case "range-to-index":
					n += mechRangeToIndex(f, pk.TypesInfo)
				default:
					return 0, fmt.Errorf("unknown rewrite %q", kind)
				}
			}
			if n == 0 {
				continue
			}
			var buf bytes.Buffer
			if err := format.Node(&buf, p.Fset, f); err != nil {
				return changed, fmt.Errorf("%s: %v", name, err)
			}
			if err := os.WriteFile(name, buf.Bytes(), 0o644); err != nil {
				return changed, err
			}
			changed += n
		}
	}
	return changed, nil
}

func mechRename(f *ast.File, info *types.Info, pkg *types.Package) int {
	n := 0
	rename := func(id *ast.Ident, obj types.Object) {
		if obj == nil || id.Name == "_" || id.Name == "" {
			return
		}
		switch o := obj.(type) {
		case *types.Var:
			if o.IsField() || o.Pkg() != pkg {
				return
			}
			if o.Parent() == nil || o.Parent() == pkg.Scope() || o.Parent() == types.Universe {
				return // package level
			}
		case *types.Label:
		default:
			return
		}
		if !strings.HasSuffix(id.Name, "_q") {
			id.Name += "_q"
			n++
		}
	}
	ast.Inspect(f, func(node ast.Node) bool {
		switch x := node.(type) {
		case *ast.Ident:
			if obj := info.Defs[x]; obj != nil {
				rename(x, obj)
			} else if obj := info.Uses[x]; obj != nil {
				rename(x, obj)
			}
		case *ast.TypeSwitchStmt:
			// `switch v := x.(type)`: the symbolic variable has no object of its own (one
			// implicit object per clause, found through Uses)
			if as, ok := x.Assign.(*ast.AssignStmt); ok && len(as.Lhs) == 1 {
				if id, ok := as.Lhs[0].(*ast.Ident); ok && id.Name != "_" && !strings.HasSuffix(id.Name, "_q") {
					id.Name += "_q"
					n++
				}
			}
		}
		return true
	})
	return n
}

func mechRotateSelect(f *ast.File) int {
	n := 0
	ast.Inspect(f, func(node ast.Node) bool {
		sel, ok := node.(*ast.SelectStmt)
		if !ok || sel.Body == nil || len(sel.Body.List) < 2 {
			return true
		}
		// a clause ending in fallthrough cannot occur in a select; plain rotation is safe
		l := sel.Body.List
		sel.Body.List = append(append([]ast.Stmt{}, l[1:]...), l[0])
		n++
		return true
	})
	return n
}

func mechInvertIf(f *ast.File) int {
	n := 0
	ast.Inspect(f, func(node ast.Node) bool {
		is, ok := node.(*ast.IfStmt)
		if !ok || is.Init != nil || is.Else == nil {
			return true
		}
		eb, ok := is.Else.(*ast.BlockStmt)
		if !ok {
			return true // else-if chain
		}
		// `if v, ok := …` excluded by Init == nil; the condition has no assignment
		is.Cond = &ast.UnaryExpr{Op: token.NOT, X: &ast.ParenExpr{X: is.Cond}}
		is.Body, is.Else = eb, is.Body
		n++
		return true
	})
	return n
}

func mechSwapCompare(f *ast.File, info *types.Info) int {
	n := 0
	simple := func(e ast.Expr) bool {
		ok := true
		ast.Inspect(e, func(m ast.Node) bool {
			switch y := m.(type) {
			case *ast.CallExpr:
				// conversions and len/cap are fine
				if id, isId := y.Fun.(*ast.Ident); isId && (id.Name == "len" || id.Name == "cap") {
					return true
				}
				if tv, has := info.Types[y.Fun]; has && tv.IsType() {
					return true
				}
				ok = false
			case *ast.IndexExpr, *ast.SliceExpr, *ast.StarExpr, *ast.TypeAssertExpr:
				ok = false
			case *ast.UnaryExpr:
				if y.Op == token.ARROW {
					ok = false
				}
			}
			return ok
		})
		return ok
	}
	swap := map[token.Token]token.Token{token.EQL: token.EQL, token.NEQ: token.NEQ, token.LSS: token.GTR, token.GTR: token.LSS, token.LEQ: token.GEQ, token.GEQ: token.LEQ}
	ast.Inspect(f, func(node ast.Node) bool {
		be, ok := node.(*ast.BinaryExpr)
		if !ok {
			return true
		}
		op, isCmp := swap[be.Op]
		if !isCmp || !simple(be.X) || !simple(be.Y) {
			return true
		}
		// keep untyped nil/constants comparisons valid: swapping is always type-correct
		be.X, be.Y, be.Op = be.Y, be.X, op
		n++
		return true
	})
	return n
}

func mechNestElse(f *ast.File, info *types.Info) int {
	n := 0
	terminates := func(b *ast.BlockStmt) bool {
		if len(b.List) == 0 {
			return false
		}
		switch x := b.List[len(b.List)-1].(type) {
		case *ast.ReturnStmt:
			return true
		case *ast.BranchStmt:
			return x.Tok == token.CONTINUE || x.Tok == token.BREAK || x.Tok == token.GOTO
		case *ast.ExprStmt:
			if c, ok := x.X.(*ast.CallExpr); ok {
				if id, ok := c.Fun.(*ast.Ident); ok && id.Name == "panic" {
					return true
				}
			}
		}
		return false
	}
	var nest func(list []ast.Stmt) []ast.Stmt
	nest = func(list []ast.Stmt) []ast.Stmt {
		for i, st := range list {
			is, ok := st.(*ast.IfStmt)
			if !ok || is.Else != nil || !terminates(is.Body) || i == len(list)-1 {
				continue
			}
			// a declaration in the rest that a label or a later closure needs stays in scope:
			// the rest moves as a whole
			hasLabel := false
			for _, r := range list[i+1:] {
				if _, ok := r.(*ast.LabeledStmt); ok {
					hasLabel = true // goto into a block is illegal
				}
				// `a, err := …` that re-uses an outer err would declare a new one inside the
				// else block: leave such a tail where it is
				if as, ok := r.(*ast.AssignStmt); ok && as.Tok == token.DEFINE {
					for _, l := range as.Lhs {
						if id, ok := l.(*ast.Ident); ok && id.Name != "_" && info.Defs[id] == nil {
							hasLabel = true
						}
					}
				}
			}
			if hasLabel {
				continue
			}
			rest := nest(append([]ast.Stmt{}, list[i+1:]...))
			is.Else = &ast.BlockStmt{Lbrace: is.Body.Rbrace, List: rest, Rbrace: rest[len(rest)-1].End()}
			n++
			return list[:i+1]
		}
		return list
	}
	ast.Inspect(f, func(node ast.Node) bool {
		switch x := node.(type) {
		case *ast.BlockStmt:
			x.List = nest(x.List)
		case *ast.CaseClause:
			x.Body = nest(x.Body)
		case *ast.CommClause:
			x.Body = nest(x.Body)
		}
		return true
	})
	return n
}

func mechReverseDecls(f *ast.File) int {
	var idx []int
	for i, d := range f.Decls {
		if fd, ok := d.(*ast.FuncDecl); ok && fd.Name.Name != "init" {
			idx = append(idx, i)
		}
	}
	// detach the doc comments' positions: go/format prints comments by position, so moving
	// declarations would scatter them; the rewrite drops all comments of the file instead
	for i, j := 0, len(idx)-1; i < j; i, j = i+1, j-1 {
		f.Decls[idx[i]], f.Decls[idx[j]] = f.Decls[idx[j]], f.Decls[idx[i]]
	}
	if len(idx) > 1 {
		stripComments(f)
	}
	return len(idx) / 2
}

// stripComments removes every comment except build constraints / directives that precede
// the package clause (they stay attached by position).
func stripComments(f *ast.File) {
	var keep []*ast.CommentGroup
	for _, cg := range f.Comments {
		if cg.End() < f.Package {
			keep = append(keep, cg)
		}
	}
	f.Comments = keep
	ast.Inspect(f, func(n ast.Node) bool {
		switch x := n.(type) {
		case *ast.FuncDecl:
			x.Doc = nil
		case *ast.GenDecl:
			x.Doc = nil
		case *ast.Field:
			x.Doc, x.Comment = nil, nil
		case *ast.ValueSpec:
			x.Doc, x.Comment = nil, nil
		case *ast.TypeSpec:
			x.Doc, x.Comment = nil, nil
		case *ast.ImportSpec:
			x.Doc, x.Comment = nil, nil
		}
		return true
	})
}

func mechSwitchToIf(f *ast.File, info *types.Info) int {
	n := 0
	simpleTag := func(e ast.Expr) bool {
		for {
			switch x := e.(type) {
			case *ast.Ident:
				return true
			case *ast.SelectorExpr:
				e = x.X
			default:
				return false
			}
		}
	}
	hasBreak := func(body []ast.Stmt) bool {
		found := false
		for _, st := range body {
			ast.Inspect(st, func(m ast.Node) bool {
				switch y := m.(type) {
				case *ast.ForStmt, *ast.RangeStmt, *ast.SwitchStmt, *ast.TypeSwitchStmt, *ast.SelectStmt, *ast.FuncLit:
					_ = y
					return false // an unlabelled break in there binds to that statement
				case *ast.BranchStmt:
					if (y.Tok == token.BREAK && y.Label == nil) || y.Tok == token.FALLTHROUGH {
						found = true
					}
				}
				return true
			})
		}
		return found
	}
	convert := func(sw *ast.SwitchStmt) ast.Stmt {
		if sw.Init != nil || sw.Tag == nil || !simpleTag(sw.Tag) || len(sw.Body.List) == 0 {
			return nil
		}
		var clauses []*ast.CaseClause
		var def *ast.CaseClause
		for _, st := range sw.Body.List {
			cc := st.(*ast.CaseClause)
			if hasBreak(cc.Body) {
				return nil
			}
			if cc.List == nil {
				def = cc
			} else {
				clauses = append(clauses, cc)
			}
			for _, e := range cc.List {
				if tv, ok := info.Types[e]; !ok || tv.Value == nil {
					return nil // only constant cases: no evaluation-order question
				}
			}
		}
		if len(clauses) == 0 {
			return nil
		}
		var head, cur *ast.IfStmt
		for _, cc := range clauses {
			var cond ast.Expr
			for _, e := range cc.List {
				c := &ast.BinaryExpr{X: sw.Tag, Op: token.EQL, Y: e}
				if cond == nil {
					cond = c
				} else {
					cond = &ast.BinaryExpr{X: cond, Op: token.LOR, Y: c}
				}
			}
			is := &ast.IfStmt{Cond: cond, Body: &ast.BlockStmt{List: cc.Body}}
			if head == nil {
				head = is
			} else {
				cur.Else = is
			}
			cur = is
		}
		if def != nil {
			cur.Else = &ast.BlockStmt{List: def.Body}
		}
		return head
	}
	var rewrite func(list []ast.Stmt)
	rewrite = func(list []ast.Stmt) {
		for i, st := range list {
			if sw, ok := st.(*ast.SwitchStmt); ok {
				if r := convert(sw); r != nil {
					list[i] = r
					n++
				}
			}
		}
	}
	ast.Inspect(f, func(node ast.Node) bool {
		switch x := node.(type) {
		case *ast.BlockStmt:
			rewrite(x.List)
		case *ast.CaseClause:
			rewrite(x.Body)
		case *ast.CommClause:
			rewrite(x.Body)
		}
		return true
	})
	if n > 0 {
		stripComments(f)
	}
	return n
}

func mechSplitAnd(f *ast.File) int {
	n := 0
	ast.Inspect(f, func(node ast.Node) bool {
		is, ok := node.(*ast.IfStmt)
		if !ok || is.Init != nil || is.Else != nil {
			return true
		}
		be, ok := is.Cond.(*ast.BinaryExpr)
		if !ok || be.Op != token.LAND {
			return true
		}
		inner := &ast.IfStmt{Cond: be.Y, Body: is.Body}
		is.Cond = be.X
		is.Body = &ast.BlockStmt{List: []ast.Stmt{inner}}
		n++
		return true
	})
	return n
}

func mechUnlockToDefer(f *ast.File, fset *token.FileSet) int {
	n := 0
	exprStr := func(e ast.Expr) string {
		var b bytes.Buffer
		format.Node(&b, fset, e)
		return b.String()
	}
	lockCall := func(st ast.Stmt) (recv, method string) {
		es, ok := st.(*ast.ExprStmt)
		if !ok {
			return "", ""
		}
		c, ok := es.X.(*ast.CallExpr)
		if !ok || len(c.Args) != 0 {
			return "", ""
		}
		se, ok := c.Fun.(*ast.SelectorExpr)
		if !ok {
			return "", ""
		}
		switch se.Sel.Name {
		case "Lock", "Unlock", "RLock", "RUnlock":
			return exprStr(se.X), se.Sel.Name
		}
		return "", ""
	}
	plain := func(e ast.Expr) bool {
		ok := true
		ast.Inspect(e, func(m ast.Node) bool {
			switch m.(type) {
			case *ast.CallExpr, *ast.IndexExpr, *ast.StarExpr, *ast.UnaryExpr, *ast.FuncLit, *ast.SliceExpr, *ast.TypeAssertExpr:
				ok = false
			case *ast.SelectorExpr:
				ok = false // a field read after the unlock would move under the lock: harmless, but not "plain"
			}
			return ok
		})
		return ok
	}
	for _, d := range f.Decls {
		fd, ok := d.(*ast.FuncDecl)
		if !ok || fd.Body == nil {
			continue
		}
		// the single top-level Lock
		li, recv := -1, ""
		count := 0
		for i, st := range fd.Body.List {
			if r, m := lockCall(st); m == "Lock" {
				li, recv = i, r
				count++
			}
		}
		if count != 1 {
			continue
		}
		// every lock-method call on recv, anywhere, and every return after the Lock
		okFn := true
		var unlockLists []*[]ast.Stmt
		nLockCalls := 0
		ast.Inspect(fd.Body, func(m ast.Node) bool {
			switch x := m.(type) {
			case *ast.FuncLit, *ast.DeferStmt, *ast.GoStmt:
				// a closure or a defer that touches the lock: leave the function alone
				ast.Inspect(x, func(k ast.Node) bool {
					if se, ok := k.(*ast.SelectorExpr); ok && exprStr(se.X) == recv {
						switch se.Sel.Name {
						case "Lock", "Unlock", "RLock", "RUnlock", "Wait":
							okFn = false
						}
					}
					return true
				})
				return false
			case *ast.SelectorExpr:
				if exprStr(x.X) == recv {
					switch x.Sel.Name {
					case "Lock", "Unlock", "RLock", "RUnlock":
						nLockCalls++
					}
				}
			}
			return true
		})
		var visit func(list *[]ast.Stmt, after bool, top bool) bool
		nUnlock := 0
		visit = func(list *[]ast.Stmt, after bool, top bool) bool {
			for i := 0; i < len(*list); i++ {
				st := (*list)[i]
				if top && i == li {
					after = true
					continue
				}
				if r, m := lockCall(st); r == recv && m != "" {
					if m != "Unlock" || !after {
						return false
					}
					// must be followed by a return of plain values, or be the last statement of the body
					if i+1 < len(*list) {
						rs, ok := (*list)[i+1].(*ast.ReturnStmt)
						if !ok {
							return false
						}
						for _, e := range rs.Results {
							if !plain(e) {
								return false
							}
						}
					} else if !top {
						return false
					}
					nUnlock++
					unlockLists = append(unlockLists, list)
					continue
				}
				if rs, ok := st.(*ast.ReturnStmt); ok && after {
					_ = rs
					if i == 0 {
						return false
					}
					if r, m := lockCall((*list)[i-1]); r != recv || m != "Unlock" {
						return false
					}
				}
				okNested := true
				switch x := st.(type) {
				case *ast.BlockStmt:
					okNested = visit(&x.List, after, false)
				case *ast.IfStmt:
					okNested = visit(&x.Body.List, after, false)
					for e := x.Else; e != nil && okNested; {
						switch y := e.(type) {
						case *ast.BlockStmt:
							okNested = visit(&y.List, after, false)
							e = nil
						case *ast.IfStmt:
							okNested = visit(&y.Body.List, after, false)
							e = y.Else
						default:
							e = nil
						}
					}
				case *ast.ForStmt:
					okNested = visit(&x.Body.List, after, false)
				case *ast.RangeStmt:
					okNested = visit(&x.Body.List, after, false)
				case *ast.SwitchStmt:
					for _, c := range x.Body.List {
						okNested = okNested && visit(&c.(*ast.CaseClause).Body, after, false)
					}
				case *ast.TypeSwitchStmt:
					for _, c := range x.Body.List {
						okNested = okNested && visit(&c.(*ast.CaseClause).Body, after, false)
					}
				case *ast.SelectStmt:
					for _, c := range x.Body.List {
						okNested = okNested && visit(&c.(*ast.CommClause).Body, after, false)
					}
				case *ast.LabeledStmt:
					okNested = false
				}
				if !okNested {
					return false
				}
			}
			return true
		}
		if !okFn || !visit(&fd.Body.List, false, true) || nUnlock == 0 || nLockCalls != nUnlock+1 {
			continue
		}
		// the end of the body must be an Unlock or a return
		last := fd.Body.List[len(fd.Body.List)-1]
		if _, isRet := last.(*ast.ReturnStmt); !isRet {
			if r, m := lockCall(last); r != recv || m != "Unlock" {
				continue
			}
		}
		// rewrite: drop the Unlock statements, add the defer
		seen := map[*[]ast.Stmt]bool{}
		for _, l := range unlockLists {
			if seen[l] {
				continue
			}
			seen[l] = true
			var out []ast.Stmt
			for _, st := range *l {
				if r, m := lockCall(st); r == recv && m == "Unlock" {
					continue
				}
				out = append(out, st)
			}
			*l = out
		}
		lockStmt := fd.Body.List[li].(*ast.ExprStmt).X.(*ast.CallExpr)
		sel := lockStmt.Fun.(*ast.SelectorExpr)
		def := &ast.DeferStmt{Call: &ast.CallExpr{Fun: &ast.SelectorExpr{X: sel.X, Sel: ast.NewIdent("Unlock")}}}
		nl := append([]ast.Stmt{}, fd.Body.List[:li+1]...)
		nl = append(nl, def)
		nl = append(nl, fd.Body.List[li+1:]...)
		fd.Body.List = nl
		n++
	}
	if n > 0 {
		stripComments(f)
	}
	return n
}

// MechKinds lists the rewrites.
func MechKinds() []string {
	ks := []string{"range-to-index", "rename-locals", "rotate-select", "invert-if", "swap-compare", "nest-else", "reverse-decls", "switch-to-if", "split-and", "unlock-to-defer"}
	sort.Strings(ks)
	return ks
}

// mechRangeToIndex rewrites range loops over local slices into index loops.
func mechRangeToIndex(f *ast.File, info *types.Info) int {
	n := 0
	fresh := 0
	var visit func(list []ast.Stmt)
	rewrite := func(st ast.Stmt) ast.Stmt {
		rs, ok := st.(*ast.RangeStmt)
		if !ok || rs.Tok != token.DEFINE {
			return st
		}
		x, ok := rs.X.(*ast.Ident)
		if !ok {
			return st
		}
		t := info.TypeOf(rs.X)
		if t == nil {
			return st
		}
		if _, isSlice := t.Underlying().(*types.Slice); !isSlice {
			return st
		}
		var key, val *ast.Ident
		if rs.Key != nil {
			key, _ = rs.Key.(*ast.Ident)
			if key == nil {
				return st
			}
		}
		if rs.Value != nil {
			val, _ = rs.Value.(*ast.Ident)
			if val == nil {
				return st
			}
		}
		if key != nil && key.Name == "_" {
			key = nil
		}
		bad := false
		ast.Inspect(rs.Body, func(c ast.Node) bool {
			switch y := c.(type) {
			case *ast.FuncLit:
				bad = true
			case *ast.AssignStmt:
				for _, l := range y.Lhs {
					if id, ok := l.(*ast.Ident); ok && (id.Name == x.Name || (key != nil && id.Name == key.Name)) {
						bad = true
					}
				}
			case *ast.IncDecStmt:
				if id, ok := y.X.(*ast.Ident); ok && key != nil && id.Name == key.Name {
					bad = true
				}
			case *ast.UnaryExpr:
				if id, ok := y.X.(*ast.Ident); ok && y.Op == token.AND && (id.Name == x.Name || (key != nil && id.Name == key.Name)) {
					bad = true
				}
			}
			return !bad
		})
		if bad {
			return st
		}
		idx := key
		if idx == nil || idx.Name == "_" {
			fresh++
			idx = ast.NewIdent(fmt.Sprintf("mechI%d", fresh))
		}
		body := rs.Body
		if val != nil && val.Name != "_" {
			decl := &ast.AssignStmt{Lhs: []ast.Expr{ast.NewIdent(val.Name)}, Tok: token.DEFINE, Rhs: []ast.Expr{&ast.IndexExpr{X: ast.NewIdent(x.Name), Index: ast.NewIdent(idx.Name)}}}
			body = &ast.BlockStmt{List: append([]ast.Stmt{decl}, rs.Body.List...)}
		}
		n++
		return &ast.ForStmt{
			Init: &ast.AssignStmt{Lhs: []ast.Expr{ast.NewIdent(idx.Name)}, Tok: token.DEFINE, Rhs: []ast.Expr{&ast.BasicLit{Kind: token.INT, Value: "0"}}},
			Cond: &ast.BinaryExpr{X: ast.NewIdent(idx.Name), Op: token.LSS, Y: &ast.CallExpr{Fun: ast.NewIdent("len"), Args: []ast.Expr{ast.NewIdent(x.Name)}}},
			Post: &ast.IncDecStmt{X: ast.NewIdent(idx.Name), Tok: token.INC},
			Body: body,
		}
	}
	visit = func(list []ast.Stmt) {
		for i, st := range list {
			if ls, ok := st.(*ast.LabeledStmt); ok {
				_ = ls // labelled loops are left alone (continue/break labels refer to them)
				continue
			}
			list[i] = rewrite(st)
		}
	}
	ast.Inspect(f, func(c ast.Node) bool {
		switch y := c.(type) {
		case *ast.BlockStmt:
			visit(y.List)
		case *ast.CaseClause:
			visit(y.Body)
		case *ast.CommClause:
			visit(y.Body)
		}
		return true
	})
	if n > 0 {
		stripComments(f)
	}
	return n
}
