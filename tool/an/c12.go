package an

import (
	"fmt"

	"golang.org/x/tools/go/ssa"
)

func init() {
	register(&PropInfo{ID: "C12", Run: runC12,
		Explanation: "E1 lock typestate over every function of the module on SSA: every path from a mutex acquisition to a return releases it (incl. defer), no lock is re-acquired while held (directly or through a callee's parameter-relative acquisition summary), no unlock of a lock not held, lock states agree at joins.",
		Assumptions: commonAssumptions})
}

// e1Obligations turns E1's per-function results into obligations (one per function with
// lock operations, plus one per issue).
func e1Obligations(p *Prog, r *Report, rule string, kinds map[string]bool) {
	res := p.E1()
	bad := map[string]bool{}
	for _, is := range res.issues {
		if !kinds[is.Kind] || !p.InScope(is.Fn) {
			continue
		}
		key := p.FuncName(is.Fn) + "/" + is.Kind + "/" + is.Lock.Path
		bad[p.FuncName(is.Fn)] = true
		r.Bad(rule, key, p.InstrPos(is.In), is.Msg, is.Wit...)
	}
	n := 0
	for _, fn := range p.Funcs {
		has := false
		EachInstr(fn, func(in ssa.Instruction) {
			if c := CallOf(in); c != nil && classifyLockCall(c) != nil {
				has = true
			}
		})
		if has {
			n++
			if !bad[p.FuncName(fn)] {
				r.OK(rule, p.FuncName(fn), p.Pos(fn.Pos()), "all paths pair Lock/Unlock")
			}
		}
	}
	r.Count("e1.functions_with_lock_ops", n)
	r.Count("e1.acquisition_sites", res.acqSites)
	r.Count("e1.unlock_sites", res.unlSites)
	r.Count("e1.deferred_unlocks", res.deferUnl)
}

func runC12(p *Prog, r *Report) {
	r.Describe("C12.1/E1", "lock typestate: held-at-return, double-lock, callee re-lock, unlock-not-held, inconsistent join")
	e1Obligations(p, r, "C12.1/E1", map[string]bool{"held-at-return": true, "double-lock": true, "callee-relock": true, "unlock-not-held": true, "join": true})
	r.Floor("C12.1/E1", "e1.functions_with_lock_ops", 150)
	_ = fmt.Sprint
}
