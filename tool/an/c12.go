package an

import (
	"fmt"
	"strings"

	"golang.org/x/tools/go/ssa"
)

func init() {
	register(&PropInfo{ID: "C12", Run: runC12,
		Explanation: "E1 lock typestate over every function of the module on SSA: every path from a mutex acquisition to a return releases it (incl. defer), no lock is re-acquired while held (directly or through a callee's parameter-relative acquisition summary), no unlock of a lock not held, lock states agree at joins.",
		Assumptions: commonAssumptions})
}

// e1Obligations turns E1's per-function results into obligations (one per function with
// lock operations, plus one per issue).
func e1Obligations(p *Prog, r *Report, rule string, kinds map[string]bool) {
	res := p.E1()
	bad := map[string]bool{}
	for _, is := range res.issues {
		if !kinds[is.Kind] || !p.InScope(is.Fn) {
			continue
		}
		key := p.FuncName(is.Fn) + "/" + is.Kind + "/" + is.Lock.Path
		bad[p.FuncName(is.Fn)] = true
		r.Bad(rule, key, p.InstrPos(is.In), is.Msg, is.Wit...)
	}
	n := 0
	for _, fn := range p.Funcs {
		has := false
		EachInstr(fn, func(in ssa.Instruction) {
			if c := CallOf(in); c != nil && classifyLockCall(c) != nil {
				has = true
			}
		})
		if has {
			n++
			if !bad[p.FuncName(fn)] {
				r.OK(rule, p.FuncName(fn), p.Pos(fn.Pos()), "all paths pair Lock/Unlock")
			}
		}
	}
	r.Count("e1.functions_with_lock_ops", n)
	r.Count("e1.acquisition_sites", res.acqSites)
	r.Count("e1.unlock_sites", res.unlSites)
	r.Count("e1.deferred_unlocks", res.deferUnl)
}

// Frozen allow-list of blocking operations under a mutex (DESIGN 3.4/E4a).  Each entry
// names the function, the operation and why it cannot block indefinitely.
var c12Allow = []allowEntry{
	{Fn: "internal/core.(*listener).Listen", Match: "net..DialTimeout", NotOS: "windows",
		Reason: "the core listener lock is held across the transport's Listen on purpose (so that Close cannot interleave with the bind); the ipc transport probes a stale socket file with a 100 ms DialTimeout, which bounds the wait of a concurrent Close or second Listen on the same listener"},
	{Fn: "protocol/sub.(*pipe).receiver", Match: "chan-send: send on next(range(recv.s.ctxs))#1.recvQ",
		Reason: "re-send after making room in a buffered queue; only holders of the socket lock send to it (capacity >= 1 is obligation C19.2/E10c)"},
	{Fn: "protocol/sub.(*context).unsubscribe", Match: "chan-send: send on recv.recvQ",
		Reason: "re-queues at most as many messages as the old queue held into a fresh queue of the same capacity, under the socket lock"},
	{Fn: "protocol/sub.(*context).SetOption", Match: "protocol/sub.(*context).unsubscribe",
		Reason: "calls unsubscribe (see there) with the socket lock held by design"},
	{Fn: "protocol/xpush.(*socket).sender", Match: "chan-recv: receive from recv.sendQ", Guard: "len(recv.sendQ) != 0",
		Reason: "receive is guarded by len(sendQ) != 0 under the same lock that every other receiver of sendQ holds"},
	{Fn: "transport/ipc.(*listener).removeStaleIPC", Match: "net..DialTimeout", NotOS: "windows",
		Reason: "probe dial to detect a stale socket file, bounded by its 100 ms timeout"},
	{Fn: "transport/ipc.(*listener).Listen", Match: "transport/ipc.(*listener).removeStaleIPC", NotOS: "windows",
		Reason: "calls removeStaleIPC (bounded probe dial) while holding the listener lock"},
}

func runC12(p *Prog, r *Report) {
	nilSafe(p, r, "C12.18/nil-safe", "an endpoint that was never started, failed to start or was closed has optional fields unset: Close before Listen, a retry after a failed bind or an option on a fresh object must not crash", func(fn *ssa.Function) bool {
		rel, _ := p.FuncRel(fn)
		return rel != "macat"
	})
	r.Floor("C12.18/nil-safe", "e12a.map_writes.C12.18/nil-safe", 15)
	r.Floor("C12.18/nil-safe", "e12b.uses.C12.18/nil-safe", 20)
	dialStoresNoOptionState(p, r, "C12.17/dial-reads-options-at-use")
	r.Floor("C12.17/dial-reads-options-at-use", "transport_dials.C12.17/dial-reads-options-at-use", 4)
	closerLeaks(p, r, "C12.16/closer-leak", func(rel string) bool {
		return strings.HasPrefix(rel, "transport") || rel == "internal/core" || rel == "macat"
	})
	r.Floor("C12.16/closer-leak", "e11.acquisitions.C12.16/closer-leak", 8)
	{
		q := NewQ(p, r)
		R := "C12.6/in-progress-flag-cleared"
		r.Describe(R, "the 'a receive is in progress' flag of REP and REQ contexts is cleared on every return of RecvMsg, including the timeout and closed returns: otherwise one expired deadline makes every later Recv fail at once")
		q.TokenReleased(R, "protocol/rep.(*context).RecvMsg/recvWait", q.Fn(R, "protocol/rep", "context", "RecvMsg"), "recv.recvWait")
		q.TokenReleased(R, "protocol/req.(*context).RecvMsg/receiveWait", q.Fn(R, "protocol/req", "context", "RecvMsg"), "recv.receiveWait")
	}
	{
		q := NewQ(p, r)
		R := "C12.7/refused-dial-leaves-listener-intact"
		r.Describe(R, "an inproc Dial that fails (no listener, wrong protocol) has not consumed one of the listener's pending accepters: all validation precedes the rendezvous")
		if f := q.Fn(R, "transport/inproc", "dialer", "Dial"); f.OK() {
			reach := blockReach(f.fn)
			bad := ""
			pops := f.Ev("store", "*.accepters")
			for _, st := range pops {
				for _, rt := range f.Ev("return", "") {
					if len(rt.Args) == 2 && rt.Args[1] != "nil" && CanPrecede(reach, st.In, rt.In) && FeasiblyPrecedes(st.In, rt.In) {
						bad = "the accepter taken at " + p.InstrPos(st.In) + " can be followed by the error return at " + p.InstrPos(rt.In)
					}
				}
			}
			r.Check(len(pops) >= 1 && bad == "", R, "inproc.Dial", f.Pos(), "no error return after an accepter was taken", "inproc Dial takes a pending accepter from the listener and then fails ("+bad+"): the listener's Accept stays blocked on the consumed accepter and no later dialer is ever served")
		}
	}
	r.Describe("C12.8/E10c", "premise of the allow-listed blocking send under the SUB socket lock: the queue has capacity >= 1")
	e10Capacity(p, r, "C12.8/E10c", needCapOne, func(dest string) bool { return dest == "protocol/sub.context.recvQ" })
	{
		R := "C12.9/only-Close-closes"
		r.Describe(R, "a transport endpoint's close channel is closed only by its Close method: a failed Listen/Dial/Accept never closes it, so the corrected call can be retried on the same object")
		n := 0
		for _, fn := range p.Funcs {
			rel, _ := p.FuncRel(fn)
			if !strings.HasPrefix(rel, "transport") {
				continue
			}
			for _, e := range p.Events(fn) {
				if e.Kind != "close" || len(e.Args) != 1 || !strings.Contains(strings.ToLower(e.Args[0]), "closeq") {
					continue
				}
				// only endpoint objects (listener/dialer), not per-connection pipes
				if !strings.HasPrefix(e.Args[0], "recv.") && !strings.HasPrefix(e.Args[0], "$l.") && !strings.HasPrefix(e.Args[0], "$d.") {
					continue
				}
				n++
				root := fn
				for root.Parent() != nil {
					root = root.Parent()
				}
				// (a method handed to once.Do inside Close is named Close$1, like the closure)
				inClose := root.Name() == "Close" || strings.Contains(p.FuncName(fn), ").Close$")
				r.Check(inClose, R, p.FuncName(fn)+"/close("+e.Args[0]+")", p.InstrPos(e.In), "closed by Close", "the endpoint's close channel is closed outside its Close method: after this path (an error path of Listen/Dial/Accept) the object reports ErrClosed for ever and cannot be retried")
			}
		}
		r.Count("c12.endpoint_close_sites", n)
	}
	r.Describe("C12.5/ErrClosed-means-closed", "transports produce ErrClosed only under a test of the object's own closed state: core stops accepting / redialling for good when it sees ErrClosed")
	errClosedMeansClosed(p, r, "C12.5/ErrClosed-means-closed")
	r.Floor("C12.5/ErrClosed-means-closed", "c12.errclosed_sites_in_transports", 10)
	r.Describe("C12.1/E1", "lock typestate: held-at-return, double-lock, callee re-lock, unlock-not-held, inconsistent join")
	e1Obligations(p, r, "C12.1/E1", map[string]bool{"held-at-return": true, "double-lock": true, "callee-relock": true, "unlock-not-held": true, "join": true})
	r.Floor("C12.1/E1", "e1.functions_with_lock_ops", 150)

	r.Describe("C12.2/E4", "no blocking operation (channel, select, sleep, network I/O, application callback; direct or through callees) runs while a mutex is held, outside the frozen allow-list")
	e4UnderLock(p, r, "C12.2/E4", c12Allow)
	c12Endpoints(p, r)
	_ = fmt.Sprint
}

// c12Endpoints: C12.3 / C12.4 — failed operations leave endpoints usable.
func c12Endpoints(p *Prog, r *Report) {
	q := NewQ(p, r)
	R := "C12.3/endpoint-usable"
	r.Describe(R, "a failed Listen/Dial resets the endpoint's active flag so a corrected retry works; the accept loop survives per-connection failures; closed pipes notify their dialer; refused pipes are closed")
	// Listen / Dial sibling rule: on the error edge of the transport call, active = false
	ls := q.Fn(R, "internal/core", "listener", "Listen")
	if ls.OK() {
		st := ls.Ev("store", "recv.active").Arg(0, "false")
		q.Req(R, "listener.Listen-resets-active", len(st) == 1 && st.AllGuarded("recv.l.Listen() != nil") && st.AllHeld("internal/core.listener.Mutex"), st.Pos(p),
			"active=false on the transport Listen error edge, under the lock", "a failed Listen leaves active=true: a retry returns ErrAddrInUse for ever")
		g := ls.Ev("go", "core.(*listener).serve")
		q.Req(R, "serve-only-after-success", len(g) == 1 && g.AllGuarded("recv.l.Listen() == nil"), g.Pos(p), "accept loop spawned only when Listen succeeded", "the accept loop is spawned although Listen failed")
	}
	dd := q.Fn(R, "internal/core", "dialer", "Dial")
	if dd.OK() {
		st := dd.Ev("store", "recv.active").Arg(0, "false")
		ok := len(st) == 1 && st.AllHeld("internal/core.dialer.Mutex")
		if ok {
			ok = false
			for _, g := range st[0].Guard {
				if strings.Contains(g, "core.(*dialer).dial(") && strings.HasSuffix(g, "!= nil") {
					ok = true
				}
			}
		}
		q.Req(R, "dialer.Dial-resets-active", ok, dd.Pos(),
			"active=false when the synchronous first attempt fails, under the lock", "a failed synchronous Dial leaves active=true (sibling listener.Listen resets it): a corrected retry returns ErrAddrInUse for ever")
	}
	// the accept loop
	sv := q.Fn(R, "internal/core", "listener", "serve")
	if sv.OK() {
		okRet := true
		var why []string
		for _, e := range sv.Ev("return", "") {
			if !(hasAtom(e.Guard, "recv.closed") || hasAtom(e.Guard, "recv.l.Accept()#1 == ErrClosed")) {
				okRet = false
				why = append(why, p.InstrPos(e.In)+" guards "+strings.Join(e.Guard, ";"))
			}
		}
		q.Req(R, "serve-exits-only-when-closed", okRet, sv.Pos(), "serve returns only when closed or the transport says ErrClosed", "serve can exit for another reason (a per-connection failure stops the listener): "+strings.Join(why, " | "))
		ap := sv.Ev("call", "core.(*socket).addPipe")
		sl := sv.Ev("call", "time.Sleep")
		reach := blockReach(sv.fn)
		back := func(s Sel) bool {
			for _, e := range s {
				h := innermostLoopHead(e.In.Block(), reach)
				if h == nil {
					return false
				}
			}
			return len(s) > 0
		}
		q.Req(R, "serve-continues-after-addPipe", back(ap), ap.Pos(p), "addPipe is inside the accept loop", "addPipe not inside the loop")
		q.Req(R, "serve-debounces-errors", back(sl) && sl.AllGuarded("recv.l.Accept()#1 != nil") && sl.AllGuarded("recv.l.Accept()#1 != ErrClosed"), sl.Pos(p), "other accept errors sleep and retry", "accept errors no longer sleep-and-retry inside the loop")
	}
	dialerToldOfEveryClose(p, r, R)

	R = "C12.4/transport-listen-retry"
	r.Describe(R, "a failed transport Listen returns before the accept goroutine is spawned and without closing its close channel")
	for _, t := range []string{"transport/tcp", "transport/tlstcp", "transport/ipc", "transport/ws"} {
		f := q.Fn(R, t, "listener", "Listen")
		if !f.OK() {
			continue
		}
		reach := blockReach(f.fn)
		gos := f.Ev("go", "")
		closes := f.Ev("close", "close")
		bad := ""
		nerr := 0
		for _, e := range f.Ev("return", "") {
			if len(e.Args) != 1 || e.Args[0] == "nil" {
				continue
			}
			// a return of the (nil) error variable on the success path is guarded == nil
			isErrPath := true
			for _, g := range e.Guard {
				if strings.HasSuffix(g, e.Args[0]+" == nil") {
					isErrPath = false
				}
			}
			if !isErrPath {
				continue
			}
			nerr++
			for _, g := range gos {
				if CanPrecede(reach, g.In, e.In) {
					bad = "goroutine spawned at " + p.InstrPos(g.In) + " before the error return at " + p.InstrPos(e.In)
				}
			}
			for _, cl := range closes {
				if CanPrecede(reach, cl.In, e.In) {
					bad = "channel closed at " + p.InstrPos(cl.In) + " before the error return at " + p.InstrPos(e.In)
				}
			}
		}
		q.Req(R, f.Name, bad == "" && nerr > 0, f.Pos(), fmt.Sprintf("%d error returns, none after a spawn or close", nerr), "failed Listen is not retryable: "+bad)
	}
}

// lockBalance: E1 restricted to the packages a property's mechanism lives in.  A lock
// left held on some path wedges every later operation of that socket, so it is a
// necessary condition of each behavioural property, not only of C12.
func lockBalance(p *Prog, r *Report, rule string, rels ...string) {
	r.Describe(rule, "lock typestate (E1) in "+strings.Join(rels, ", ")+": every path releases the locks it took (a lock left held wedges every later operation on the socket)")
	in := map[string]bool{}
	for _, x := range rels {
		in[x] = true
	}
	nb := 0
	for _, is := range p.E1().issues {
		if rel, _ := p.FuncRel(is.Fn); in[rel] && p.InScope(is.Fn) {
			nb++
			r.Bad(rule, p.FuncName(is.Fn)+"/"+is.Kind+"/"+is.Lock.Path, p.InstrPos(is.In), is.Msg, is.Wit...)
		}
	}
	if nb == 0 {
		r.OK(rule, strings.Join(rels, ","), "-", "no lock typestate issue")
	}
}

// errClosedMeansClosed: in the transports, the value ErrClosed is produced only under a
// condition on the object's own closed state (a closed/running/active flag, or a receive
// from its close channel).  internal/core reads ErrClosed from Accept as "this listener
// was closed: leave the accept loop for good" and from Dial as "stop redialling", so an
// I/O failure or a peer hanging up must never be translated into it.
func errClosedMeansClosed(p *Prog, r *Report, rule string) {
	n := 0
	stateAtom := func(a string) bool {
		l := strings.ToLower(a)
		// the state must be the object's own (a field of the receiver, or of the pipe
		// object this very call created), not that of a peer object it met
		own := strings.TrimPrefix(a, "!")
		if strings.HasPrefix(own, "arm(<-recv.") && !strings.HasPrefix(a, "!") {
			own = "<-" + strings.TrimSuffix(strings.TrimPrefix(own, "arm(<-"), ")") // the poll of its own close channel fired
		}
		if !strings.HasPrefix(own, "recv.") && !strings.HasPrefix(own, "$complit.") && !strings.HasPrefix(own, "<-recv.") {
			return false
		}
		for _, w := range []string{"closed", "closing", "running", "active", "closeq", "closech", "done"} {
			if strings.Contains(l, w) {
				return true
			}
		}
		// not bound yet: the object's own listener handle is nil (Accept before Listen)
		if a == "recv.l == nil" || a == "recv.listener == nil" {
			return true
		}
		return false
	}
	for _, fn := range p.Funcs {
		rel, _ := p.FuncRel(fn)
		if !strings.HasPrefix(rel, "transport") {
			continue
		}
		EachInstr(fn, func(in ssa.Instruction) {
			mi, ok := in.(*ssa.MakeInterface)
			if !ok {
				return
			}
			if cst, ok := mi.X.(*ssa.Const); !ok || Desc(cst) != "ErrClosed" {
				return
			}
			n++
			key := p.FuncName(fn) + "/ErrClosed@" + strings.Join(p.GuardStrings(in), "&&")
			okG := false
			for _, a := range p.GuardStrings(in) {
				if stateAtom(a) {
					okG = true
				}
			}
			// select arm on a close channel
			if !okG {
				for _, a := range p.GuardsOf(in.Block()) {
					if bo, ok := a.Cond.(*ssa.BinOp); ok {
						if ex, ok := bo.X.(*ssa.Extract); ok {
							if sel, ok := ex.Tuple.(*ssa.Select); ok {
								if k, ok := ConstInt(bo.Y); ok && a.Pol && int(k) < len(sel.States) && stateAtom(Desc(sel.States[k].Chan)) {
									okG = true
								}
							}
						}
					}
				}
			}
			// `if !active || closed { return ErrClosed }`: the block is entered by several
			// edges, each of them a test of the object's own state
			if !okG && len(in.Block().Preds) > 1 {
				all := true
				for _, pb := range in.Block().Preds {
					iff, isIf := pb.Instrs[len(pb.Instrs)-1].(*ssa.If)
					if !isIf {
						all = false
						break
					}
					if !stateAtom(NormAtom(iff.Cond, pb.Succs[0] == in.Block())) {
						all = false
					}
				}
				okG = all
			}
			r.Check(okG, rule, key, p.InstrPos(in), "ErrClosed produced under a test of the object's own closed state", "ErrClosed is produced on a condition that is not the object's own closed state ("+strings.Join(p.GuardStrings(in), " && ")+"): the core accept loop / redialler treats ErrClosed as 'endpoint closed' and stops for good, so one failing peer or I/O error silences the listener or dialer")
		})
	}
	r.Count("c12.errclosed_sites_in_transports", n)
}

// importFrom runs a rule family into a scratch report and copies into r, under rule name
// R, the obligations whose construct key starts with one of the package prefixes.  It lets
// a behavioural property carry the cross-cutting necessary conditions (condition-variable
// discipline, atomicity, timers …) of exactly the packages its mechanism lives in.
func importFrom(p *Prog, r *Report, R, desc string, run func(tmp *Report, rule string), rels ...string) {
	r.Describe(R, desc)
	tmp := NewReport(r.Prop, r.Config)
	run(tmp, "x")
	n := 0
	for _, o := range tmp.Obs {
		keep := len(rels) == 1 && rels[0] == "*"
		for _, rel := range rels {
			if strings.HasPrefix(rel, "rule=") && o.Rule == rel[5:] {
				keep = true
			}
			if strings.HasPrefix(o.Key, rel+".") || strings.HasPrefix(o.Key, rel+"/") || strings.Contains(o.Key, "/"+rel+".") {
				keep = true
			}
		}
		if !keep {
			continue
		}
		n++
		r.add(R, o.Key, o.Status, o.Pos, o.Msg, o.Witness)
	}
	if n == 0 {
		r.OK(R, strings.Join(rels, ","), "-", "no obligation of this family in these packages")
	}
}

// crossCutting: the engine-level necessary conditions of a behavioural property, restricted
// to its packages: condition variables (wake-ups are not lost), check-then-act atomicity,
// closed => ErrClosed.  (Lock balance and message ownership are added separately.)
func crossCutting(p *Prog, r *Report, prefix string, rels ...string) {
	importFrom(p, r, prefix+"/cond", "condition-variable discipline in "+strings.Join(rels, ", ")+": Wait in a loop that re-checks, in the loop, a condition its closer falsifies; closers broadcast; Signal only with a single waiter", func(t *Report, rule string) { e4CondWaits(p, t, rule) }, rels...)
	importFrom(p, r, prefix+"/E3b", "check-then-act atomicity in "+strings.Join(rels, ", "), func(t *Report, rule string) { e3bObligations(p, t, rule, nil) }, rels...)
}
