package an

import (
	"fmt"

	"golang.org/x/tools/go/ssa"
)

func init() {
	register(&PropInfo{ID: "C12", Run: runC12,
		Explanation: "E1 lock typestate over every function of the module on SSA: every path from a mutex acquisition to a return releases it (incl. defer), no lock is re-acquired while held (directly or through a callee's parameter-relative acquisition summary), no unlock of a lock not held, lock states agree at joins.",
		Assumptions: commonAssumptions})
}

// e1Obligations turns E1's per-function results into obligations (one per function with
// lock operations, plus one per issue).
func e1Obligations(p *Prog, r *Report, rule string, kinds map[string]bool) {
	res := p.E1()
	bad := map[string]bool{}
	for _, is := range res.issues {
		if !kinds[is.Kind] || !p.InScope(is.Fn) {
			continue
		}
		key := p.FuncName(is.Fn) + "/" + is.Kind + "/" + is.Lock.Path
		bad[p.FuncName(is.Fn)] = true
		r.Bad(rule, key, p.InstrPos(is.In), is.Msg, is.Wit...)
	}
	n := 0
	for _, fn := range p.Funcs {
		has := false
		EachInstr(fn, func(in ssa.Instruction) {
			if c := CallOf(in); c != nil && classifyLockCall(c) != nil {
				has = true
			}
		})
		if has {
			n++
			if !bad[p.FuncName(fn)] {
				r.OK(rule, p.FuncName(fn), p.Pos(fn.Pos()), "all paths pair Lock/Unlock")
			}
		}
	}
	r.Count("e1.functions_with_lock_ops", n)
	r.Count("e1.acquisition_sites", res.acqSites)
	r.Count("e1.unlock_sites", res.unlSites)
	r.Count("e1.deferred_unlocks", res.deferUnl)
}

// Frozen allow-list of blocking operations under a mutex (DESIGN 3.4/E4a).  Each entry
// names the function, the operation and why it cannot block indefinitely.
var c12Allow = []allowEntry{
	{Fn: "protocol/sub.(*pipe).receiver", Match: "chan-send: send on next(range(recv.s.ctxs))#1.recvQ",
		Reason: "re-send after making room in a buffered queue; only holders of the socket lock send to it (capacity >= 1 is obligation C19.2/E10c)"},
	{Fn: "protocol/sub.(*context).unsubscribe", Match: "chan-send: send on recv.recvQ",
		Reason: "re-queues at most as many messages as the old queue held into a fresh queue of the same capacity, under the socket lock"},
	{Fn: "protocol/sub.(*context).SetOption", Match: "protocol/sub.(*context).unsubscribe",
		Reason: "calls unsubscribe (see there) with the socket lock held by design"},
	{Fn: "protocol/xpush.(*socket).sender", Match: "chan-recv: receive from recv.sendQ", Guard: "len(recv.sendQ) != 0",
		Reason: "receive is guarded by len(sendQ) != 0 under the same lock that every other receiver of sendQ holds"},
	{Fn: "transport/ipc.(*listener).removeStaleIPC", Match: "net..DialTimeout", NotOS: "windows",
		Reason: "probe dial to detect a stale socket file, bounded by its 100 ms timeout"},
	{Fn: "transport/ipc.(*listener).Listen", Match: "transport/ipc.(*listener).removeStaleIPC", NotOS: "windows",
		Reason: "calls removeStaleIPC (bounded probe dial) while holding the listener lock"},
}

func runC12(p *Prog, r *Report) {
	r.Describe("C12.1/E1", "lock typestate: held-at-return, double-lock, callee re-lock, unlock-not-held, inconsistent join")
	e1Obligations(p, r, "C12.1/E1", map[string]bool{"held-at-return": true, "double-lock": true, "callee-relock": true, "unlock-not-held": true, "join": true})
	r.Floor("C12.1/E1", "e1.functions_with_lock_ops", 150)

	r.Describe("C12.2/E4", "no blocking operation (channel, select, sleep, network I/O, application callback; direct or through callees) runs while a mutex is held, outside the frozen allow-list")
	e4UnderLock(p, r, "C12.2/E4", c12Allow)
	_ = fmt.Sprint
}
