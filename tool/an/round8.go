package an

import (
	"fmt"
	"go/token"
	"go/types"
	"sort"
	"strings"

	"golang.org/x/tools/go/ssa"
)

// Rules added after seeded round 8 (DESIGN 8.5).  All of them quantify over every function of
// the packages they are given, not over one anchored function.

// ---------------------------------------------------------------------------------
// timers kept in struct fields

// timerRow: one *time.Timer field of the library, who may stop it, who may (re)arm or clear it,
// and the function whose job is to tear it down.
type timerRow struct {
	field    string   // "internal/core.dialer.redialer"
	stoppers []string // functions that may call Stop on it
	writers  []string // functions that may store to it
	teardown string   // the function that must stop it whenever it is set
}

// Read off today's tree and confirmed by reading: the redial timer is armed by the two places
// that schedule a redial and stopped by Close alone (a pending redial is what reconnects: a
// notification that stops it kills the dialer silently); a survey's timer is armed by start
// and stopped by cancel; REQ's three timers are armed by the call they serve and stopped by
// cancel (the receiver stops the two that belong to the request whose reply it has just
// matched).
var timerRows = []timerRow{
	{"internal/core.dialer.redialer",
		[]string{"internal/core.(*dialer).Close"},
		[]string{"internal/core.(*dialer).pipeClosed", "internal/core.(*dialer).dial"},
		"internal/core.(*dialer).Close"},
	{"protocol/surveyor.survey.timer",
		[]string{"protocol/surveyor.(*survey).cancel"},
		[]string{"protocol/surveyor.(*survey).start"},
		"protocol/surveyor.(*survey).cancel"},
	{"protocol/req.context.sendTimer",
		[]string{"protocol/req.(*context).cancel"},
		[]string{"protocol/req.(*context).SendMsg"},
		"protocol/req.(*context).cancel"},
	{"protocol/req.context.receiveTimer",
		[]string{"protocol/req.(*context).cancel", "protocol/req.(*pipe).receiver"},
		[]string{"protocol/req.(*context).RecvMsg"},
		"protocol/req.(*context).cancel"},
	{"protocol/req.context.resendTimer",
		// send stops the timer of the previous transmission before it arms the next (D18)
		[]string{"protocol/req.(*context).cancel", "protocol/req.(*pipe).receiver", "protocol/req.(*socket).send"},
		[]string{"protocol/req.(*socket).send"},
		"protocol/req.(*context).cancel"},
}

// closureHome: the named function a closure (or a method handed to Once.Do) belongs to.
func (p *Prog) closureHome(fn *ssa.Function) *ssa.Function {
	for fn.Parent() != nil {
		fn = fn.Parent()
	}
	if par, ok := p.onceBodies()[fn]; ok {
		return p.closureHome(par)
	}
	return fn
}

func isTimerPtr(t types.Type) bool {
	pt, ok := t.(*types.Pointer)
	if !ok {
		return false
	}
	n, ok := pt.Elem().(*types.Named)
	return ok && n.Obj().Name() == "Timer" && n.Obj().Pkg() != nil && n.Obj().Pkg().Path() == "time"
}

// timerFieldOf: v is (a load of) a struct field of type *time.Timer: its key.
func timerFieldOf(v ssa.Value) string {
	seen := map[ssa.Value]bool{}
	for v != nil && !seen[v] {
		seen[v] = true
		switch x := v.(type) {
		case *ssa.UnOp:
			if x.Op == token.MUL {
				if fa, ok := x.X.(*ssa.FieldAddr); ok && isTimerPtr(x.Type()) {
					return fieldKeyOf(fa)
				}
			}
			return ""
		case *ssa.Phi:
			for _, e := range x.Edges {
				if k := timerFieldOf(e); k != "" {
					return k
				}
			}
			return ""
		default:
			return ""
		}
	}
	return ""
}

// timerDiscipline decides, for every *time.Timer field of the packages selected by filter:
// it is listed; Stop is called on it only by the listed functions; it is stored to only by the
// listed functions; and the teardown function stops it under no condition other than "it is
// set" (and "not torn down already"), on every path.
func timerDiscipline(p *Prog, r *Report, R string, filter func(rel string) bool) {
	r.Describe(R, "every timer kept in a struct field: Stop is called only by the functions whose job it is (a pending redial/deadline timer stopped by anyone else is lost for good), it is armed only by the functions that schedule it, and the tear-down function stops it whenever it is set — under no further condition, on every path")
	rows := map[string]*timerRow{}
	for i := range timerRows {
		rows[timerRows[i].field] = &timerRows[i]
	}
	stops := map[string]map[string][]string{}
	stores := map[string]map[string][]string{}
	clears := map[string]map[string][]string{}
	present := map[string]bool{}
	type tdStop struct {
		fn *ssa.Function
		in ssa.Instruction
	}
	tdStops := map[string][]tdStop{}
	// fields of type *time.Timer that exist
	for _, pk := range p.SubjectPkgs() {
		rel, _ := Rel(pk.PkgPath)
		if !filter(rel) {
			continue
		}
		sc := pk.Types.Scope()
		for _, nm := range sc.Names() {
			tn, ok := sc.Lookup(nm).(*types.TypeName)
			if !ok {
				continue
			}
			st, ok := tn.Type().Underlying().(*types.Struct)
			if !ok {
				continue
			}
			for i := 0; i < st.NumFields(); i++ {
				if isTimerPtr(st.Field(i).Type()) {
					present[rel+"."+nm+"."+st.Field(i).Name()] = true
				}
			}
		}
	}
	for _, fn := range p.Funcs {
		rel, ok := Rel(fn.Pkg.Pkg.Path())
		if !ok || !filter(rel) || strings.HasSuffix(p.Fset.Position(fn.Pos()).Filename, "_test.go") {
			continue
		}
		home := p.FuncName(p.closureHome(fn))
		EachInstr(fn, func(in ssa.Instruction) {
			if c := CallOf(in); c != nil && !c.IsInvoke() {
				if sc := c.StaticCallee(); sc != nil && sc.Name() == "Stop" && len(c.Args) >= 1 && isTimerPtr(c.Args[0].Type()) {
					if k := timerFieldOf(c.Args[0]); k != "" {
						if stops[k] == nil {
							stops[k] = map[string][]string{}
						}
						stops[k][home] = append(stops[k][home], p.InstrPos(in))
						if row := rows[k]; row != nil {
							if row.teardown == home {
								tdStops[k] = append(tdStops[k], tdStop{fn, in})
							} else if hs := p.callersWithin(home, map[string]bool{row.teardown: true}); len(hs) == 1 {
								// the tear-down's body moved into a private helper
								tdStops[k] = append(tdStops[k], tdStop{fn, in})
							}
						}
					}
				}
			}
			// `stopTimer(&c.resendTimer)`: a private helper that is handed the address of the
			// timer field does to that field what it does to *its parameter
			if c := CallOf(in); c != nil && !c.IsInvoke() {
				if sc := c.StaticCallee(); sc != nil && p.moduleFunc(sc) && sc.Blocks != nil {
					for ai, a := range c.Args {
						fa, ok := a.(*ssa.FieldAddr)
						if !ok || ai >= len(sc.Params) {
							continue
						}
						pt, ok := fa.Type().(*types.Pointer)
						if !ok || !isTimerPtr(pt.Elem()) {
							continue
						}
						k := fieldKeyOf(fa)
						st, cl, ar, condOK := timerParamEffects(p, sc, sc.Params[ai])
						if st {
							if stops[k] == nil {
								stops[k] = map[string][]string{}
							}
							stops[k][home] = append(stops[k][home], p.InstrPos(in))
							if row := rows[k]; row != nil && row.teardown == home {
								if condOK {
									tdStops[k] = append(tdStops[k], tdStop{fn, in})
								} else {
									r.Bad(R, k+"/teardown-stop-helper", p.InstrPos(in), "the helper "+sc.Name()+" stops the timer it is handed only under a condition other than 'it is set'")
								}
							}
						}
						if cl {
							if clears[k] == nil {
								clears[k] = map[string][]string{}
							}
							clears[k][home] = append(clears[k][home], p.InstrPos(in))
						}
						if ar {
							if stores[k] == nil {
								stores[k] = map[string][]string{}
							}
							stores[k][home] = append(stores[k][home], p.InstrPos(in))
						}
					}
				}
			}
			// Reset re-arms the timer that is there: it counts as arming it
			if c := CallOf(in); c != nil && !c.IsInvoke() {
				if sc := c.StaticCallee(); sc != nil && sc.Name() == "Reset" && len(c.Args) >= 1 && isTimerPtr(c.Args[0].Type()) {
					if k := timerFieldOf(c.Args[0]); k != "" {
						if stores[k] == nil {
							stores[k] = map[string][]string{}
						}
						stores[k][home] = append(stores[k][home], p.InstrPos(in))
					}
				}
			}
			if st, ok := in.(*ssa.Store); ok {
				if fa, ok := st.Addr.(*ssa.FieldAddr); ok && isTimerPtr(st.Val.Type()) {
					k := fieldKeyOf(fa)
					// initialisation of an object that is being built is not a re-arm
					if c, isC := st.Val.(*ssa.Const); isC && c.Value == nil {
						if _, fresh := fa.X.(*ssa.Alloc); fresh {
							return
						}
						// clearing the slot goes with stopping the timer: who may stop may clear
						if clears[k] == nil {
							clears[k] = map[string][]string{}
						}
						clears[k][home] = append(clears[k][home], p.InstrPos(in))
						return
					}
					if stores[k] == nil {
						stores[k] = map[string][]string{}
					}
					stores[k][home] = append(stores[k][home], p.InstrPos(in))
				}
			}
		})
	}
	q := NewQ(p, r)
	var keys []string
	for k := range present {
		keys = append(keys, k)
	}
	sort.Strings(keys)
	n := 0
	for _, k := range keys {
		row := rows[k]
		if row == nil {
			r.Bad(R, k+"/listed", "-", "the timer field "+k+" is not in the timer table: who may stop it and who tears it down has not been decided")
			continue
		}
		n++
		if stops[k] == nil {
			stops[k] = map[string][]string{}
		}
		if stores[k] == nil {
			stores[k] = map[string][]string{}
		}
		q.OnlyIn(R, k+"/stoppers", stops[k], row.stoppers, []string{row.teardown})
		q.OnlyIn(R, k+"/armers", stores[k], row.writers, nil)
		if len(clears[k]) > 0 {
			q.OnlyIn(R, k+"/clearers", clears[k], append(append([]string{}, row.stoppers...), row.writers...), nil)
		}
		// tear-down: every Stop of the field in the tear-down function is conditional on nothing
		// but the field being set, and is not skipped
		fld := k[strings.LastIndex(k, ".")+1:]
		for i, ts := range tdStops[k] {
			bad := ""
			var nilTest *ssa.BasicBlock
			for _, a := range p.GuardsOf(ts.in.Block()) {
				s := NormAtom(a.Cond, a.Pol)
				switch {
				case strings.HasSuffix(s, "."+fld+" != nil"):
					// the block that makes this test
					for _, b := range ts.fn.Blocks {
						if iff, ok := b.Instrs[len(b.Instrs)-1].(*ssa.If); ok && iff.Cond == a.Cond {
							nilTest = b
						}
					}
				case strings.HasPrefix(s, "!") && strings.HasSuffix(s, ".closed"):
				default:
					bad = s
				}
			}
			key := fmt.Sprintf("%s/teardown-stop#%d", k, i+1)
			if bad != "" {
				r.Bad(R, key, p.InstrPos(ts.in), "the tear-down function stops "+fld+" only under the further condition "+bad+": when it does not hold the timer stays armed after the object was torn down (it keeps the object alive and fires into it)")
				continue
			}
			tgt := ts.in.Block()
			if nilTest != nil {
				tgt = nilTest
			}
			okAll, where := p.everyPathOrEdge(tgt, func(ret *ssa.Return) bool {
				for _, g := range p.GuardStrings(ret) {
					if strings.HasSuffix(g, ".closed") && !strings.HasPrefix(g, "!") {
						return true
					}
				}
				return false
			}, p.closedEdge)
			// a Stop that lives in a private helper: the helper is called on every path too
			if okAll && p.FuncName(p.closureHome(ts.fn)) != row.teardown {
				nsite := 0
				if node := p.CG().Nodes[p.closureHome(ts.fn)]; node != nil {
					for _, ed := range node.In {
						if ed.Site == nil || !p.moduleFunc(ed.Caller.Func) {
							continue
						}
						nsite++
						extra := ""
						for _, g := range p.GuardStrings(ed.Site) {
							if !(strings.HasPrefix(g, "!") && strings.HasSuffix(g, ".closed")) && !strings.HasSuffix(g, "."+fld+" != nil") {
								extra = g
							}
						}
						if extra != "" {
							okAll, where = false, p.InstrPos(ed.Site)+" (the helper that stops it is called only under "+extra+")"
							continue
						}
						if o, w := p.everyPathOrEdge(ed.Site.Block(), func(ret *ssa.Return) bool {
							for _, g := range p.GuardStrings(ret) {
								if strings.HasSuffix(g, ".closed") && !strings.HasPrefix(g, "!") {
									return true
								}
							}
							return false
						}, p.closedEdge); !o {
							okAll, where = false, w
						}
					}
				}
				if nsite == 0 {
					okAll, where = false, "(no call of the helper found)"
				}
			}
			r.Check(okAll, R, key, p.InstrPos(ts.in), "stopped whenever it is set, on every path of the tear-down", "a path through the tear-down function returns at "+where+" without reaching the Stop of "+fld)
		}
	}
	r.Count("timer_fields."+R, n)
}

// everyPathOr: every path from the entry of target's function to a return passes through
// target, except returns accepted by okRet.  Returns the position of an offending return.
func (p *Prog) everyPathOr(target *ssa.BasicBlock, okRet func(*ssa.Return) bool) (bool, string) {
	return p.everyPathOrEdge(target, okRet, nil)
}

// closedEdge: the k-th way out of b is taken only when the object is already closed
// (`if x.closed {…}` true side, `if !x.closed {…}` false side): single-exit functions reach
// their one return along it.
func (p *Prog) closedEdge(b *ssa.BasicBlock, k int) bool {
	if len(b.Instrs) == 0 {
		return false
	}
	iff, ok := b.Instrs[len(b.Instrs)-1].(*ssa.If)
	if !ok {
		return false
	}
	s := NormAtom(iff.Cond, k == 0)
	return strings.HasSuffix(s, ".closed") && !strings.HasPrefix(s, "!")
}

func (p *Prog) everyPathOrEdge(target *ssa.BasicBlock, okRet func(*ssa.Return) bool, okEdge func(b *ssa.BasicBlock, k int) bool) (bool, string) {
	fn := target.Parent()
	seen := map[*ssa.BasicBlock]bool{}
	where := ""
	var escapes func(b *ssa.BasicBlock) bool
	escapes = func(b *ssa.BasicBlock) bool {
		if b == target || seen[b] || b == fn.Recover {
			return false
		}
		seen[b] = true
		if len(b.Instrs) > 0 {
			if ret, ok := b.Instrs[len(b.Instrs)-1].(*ssa.Return); ok {
				if okRet != nil && okRet(ret) {
					return false
				}
				where = p.InstrPos(ret)
				return true
			}
		}
		for k, s := range b.Succs {
			if okEdge != nil && okEdge(b, k) {
				continue
			}
			if escapes(s) {
				return true
			}
		}
		return false
	}
	return !escapes(fn.Blocks[0]), where
}

// ---------------------------------------------------------------------------------
// a message taken off a queue is never put back on it

// recvChanOf: the channels a value was received from (through phis and select results).
func recvChansOf(v ssa.Value, seen map[ssa.Value]bool, out *[]ssa.Value) {
	if v == nil || seen[v] {
		return
	}
	seen[v] = true
	switch x := v.(type) {
	case *ssa.UnOp:
		if x.Op == token.ARROW {
			*out = append(*out, x.X)
		}
	case *ssa.Phi:
		for _, e := range x.Edges {
			recvChansOf(e, seen, out)
		}
	case *ssa.Extract:
		switch t := x.Tuple.(type) {
		case *ssa.Select:
			// results: index, recvOk, then one per receive state in order
			k := 2
			for _, st := range t.States {
				if st.Dir == types.RecvOnly {
					if k == x.Index {
						*out = append(*out, st.Chan)
					}
					k++
				}
			}
		case *ssa.UnOp:
			if t.Op == token.ARROW && x.Index == 0 {
				*out = append(*out, t.X)
			}
		}
	case *ssa.ChangeType:
		recvChansOf(x.X, seen, out)
	case *ssa.MakeInterface:
		recvChansOf(x.X, seen, out)
	}
}

func isMsgChan(t types.Type) bool {
	ch, ok := t.Underlying().(*types.Chan)
	if !ok {
		return false
	}
	pt, ok := ch.Elem().(*types.Pointer)
	if !ok {
		return false
	}
	n, ok := pt.Elem().(*types.Named)
	return ok && n.Obj().Name() == "Message"
}

// noRequeue: in no function is a message that was received from a channel sent to that same
// channel.  The queues are FIFO channels: an element put back lands behind everything queued
// after it, so "keep it for later" reorders (and, after a failed transmission that had already
// reached the peer, duplicates).
func noRequeue(p *Prog, r *Report, R string, filter func(rel string) bool) {
	r.Describe(R, "a message received from a queue channel is never sent to that same channel again: a channel can only be appended to, so putting a message back reorders it behind later ones (every function of the packages concerned)")
	n := 0
	for _, fn := range p.Funcs {
		rel, ok := Rel(fn.Pkg.Pkg.Path())
		if !ok || !filter(rel) || strings.HasSuffix(p.Fset.Position(fn.Pos()).Filename, "_test.go") {
			continue
		}
		check := func(in ssa.Instruction, ch, val ssa.Value) {
			if !isMsgChan(ch.Type()) {
				return
			}
			var srcs []ssa.Value
			recvChansOf(val, map[ssa.Value]bool{}, &srcs)
			if len(srcs) == 0 {
				return
			}
			n++
			bad := ""
			for _, s := range srcs {
				if s == ch {
					bad = Desc(s)
				} else if Desc(s) == Desc(ch) {
					// two loads of the same field: the same queue unless the function replaces
					// the queue in between (unsubscribe drains the old queue into the new one)
					replaced := false
					if k := loadOfField(ch); k != "" {
						EachInstr(fn, func(i2 ssa.Instruction) {
							if st, ok := i2.(*ssa.Store); ok {
								if fa, ok := st.Addr.(*ssa.FieldAddr); ok && fieldKeyOf(fa) == k {
									replaced = true
								}
							}
						})
					}
					if !replaced {
						bad = Desc(s)
					}
				}
			}
			r.Check(bad == "", R, p.FuncName(fn)+"/"+Desc(ch), p.InstrPos(in), "forwarded to a different queue than it came from", "a message received from "+bad+" is sent to "+bad+" again: it is re-queued behind the messages that were queued after it (delivery order changes; after a failed transmission it may be delivered twice)")
		}
		EachInstr(fn, func(in ssa.Instruction) {
			switch x := in.(type) {
			case *ssa.Send:
				check(in, x.Chan, x.X)
			case *ssa.Select:
				for _, st := range x.States {
					if st.Dir == types.SendOnly {
						check(in, st.Chan, st.Send)
					}
				}
			}
		})
	}
	r.Count("requeue_sites."+R, n)
}

// ---------------------------------------------------------------------------------
// who may release a message that is kept in a struct field

// msgFieldOf: v is (a load of) a struct field holding a *Message.
func msgFieldOf(v ssa.Value) string {
	seen := map[ssa.Value]bool{}
	var rec func(v ssa.Value) string
	rec = func(v ssa.Value) string {
		if v == nil || seen[v] {
			return ""
		}
		seen[v] = true
		switch x := v.(type) {
		case *ssa.UnOp:
			if x.Op == token.MUL {
				if fa, ok := x.X.(*ssa.FieldAddr); ok {
					return fieldKeyOf(fa)
				}
			}
		case *ssa.Phi:
			for _, e := range x.Edges {
				if k := rec(e); k != "" {
					return k
				}
			}
		}
		return ""
	}
	return rec(v)
}

// fieldFreeAllowed: (function, field) pairs that release a message kept in a field, read off
// today's tree and confirmed by reading: each is the owner giving up its own reference — REQ
// drops the request it keeps for retransmission and a reply nobody collected, REP/RESPONDENT
// a reply slot, SURVEYOR nothing.  A message parked in a field *on behalf of a blocked caller*
// (req context.sendMsg while SendMsg waits for a pipe) is the caller's until SendMsg returns
// nil; nobody but that call may release it.
var fieldFreeAllowed = map[string]bool{
	"protocol/req.(*context).cancel frees protocol/req.context.repMsg": true,
	"protocol/req.(*context).cancel frees protocol/req.context.reqMsg": true,
	"protocol/req.(*pipe).receiver frees protocol/req.context.reqMsg":  true,
}

func fieldFrees(p *Prog, r *Report, R string, filter func(rel string) bool, allowed map[string]bool) {
	r.Describe(R, "a message kept in a struct field is released only by the functions that own that slot (frozen table): a Close or clean-up that frees a message parked there on behalf of a blocked caller releases a message the caller still owns")
	n := 0
	seenPair := map[string]bool{}
	for _, fn := range p.Funcs {
		rel, ok := Rel(fn.Pkg.Pkg.Path())
		if !ok || !filter(rel) || strings.HasSuffix(p.Fset.Position(fn.Pos()).Filename, "_test.go") {
			continue
		}
		home := p.FuncName(p.closureHome(fn))
		EachInstr(fn, func(in ssa.Instruction) {
			c := CallOf(in)
			if c == nil || msgMethod(c) != "Free" || len(c.Args) < 1 {
				return
			}
			k := msgFieldOf(c.Args[0])
			if k == "" {
				return
			}
			n++
			pair := home + " frees " + k
			ok := allowed[pair]
			if !ok {
				// a private helper counts as all of its callers
				at := p.attributedTo(home)
				if len(at) > 0 {
					ok = true
					for _, a := range at {
						if !allowed[a+" frees "+k] {
							ok = false
						}
					}
				}
			}
			seenPair[pair] = true
			r.Check(ok, R, pair, p.InstrPos(in), "the owner of the slot releases it", "the message kept in "+k+" is released by "+home+", which is not one of the functions that own that slot: if the message is parked there for a caller that is still blocked (or is still referenced by a retransmission), it is released while someone else owns it")
		})
	}
	r.Count("field_frees."+R, n)
}

// ---------------------------------------------------------------------------------
// an object is complete before it is signalled ready

// publishOrder: a function that closes a channel field of an object (the signal another
// goroutine waits for before it uses the object) stores to no field of that same object
// afterwards, unless under a mutex.  What the waiter reads without a lock must have been
// written before the signal.
func publishOrder(p *Prog, r *Report, R string, filter func(rel string) bool) {
	r.Describe(R, "an object is complete before it is signalled ready: after close(x.ch) the same function stores to no field of x outside a lock (the goroutine released by the close reads those fields with no other synchronisation)")
	n := 0
	for _, fn := range p.Funcs {
		rel, ok := Rel(fn.Pkg.Pkg.Path())
		if !ok || !filter(rel) || strings.HasSuffix(p.Fset.Position(fn.Pos()).Filename, "_test.go") {
			continue
		}
		type closeEv struct {
			in   ssa.Instruction
			base ssa.Value
		}
		var closes []closeEv
		EachInstr(fn, func(in ssa.Instruction) {
			c := CallOf(in)
			if c == nil || !IsBuiltin(c, "close") || len(c.Args) != 1 {
				return
			}
			if _, isDefer := in.(*ssa.Defer); isDefer {
				return
			}
			u, ok := c.Args[0].(*ssa.UnOp)
			if !ok || u.Op != token.MUL {
				return
			}
			fa, ok := u.X.(*ssa.FieldAddr)
			if !ok {
				return
			}
			closes = append(closes, closeEv{in, fa.X})
		})
		if len(closes) == 0 {
			continue
		}
		reach := blockReach(fn)
		for _, ce := range closes {
			n++
			bad := ""
			pos := p.InstrPos(ce.in)
			EachInstr(fn, func(in ssa.Instruction) {
				st, ok := in.(*ssa.Store)
				if !ok || bad != "" {
					return
				}
				fa, ok := st.Addr.(*ssa.FieldAddr)
				if !ok {
					return
				}
				if fa.X != ce.base && Desc(fa.X) != Desc(ce.base) {
					return
				}
				if !CanPrecede(reach, ce.in, in) || CanPrecede(reach, in, ce.in) && in.Block() != ce.in.Block() {
					return
				}
				if len(p.mutexesHeld(fn, in)) > 0 {
					return
				}
				bad = Desc(st.Addr) + " at " + p.InstrPos(in)
			})
			r.Check(bad == "", R, p.FuncName(fn)+"/close("+Desc(closeArg(ce.in))+")", pos, "nothing of the object is written after the signal", "the object is signalled ready by this close, and afterwards the function still stores to "+bad+" with no lock held: the goroutine released by the close can use the object before that store (a nil field, or a data race)")
		}
	}
	r.Count("publish_closes."+R, n)
}

func closeArg(in ssa.Instruction) ssa.Value {
	if c := CallOf(in); c != nil && len(c.Args) == 1 {
		return c.Args[0]
	}
	return nil
}

// ---------------------------------------------------------------------------------
// a complete read that fails is fatal

// completeReadFatal: every call of io.ReadFull / binary.Read in the packages concerned has its
// error tested, and on the branch where it is not nil no path reaches a return that reports
// success (a nil error).  io.ReadFull returns a bare io.EOF exactly when not one byte was read:
// "tolerating EOF" delivers a buffer of the announced length that was never filled.
func completeReadFatal(p *Prog, r *Report, R string, filter func(rel string) bool) {
	r.Describe(R, "every complete read (io.ReadFull, binary.Read) has its error tested as `err != nil` and nothing else, and on that branch no path reaches a return that reports success: a short read — including the bare io.EOF of a read that got no byte at all — never yields a message")
	n := 0
	for _, fn := range p.Funcs {
		rel, ok := Rel(fn.Pkg.Pkg.Path())
		if !ok || !filter(rel) || strings.HasSuffix(p.Fset.Position(fn.Pos()).Filename, "_test.go") {
			continue
		}
		EachInstr(fn, func(in ssa.Instruction) {
			call, ok := in.(*ssa.Call)
			if !ok {
				return
			}
			name := CalleeName(&call.Call)
			if name != "io.ReadFull" && name != "binary.Read" {
				return
			}
			n++
			key := p.FuncName(fn) + "/" + name + "@" + Desc(call.Call.Args[0])
			// the error value
			var errv ssa.Value = call
			if name == "io.ReadFull" {
				errv = nil
				for _, ref := range *call.Referrers() {
					if ex, ok := ref.(*ssa.Extract); ok && ex.Index == 1 {
						errv = ex
					}
				}
			}
			if errv == nil {
				r.Bad(R, key, p.InstrPos(in), "the error of this complete read is discarded: a short read is taken for a full one")
				return
			}
			// values the error flows into (a spilled/merged err variable)
			vals := map[ssa.Value]bool{errv: true}
			for changed := true; changed; {
				changed = false
				for v := range vals {
					if v.Referrers() == nil {
						continue
					}
					for _, ref := range *v.Referrers() {
						switch x := ref.(type) {
						case *ssa.Phi:
							if !vals[x] {
								vals[x] = true
								changed = true
							}
						case *ssa.ChangeInterface:
							if !vals[x] {
								vals[x] = true
								changed = true
							}
						}
					}
				}
			}
			// the nil test(s) of that value reachable from the call
			reach := blockReach(fn)
			var tests []*ssa.If
			var trueIsErr []bool
			for _, b := range fn.Blocks {
				iff, ok := b.Instrs[len(b.Instrs)-1].(*ssa.If)
				if !ok {
					continue
				}
				bo, ok := iff.Cond.(*ssa.BinOp)
				if !ok || (bo.Op != token.NEQ && bo.Op != token.EQL) {
					continue
				}
				var other ssa.Value
				if vals[bo.X] {
					other = bo.Y
				} else if vals[bo.Y] {
					other = bo.X
				} else {
					continue
				}
				if !IsNilConst(other) {
					continue
				}
				if b != in.Block() && !reach[in.Block().Index][b.Index] {
					continue
				}
				tests = append(tests, iff)
				trueIsErr = append(trueIsErr, bo.Op == token.NEQ)
			}
			if len(tests) == 0 {
				// returned as it is (`return binary.Read(…)` / `_, err := …; return err`): the caller decides
				returned := false
				for v := range vals {
					if v.Referrers() == nil {
						continue
					}
					for _, ref := range *v.Referrers() {
						if _, ok := ref.(*ssa.Return); ok {
							returned = true
						}
						if st, ok := ref.(*ssa.Store); ok {
							if _, isAl := st.Addr.(*ssa.Alloc); isAl {
								returned = true
							}
						}
					}
				}
				r.Check(returned, R, key, p.InstrPos(in), "the error is handed to the caller as it is", "the error of this complete read is never compared with nil: a short read is taken for a full one")
				return
			}
			bad := ""
			for i, iff := range tests {
				errSucc := iff.Block().Succs[0]
				if !trueIsErr[i] {
					errSucc = iff.Block().Succs[1]
				}
				// every return reachable from the error branch reports an error
				seen := map[*ssa.BasicBlock]bool{}
				var walk func(b *ssa.BasicBlock)
				walk = func(b *ssa.BasicBlock) {
					if seen[b] || bad != "" {
						return
					}
					seen[b] = true
					if ret, ok := b.Instrs[len(b.Instrs)-1].(*ssa.Return); ok {
						if len(ret.Results) > 0 {
							last := resolveSpill(ret.Results[len(ret.Results)-1], ret)
							if IsNilConst(last) && isErrorType(ret.Results[len(ret.Results)-1].Type()) {
								bad = p.InstrPos(ret)
							}
						}
						return
					}
					for _, s := range b.Succs {
						// leaving through the loop back edge to read again is what a reader loop does
						walk(s)
					}
				}
				walk(errSucc)
			}
			r.Check(bad == "", R, key, p.InstrPos(in), "a failed complete read never reaches a successful return", "on the branch where this complete read failed a path reaches the return at "+bad+" that reports success: a frame cut short (io.ReadFull reports a bare io.EOF when not one byte arrived) is delivered as a complete message whose content is whatever the buffer held")
		})
	}
	r.Count("complete_reads."+R, n)
}

func isErrorType(t types.Type) bool {
	n, ok := t.(*types.Named)
	return ok && n.Obj().Name() == "error" && n.Obj().Pkg() == nil
}

// timerParamEffects: what a private helper does to the *time.Timer variable whose address it
// receives in par: stops it, clears it, arms it; condOK: the Stop is conditional on nothing but
// the timer being set.
func timerParamEffects(p *Prog, fn *ssa.Function, par *ssa.Parameter) (stops, clears, arms, condOK bool) {
	condOK = true
	EachInstr(fn, func(in ssa.Instruction) {
		if c := CallOf(in); c != nil && !c.IsInvoke() {
			if sc := c.StaticCallee(); sc != nil && sc.Name() == "Stop" && len(c.Args) >= 1 && isTimerPtr(c.Args[0].Type()) {
				if u, ok := c.Args[0].(*ssa.UnOp); ok && u.Op == token.MUL && u.X == ssa.Value(par) {
					stops = true
					for _, a := range p.GuardsOf(in.Block()) {
						okG := false
						if bo, isB := a.Cond.(*ssa.BinOp); isB && (bo.Op == token.NEQ && a.Pol || bo.Op == token.EQL && !a.Pol) {
							for _, side := range []ssa.Value{bo.X, bo.Y} {
								if u2, isU := side.(*ssa.UnOp); isU && u2.Op == token.MUL && u2.X == ssa.Value(par) {
									okG = true
								}
							}
						}
						if !okG {
							condOK = false
						}
					}
					if !everyPathModuloNil(in, par) {
						condOK = false
					}
				}
			}
		}
		if st, ok := in.(*ssa.Store); ok && st.Addr == ssa.Value(par) {
			if c, isC := st.Val.(*ssa.Const); isC && c.Value == nil {
				clears = true
			} else {
				arms = true
			}
		}
	})
	return
}

// everyPathModuloNil: every path through the helper reaches the Stop or the failing side of
// the nil test that guards it.
func everyPathModuloNil(stop ssa.Instruction, par *ssa.Parameter) bool {
	fn := stop.Parent()
	target := stop.Block()
	// the block that tests *par != nil
	for _, b := range fn.Blocks {
		iff, ok := b.Instrs[len(b.Instrs)-1].(*ssa.If)
		if !ok {
			continue
		}
		if bo, isB := iff.Cond.(*ssa.BinOp); isB {
			for _, side := range []ssa.Value{bo.X, bo.Y} {
				if u2, isU := side.(*ssa.UnOp); isU && u2.Op == token.MUL && u2.X == ssa.Value(par) {
					if b.Dominates(target) {
						target = b
					}
				}
			}
		}
	}
	return everyPath(target.Instrs[len(target.Instrs)-1])
}

// rearmStopsPrevious: a timer field is given a new timer only where the one it may still hold
// cannot fire any more: the store is dominated by a Stop of that field (directly or through a
// helper handed its address), or lies under a test that the field is nil, or the arming
// function runs only as (part of) that very timer's callback — the old timer has fired — or
// the object is under construction.  An overwritten timer that is still pending fires into the
// object a second time: REQ re-sent a request one interval after its *first* transmission
// although it had just been re-sent because the connection was lost (D18).
func rearmStopsPrevious(p *Prog, r *Report, R string, inPkg func(rel string) bool) {
	r.Describe(R, "a timer field is re-armed only after the timer it may still hold was stopped (a Stop of that field dominates the store), or under a test that it is nil, or from that timer's own callback, or while the object is under construction: a pending timer that is merely overwritten still fires, and the action it was armed for happens a second time, early")
	n := 0
	for _, fn := range p.Funcs {
		rel, _ := p.FuncRel(fn)
		if !inPkg(rel) {
			continue
		}
		EachInstr(fn, func(in ssa.Instruction) {
			st, ok := in.(*ssa.Store)
			if !ok {
				return
			}
			fa, ok := st.Addr.(*ssa.FieldAddr)
			if !ok {
				return
			}
			pt, ok := fa.Type().(*types.Pointer)
			if !ok || !isTimerPtr(pt.Elem()) {
				return
			}
			call, ok := st.Val.(*ssa.Call)
			if !ok {
				return
			}
			cn := CalleeName(&call.Call)
			if cn != "time.AfterFunc" && cn != "time.NewTimer" {
				return
			}
			n++
			k := fieldKeyOf(fa)
			fld := k[strings.LastIndex(k, ".")+1:]
			key := p.FuncName(fn) + "/" + fld
			base := Desc(fa.X)
			ok2, why := false, ""
			if freshBase(fa.X, 0) || p.freshParamBase(fn, fa.X) {
				ok2, why = true, "the object is under construction"
			}
			// a Stop of the same field (same object) that dominates the store
			if !ok2 {
				EachInstr(fn, func(i2 ssa.Instruction) {
					if ok2 {
						return
					}
					c := CallOf(i2)
					if c == nil || !InstrDominates(i2, st) {
						return
					}
					if CalleeName(c) == "time.(*Timer).Stop" && len(c.Args) > 0 {
						if d := Desc(c.Args[0]); d == base+"."+fld {
							ok2, why = true, "the previous timer is stopped first"
						}
					}
					if sc := c.StaticCallee(); sc != nil && p.moduleFunc(sc) && sc.Blocks != nil {
						for ai, a := range c.Args {
							if fa2, isFA := a.(*ssa.FieldAddr); isFA && ai < len(sc.Params) && fieldKeyOf(fa2) == k && Desc(fa2.X) == base {
								if stops, _, _, _ := timerParamEffects(p, sc, sc.Params[ai]); stops {
									ok2, why = true, "the previous timer is stopped first (through "+sc.Name()+")"
								}
							}
						}
					}
				})
			}
			// ... or the Stop sits under `if field != nil`, and that test dominates the store
			if !ok2 {
				storeGuards := map[string]bool{}
				for _, g := range p.GuardStrings(in) {
					storeGuards[g] = true
				}
				EachInstr(fn, func(i2 ssa.Instruction) {
					if ok2 {
						return
					}
					c := CallOf(i2)
					if c == nil || CalleeName(c) != "time.(*Timer).Stop" || len(c.Args) == 0 || Desc(c.Args[0]) != base+"."+fld {
						return
					}
					nilAtom := base + "." + fld + " != nil"
					hasNil, extra := false, false
					for _, g := range p.GuardStrings(i2) {
						if g == nilAtom {
							hasNil = true
						} else if !storeGuards[g] {
							extra = true
						}
					}
					if !hasNil || extra {
						return
					}
					// the block that makes the nil test dominates the store
					for _, b := range fn.Blocks {
						if len(b.Instrs) == 0 {
							continue
						}
						iff, isIf := b.Instrs[len(b.Instrs)-1].(*ssa.If)
						if !isIf {
							continue
						}
						a := NormAtom(iff.Cond, true)
						if (a == nilAtom || a == base+"."+fld+" == nil") && (b == st.Block() || b.Dominates(st.Block())) && (b.Dominates(i2.Block())) && CanPrecede(blockReach(fn), i2, st) {
							ok2, why = true, "the previous timer is stopped first wherever it is set"
						}
					}
				})
			}
			// ... or a call that dominates the store to a method of the same object that stops it
			// (req SendMsg calls cancel(), which stops and clears all three timers)
			if !ok2 {
				EachInstr(fn, func(i2 ssa.Instruction) {
					if ok2 {
						return
					}
					c := CallOf(i2)
					if c == nil || c.IsInvoke() || !InstrDominates(i2, st) || len(c.Args) == 0 || Desc(c.Args[0]) != base {
						return
					}
					sc := c.StaticCallee()
					if sc == nil || !p.moduleFunc(sc) || sc.Blocks == nil {
						return
					}
					stops := false
					EachInstr(sc, func(i3 ssa.Instruction) {
						c3 := CallOf(i3)
						if c3 == nil {
							return
						}
						if CalleeName(c3) == "time.(*Timer).Stop" && len(c3.Args) > 0 && Desc(c3.Args[0]) == "recv."+fld {
							stops = true
						}
						// ... or hands the field's address to a helper that stops what it is handed
						if sc3 := c3.StaticCallee(); sc3 != nil && p.moduleFunc(sc3) && sc3.Blocks != nil {
							for ai, a := range c3.Args {
								if fa3, isFA := a.(*ssa.FieldAddr); isFA && ai < len(sc3.Params) && fieldKeyOf(fa3) == k && Desc(fa3.X) == "recv" {
									if st3, _, _, _ := timerParamEffects(p, sc3, sc3.Params[ai]); st3 {
										stops = true
									}
								}
							}
						}
					})
					if stops {
						ok2, why = true, "the previous timer is stopped first (by "+sc.Name()+")"
					}
				})
			}
			if !ok2 {
				if reason, listed := rearmAllowed[key]; listed {
					ok2, why = true, "frozen exception: "+reason
				} else {
					// the arming moved into a private helper: the first allowed arming sites up
					// its call chains stand for it
					al := map[string]bool{}
					for kk := range rearmAllowed {
						if strings.HasSuffix(kk, "/"+fld) {
							al[strings.TrimSuffix(kk, "/"+fld)] = true
						}
					}
					if homes := p.callersWithin(p.FuncName(fn), al); len(homes) > 0 {
						ok2, why = true, "frozen exception (through the helper's caller "+homes[0]+"): "+rearmAllowed[homes[0]+"/"+fld]
					}
				}
			}
			if !ok2 {
				for _, g := range p.GuardStrings(in) {
					if g == base+"."+fld+" == nil" {
						ok2, why = true, "armed only where the field is nil"
					}
				}
			}
			// armed only from this timer's own callback: every way into the function starts
			// at a closure or method value that is the callback of an arming of this field
			if !ok2 && p.onlyFromOwnCallback(fn, k, map[*ssa.Function]bool{}, 0) {
				ok2, why = true, "runs only as the callback of this timer (the previous one has fired)"
			}
			r.Check(ok2, R, key, p.InstrPos(in), why, "the timer field "+k+" is given a new timer here while the previous one may still be pending (no Stop of it dominates the store, no nil test, not its own callback): the old timer still fires, and what it was armed for happens again, sooner than one interval after this arming")
		})
	}
	r.Count("timer_armings."+R, n)
}

// rearmAllowed: armings whose previous timer is known to be spent for a reason the rule cannot
// see locally; one line of reason each.
var rearmAllowed = map[string]string{
	"protocol/req.(*context).RecvMsg/receiveTimer": "one Recv at a time (the receiveWait token); every way its wait ends stops the timer (a reply: receiver; a newer Send or Close: cancel) or is the timer's own firing (timer table C18.3: stoppers of receiveTimer)",
	"internal/core.(*dialer).pipeClosed/redialer":  "a dialer has one pipe at a time and tells pipeClosed once per pipe (closeOnce); the timer that led to that pipe's dial has fired, and nothing arms another while the pipe is up (timer table C14.13: armers of redialer)",
	"internal/core.(*dialer).dial/redialer":        "dial runs from the redial callback (the timer has fired) or as the first attempt of Dial, which the active flag admits once, before any timer exists (C14.1, C14.13)",
}

// onlyFromOwnCallback: every caller chain of fn (inside the module) starts at a function that
// is handed to time.AfterFunc in a store to the timer field k.
func (p *Prog) onlyFromOwnCallback(fn *ssa.Function, k string, seen map[*ssa.Function]bool, depth int) bool {
	if seen[fn] || depth > 5 {
		return true
	}
	seen[fn] = true
	if p.isCallbackOfField(fn, k) {
		return true
	}
	node := p.CG().Nodes[fn]
	if node == nil || len(node.In) == 0 {
		return false
	}
	if o := fn.Object(); o != nil && o.Exported() {
		return false
	}
	n := 0
	for _, e := range node.In {
		c := e.Caller.Func
		if c == nil || !p.moduleFunc(c) {
			// the runtime's timer goroutine calling a callback shows up as no module caller
			continue
		}
		n++
		if !p.onlyFromOwnCallback(c, k, seen, depth+1) {
			return false
		}
	}
	return n > 0
}

// isCallbackOfField: fn (a closure, a bound-method wrapper's target or a method) is the
// function argument of a time.AfterFunc whose result is stored into timer field k.
func (p *Prog) isCallbackOfField(fn *ssa.Function, k string) bool {
	found := false
	for _, g := range p.Funcs {
		EachInstr(g, func(in ssa.Instruction) {
			if found {
				return
			}
			st, ok := in.(*ssa.Store)
			if !ok {
				return
			}
			fa, ok := st.Addr.(*ssa.FieldAddr)
			if !ok || fieldKeyOf(fa) != k {
				return
			}
			call, ok := st.Val.(*ssa.Call)
			if !ok || CalleeName(&call.Call) != "time.AfterFunc" || len(call.Call.Args) < 2 {
				return
			}
			switch cb := call.Call.Args[1].(type) {
			case *ssa.MakeClosure:
				if f, ok := cb.Fn.(*ssa.Function); ok {
					if f == fn {
						found = true
					}
					// a bound method value: the wrapper calls the method
					if f.Synthetic != "" {
						EachInstr(f, func(i2 ssa.Instruction) {
							if c := CallOf(i2); c != nil && c.StaticCallee() == fn {
								found = true
							}
						})
					}
				}
			case *ssa.Function:
				if cb == fn {
					found = true
				}
			}
		})
	}
	return found
}
