package an

import (
	"go/token"
	"go/types"
	"sort"
	"strings"

	"golang.org/x/tools/go/ssa"
)

// Rules added after seeded round 10 (DESIGN 8.5).

// ---------------------------------------------------------------------------------
// a list of owned closeable things is emptied only where it is swept

// listResetAllowed: resets of a list outside a sweep that were confirmed by reading.
var listResetAllowed = []struct{ fn, field, guard, why string }{
	{"transport/ws.(*listener).Listen", "transport/ws.listener.pending", "!recv.noserve",
		"a listener that serves for itself resets the queue before it starts the HTTP server that is the only thing feeding it; in handler mode (noserve) the application's server may already be feeding it, so the exception requires !noserve"},
}

func elemCloses(t types.Type) bool {
	switch x := t.Underlying().(type) {
	case *types.Slice:
		return hasCloseMethod(x.Elem())
	case *types.Map:
		return hasCloseMethod(x.Elem()) || hasCloseMethod(x.Key())
	}
	return false
}

// listsClearedWhereSwept: a struct field holding a slice or map of things that have a Close
// method (queued connections, pipes, endpoints, contexts) is reset to nil / a fresh empty
// collection only by a function that ranges over a collection of that type (the sweep that
// closes the entries).  Dropping the list anywhere else leaves its entries open with nothing
// that could ever close them.
func listsClearedWhereSwept(p *Prog, r *Report, R string, filter func(rel string) bool) {
	r.Describe(R, "a list of owned closeable things (pending connections, pipes, endpoints, contexts) is emptied only by a function that sweeps a collection of that type: resetting it anywhere else drops entries that nothing can close any more")
	n := 0
	for _, fn := range p.Funcs {
		rel, ok := p.FuncRel(fn)
		if !ok || !filter(rel) || strings.HasSuffix(p.Fset.Position(fn.Pos()).Filename, "_test.go") {
			continue
		}
		EachInstr(fn, func(in ssa.Instruction) {
			st, ok := in.(*ssa.Store)
			if !ok {
				return
			}
			fa, ok := st.Addr.(*ssa.FieldAddr)
			if !ok || !elemCloses(st.Val.Type()) {
				return
			}
			// initialisation of an object under construction
			if _, fresh := fa.X.(*ssa.Alloc); fresh {
				return
			}
			empty := false
			switch v := st.Val.(type) {
			case *ssa.Const:
				empty = v.Value == nil
			case *ssa.MakeMap:
				empty = true
			case *ssa.MakeSlice:
				empty = true
			case *ssa.Slice:
				if h, isC := ConstInt(v.High); isC && h == 0 && v.High != nil {
					empty = true
				}
			}
			if !empty {
				return
			}
			// lazy creation (`if l.pipes == nil { l.pipes = make(…) }`) empties nothing
			lazy := false
			for _, g := range p.GuardStrings(in) {
				if strings.HasSuffix(g, "."+fieldName(fa.X.Type(), fa.Field)+" == nil") {
					lazy = true
				}
			}
			if lazy {
				return
			}
			n++
			want := ""
			if pk := p.pkgOf(fn); pk != nil {
				want = relTypeString(st.Val.Type(), pk.Types)
			}
			swept := false
			home := p.closureHome(fn)
			for _, f := range WithClosures(home) {
				for _, l := range p.rangeLoops(f) {
					if l.typ == want {
						swept = true
					}
				}
			}
			// ... or hands the old list to a private helper that sweeps it (`closePipes(old)`)
			if !swept {
				for _, f := range WithClosures(home) {
					EachInstr(f, func(i2 ssa.Instruction) {
						c := CallOf(i2)
						if c == nil || swept {
							return
						}
						sc := c.StaticCallee()
						if sc == nil || sc.Blocks == nil || !p.moduleFunc(sc) {
							return
						}
						for _, a := range c.Args {
							if pk := p.pkgOf(fn); pk != nil && relTypeString(a.Type(), pk.Types) == want {
								for _, l := range p.rangeLoops(sc) {
									if l.typ == want {
										swept = true
									}
								}
							}
						}
					})
				}
			}
			// constructors (New…) build the object: nothing to sweep yet
			if strings.HasPrefix(home.Name(), "New") || strings.HasPrefix(home.Name(), "new") || strings.HasPrefix(home.Name(), "init") {
				swept = true
			}
			// frozen exceptions, one line of reason each
			for _, ex := range listResetAllowed {
				if ex.fn == p.FuncName(home) && ex.field == fieldKeyOf(fa) && hasAtom(p.GuardStrings(in), ex.guard) {
					swept = true
				}
			}
			r.Check(swept, R, p.FuncName(fn)+"/"+fieldKeyOf(fa), p.InstrPos(in), "emptied by the function that sweeps it", "the list "+Desc(fa)+" is reset here, in a function that does not sweep a collection of that type: the entries it held (connections already accepted, endpoints, pipes) are dropped without being closed and nothing can reach them afterwards")
		})
	}
	r.Count("list_resets."+R, n)
}

// ---------------------------------------------------------------------------------
// a blocking hand-over to a pipe's queue also watches the pipe's close channel

// pipeQueueSendsWatchClose: a blocking select that offers a message to a channel field of a
// per-connection object (p.sendQ) also has a receive arm on a close channel of that same object
// (p.closeQ): the goroutine that drains the queue exits when the connection goes, and a
// sender that does not watch for that waits for ever.
func pipeQueueSendsWatchClose(p *Prog, r *Report, R string, filter func(rel string) bool) {
	r.Describe(R, "every blocking select that offers a message to a per-connection queue (p.sendQ) also waits on that connection's close channel: the queue's reader exits when the peer goes away, and a sender that is not watching blocks for ever (a non-blocking test made before the select does not cover a peer that leaves during the wait)")
	n := 0
	for _, fn := range p.Funcs {
		rel, ok := p.FuncRel(fn)
		if !ok || !filter(rel) || strings.HasSuffix(p.Fset.Position(fn.Pos()).Filename, "_test.go") {
			continue
		}
		EachInstr(fn, func(in ssa.Instruction) {
			sel, ok := in.(*ssa.Select)
			if !ok || !sel.Blocking {
				return
			}
			for _, st := range sel.States {
				if st.Dir != types.SendOnly || !isMsgChan(st.Chan.Type()) {
					continue
				}
				fa := chanField(st.Chan)
				if fa == nil {
					continue
				}
				owner := namedOf(fa.X.Type())
				if owner == nil {
					continue
				}
				// does the owner type have a close channel at all?
				stt := derefStruct(fa.X.Type())
				closeFld := ""
				if stt != nil {
					for i := 0; i < stt.NumFields(); i++ {
						nm := strings.ToLower(stt.Field(i).Name())
						if _, isCh := stt.Field(i).Type().Underlying().(*types.Chan); isCh && strings.HasPrefix(nm, "close") {
							closeFld = stt.Field(i).Name()
						}
					}
				}
				if closeFld == "" {
					continue
				}
				// only per-connection objects (the protocols call them pipe): a socket's own
				// receive queue is drained by the application, not by a goroutine that exits
				if Desc(fa.X) == "recv" || owner.Obj().Name() != "pipe" {
					continue
				}
				n++
				watched := false
				for _, st2 := range sel.States {
					if st2.Dir != types.RecvOnly {
						continue
					}
					if fa2 := chanField(st2.Chan); fa2 != nil && namedOf(fa2.X.Type()) == owner && fieldName(fa2.X.Type(), fa2.Field) == closeFld {
						watched = true
					}
				}
				r.Check(watched, R, p.FuncName(fn)+"/send->"+TypeKey(owner)+"."+fieldName(fa.X.Type(), fa.Field), p.InstrPos(in), "the select also waits on the connection's "+closeFld, "this blocking select offers a message to "+Desc(st.Chan)+" without a receive arm on "+closeFld+" of the same connection: if the peer hangs up while the call waits, nobody drains the queue and the call never returns")
			}
		})
	}
	r.Count("pipe_queue_sends."+R, n)
}

// ---------------------------------------------------------------------------------
// a transport Dial reads its options when it dials

// dialStoresNoOptionState: the Dial method of a transport dialer stores nothing into the
// dialer that was computed from a field SetOption writes.  Each Dial (the core redials with
// the same object) must see the options in force now; an object built from them on the first
// Dial and kept makes every later SetOption ineffective while Get reports the new value.
func dialStoresNoOptionState(p *Prog, r *Report, R string) {
	r.Describe(R, "the Dial method of a transport dialer keeps nothing in the dialer that was built from an option field: every (re)dial uses the options in force at that moment, so a configuration error can be corrected on the same dialer")
	n := 0
	for _, pk := range p.SubjectPkgs() {
		rel, _ := Rel(pk.PkgPath)
		if !strings.HasPrefix(rel, "transport/") {
			continue
		}
		dial := p.Func(rel, "dialer", "Dial")
		setopt := p.Func(rel, "dialer", "SetOption")
		if dial == nil {
			continue
		}
		n++
		optFields := map[string]bool{}
		if setopt != nil {
			for _, f := range WithClosures(setopt) {
				EachInstr(f, func(in ssa.Instruction) {
					if st, ok := in.(*ssa.Store); ok {
						if fa, ok := st.Addr.(*ssa.FieldAddr); ok {
							optFields[fieldKeyOf(fa)] = true
						}
					}
					if mu, ok := in.(*ssa.MapUpdate); ok {
						if k := loadOfField(mu.Map); k != "" {
							optFields[k] = true
						}
					}
				})
			}
		}
		var fromOpt func(v ssa.Value, d int) bool
		fromOpt = func(v ssa.Value, d int) bool {
			if d > 4 || v == nil {
				return false
			}
			switch x := v.(type) {
			case *ssa.UnOp:
				if x.Op == token.MUL {
					if fa, ok := x.X.(*ssa.FieldAddr); ok && optFields[fieldKeyOf(fa)] {
						return true
					}
				}
			case *ssa.Alloc:
				// a composite literal: any of its field stores
				res := false
				if x.Referrers() != nil {
					for _, ref := range *x.Referrers() {
						if fa, ok := ref.(*ssa.FieldAddr); ok && fa.Referrers() != nil {
							for _, r2 := range *fa.Referrers() {
								if st, ok := r2.(*ssa.Store); ok && fromOpt(st.Val, d+1) {
									res = true
								}
							}
						}
					}
				}
				return res
			case *ssa.MakeInterface:
				return fromOpt(x.X, d+1)
			case *ssa.ChangeType:
				return fromOpt(x.X, d+1)
			case *ssa.Call:
				for _, a := range x.Call.Args {
					if fromOpt(a, d+1) {
						return true
					}
				}
			case *ssa.Extract:
				return fromOpt(x.Tuple, d+1)
			}
			return false
		}
		bad := ""
		EachInstr(dial, func(in ssa.Instruction) {
			st, ok := in.(*ssa.Store)
			if !ok {
				return
			}
			fa, ok := st.Addr.(*ssa.FieldAddr)
			if !ok || Desc(fa.X) != "recv" {
				return
			}
			if fromOpt(st.Val, 0) {
				bad = Desc(fa) + " at " + p.InstrPos(in)
			}
		})
		r.Check(bad == "", R, rel+".dialer.Dial", p.Pos(dial.Pos()), "nothing derived from an option is kept across dials", "Dial keeps "+bad+", built from an option field, in the dialer: later dials (the core redials with the same object) use that instead of the option in force, so SetOption after the first Dial is accepted, reported by Get, and ignored")
	}
	r.Count("transport_dials."+R, n)
}

// ---------------------------------------------------------------------------------
// what Set accepts, Get knows

// acceptedOptionsKnownToGet: for every transport endpoint type, an option name for which
// SetOption can return nil is an option name for which GetOption can return a value.
func acceptedOptionsKnownToGet(p *Prog, r *Report, R string) {
	r.Describe(R, "for every transport dialer and listener: an option that SetOption accepts (some path returns nil under that name) is one that GetOption of the same endpoint answers (some path under that name returns a nil error); an option that is accepted and then unknown to Get is neither supported nor refused")
	n := 0
	names := func(fn *ssa.Function, okRet func(e *Ev) bool) map[string]bool {
		out := map[string]bool{}
		f := &F{q: NewQ(p, r), fn: fn, Name: p.FuncName(fn), evs: p.Events(fn)}
		for _, e := range append(f.Ev("return", ""), f.Ev("callee-return", "")...) {
			if !okRet(e) {
				continue
			}
			for _, g := range e.Guard {
				if strings.HasPrefix(g, "arg1 == \"") {
					out[strings.Trim(strings.TrimPrefix(g, "arg1 == "), "\"")] = true
				}
			}
		}
		return out
	}
	for _, pk := range p.SubjectPkgs() {
		rel, _ := Rel(pk.PkgPath)
		if !strings.HasPrefix(rel, "transport/") {
			continue
		}
		for _, tn := range []string{"dialer", "listener"} {
			so, goo := p.Func(rel, tn, "SetOption"), p.Func(rel, tn, "GetOption")
			if so == nil || goo == nil {
				continue
			}
			n++
			set := names(so, func(e *Ev) bool { return len(e.Args) == 1 && e.Args[0] == "nil" })
			get := names(goo, func(e *Ev) bool { return len(e.Args) == 2 && e.Args[1] == "nil" })
			var missing []string
			for o := range set {
				if !get[o] {
					missing = append(missing, o)
				}
			}
			sort.Strings(missing)
			// endpoints that keep their options in a map answer Get from the map: every name
			// Set stores is one Get finds
			mapBacked := false
			EachInstr(goo, func(in ssa.Instruction) {
				if _, ok := in.(*ssa.Lookup); ok {
					mapBacked = true
				}
				if c := CallOf(in); c != nil {
					if sc := c.StaticCallee(); sc != nil && sc.Name() == "get" {
						mapBacked = true
					}
				}
			})
			r.Check(len(missing) == 0 || mapBacked, R, rel+"."+tn, p.Pos(so.Pos()), "every accepted option is answered by GetOption", "SetOption of "+rel+"."+tn+" accepts "+strings.Join(missing, ", ")+" but GetOption of the same endpoint has no answer for it (bad-option, or it falls through to another object's value): the option is accepted without being supported")
		}
	}
	r.Count("endpoint_option_pairs."+R, n)
}

// ---------------------------------------------------------------------------------
// the ipc socket-file options are applied whichever bind succeeded

// ipcPermissionsOnEveryBind: transport/ipc listener.Listen binds in two places (the first
// attempt, and again after a stale socket file was removed).  From every net.ListenUnix whose
// error is nil, every path to the point where the listener is installed passes the tests of
// the chown and chmod flags (the blocks that apply the accepted owner/group/mode options).
func ipcPermissionsOnEveryBind(p *Prog, r *Report, R string) {
	r.Describe(R, "transport/ipc: from every successful net.ListenUnix in Listen (first attempt, and the retry after a stale socket file was removed) every path to the installation of the listener passes the application of the owner/group and permission options: an accepted option takes effect whichever bind succeeded")
	ln := p.Func("transport/ipc", "listener", "Listen")
	if ln == nil || p.Conf.GOOS == "windows" {
		// not a unix build configuration (named pipes have no socket file to own)
		r.OK(R, "transport/ipc.(listener).Listen", "-", "no unix ipc listener in this build configuration")
		return
	}
	q := NewQ(p, r)
	f := &F{q: q, fn: ln, Name: p.FuncName(ln), evs: p.Events(ln)}
	type site struct {
		call *ssa.Call
		site ssa.Instruction // call of the helper in Listen, if the bind is in a helper
	}
	var binds []site
	for _, e := range f.All() {
		if e.Kind == "call" && e.What == "net.ListenUnix" {
			if c, ok := e.In.(*ssa.Call); ok {
				binds = append(binds, site{c, e.Site})
			}
		}
	}
	if len(binds) == 0 {
		r.Bad(R, "anchor:net.ListenUnix", f.Pos(), "ANCHOR-MISSING: no net.ListenUnix reachable from ipc listener.Listen")
		return
	}
	// a block "applies flag X" if it ends in an If on a load of recv.<X>
	appliesFlag := func(b *ssa.BasicBlock, flag string) bool {
		iff, ok := b.Instrs[len(b.Instrs)-1].(*ssa.If)
		if !ok {
			return false
		}
		return strings.HasSuffix(Desc(iff.Cond), "."+flag)
	}
	for i, bs := range binds {
		for _, flag := range []string{"chown", "chmod"} {
			// walk forward from the bind, on the nil side of its error; a helper's return
			// continues at the helper's call in Listen
			bad := ""
			var walkFrom func(fn *ssa.Function, b *ssa.BasicBlock, from int, errs map[ssa.Value]bool, cont ssa.Instruction, seen map[*ssa.BasicBlock]bool)
			walkFrom = func(fn *ssa.Function, b *ssa.BasicBlock, from int, errs map[ssa.Value]bool, cont ssa.Instruction, seen map[*ssa.BasicBlock]bool) {
				if bad != "" {
					return
				}
				for k := from; k < len(b.Instrs); k++ {
					x := b.Instrs[k]
					// the point of no return: the accept goroutine is started
					if _, ok := x.(*ssa.Go); ok && cont == nil {
						bad = "the start of the accept loop at " + p.InstrPos(x)
						return
					}
					if ret, ok := x.(*ssa.Return); ok {
						if cont != nil {
							// back in Listen, after the helper's call
							e2 := map[ssa.Value]bool{}
							if cv, ok := cont.(ssa.Value); ok && cv.Referrers() != nil {
								for _, ref := range *cv.Referrers() {
									if ex, ok := ref.(*ssa.Extract); ok && isErrorType(ex.Type()) {
										e2[ex] = true
									}
								}
							}
							growPhis(cont.Parent(), e2)
							walkFrom(cont.Parent(), cont.Block(), instrIndex(cont)+1, e2, nil, map[*ssa.BasicBlock]bool{})
						}
						if cont == nil && len(ret.Results) == 1 && IsNilConst(ret.Results[0]) {
							bad = "the successful return at " + p.InstrPos(x)
						}
						return
					}
				}
				if appliesFlag(b, flag) {
					return
				}
				succs := b.Succs
				if iff, ok := b.Instrs[len(b.Instrs)-1].(*ssa.If); ok {
					if bo, ok := iff.Cond.(*ssa.BinOp); ok && (bo.Op == token.NEQ || bo.Op == token.EQL) {
						if (errs[bo.X] && IsNilConst(bo.Y)) || (errs[bo.Y] && IsNilConst(bo.X)) {
							if bo.Op == token.NEQ {
								succs = []*ssa.BasicBlock{b.Succs[1]}
							} else {
								succs = []*ssa.BasicBlock{b.Succs[0]}
							}
						}
					}
				}
				for _, s := range succs {
					if !seen[s] {
						seen[s] = true
						walkFrom(fn, s, 0, errs, cont, seen)
					}
				}
			}
			errs := map[ssa.Value]bool{}
			if bs.call.Referrers() != nil {
				for _, ref := range *bs.call.Referrers() {
					if ex, ok := ref.(*ssa.Extract); ok && isErrorType(ex.Type()) {
						errs[ex] = true
					}
				}
			}
			growPhis(bs.call.Parent(), errs)
			walkFrom(bs.call.Parent(), bs.call.Block(), instrIndex(bs.call)+1, errs, bs.site, map[*ssa.BasicBlock]bool{})
			r.Check(bad == "", R, p.FuncName(ln)+"/bind#"+string(rune('1'+i))+"/"+flag, p.InstrPos(bs.call), "the "+flag+" option is applied after this bind", "from the net.ListenUnix at "+p.InstrPos(bs.call)+" a path reaches "+bad+" without passing the application of the "+flag+" option: when this bind is the one that succeeds (the retry after a stale socket file), the accepted owner/group/permission options are not applied")
		}
	}
}

// growPhis adds to set every phi one of whose edges is in set.
func growPhis(fn *ssa.Function, set map[ssa.Value]bool) {
	for changed := true; changed; {
		changed = false
		EachInstr(fn, func(in ssa.Instruction) {
			if ph, ok := in.(*ssa.Phi); ok && !set[ph] {
				for _, e := range ph.Edges {
					if set[e] {
						set[ph] = true
						changed = true
					}
				}
			}
		})
	}
}

// ---------------------------------------------------------------------------------
// the bytes of a frame's length prefix belong to the call that writes them

// frameBuffersLocal: in the transports, the buffer a length is serialised into
// (BigEndian.PutUint64 / PutUint32) or read into (io.ReadFull into a fixed array) by Send/Recv is
// memory of that call: a local array or a slice made in the function.  A buffer in the
// connection object is shared by the sender and the receiver goroutine of that connection, a
// package-level one by every connection of the process: another call overwrites the length
// between its serialisation and the write.
func frameBuffersLocal(p *Prog, r *Report, R string) {
	r.Describe(R, "the buffer a frame length is serialised into or read into by a transport's Send/Recv is local to that call (a local array or a slice made there), never a field of the connection (shared by its sender and receiver goroutines) or a package-level variable (shared by every connection)")
	n := 0
	rootOf := func(v ssa.Value) ssa.Value {
		for i := 0; i < 8; i++ {
			switch x := v.(type) {
			case *ssa.Slice:
				v = x.X
			case *ssa.IndexAddr:
				v = x.X
			case *ssa.UnOp:
				if x.Op == token.MUL {
					return x.X // a load: the address it was loaded from decides
				}
				return v
			case *ssa.ChangeType:
				v = x.X
			default:
				return v
			}
		}
		return v
	}
	for _, fn := range p.Funcs {
		rel, ok := p.FuncRel(fn)
		if !ok || !strings.HasPrefix(rel, "transport") || strings.HasSuffix(p.Fset.Position(fn.Pos()).Filename, "_test.go") {
			continue
		}
		if fn.Name() != "Send" && fn.Name() != "Recv" {
			continue
		}
		EachInstr(fn, func(in ssa.Instruction) {
			c := CallOf(in)
			if c == nil {
				return
			}
			name := CalleeName(c)
			var buf ssa.Value
			switch {
			case strings.HasSuffix(name, ".PutUint64") || strings.HasSuffix(name, ".PutUint32"):
				buf = c.Args[len(c.Args)-2]
			case name == "io.ReadFull":
				buf = c.Args[1]
				// only fixed-size scratch (the length prefix), not the message body
				if sl, ok := buf.(*ssa.Slice); ok {
					if pt, ok := sl.X.Type().Underlying().(*types.Pointer); !ok {
						return
					} else if _, isArr := pt.Elem().Underlying().(*types.Array); !isArr {
						return
					}
				} else {
					return
				}
			default:
				return
			}
			n++
			root := rootOf(buf)
			local := false
			switch x := root.(type) {
			case *ssa.Alloc:
				local = true
			case *ssa.MakeSlice:
				local = true
			case *ssa.FieldAddr:
				_ = x
			case *ssa.Global:
			}
			r.Check(local, R, p.FuncName(fn)+"/"+name, p.InstrPos(in), "the length is serialised in memory of this call", "the frame length is "+map[bool]string{true: "read into", false: "serialised into"}[name == "io.ReadFull"]+" "+Desc(root)+", which is not local to the call: a concurrent Send/Recv (the connection's other goroutine, or another connection) overwrites it before it is used, and a frame goes out with another frame's length")
		})
	}
	r.Count("frame_buffers."+R, n)
}

// ---------------------------------------------------------------------------------
// round 14: additions to a swept list are tested against the sweep

// additionsTestedAgainstClose: a struct field holding a slice of things that have a Close
// method, which some Close method of the owner empties after sweeping it (C10.18), gains an
// entry only under a test of a flag that this Close writes — made after the lock was taken,
// i.e. in the critical section of the append.  An entry appended after the sweep is closed
// by nobody: the connection (and for the websocket listener the HTTP handler goroutine that
// waits for it) stays for good.
func additionsTestedAgainstClose(p *Prog, r *Report, R string, filter func(rel string) bool) {
	r.Describe(R, "a list or table of closeable things (queued connections, connections being negotiated, pipes, contexts) that the owner's Close sweeps gains an entry only under a test, made in the same critical section as the append, of a flag that this Close sets: an entry queued after the sweep is never closed (the check made before the lock was released and re-taken proves nothing)")
	n := 0
	for _, fn := range p.Funcs {
		rel, ok := p.FuncRel(fn)
		if !ok || !filter(rel) || strings.HasSuffix(p.Fset.Position(fn.Pos()).Filename, "_test.go") {
			continue
		}
		EachInstr(fn, func(in ssa.Instruction) {
			var fa *ssa.FieldAddr
			switch st := in.(type) {
			case *ssa.Store:
				f, ok := st.Addr.(*ssa.FieldAddr)
				if !ok || !elemCloses(st.Val.Type()) {
					return
				}
				if _, isSlice := st.Val.Type().Underlying().(*types.Slice); !isSlice {
					return
				}
				c, isCall := st.Val.(*ssa.Call)
				if !isCall {
					return
				}
				if b, isB := c.Call.Value.(*ssa.Builtin); !isB || b.Name() != "append" {
					return
				}
				fa = f
			case *ssa.MapUpdate:
				// m[conn] = … on a map of closeable things kept in a field
				ld, ok := st.Map.(*ssa.UnOp)
				if !ok || !elemCloses(st.Map.Type()) {
					return
				}
				f, ok := ld.X.(*ssa.FieldAddr)
				if !ok {
					return
				}
				fa = f
			default:
				return
			}
			// an object under construction (not yet published): nothing can have closed it
			if _, fresh := fa.X.(*ssa.Alloc); fresh {
				return
			}
			// the sweeping Close of the owner: a method named Close on the same receiver type
			// that stores an empty value into this very field
			fv := FieldVar(fa)
			var closer *ssa.Function
			flags := map[string]bool{}
			for _, g := range p.Funcs {
				if g.Name() != "Close" || g.Signature.Recv() == nil || !types.Identical(g.Signature.Recv().Type(), fa.X.Type()) {
					continue
				}
				resets := false
				EachInstr(g, func(i2 ssa.Instruction) {
					s2, ok := i2.(*ssa.Store)
					if !ok {
						return
					}
					f2, ok := s2.Addr.(*ssa.FieldAddr)
					if !ok {
						return
					}
					if FieldVar(f2) == fv {
						if k, isC := s2.Val.(*ssa.Const); isC && k.Value == nil {
							resets = true
						}
					}
				})
				// ... or ranges over it (a sweep that closes the entries and leaves them in place)
				EachInstr(g, func(i2 ssa.Instruction) {
					rg, ok := i2.(*ssa.Range)
					if !ok {
						return
					}
					if ld, ok := rg.X.(*ssa.UnOp); ok {
						if f2, ok := ld.X.(*ssa.FieldAddr); ok && FieldVar(f2) == fv {
							resets = true
						}
					}
				})
				if !resets {
					continue
				}
				closer = g
				EachInstr(g, func(i2 ssa.Instruction) {
					s2, ok := i2.(*ssa.Store)
					if !ok {
						return
					}
					f2, ok := s2.Addr.(*ssa.FieldAddr)
					if !ok {
						return
					}
					if b, isB := f2.Type().(*types.Pointer).Elem().Underlying().(*types.Basic); isB && b.Kind() == types.Bool {
						flags[fieldName(f2.X.Type(), f2.Field)] = true
					}
				})
			}
			if closer == nil {
				return
			}
			n++
			// the test: a branch on a load of one of those flags that dominates the append, the
			// load itself coming after the last Lock call that dominates the append
			tested := ""
			for _, a := range p.GuardsOf(in.Block()) {
				s := NormAtom(a.Cond, a.Pol)
				for f := range flags {
					if strings.HasSuffix(s, "."+f) || strings.HasSuffix(s, "."+f+" == false") || strings.HasSuffix(s, "."+f+" == true") || strings.HasPrefix(s, "!") && strings.HasSuffix(s, "."+f) {
						if loadAfterLastUnlock(a.Cond, in) {
							tested = s
						}
					}
				}
			}
			// a helper that only appends (`pushPending`, "the caller holds the lock"): the test is
			// owed by every call site instead, under the same conditions
			if tested == "" {
				sites, okSites := 0, 0
				for _, g := range p.Funcs {
					if !p.moduleFunc(g) {
						continue
					}
					EachInstr(g, func(i2 ssa.Instruction) {
						c2 := CallOf(i2)
						if c2 == nil || c2.StaticCallee() != fn {
							return
						}
						if _, isGo := i2.(*ssa.Go); isGo {
							sites++
							return
						}
						sites++
						for _, a := range p.GuardsOf(i2.Block()) {
							s := NormAtom(a.Cond, a.Pol)
							for f := range flags {
								if (strings.HasSuffix(s, "."+f) || strings.HasSuffix(s, "."+f+" == false") || strings.HasSuffix(s, "."+f+" == true")) && loadAfterLastUnlock(a.Cond, i2) {
									okSites++
									tested = s + " at every call site"
									return
								}
							}
						}
					})
				}
				if sites == 0 || okSites != sites {
					tested = ""
				}
			}
			var fl []string
			for f := range flags {
				fl = append(fl, f)
			}
			sort.Strings(fl)
			r.Check(tested != "", R, p.FuncName(fn)+"/"+fieldKeyOf(fa), p.InstrPos(in), "appended under "+tested+" in the critical section of the append", "an entry is appended to "+Desc(fa)+" without a test, in the same critical section, of a flag that "+p.FuncName(closer)+" sets ("+strings.Join(fl, ", ")+"): when Close has run in between (the earlier check was made before the lock was released) the entry is queued after the sweep, no Accept will ever take it and nothing closes it — the connection and the goroutine serving it are leaked")
		})
	}
	r.Count("guarded_additions."+R, n)
}

// loadAfterLastUnlock: no call of an Unlock method lies on a path between the evaluation of
// cond and the instruction at (approximated: no Unlock call in a block that cond's block
// dominates and that dominates at's block, nor after cond in its own block, nor before at in
// at's block).
func loadAfterLastUnlock(cond ssa.Value, at ssa.Instruction) bool {
	ci, ok := cond.(ssa.Instruction)
	if !ok {
		return false
	}
	cb, ab := ci.Block(), at.Block()
	isUnlock := func(i ssa.Instruction) bool {
		c := CallOf(i)
		if c == nil {
			return false
		}
		if _, isDefer := i.(*ssa.Defer); isDefer {
			return false
		}
		if sc := c.StaticCallee(); sc != nil && (sc.Name() == "Unlock" || sc.Name() == "RUnlock") {
			return true
		}
		return false
	}
	for _, b := range ab.Parent().Blocks {
		if !(cb.Dominates(b) && b.Dominates(ab)) {
			continue
		}
		past := b != cb
		for _, i := range b.Instrs {
			if i == at && b == ab {
				break
			}
			if i == ci {
				past = true
				continue
			}
			if past && isUnlock(i) {
				return false
			}
		}
	}
	return true
}
