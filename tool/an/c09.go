package an

import (
	"fmt"
	"go/token"
	"strings"

	"golang.org/x/tools/go/ssa"
)

func init() {
	register(&PropInfo{ID: "C09", Run: runC09,
		Explanation: "hop-limit normal forms of the six TTL receivers extracted from SSA (counter init, guard operator, increment position => largest admitted hop count as an affine function of ttl) compared with the specification and between cooked/raw twins; OptionTTL accepts exactly [1,255] (path-condition table) with default 8; counters advance by exactly one per hop; Device validates before spawning and forwards the received message unmodified.",
		Assumptions: commonAssumptions})
}

// hopForm is the extracted normal form of a TTL guard.
type hopForm struct {
	Kind    string // "counter" (loop counter of header words) or "value" (hop byte/word from the message)
	C0      int64  // counter initial value
	Op      token.Token
	PreInc  bool   // guard sees the counter before this iteration's increment
	Offset  int64  // counter: Nmax = ttl + Offset ; value: admitted iff v <= ttl + Offset
	Bound   string // description of the bound operand
	Pos     string
	XDesc   string
	ExtraLT int64           // value form: additional `v < ExtraLT` requirement (xpair1: 255), 0 if none
	Drop    *ssa.BasicBlock // the block that drops the message when the guard fires
}

// findHopGuard locates the comparison against the ttl bound in fn and normalises it.
func findHopGuard(p *Prog, fn *ssa.Function) (*hopForm, string) {
	hf, why := findHopGuardIn(p, fn)
	if hf != nil || !strings.HasPrefix(why, "no comparison") {
		return hf, why
	}
	// the backtrace loop may have been moved into a private helper that receives the ttl
	// as an argument: look there, reading its parameters as the caller's arguments
	var out *hopForm
	outWhy := why
	EachInstr(fn, func(in ssa.Instruction) {
		c := CallOf(in)
		if c == nil || out != nil {
			return
		}
		if _, isGo := in.(*ssa.Go); isGo {
			return
		}
		sc := c.StaticCallee()
		if sc == nil || sc.Blocks == nil || sc.Pkg != fn.Pkg {
			return
		}
		saved := descSubst
		ns := map[*ssa.Parameter]string{}
		for i, par := range sc.Params {
			if i < len(c.Args) {
				ns[par] = Desc(c.Args[i])
			}
		}
		descSubst = ns
		if h2, w2 := findHopGuardIn(p, sc); h2 != nil {
			out = h2
		} else if !strings.HasPrefix(w2, "no comparison") {
			outWhy = w2
		}
		descSubst = saved
	})
	return out, outWhy
}

func findHopGuardIn(p *Prog, fn *ssa.Function) (*hopForm, string) {
	var cmp *ssa.BinOp
	var iff *ssa.If
	for _, b := range fn.Blocks {
		i, ok := b.Instrs[len(b.Instrs)-1].(*ssa.If)
		if !ok {
			continue
		}
		bo, ok := i.Cond.(*ssa.BinOp)
		if !ok {
			continue
		}
		if _, isCmp := negOp[bo.Op]; !isCmp {
			continue
		}
		if strings.Contains(Desc(bo.Y), ".ttl") || strings.Contains(Desc(bo.X), ".ttl") {
			if cmp != nil {
				return nil, "more than one comparison against ttl"
			}
			cmp, iff = bo, i
		}
	}
	if cmp == nil {
		return nil, "no comparison against the ttl field found"
	}
	x, y, op := cmp.X, cmp.Y, cmp.Op
	if strings.Contains(Desc(x), ".ttl") {
		x, y = y, x
		op = swapOp[op]
	}
	// which successor drops the message (calls Free before anything else of interest)?
	dropIdx := -1
	for k, s := range iff.Block().Succs {
		for _, in := range s.Instrs {
			if c := CallOf(in); c != nil && CalleeName(c) == "mangos.(*Message).Free" {
				dropIdx = k
			}
		}
		// in a bool helper ("could the message be accepted?") the dropping edge is the one
		// that returns false: the caller discards the message on a false result
		if dropIdx < 0 {
			if ret, ok := s.Instrs[len(s.Instrs)-1].(*ssa.Return); ok && len(ret.Results) == 1 {
				if cst, ok := ret.Results[0].(*ssa.Const); ok && cst.Value != nil && cst.Value.ExactString() == "false" {
					dropIdx = k
				}
			}
		}
		// the unlock-then-free shape (xpair1): look one level deeper on straight-line code
		if dropIdx < 0 && len(s.Succs) == 1 {
			for _, in := range s.Succs[0].Instrs {
				if c := CallOf(in); c != nil && CalleeName(c) == "mangos.(*Message).Free" {
					dropIdx = k
				}
			}
		}
	}
	if dropIdx < 0 {
		return nil, "cannot tell which edge of the ttl test drops the message"
	}
	if dropIdx == 1 {
		op = negOp[op] // normalise to "drop when x OP ttl"
	}
	hf := &hopForm{Op: op, Bound: Desc(y), Pos: p.InstrPos(iff), XDesc: Desc(x), Drop: iff.Block().Succs[dropIdx]}
	// strip conversions
	xv := x
	for {
		if c, ok := xv.(*ssa.Convert); ok {
			xv = c.X
			continue
		}
		if c, ok := xv.(*ssa.ChangeType); ok {
			xv = c.X
			continue
		}
		break
	}
	if ph, ok := xv.(*ssa.Phi); ok && len(ph.Edges) == 2 {
		// counter φ(c0, φ+1)
		var c0 int64 = -1
		inc := false
		for _, e := range ph.Edges {
			if k, ok := ConstInt(e); ok {
				c0 = k
			}
			if bo, ok := e.(*ssa.BinOp); ok && bo.Op == token.ADD && bo.X == ph {
				if k, ok := ConstInt(bo.Y); ok && k == 1 {
					inc = true
				}
			}
		}
		if c0 >= 0 && inc {
			hf.Kind, hf.C0, hf.PreInc = "counter", c0, true
			// iteration k (k = 0,1,...) sees counter c0+k; it passes when !(c0+k OP ttl)
			switch op {
			case token.GEQ: // passes iff c0+k < ttl  => k <= ttl-c0-1 => Nmax = ttl - c0
				hf.Offset = -c0
			case token.GTR: // passes iff c0+k <= ttl => Nmax = ttl - c0 + 1
				hf.Offset = -c0 + 1
			default:
				return nil, "unexpected operator " + op.String() + " in the hop guard"
			}
			return hf, ""
		}
	}
	if bo, ok := xv.(*ssa.BinOp); ok && bo.Op == token.ADD {
		return nil, "hop guard compares an incremented counter (" + Desc(bo) + "): form not enumerated"
	}
	// value form
	hf.Kind = "value"
	switch op {
	case token.GEQ: // drop iff v >= ttl: admitted iff v <= ttl-1
		hf.Offset = -1
	case token.GTR: // drop iff v > ttl: admitted iff v <= ttl
		hf.Offset = 0
	default:
		return nil, "unexpected operator " + op.String() + " in the hop guard"
	}
	return hf, ""
}

func runC09(p *Prog, r *Report) {
	q := NewQ(p, r)
	r.Describe("C09.8/drop-does-not-disconnect", "a message over the hop limit is dropped — only that message: the TTL receivers stay in their loop, so in-limit traffic sharing the connection (a nearer client behind the same device) is unaffected")
	dropDoesNotDisconnect(p, r, "C09.8/drop-does-not-disconnect", func(rel string) bool {
		switch rel {
		case "protocol/rep", "protocol/xrep", "protocol/respondent", "protocol/xrespondent", "protocol/xpair1", "protocol/xstar":
			return true
		}
		return false
	})
	R := "C09.1/hop-normal-form"
	r.Describe(R, "extracted hop guard of each TTL receiver: backtrace receivers admit n routing words iff n <= ttl; xpair1 admits hop counter b iff b <= ttl (and b < 255); xstar admits b iff b < ttl; cooked/raw twins agree")
	type spec struct {
		rel, kind string
		off       int64
	}
	specs := []spec{
		{"protocol/rep", "counter", 0}, {"protocol/xrep", "counter", 0},
		{"protocol/respondent", "counter", 0}, {"protocol/xrespondent", "counter", 0},
		{"protocol/xpair1", "value", 0}, {"protocol/xstar", "value", -1},
	}
	forms := map[string]*hopForm{}
	for _, s := range specs {
		f := q.Fn(R, s.rel, "pipe", "receiver")
		if !f.OK() {
			continue
		}
		hf, why := findHopGuard(p, f.fn)
		key := s.rel + "/receiver"
		if hf == nil {
			r.Unk(R, key, f.Pos(), "cannot extract the hop guard: "+why)
			continue
		}
		forms[s.rel] = hf
		desc := ""
		if hf.Kind == "counter" {
			desc = fmt.Sprintf("counter from %d, dropped when counter %s ttl => at most ttl%+d routing words admitted", hf.C0, hf.Op, hf.Offset)
		} else {
			desc = fmt.Sprintf("dropped when %s %s ttl => admitted iff value <= ttl%+d", hf.XDesc, hf.Op, hf.Offset)
		}
		ok := hf.Kind == s.kind && hf.Offset == s.off
		want := fmt.Sprintf("ttl%+d", s.off)
		r.Check(ok, R, key, hf.Pos, desc, desc+", but the hop limit must admit exactly up to "+want+" (off by one at hops == ttl"+map[bool]string{true: ": a message that crossed exactly TTL connections is dropped", false: ": one hop too many is forwarded"}[hf.Offset < s.off]+")")
		r.Check(strings.Contains(hf.Bound, ".ttl"), "C09.2/bound-is-ttl-option", key, hf.Pos, "bound is "+hf.Bound, "the hop guard is not compared with the ttl field")
	}
	r.Describe("C09.2/bound-is-ttl-option", "the bound of each hop guard is (a snapshot of) the field that SetOption(OptionTTL) stores")
	for _, pair := range [][2]string{{"protocol/rep", "protocol/xrep"}, {"protocol/respondent", "protocol/xrespondent"}} {
		a, b := forms[pair[0]], forms[pair[1]]
		if a != nil && b != nil {
			r.Check(a.Kind == b.Kind && a.Offset == b.Offset, R, "twins/"+pair[0]+"~"+pair[1], b.Pos, "cooked and raw admit the same hop counts", fmt.Sprintf("cooked admits ttl%+d words, raw admits ttl%+d: a device chain and a direct cooked socket disagree", a.Offset, b.Offset))
		}
	}
	xstarDropPredicate(p, r, R)
	// xpair1's additional 255 cap
	if f := q.Fn(R, "protocol/xpair1", "pipe", "receiver"); f.OK() {
		// the drop block is reached iff hops >= 255 || hops > ttl
		var drop *ssa.BasicBlock
		for _, e := range f.Ev("call", "mangos.(*Message).Free") {
			for _, g := range e.Guard {
				_ = g
			}
			if len(e.Guard) > 0 && strings.Contains(strings.Join(e.Guard, " "), "len(") && !strings.Contains(strings.Join(e.Guard, " "), "arm(") {
				// candidates: after the length check, before the select
				if drop == nil || e.In.Block().Index > drop.Index {
					if hasAtom(e.Guard, "len(recv.p.RecvMsg().Body) >= 4") {
						drop = e.In.Block()
					}
				}
			}
		}
		if drop == nil {
			r.Unk(R, "protocol/xpair1/receiver/cap-255", f.Pos(), "cannot locate the drop block of the hop test")
		} else {
			hd := "binary.(bigEndian).Uint32(encoding/binary.BigEndian,recv.p.RecvMsg().Body)"
			dom := map[string][]int64{hd: {0, 1, 2, 3, 254, 255, 256}, "recv.s.ttl": {1, 2, 3, 254, 255}}
			res := ComparePred(drop, dom, []string{"recv.p.RecvMsg() != nil", "len(recv.p.RecvMsg().Body) >= 4"}, func(env map[string]int64) bool {
				h, t := env[hd], env["recv.s.ttl"]
				return h >= 255 || h > t
			})
			switch {
			case res.Undec != "":
				r.Unk(R, "protocol/xpair1/receiver/cap-255", p.Pos(drop.Instrs[0].Pos()), "cannot evaluate the drop predicate: "+res.Undec)
			case !res.OK:
				r.Bad(R, "protocol/xpair1/receiver/cap-255", p.Pos(f.fn.Pos()), "xpair1 drop predicate differs from hops >= 255 || hops > ttl: "+res.Counter)
			default:
				r.OK(R, "protocol/xpair1/receiver/cap-255", p.Pos(f.fn.Pos()), fmt.Sprintf("drop iff hops>=255 || hops>ttl on %d assignments", res.Combos))
			}
		}
	}

	// ---- C09.3 option range and default
	R = "C09.3/ttl-option"
	r.Describe(R, "SetOption(OptionTTL) stores exactly the values 1..255; NewProtocol defaults ttl to 8")
	for _, s := range specs {
		f := q.Fn(R, s.rel, "socket", "SetOption")
		if !f.OK() {
			continue
		}
		var st Sel
		for _, e := range f.Ev("store", "recv.ttl") {
			if hasAtom(e.Guard, `arg1 == "TTL"`) {
				st = append(st, e)
			}
		}
		key := s.rel + "/SetOption(TTL)"
		if len(st) != 1 {
			r.Bad(R, key, f.Pos(), "ANCHOR-MISSING: expected one store to s.ttl under the OptionTTL case")
			continue
		}
		v := st[0].Args[0]
		okv := strings.TrimSuffix(v, "#0") + "#1"
		dom := map[string][]int64{v: {-1, 0, 1, 2, 254, 255, 256, 257}, okv: {1}}
		res := ComparePred(predBlock(st[0]), dom, []string{`arg1 == "TTL"`, okv}, func(env map[string]int64) bool { return env[v] >= 1 && env[v] <= 255 })
		switch {
		case res.Undec != "":
			r.Unk(R, key, p.InstrPos(st[0].In), "cannot evaluate the accepted range: "+res.Undec)
		case !res.OK:
			r.Bad(R, key, p.InstrPos(st[0].In), "accepted TTL range is not exactly 1..255: "+res.Counter)
		default:
			r.OK(R, key, p.InstrPos(st[0].In), "stores exactly 1..255")
		}
		np := q.Fn(R, s.rel, "", "NewProtocol")
		if np.OK() {
			d := np.Ev("store", "*.ttl")
			r.Check(len(d) == 1 && d[0].Args[0] == "8", R, s.rel+"/default-ttl", d.Pos(p), "default 8", "NewProtocol does not default ttl to 8: "+argsOf(d))
		}
	}

	// ---- C09.14 the originator's hop count is zero
	{
		R := "C09.14/hop-count-starts-at-zero"
		r.Describe(R, "a cooked PAIR1 / STAR socket sends every message with a hop count of zero: the header it installs before handing the message down is a freshly made (zeroed) 4-byte slice, never storage the message brought along (a message that was received and is sent again still has the hop count it arrived with in that storage)")
		for _, rel := range []string{"protocol/pair1", "protocol/star"} {
			f := q.Fn(R, rel, "socket", "SendMsg")
			if !f.OK() {
				continue
			}
			down := f.Ev("call", "ProtocolBase.SendMsg")
			var pre Sel
			for _, e := range f.Ev("store", "arg1.Header") {
				for _, d := range down {
					if CanPrecede(blockReach(f.fn), e.At(), d.At()) {
						pre = append(pre, e)
						break
					}
				}
			}
			okAll := len(pre) >= 1 && len(down) == 1
			bad := ""
			for _, e := range pre {
				if !(strings.HasPrefix(e.Args[0], "$makeslice[:4]") || strings.HasPrefix(e.Args[0], "make([],4")) {
					okAll = false
					bad = e.Args[0] + " at " + p.InstrPos(e.In)
				}
			}
			r.Check(okAll, R, rel+"/SendMsg", f.Pos(), "Header = make([]byte, 4) before the message goes down", "the header a cooked "+rel+" socket sends is not always a freshly made zeroed slice ("+bad+"): a re-sent message carries its old hop count, which then accumulates per bounce until the peer drops it")
		}
	}

	// ---- C09.4 counters advance by one
	R = "C09.4/one-per-hop"
	r.Describe(R, "each forwarding step adds exactly one to the hop count: xpair1 stores hops+1, xstar increments byte 3, xrep/xrespondent prepend exactly one 4-byte word holding the pipe id")
	if f := q.Fn(R, "protocol/xpair1", "pipe", "receiver"); f.OK() {
		ok := false
		for _, e := range f.Ev("store", "*.Header[3]") {
			if strings.HasPrefix(e.Args[0], "byte((") && strings.HasSuffix(e.Args[0], " + 1))") {
				ok = true
			}
		}
		r.Check(ok, R, "protocol/xpair1/receiver", f.Pos(), "Header[3] = byte(hops+1)", "xpair1 receiver does not store hops+1 into the header")
	}
	if f := q.Fn(R, "protocol/xstar", "pipe", "receiver"); f.OK() {
		ok := false
		for _, e := range f.Ev("store", "*.Header[3]") {
			if strings.HasSuffix(e.Args[0], ".Header[3] + 1)") {
				ok = true
			}
		}
		r.Check(ok, R, "protocol/xstar/receiver", f.Pos(), "Header[3]++", "xstar receiver does not increment the hop byte by one")
	}
	for _, rel := range []string{"protocol/xrep", "protocol/xrespondent"} {
		if f := q.Fn(R, rel, "pipe", "receiver"); f.OK() {
			var hd Sel
			for _, e := range f.Ev("store", "*.Header") {
				if strings.HasPrefix(e.Args[0], "append(make([],4,4)") || strings.HasPrefix(e.Args[0], "append($makeslice") {
					hd = append(hd, e)
				}
			}
			put := f.Ev("call", "binary.(bigEndian).PutUint32")
			okPut := len(put) == 1 && strings.HasSuffix(put[0].Args[1], ".Header") && strings.HasSuffix(put[0].Args[2], ".p.ID()")
			r.Check(len(hd) == 1 && okPut, R, rel+"/receiver", f.Pos(), "prepends one 4-byte word = pipe id", "the raw receiver does not prepend exactly one 4-byte word holding the arriving pipe's id: "+argsOf(hd)+" / "+argsOf(put))
		}
	}

	r.Describe("C09.6/route-recorded", "replies through a device chain find their way back: the cooked contexts keep a private copy of the routing header, the raw receivers record the arrival pipe id (shared with C05)")
	backtraceCopyRule(p, r, "C09.6/route-recorded")

	// ---- C09.5 Device
	R = "C09.5/device"
	r.Describe(R, "Device validates (non-nil, protocols are each other's peer, both raw) before spawning the forwarders; forwarder passes the received message unmodified and exits on either error; second direction only when s1 != s2")
	dv := q.Fn(R, "", "", "Device")
	if dv.OK() {
		gos := dv.Ev("go", "mangos.forwarder")
		need := []string{"$info1.Self == $info2.Peer", "$info2.Self == $info1.Peer", "φs1 != nil", "φs2 != nil"}
		ok := len(gos) == 2
		missing := ""
		bind := map[string]string{} // the same four locals in every literal of this rule
		for _, g := range gos {
			for _, n := range need {
				if !hasAtomB(g.Guard, n, bind) {
					ok = false
					missing = n
				}
			}
			raw := 0
			for _, a := range g.Guard {
				if strings.Contains(a, `GetOption("RAW")#0.(bool)?#0`) && !strings.HasPrefix(a, "!") {
					raw++
				}
			}
			if raw != 2 {
				ok = false
				missing = "both sockets raw"
			}
		}
		r.Check(ok, R, "validation-dominates-forwarders", gos.Pos(p), "both forwarders are spawned only after all validations", "a forwarder is spawned without the validation `"+missing+"`")
		if len(gos) == 2 {
			r.Check(litUnify(gos[0].Args[0], "φs1", bind) && litUnify(gos[0].Args[1], "φs2", bind) && litUnify(gos[1].Args[0], "φs2", bind) && litUnify(gos[1].Args[1], "φs1", bind), R, "directions", gos.Pos(p), "forwarder(s1,s2) and forwarder(s2,s1)", "the two forwarders do not connect s1->s2 and s2->s1: "+argsOf(gos))
			r.Check(hasAtomB(gos[1].Guard, "φs2 != φs1", bind) && !hasAtomB(gos[0].Guard, "φs2 != φs1", bind), R, "second-direction-iff-distinct", gos.Pos(p), "second direction only when s1 != s2", "the reverse forwarder is not conditional on s2 != s1 (a loopback device would forward twice)")
		}
		for _, c := range [][2]string{{"ErrClosed", ""}, {"ErrBadProto", ""}, {"ErrNotRaw", ""}} {
			ret := append(dv.Ev("return", "").Arg(0, c[0]), dv.Ev("callee-return", "").Arg(0, c[0])...)
			r.Check(len(ret) >= 1, R, "returns-"+c[0], ret.Pos(p), "returns "+c[0], "Device no longer returns "+c[0])
		}
		// mismatch predicate
		var bad Sel
		for _, e := range dv.Ev("return", "") {
			if e.Args[0] == "ErrBadProto" {
				bad = append(bad, e)
			}
		}
		if len(bad) == 1 {
			i1, i2 := litSubst("$info1", bind), litSubst("$info2", bind)
			dom := map[string][]int64{i1 + ".Self": {1, 2}, i1 + ".Peer": {1, 2}, i2 + ".Self": {1, 2}, i2 + ".Peer": {1, 2}}
			res := ComparePred(predBlock(bad[0]), dom, []string{litSubst("φs1 != nil", bind), litSubst("φs2 != nil", bind), "arg1 != nil", "arg2 != nil"}, func(env map[string]int64) bool {
				return env[i1+".Self"] != env[i2+".Peer"] || env[i2+".Self"] != env[i1+".Peer"]
			})
			r.Check(res.OK && res.Undec == "", R, "mismatch-predicate", p.InstrPos(bad[0].In), "ErrBadProto iff the sockets are not each other's peer", "Device's protocol-compatibility test is wrong: "+res.Counter+res.Undec)
		}
	}
	fw := q.Fn(R, "", "", "forwarder")
	if fw.OK() {
		sm := fw.Ev("call", "Socket.SendMsg")
		r.Check(len(sm) == 1 && sm[0].Args[0] == "arg2" && sm[0].Args[1] == "arg1.RecvMsg()#0" && sm.AllGuarded("arg1.RecvMsg()#1 == nil"), R, "forwarder-passes-message", sm.Pos(p), "SendMsg(to, received message)", "forwarder does not pass the received message to the other socket: "+argsOf(sm))
		nst := len(fw.Ev("store", ""))
		r.Check(nst == 0, R, "forwarder-no-modification", fw.Pos(), "no stores in forwarder", "forwarder writes to memory (modifies the message?)")
		rets := fw.Ev("return", "")
		okr := len(rets) == 2
		for _, e := range rets {
			if !(hasAtom(e.Guard, "arg1.RecvMsg()#1 != nil") || hasAtom(e.Guard, "arg2.SendMsg(arg1.RecvMsg()#0) != nil")) {
				okr = false
			}
		}
		r.Check(okr, R, "forwarder-exits-on-error-only", fw.Pos(), "returns only on a receive or send error", "forwarder can stop for another reason")
	}
}

// xstarDropPredicate: the xstar receiver drops a message iff it is shorter than the 4-byte
// hop header, its first three header bytes are not zero, or its hop count has reached ttl
// (a message consisting of exactly the header — empty payload — is valid).
func xstarDropPredicate(p *Prog, r *Report, R string) {
	q := NewQ(p, r)
	f := q.Fn(R, "protocol/xstar", "pipe", "receiver")
	if !f.OK() {
		return
	}
	// the point where a message is ACCEPTED (its header word is split off): it is reached
	// exactly when the message is not dropped, however the drop tests are arranged (one
	// compound condition or several consecutive ifs)
	acc := f.Ev("store", "*.Header")
	var accB *ssa.BasicBlock
	for _, e := range acc {
		if strings.HasSuffix(e.Args[0], ".Body[:4]") && e.Site == nil {
			accB = e.In.Block()
		}
	}
	if accB == nil {
		r.Unk(R, "protocol/xstar/receiver/drop-predicate", f.Pos(), "cannot locate the point where the hop header is split off")
		return
	}
	hf := &struct{ Pos string }{p.InstrPos(accB.Instrs[0])}
	b := "recv.p.RecvMsg().Body"
	dom := map[string][]int64{"len(" + b + ")": {0, 3, 4, 5}, b + "[0]": {0, 1}, b + "[1]": {0, 1}, b + "[2]": {0, 1}, b + "[3]": {0, 1, 2, 3}, "recv.s.ttl": {1, 2, 3}}
	res := ComparePred(accB, dom, []string{"recv.p.RecvMsg() != nil"}, func(env map[string]int64) bool {
		return !(env["len("+b+")"] < 4 || env[b+"[0]"] != 0 || env[b+"[1]"] != 0 || env[b+"[2]"] != 0 || env[b+"[3]"] >= env["recv.s.ttl"])
	})
	switch {
	case res.Undec != "":
		r.Unk(R, "protocol/xstar/receiver/drop-predicate", hf.Pos, "cannot evaluate the drop predicate: "+res.Undec)
	case !res.OK:
		r.Bad(R, "protocol/xstar/receiver/drop-predicate", hf.Pos, "xstar drops (or forwards) the wrong messages: drop must be len<4 || hdr[0..2]!=0 || hdr[3]>=ttl; "+res.Counter)
	default:
		r.OK(R, "protocol/xstar/receiver/drop-predicate", hf.Pos, fmt.Sprintf("drop iff len<4 || hdr[0..2]!=0 || hops>=ttl on %d assignments (a bare 4-byte header is delivered)", res.Combos))
	}
}
