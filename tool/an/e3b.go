package an

import (
	"fmt"
	"go/token"
	"sort"
	"strings"

	"golang.org/x/tools/go/ssa"
)

// E3b ATOMICITY (check-then-act).  A write to a lock-disciplined field that is
// conditional on the value of a field guarded by the same lock must read that value in
// the critical section that performs the write.  If the deciding read happened in an
// EARLIER acquisition of the lock (the lock was released in between) and is not repeated,
// another goroutine can invalidate the condition between the check and the act: e.g.
// "if !closed { … unlock … lock … listeners = append(listeners, l) }" registers an
// endpoint on a socket that was closed in the window.

type E3bIssue struct {
	Fn    *ssa.Function
	Write ssa.Instruction
	Load  ssa.Instruction
	Field string // written field
	Cond  string // field the stale condition read
	Atom  string
	Lock  string
	// Lifecycle: the written field is one the owner's Close tears down (reads, clears,
	// stops) and the stale condition is a flag that Close writes.  Only these are
	// obligations: a registration that Close can miss.  The other stale checks found on
	// this tree restore the function's own in-progress token (active, recvWait) or store
	// state that is never observed on a closed object; they are counted, not reported.
	Lifecycle  bool
	Serialised bool // lifecycle-class, but the function and Close share an outer lock
}

// closeTouches: field keys read or written by the Close method of the type owning
// fieldKey ("rel.Type.field"), and those it writes.
func (p *Prog) closeTouches(owner string) (touched, written map[string]bool) {
	touched, written = map[string]bool{}, map[string]bool{}
	i := strings.LastIndex(owner, ".")
	if i < 0 {
		return
	}
	fn := p.Func(owner[:i], owner[i+1:], "Close")
	if fn == nil {
		return
	}
	for _, f := range WithClosures(fn) {
		EachInstr(f, func(in ssa.Instruction) {
			if k := writtenFieldKey(in); k != "" {
				touched[k] = true
				written[k] = true
			}
			if u, ok := in.(*ssa.UnOp); ok && u.Op == token.MUL {
				if k := loadFieldKey(u); k != "" {
					touched[k] = true
				}
			}
		})
	}
	return
}

func (p *Prog) E3b() []E3bIssue {
	if p.e3b != nil {
		return *p.e3b
	}
	var out []E3bIssue
	serialised := 0
	e1 := p.E1()
	e3 := p.E3()
	guardedBy := func(fieldKey, abs string) bool {
		fi := e3.fields[fieldKey]
		if fi == nil {
			return false
		}
		for _, g := range fi.Guard {
			if g == abs {
				return true
			}
		}
		return false
	}
	for _, fn := range p.Funcs {
		if !p.InScope(fn) {
			continue
		}
		for _, b := range fn.Blocks {
			for _, in := range b.Instrs {
				wkey := writtenFieldKey(in)
				if wkey == "" {
					continue
				}
				hw := e1.held[in]
				if len(hw) == 0 {
					continue
				}
				atoms := p.GuardsOf(b)
				for _, h := range hw {
					if !guardedBy(wkey, h.Abs) {
						continue
					}
					// atoms by string -> fresh?
					type info struct {
						stale *ssa.UnOp
						fresh bool
						cond  string
					}
					byAtom := map[string]*info{}
					for _, a := range atoms {
						s := NormAtom(a.Cond, a.Pol)
						for _, ld := range fieldLoadsIn(a.Cond, 0) {
							fk := loadFieldKey(ld)
							if fk == "" || !guardedBy(fk, h.Abs) {
								continue
							}
							var at ssa.Instruction
							found := false
							for _, hl := range e1.held[ld] {
								if hl.Abs == h.Abs && hl.Path == h.Path {
									at = hl.At
									found = true
								}
							}
							if !found {
								continue // unlocked read: E3's business
							}
							inf := byAtom[s]
							if inf == nil {
								inf = &info{}
								byAtom[s] = inf
							}
							if at == h.At {
								inf.fresh = true
							} else if inf.stale == nil {
								inf.stale = ld
								inf.cond = fk
							}
						}
					}
					var ks []string
					for k := range byAtom {
						ks = append(ks, k)
					}
					sort.Strings(ks)
					for _, k := range ks {
						inf := byAtom[k]
						if inf.stale != nil && !inf.fresh {
							life, ser, toctou := false, false, false
							// test-and-set of ONE field across two critical sections: the write
							// is conditional on a stale read of the very field it writes, and the
							// function did not itself claim the field in the earlier section
							// (the in-progress-token idiom: active/recvWait set there, cleared here)
							if inf.cond == wkey && !writesFieldUnder(e1, fn, wkey, inf.stale, in) {
								toctou = true
							}
							if j := strings.LastIndex(wkey, "."); j > 0 {
								t, w := p.closeTouches(wkey[:j])
								life = t[wkey] && w[inf.cond] && fn.Name() != "Close"
								// the function and the owner's Close are both only ever called with a
								// common outer lock held (e.g. the core listener's lock around the
								// transport listener's Listen and Close): they cannot interleave
								if life {
									o := wkey[:j]
									if cf := p.Func(o[:strings.LastIndex(o, ".")], o[strings.LastIndex(o, ".")+1:], "Close"); cf != nil {
										a, b := p.callSiteLocks(fn), p.callSiteLocks(cf)
										for lk := range a {
											if b[lk] {
												life = false
												ser = true
											}
										}
									}
								}
							}
							if toctou && !ser {
								life = true
							}
							out = append(out, E3bIssue{Fn: fn, Write: in, Load: inf.stale, Field: wkey, Cond: inf.cond, Atom: k, Lock: h.Abs, Lifecycle: life, Serialised: ser})
							if ser {
								serialised++
							}
						}
					}
				}
			}
		}
	}
	p.e3bSerialised = serialised
	p.e3b = &out
	return out
}

// writtenFieldKey: "rel.Type.field" if in writes a struct field (store, map update, delete).
func writtenFieldKey(in ssa.Instruction) string {
	var fa *ssa.FieldAddr
	switch x := in.(type) {
	case *ssa.Store:
		fa, _ = x.Addr.(*ssa.FieldAddr)
	case *ssa.MapUpdate:
		fa = chanField(x.Map)
	case *ssa.Call:
		if IsBuiltin(&x.Call, "delete") {
			fa = chanField(x.Call.Args[0])
		}
	}
	if fa == nil {
		return ""
	}
	n := namedOf(fa.X.Type())
	if n == nil {
		return ""
	}
	return TypeKey(n) + "." + fieldName(fa.X.Type(), fa.Field)
}

func loadFieldKey(u *ssa.UnOp) string {
	fa, ok := u.X.(*ssa.FieldAddr)
	if !ok {
		return ""
	}
	n := namedOf(fa.X.Type())
	if n == nil {
		return ""
	}
	return TypeKey(n) + "." + fieldName(fa.X.Type(), fa.Field)
}

// fieldLoadsIn: loads of struct fields in the expression tree of v.
func fieldLoadsIn(v ssa.Value, d int) []*ssa.UnOp {
	if d > 6 {
		return nil
	}
	var out []*ssa.UnOp
	switch x := v.(type) {
	case *ssa.UnOp:
		if x.Op == token.MUL {
			if _, ok := x.X.(*ssa.FieldAddr); ok {
				out = append(out, x)
				return out
			}
		}
		out = append(out, fieldLoadsIn(x.X, d+1)...)
	case *ssa.BinOp:
		out = append(out, fieldLoadsIn(x.X, d+1)...)
		out = append(out, fieldLoadsIn(x.Y, d+1)...)
	case *ssa.Call:
		if b, ok := x.Call.Value.(*ssa.Builtin); ok && (b.Name() == "len" || b.Name() == "cap") {
			out = append(out, fieldLoadsIn(x.Call.Args[0], d+1)...)
		}
	case *ssa.Extract:
		out = append(out, fieldLoadsIn(x.Tuple, d+1)...)
	case *ssa.Lookup:
		out = append(out, fieldLoadsIn(x.X, d+1)...)
	case *ssa.ChangeType:
		out = append(out, fieldLoadsIn(x.X, d+1)...)
	case *ssa.Convert:
		out = append(out, fieldLoadsIn(x.X, d+1)...)
	case *ssa.Phi:
		for _, e := range x.Edges {
			out = append(out, fieldLoadsIn(e, d+1)...)
		}
	}
	return out
}

// e3bObligations: one obligation per function with conditional writes under a lock.
func e3bObligations(p *Prog, r *Report, rule string, inPkg func(rel string) bool) {
	issues := p.E3b()
	bad := map[string]bool{}
	nonLife := 0
	for _, is := range issues {
		rel, _ := p.FuncRel(is.Fn)
		if inPkg != nil && !inPkg(rel) {
			continue
		}
		if !is.Lifecycle {
			if !is.Serialised {
				nonLife++
			}
			continue
		}
		bad[p.FuncName(is.Fn)] = true
		r.Bad(rule, p.FuncName(is.Fn)+"/"+is.Field+"/"+is.Atom, p.InstrPos(is.Write),
			fmt.Sprintf("check-then-act across critical sections: %s is written under %s on the condition %q, but that condition read %s at %s in an earlier acquisition of the lock and is not re-evaluated in the section that writes: another goroutine can change it in between", is.Field, is.Lock, is.Atom, is.Cond, p.InstrPos(is.Load)))
	}
	n := 0
	for _, fn := range p.Funcs {
		if !p.InScope(fn) {
			continue
		}
		rel, _ := p.FuncRel(fn)
		if inPkg != nil && !inPkg(rel) {
			continue
		}
		has := false
		EachInstr(fn, func(in ssa.Instruction) {
			if writtenFieldKey(in) != "" && len(p.E1().held[in]) > 0 && len(p.GuardsOf(in.Block())) > 0 {
				has = true
			}
		})
		if has {
			n++
			if !bad[p.FuncName(fn)] {
				r.OK(rule, p.FuncName(fn), p.Pos(fn.Pos()), "every conditional write under a lock re-reads its condition in the same critical section")
			}
		}
	}
	r.Count("e3b.functions_with_conditional_locked_writes", n)
	r.Count("e3b.stale_checks_not_lifecycle_(not_reported)", nonLife)
	r.Count("e3b.stale_lifecycle_checks_serialised_by_an_outer_lock", p.e3bSerialised)
}

// callSiteLocks: abstract locks held at every in-module synchronous call site of fn
// (intersection; empty when there is none).  Unlike the E3 entry lockset this ignores
// that an exported method of an unexported transport type could also be driven by an
// application directly: transport endpoints are documented as "only intended for use by
// transport implementors" and are driven by internal/core (recorded as an assumption).
func (p *Prog) callSiteLocks(fn *ssa.Function) map[string]bool {
	n := p.CG().Nodes[fn]
	if n == nil {
		return nil
	}
	var out map[string]bool
	for _, e := range n.In {
		caller := e.Caller.Func
		if !p.moduleFunc(caller) || e.Site == nil {
			continue
		}
		if _, isGo := e.Site.(*ssa.Go); isGo {
			return map[string]bool{}
		}
		// a call on an object this caller has just created (the receiver is the result
		// of a call in the same function, e.g. closing a transport listener whose
		// options could not be applied) happens before the object is visible to anyone
		var rv ssa.Value
		if cc := e.Site.Common(); cc.IsInvoke() {
			rv = cc.Value
		} else if len(cc.Args) > 0 {
			rv = cc.Args[0]
		}
		if ex, ok := rv.(*ssa.Extract); ok {
			rv = ex.Tuple
		}
		if _, ok := rv.(*ssa.Call); ok {
			continue
		}
		here := map[string]bool{}
		for _, h := range p.E1().held[e.Site] {
			here[h.Abs] = true
		}
		for l := range p.EntryLocks(caller) {
			here[l] = true
		}
		if out == nil {
			out = here
		} else {
			for l := range out {
				if !here[l] {
					delete(out, l)
				}
			}
		}
	}
	return out
}

// writesFieldUnder: fn stores to field key inside the critical section in which the load
// ld was made (same acquisition of some lock), on the way to the later write.
func writesFieldUnder(e1 *e1Result, fn *ssa.Function, key string, ld ssa.Instruction, later ssa.Instruction) bool {
	found := false
	EachInstr(fn, func(in ssa.Instruction) {
		if found || writtenFieldKey(in) != key {
			return
		}
		// the claim must lie on the way to the later write (a store on a branch that
		// returns claims nothing for the path that goes on)
		if later != nil && in != later && !InstrDominates(in, later) {
			return
		}
		for _, a := range e1.held[in] {
			for _, b := range e1.held[ld] {
				if a.At == b.At {
					found = true
				}
			}
		}
	})
	return found
}
