package an

import (
	"strings"

	"golang.org/x/tools/go/ssa"
)

func init() {
	register(&PropInfo{ID: "C02", Run: runC02,
		Explanation: "PAIR admits a peer only when none is attached (store guarded by peer == nil under the lock, refusal is ErrProtoState and side-effect free, departure of a refused pipe cannot evict the admitted one); exactly one sender and one receiver goroutine per pipe and only they call the pipe's SendMsg; PUSH takes message and pipe in one critical section, spawns one send per message, wakes the scheduler unconditionally after every enqueue, re-queues a pipe only after a successful send while open; no duplication primitives on these paths; per-pipe goroutines stop with their pipe; queue capacity of the len-polled PUSH queue.",
		Assumptions: commonAssumptions})
}

func runC02(p *Prog, r *Report) {
	noRequeue(p, r, "C02.14/no-requeue", func(rel string) bool {
		return strings.HasPrefix(rel, "protocol/") || strings.HasPrefix(rel, "transport") || rel == "internal/core"
	})
	r.Floor("C02.14/no-requeue", "requeue_sites.C02.14/no-requeue", 3)
	queuePops(p, r, "C02.12/queue-pops", func(rel string) bool { return rel == "protocol/xpush" || strings.HasPrefix(rel, "transport") })
	r.Floor("C02.12/queue-pops", "queue_pop_sites", 2)
	crossCutting(p, r, "C02.X", "internal/core", "protocol/xpair", "protocol/xpair1", "protocol/xpush", "protocol/xpull")
	lockBalance(p, r, "C02.7/E1", "internal/core", "protocol/xpair", "protocol/xpair1", "protocol/xpush", "protocol/xpull")
	q := NewQ(p, r)
	R := "C02.1/pair-admission"
	r.Describe(R, "xpair/xpair1.AddPipe: peer stored only when peer == nil (and open) under the socket lock; refusal returns ErrProtoState without side effects; RemovePipe clears peer only for the admitted pipe")
	for _, rel := range []string{"protocol/xpair", "protocol/xpair1"} {
		mu := rel + ".socket.Mutex"
		ap := q.Fn(R, rel, "socket", "AddPipe")
		if ap.OK() {
			st := ap.Ev("store", "recv.peer")
			r.Check(len(st) == 1 && st.AllGuarded("recv.peer == nil") && st.AllGuarded("!recv.closed") && st.AllHeld(mu), R, rel+"/AddPipe/admits-only-if-free", st.Pos(p), "peer = p only when peer == nil, under the lock", "a second connection can replace the established peer (s.peer stored without the guard peer == nil under the lock): "+guardsOf(st))
			var ref Sel
			for _, e := range ap.Ev("return", "") {
				if e.Args[0] == "ErrProtoState" {
					ref = append(ref, e)
				}
			}
			r.Check(len(ref) == 1 && ref.AllGuarded("recv.peer != nil"), R, rel+"/AddPipe/refusal", ref.Pos(p), "ErrProtoState iff a peer is attached", "refusal of a second peer is not `return ErrProtoState` under peer != nil")
			// side-effect free refusal: no go / store to heap / channel op guarded by peer != nil
			se := 0
			for _, e := range ap.All() {
				if !hasAtom(e.Guard, "recv.peer != nil") {
					continue
				}
				switch e.Kind {
				case "go", "send", "close", "mapupdate", "delete", "select-send":
					se++
				case "store":
					if !strings.HasPrefix(e.What, "$") && e.What != "new" {
						se++
					}
				}
			}
			r.Check(se == 0, R, rel+"/AddPipe/refusal-no-side-effect", ap.Pos(), "nothing is started or stored on the refusal path", "the refusal path has side effects (the established conversation can be disturbed)")
			gs := ap.Ev("go", "")
			ns, nr := 0, 0
			for _, g := range gs {
				if strings.HasSuffix(g.What, ".sender") {
					ns++
				}
				if strings.HasSuffix(g.What, ".receiver") {
					nr++
				}
				if !hasAtom(g.Guard, "recv.peer == nil") {
					ns += 10
				}
			}
			r.Check(ns == 1 && nr == 1 && len(gs) == 2, R, rel+"/AddPipe/one-sender-one-receiver", gs.Pos(p), "exactly one sender and one receiver goroutine, only for the admitted pipe", "AddPipe does not start exactly one sender and one receiver for the admitted pipe (order / exactly-once per connection depends on a single sender)")
		}
		rp := q.Fn(R, rel, "socket", "RemovePipe")
		if rp.OK() {
			st := rp.Ev("store", "recv.peer").Arg(0, "nil")
			r.Check(len(st) == 1 && st.AllGuarded("arg1 == recv.peer.p") && st.AllGuarded("recv.peer != nil") && st.AllHeld(mu), R, rel+"/RemovePipe/only-own-peer", st.Pos(p), "peer cleared only if it is the departing pipe", "RemovePipe clears s.peer for a pipe that is not the admitted one (a refused second connection evicts the first)")
			cl := rp.Ev("close", "close")
			r.Check(len(cl) == 1 && cl.AllGuarded("arg1 == recv.peer.p"), R, rel+"/RemovePipe/stops-goroutines", cl.Pos(p), "the admitted pipe's closeQ is closed", "RemovePipe does not close the admitted pipe's closeQ")
		}
		q.OnlyIn(R, rel+"/callers-of-pipe-SendMsg", callersIn(p, rel, "ProtocolPipe.SendMsg"), []string{rel + ".(*pipe).sender"}, []string{rel + ".(*pipe).sender"})
	}

	R = "C02.3/push-scheduler"
	r.Describe(R, "xpush: message and pipe taken in one critical section, one send goroutine per message, unconditional wake-up after each enqueue, pipe re-queued only after a successful send while socket and pipe are open")
	xm := "protocol/xpush.socket.Mutex"
	sn := q.Fn(R, "protocol/xpush", "socket", "sender")
	if sn.OK() {
		rc := sn.Ev("recv", "recv.sendQ")
		pop := sn.Ev("store", "recv.readyQ").Arg(0, "recv.readyQ[1:]")
		g := sn.Ev("go", "xpush.(*pipe).send")
		same := len(rc) == 1 && len(pop) == 1 && len(g) == 1
		if same {
			same = false
			for _, h1 := range p.E1().held[rc[0].In] {
				for _, h2 := range p.E1().held[pop[0].In] {
					if h1.At == h2.At && h1.Abs == xm {
						same = true
					}
				}
			}
		}
		r.Check(same, R, "sender/one-critical-section", rc.Pos(p), "dequeue of the message and of the pipe happen in one critical section", "the message and the ready pipe are not taken in the same critical section (two schedulers could pair one pipe with two messages)")
		r.Check(len(g) == 1 && g[0].Args[0] == "recv.readyQ[0]" && g[0].Args[1] == "<-recv.sendQ", R, "sender/one-send-per-message", g.Pos(p), "go readyQ[0].send(<-sendQ)", "the scheduler does not hand exactly the dequeued message to exactly the popped pipe: "+argsOf(g))
		r.Check(rc.AllGuarded("len(recv.sendQ) != 0") && rc.AllGuarded("len(recv.readyQ) != 0"), R, "sender/guards", rc.Pos(p), "only when a message and a pipe are available", "the scheduler dequeues without checking both queues")
	}
	sd := q.Fn(R, "protocol/xpush", "pipe", "send")
	if sd.OK() {
		st := sd.Ev("store", "recv.s.readyQ")
		ok := len(st) == 1 && st.AllGuarded("recv.p.SendMsg(arg1) == nil") && st.AllGuarded("!recv.s.closed") && st.AllGuarded("!recv.closed") && st.AllHeld(xm)
		r.Check(ok, R, "send/requeue-after-success", st.Pos(p), "pipe becomes ready again only after SendMsg succeeded, while socket and pipe are open", "the pipe is put back on the ready list without (SendMsg == nil && !s.closed && !p.closed): a closed pipe is scheduled again and its message lost: "+guardsOf(st))
		bc := sd.Ev("call", "sync.(*Cond).Broadcast")
		r.Check(len(bc) == 1 && bc.DominatedBy(st), R, "send/wakes-scheduler", bc.Pos(p), "scheduler woken after the pipe is ready", "the scheduler is not woken when a pipe becomes ready")
		fr := sd.Ev("call", "mangos.(*Message).Free").Guarded("recv.p.SendMsg(arg1) != nil")
		r.Check(len(fr) == 1, R, "send/frees-on-error", fr.Pos(p), "message freed when the pipe send fails", "a failed pipe send does not free the message")
	}
	sm := q.Fn(R, "protocol/xpush", "socket", "SendMsg")
	if sm.OK() {
		sg := sm.Ev("call", "sync.(*Cond).Signal")
		if len(sg) == 0 {
			sg = sm.Ev("call", "sync.(*Cond).Broadcast")
		}
		// unconditional: reached on the enqueue arm with no condition beyond "not closed" and
		// the outcome of the select itself (whatever the order of its cases)
		ok := len(sg) == 1 && hasAtomPrefix(sg[0].Guard, "arm(") && hasAtomSuffix(sg[0].Guard, "sendQ<-)") && sg.AllHeld(xm)
		if ok {
			for _, a := range sg[0].Guard {
				if a != "!recv.closed" && !strings.HasPrefix(a, "arm(") && !strings.HasPrefix(a, "!arm(") {
					ok = false
				}
			}
		}
		r.Check(ok, R, "SendMsg/unconditional-wakeup", sg.Pos(p), "every successful enqueue signals the scheduler, under the lock", "the scheduler wake-up after an enqueue is conditional or missing: concurrent senders can both skip it and their messages sit in the queue with an idle peer (lost wake-up): "+guardsOf(sg))
	}
	apu := q.Fn(R, "protocol/xpush", "socket", "AddPipe")
	if apu.OK() {
		bc := apu.Ev("call", "sync.(*Cond).Broadcast")
		st := apu.Ev("store", "recv.readyQ")
		r.Check(len(bc) == 1 && len(st) == 1 && bc.DominatedBy(st), R, "AddPipe/new-pipe-ready", bc.Pos(p), "a new pipe is queued as ready and the scheduler is woken", "a new pipe is not made ready / the scheduler not woken")
	}
	if rp := q.Fn(R, "protocol/xpush", "socket", "RemovePipe"); rp.OK() {
		st := rp.Ev("store", "*.closed").Arg(0, "true")
		r.Check(len(st) == 1 && st[0].Unconditional() && st.AllHeld(xm), R, "RemovePipe/marks-pipe-closed", st.Pos(p), "the departing pipe is marked closed unconditionally, under the lock", "RemovePipe does not mark the departing pipe closed on every path: an in-flight send that still succeeds puts the dead pipe back on the ready list, and the next message handed to it is lost: "+guardsOf(st))
	}
	q.ListRemoval(R, "RemovePipe/leaves-ready-list", q.Fn(R, "protocol/xpush", "socket", "RemovePipe"), "recv.readyQ", xm, "RemovePipe does not take the departing pipe out of the ready list by shortening it: a stale or duplicated entry is scheduled later and the message handed to it is lost or sent twice")
	q.StoreClasses(R, "readyQ-writers", "protocol/xpush.socket.readyQ", map[string]string{"protocol/xpush.(*socket).sender": "set", "protocol/xpush.(*pipe).send": "set", "protocol/xpush.(*socket).AddPipe": "set", "protocol/xpush.(*socket).RemovePipe": "set"})
	q.OnlyIn(R, "xpush/callers-of-pipe-SendMsg", callersIn(p, "protocol/xpush", "ProtocolPipe.SendMsg"), []string{"protocol/xpush.(*pipe).send"}, []string{"protocol/xpush.(*pipe).send"})
	q.OnlyIn(R, "xpush/spawners-of-send", p.CallersOfGo("xpush.(*pipe).send"), []string{"protocol/xpush.(*socket).sender"}, []string{"protocol/xpush.(*socket).sender"})

	R = "C02.4/no-duplication"
	r.Describe(R, "the PAIR, PUSH and PULL code paths never Clone or Dup a message (each message has one owner and one delivery)")
	for _, rel := range []string{"protocol/xpair", "protocol/xpair1", "protocol/xpush", "protocol/xpull", "protocol/pair", "protocol/pair1", "protocol/push", "protocol/pull"} {
		n := 0
		where := ""
		for _, fn := range p.Funcs {
			if frel, _ := p.FuncRel(fn); frel != rel {
				continue
			}
			EachInstr(fn, func(in ssa.Instruction) {
				if c := CallOf(in); c != nil {
					if m := msgMethod(c); m == "Clone" || m == "Dup" {
						n++
						where = p.InstrPos(in)
					}
				}
			})
		}
		r.Check(n == 0, R, rel, where, "no Clone/Dup", "a message is duplicated at "+where+": one send could yield two receives")
	}

	r.Describe("C02.6/E4c", "per-pipe goroutines that consume a shared queue stop when their pipe is removed")
	e4CloseAwareSelects(p, r, "C02.6/E4c", func(rel string) bool {
		return rel == "protocol/xpair" || rel == "protocol/xpair1" || rel == "protocol/xpush" || rel == "protocol/xpull"
	})

	r.Describe("C02.5/E10c", "the PUSH send queue is polled with len(): it must have capacity >= 1 or no Send can ever complete")
	e10Capacity(p, r, "C02.5/E10c", map[string]string{"protocol/xpush.socket.sendQ": "the scheduler dequeues only when len(sendQ) != 0; with an unbuffered queue Send blocks forever even with a ready peer"}, func(dest string) bool { return dest == "protocol/xpush.socket.sendQ" })
}

// callersIn: callers of name restricted to one package.
func callersIn(p *Prog, rel, name string) map[string][]string {
	out := map[string][]string{}
	for k, v := range p.CallersOf(name) {
		if strings.HasPrefix(k, rel+".") {
			out[k] = v
		}
	}
	return out
}

// CallersOfGo: functions that spawn name with a `go` statement.
func (p *Prog) CallersOfGo(name string) map[string][]string {
	out := map[string][]string{}
	for _, fn := range p.Funcs {
		for _, e := range p.Events(fn) {
			if e.Kind == "go" && e.What == name {
				out[p.FuncName(fn)] = append(out[p.FuncName(fn)], p.InstrPos(e.In))
			}
		}
	}
	return out
}
