package an

import "strings"

func init() {
	register(&PropInfo{ID: "C06", Run: runC06,
		Explanation: "anchored shape rules + E5: SUB matches with bytes.HasPrefix(body, subscription) over all current subscriptions; the receiver enqueues to a context only under matches(m), visiting every context, under the socket lock; unsubscribe rebuilds the queue keeping exactly the still-matching messages; subscriptions are private copies; a delivered message is made unique; PUB visits every pipe with Clone + non-blocking send; overflow drops the oldest on SUB and the new copy on PUB; the blocking re-send under the lock needs a buffered queue.",
		Assumptions: commonAssumptions})
}

const subMu = "protocol/sub.socket.Mutex"

func runC06(p *Prog, r *Report) {
	r.Describe("C06.9/queue-swap-wakes", "whenever a SUB context's queue is rebuilt (unsubscribe, ReadQLen) the receivers blocked on the old queue are woken in the same step")
	queueSwapWakes(p, r, "C06.9/queue-swap-wakes", func(rel string) bool { return rel == "protocol/sub" || rel == "protocol/xsub" })
	crossCutting(p, r, "C06.X", "protocol/sub", "protocol/xsub", "protocol/xpub")
	lockBalance(p, r, "C06.8/E1", "protocol/sub", "protocol/xsub", "protocol/xpub")
	q := NewQ(p, r)
	R := "C06.1/matching"
	r.Describe(R, "context.matches: true iff bytes.HasPrefix(m.Body, s) for some current subscription s")
	mt := q.Fn(R, "protocol/sub", "context", "matches")
	if mt.OK() {
		hp := mt.Ev("call", "bytes.HasPrefix")
		ok := len(hp) == 1 && hp[0].Args[0] == "arg1.Body" && strings.HasPrefix(hp[0].Args[1], "recv.subs[")
		r.Check(ok, R, "prefix-of-body", hp.Pos(p), "HasPrefix(body, subscription)", "matching is not bytes.HasPrefix(m.Body, subscription) (argument order / function): "+argsOf(hp))
		var t, f Sel
		for _, e := range mt.Ev("return", "") {
			if e.Args[0] == "true" {
				t = append(t, e)
			}
			if e.Args[0] == "false" {
				f = append(f, e)
			}
		}
		okT := len(t) == 1 && len(hp) == 1 && hasAtom(t[0].Guard, "bytes.HasPrefix(arg1.Body,"+hp[0].Args[1]+")")
		r.Check(okT, R, "true-iff-some-prefix", t.Pos(p), "true exactly on a prefix hit", "matches returns true without a prefix hit")
		okF := len(f) == 1
		if okF {
			okF = false
			for _, g := range f[0].Guard {
				if strings.Contains(g, ">= len(recv.subs)") {
					okF = true
				}
			}
		}
		r.Check(okF, R, "false-after-all", f.Pos(p), "false only after all subscriptions were tried", "matches returns false before trying every subscription")
	}

	R = "C06.2/receiver"
	r.Describe(R, "sub receiver: under the socket lock, for every context, enqueue iff matches(m); full queue: drop the oldest, then enqueue")
	rc := q.Fn(R, "protocol/sub", "pipe", "receiver")
	if rc.OK() {
		body := fanoutLoop(p, r, R, "receiver", rc.fn, "recv.s.ctxs")
		var sends Sel
		for _, e := range rc.All() {
			if (e.Kind == "select-send" || e.Kind == "send") && strings.HasSuffix(e.What, ".recvQ") {
				sends = append(sends, e)
			}
		}
		okG := len(sends) == 2
		for _, e := range sends {
			one := Sel{e}
			if !hasAtom(e.Guard, "sub.(*context).matches(…)") || !one.AllHeld(subMu) || (body != nil && !inBody(body, e)) {
				okG = false
			}
		}
		r.Check(okG, R, "enqueue-iff-matches", sends.Pos(p), "every enqueue is guarded by matches(m), under the lock, inside the loop over all contexts", "a message is enqueued to a context without the guard c.matches(m) (or outside the lock/loop): "+guardsOf(sends))
		for _, e := range sends {
			if e.Kind == "select-send" {
				fanoutNoBypass(p, r, R, "receiver", e, func(a string) bool { return a == "!sub.(*context).matches(…)" }, " (skipped only for contexts whose subscriptions do not match)")
				break
			}
		}
		mc := rc.Ev("call", "sub.(*context).matches")
		r.Check(len(mc) == 1 && strings.HasPrefix(mc[0].Args[0], "next(range(recv.s.ctxs))") && mc[0].Args[1] == "recv.p.RecvMsg()", R, "matches-per-context", mc.Pos(p), "matches is evaluated per context on the received message", "matches is not evaluated for each context on the received message")
		// overflow: drop oldest (recv from the same queue + Free) then send
		dr := rc.Ev("select-recv", "")
		okO := false
		for _, e := range dr {
			if strings.HasSuffix(e.What, ".recvQ") && hasAtomPrefix(e.Guard, "!arm(") {
				okO = true
			}
		}
		r.Check(okO, R, "overflow-drops-oldest", dr.Pos(p), "on a full queue the oldest queued message is removed to make room", "SUB's overflow path does not remove the oldest queued message")
		cl := rc.Ev("call", "mangos.(*Message).Clone")
		r.Check(len(cl) == 1 && cl.AllGuarded("sub.(*context).matches(…)"), R, "clone-per-delivery", cl.Pos(p), "one Clone per matching context", "not exactly one Clone per matching context")
	}

	R = "C06.3/unsubscribe"
	r.Describe(R, "unsubscribe: under the lock, a fresh queue replaces the old one and an old message is re-queued iff it still matches, else freed; unknown topic => ErrBadValue")
	us := q.Fn(R, "protocol/sub", "context", "unsubscribe")
	if us.OK() {
		snd := us.Ev("send", "recv.recvQ")
		fr := us.Ev("call", "mangos.(*Message).Free")
		r.Check(len(snd) == 1 && snd.AllGuarded("sub.(*context).matches(…)") && strings.HasPrefix(snd[0].Args[0], "select(<-"), R, "requeue-iff-still-matches", snd.Pos(p), "re-queued only under matches(m)", "an old message is re-queued without checking that it still matches the remaining subscriptions")
		// the only conditions on the discard: the topic was found (loop/equality atoms), the
		// old queue yielded a message (select arm), and it no longer matches
		okF := len(fr) == 1 && fr.AllGuarded("!sub.(*context).matches(…)")
		if okF {
			for _, a := range fr[0].Guard {
				switch {
				case a == "!sub.(*context).matches(…)", strings.HasPrefix(a, "select#"), strings.HasPrefix(a, "select(<-"), strings.HasPrefix(a, "arm("), strings.HasPrefix(a, "!arm("), strings.HasPrefix(a, "bytes.Equal(recv.subs["):
				case strings.Contains(a, "len(recv.subs)"), strings.HasSuffix(a, " >= 0"), strings.HasSuffix(a, " != -1"):
				default:
					okF = false
				}
			}
		}
		r.Check(okF, R, "dropped-iff-no-longer-matches", fr.Pos(p), "freed exactly when it no longer matches any remaining subscription", "queued messages are discarded on a condition other than !c.matches(m) (e.g. a message still covered by another subscription is lost): "+guardsOf(fr))
		mc := us.Ev("call", "sub.(*context).matches")
		st := us.Ev("store", "recv.subs")
		r.Check(len(mc) == 1 && len(st) == 1 && mc.DominatedBy(st), R, "matches-after-removal", mc.Pos(p), "matching is evaluated after the topic was removed", "the queue is pruned against the old subscription list")
		// whenever a topic was removed the queue is rebuilt, whatever is left of the list: the
		// messages queued for the removed topic must not be handed out afterwards
		{
			ok, why := q.FollowedBy(st, us.Ev("store", "recv.recvQ"))
			r.Check(ok, R, "queue-rebuilt-after-every-removal", st.Pos(p), "every path from the removal to the return replaces the queue", "after a topic was removed from the subscription list "+why+" (without replacing and pruning the receive queue): messages queued for the removed topic are still delivered")
		}
		q.ListRemoval(R, "removes-exactly-the-equal-topic", us, "recv.subs", "", "unsubscribe does not remove exactly the one entry that is byte-equal to the topic")
		var bv Sel
		for _, e := range us.Ev("return", "") {
			if e.Args[0] == "ErrBadValue" {
				bv = append(bv, e)
			}
		}
		r.Check(len(bv) == 1, R, "absent-topic-ErrBadValue", bv.Pos(p), "ErrBadValue when the topic is not subscribed", "unsubscribing an absent topic does not return ErrBadValue")
		q.Req(R, "under-lock", p.EntryLocks(us.fn)[subMu], us.Pos(), "always called with the socket lock held", "unsubscribe can be called without the socket lock")
	}
	sb := q.Fn(R, "protocol/sub", "context", "subscribe")
	if sb.OK() {
		st := sb.Ev("store", "recv.subs")
		ap := sb.Ev("call", "append")
		okCopy := false
		for _, e := range ap {
			if strings.HasPrefix(e.Args[0], "make([],0,len(arg1))") && e.Args[1] == "arg1" {
				okCopy = true
			}
		}
		// the only way not to add the topic is that an EQUAL topic is already present
		eqAtom := func(g []string) bool {
			for _, a := range g {
				if strings.HasPrefix(a, "bytes.Equal(recv.subs[") && strings.HasSuffix(a, ",arg1)") {
					return true
				}
			}
			return false
		}
		var noop Sel
		okNoop := true
		for _, e := range sb.Ev("return", "") {
			if len(st) == 1 && e.In.Block() == st[0].In.Block() {
				continue
			}
			noop = append(noop, e)
			if !eqAtom(e.Guard) {
				okNoop = false
			}
		}
		r.Check(okNoop && len(noop) >= 1, R, "subscribe/noop-only-for-equal-topic", noop.Pos(p), "subscribe skips the insertion only when a byte-equal topic is already subscribed", "subscribe returns without adding the topic on a condition other than bytes.Equal(existing, topic): a topic merely related to an existing one (e.g. covered by a shorter prefix) is never recorded, so it is lost when the other one is unsubscribed: "+guardsOf(noop))
		if len(st) == 1 {
			okAdd := strings.HasPrefix(st[0].Args[0], "append(recv.subs,")
			r.Check(okAdd, R, "subscribe/appends", st.Pos(p), "the topic is appended to the existing list", "subscribe does not append to the existing subscription list: "+argsOf(st))
		}
		r.Check(len(st) == 1 && okCopy, R, "subscription-is-a-copy", st.Pos(p), "the topic is copied before it is stored", "the subscription aliases the caller's slice (later changes by the caller change the filter)")
	}

	r.Describe("C06.5/delivered-unique", "a delivered message is private to the receiving context (E5 shared-queue rule)")
	e5SharedQueues(p, r, "C06.5/delivered-unique")

	R = "C06.6/publisher"
	r.Describe(R, "xpub.SendMsg: every pipe visited under the lock with Clone + non-blocking send, full queue drops the new copy, own reference freed")
	pb := q.Fn(R, "protocol/xpub", "socket", "SendMsg")
	if pb.OK() {
		body := fanoutLoop(p, r, R, "xpub.SendMsg", pb.fn, "recv.pipes")
		fanoutBalanced(p, r, R, "xpub.SendMsg", pb, body, "arg1", ".sendq")
		for _, e := range pb.All() {
			if e.Kind == "select-send" {
				one := Sel{e}
				r.Check(one.AllHeld("protocol/xpub.socket.Mutex"), R, "xpub.SendMsg/under-lock", p.InstrPos(e.In), "the pipe table is walked under the socket lock", "the pipe table is walked without the lock")
			}
		}
	}
	r.Describe("C06.8/E10c", "the SUB queue must be buffered: the receiver re-sends under the socket lock after making room")
	e10Capacity(p, r, "C06.8/E10c", needCapOne, func(dest string) bool { return dest == "protocol/sub.context.recvQ" })
	// E5 issues in sub/xpub/xsub/pub
	R = "C06.9/E5"
	r.Describe(R, "message ownership (E5) on the PUB/SUB paths")
	n := 0
	for _, is := range p.E5().issues {
		rel, _ := p.FuncRel(is.Fn)
		if rel == "protocol/sub" || rel == "protocol/xsub" || rel == "protocol/xpub" || rel == "protocol/pub" {
			n++
			r.Bad(R, p.FuncName(is.Fn)+"/"+is.Kind+"/"+is.What, p.InstrPos(is.In), is.Msg)
		}
	}
	if n == 0 {
		r.OK(R, "pubsub", "-", "no ownership issue on the PUB/SUB paths")
	}
}
