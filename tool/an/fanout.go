package an

import (
	"fmt"
	"strings"

	"golang.org/x/tools/go/ssa"
)

// fanoutLoop checks a broadcast loop `for … := range <table>`: every path through the
// body returns to the loop head (no return/break inside), so every entry of the table is
// visited; returns the loop's blocks.
func fanoutLoop(p *Prog, r *Report, R, key string, fn *ssa.Function, tableDesc string) map[*ssa.BasicBlock]bool {
	var rng *ssa.Range
	// in fn itself, or in a private helper it calls (described in fn's terms)
	var search func(f *ssa.Function, d int, seen map[*ssa.Function]bool)
	search = func(f *ssa.Function, d int, seen map[*ssa.Function]bool) {
		if seen[f] || rng != nil {
			return
		}
		seen[f] = true
		EachInstr(f, func(in ssa.Instruction) {
			if x, ok := in.(*ssa.Range); ok && Desc(x.X) == tableDesc {
				rng = x
			}
		})
		if rng != nil || d >= 2 {
			return
		}
		EachInstr(f, func(in ssa.Instruction) {
			c := CallOf(in)
			if c == nil || rng != nil {
				return
			}
			if _, isGo := in.(*ssa.Go); isGo {
				return
			}
			sc := c.StaticCallee()
			if sc == nil || sc.Blocks == nil || sc.Pkg != f.Pkg {
				return
			}
			saved := descSubst
			ns := map[*ssa.Parameter]string{}
			for k, v := range saved {
				ns[k] = v
			}
			for i, par := range sc.Params {
				if i < len(c.Args) {
					ns[par] = Desc(c.Args[i])
				}
			}
			descSubst = ns
			search(sc, d+1, seen)
			descSubst = saved
		})
	}
	search(fn, 0, map[*ssa.Function]bool{})
	if rng == nil {
		r.Bad(R, key+"/ranges-over-table", p.Pos(fn.Pos()), "ANCHOR-MISSING: no `range "+tableDesc+"` loop")
		return nil
	}
	// header: block holding the Next of this range
	var head *ssa.BasicBlock
	for _, ref := range *rng.Referrers() {
		if nx, ok := ref.(*ssa.Next); ok {
			head = nx.Block()
		}
	}
	if head == nil {
		r.Bad(R, key+"/ranges-over-table", p.Pos(fn.Pos()), "cannot locate the loop header")
		return nil
	}
	// natural loop of the header: head plus everything that reaches a latch (a predecessor
	// of head that head dominates) without passing through head
	body := map[*ssa.BasicBlock]bool{head: true}
	var stack []*ssa.BasicBlock
	for _, t := range head.Preds {
		if head.Dominates(t) {
			stack = append(stack, t)
		}
	}
	for len(stack) > 0 {
		x := stack[len(stack)-1]
		stack = stack[:len(stack)-1]
		if body[x] {
			continue
		}
		body[x] = true
		stack = append(stack, x.Preds...)
	}
	bad := ""
	for b := range body {
		if b == head {
			continue
		}
		for _, in := range b.Instrs {
			if _, ok := in.(*ssa.Return); ok {
				bad = "return inside the loop at " + p.InstrPos(in)
			}
		}
		for _, s := range b.Succs {
			if !body[s] {
				if isPanicBlock(s) {
					continue
				}
				bad = fmt.Sprintf("the loop is left from its body at %s", p.InstrPos(b.Instrs[len(b.Instrs)-1]))
			}
		}
	}
	r.Check(bad == "", R, key+"/visits-every-entry", p.InstrPos(rng), "every iteration returns to the loop head: all entries of "+tableDesc+" are visited", "the broadcast loop over "+tableDesc+" can stop early ("+bad+"): entries visited later by the map iteration miss the message")
	return body
}

// fanoutBalanced: inside the loop the message is Clone'd once per iteration and either
// queued non-blockingly or freed; after the loop the sender's own reference is freed.
func fanoutBalanced(p *Prog, r *Report, R, key string, f *F, body map[*ssa.BasicBlock]bool, msg string, chanSuffix string) {
	if body == nil {
		return
	}
	var clones, sends, frees, outFrees Sel
	for _, e := range f.All() {
		in := inBody(body, e)
		switch {
		case e.Kind == "call" && e.What == "mangos.(*Message).Clone" && e.Args[0] == msg && in:
			clones = append(clones, e)
		case e.Kind == "select-send" && strings.HasSuffix(e.What, chanSuffix) && in:
			sends = append(sends, e)
		case e.Kind == "call" && e.What == "mangos.(*Message).Free" && e.Args[0] == msg:
			if in {
				frees = append(frees, e)
			} else {
				outFrees = append(outFrees, e)
			}
		}
	}
	okS := len(sends) == 1 && len(sends[0].Args) == 2 && sends[0].Args[0] == msg && sends[0].Args[1] == "nonblocking"
	r.Check(len(clones) == 1 && okS && (clones[0].In.Block() == sends[0].In.Block() || evDominates(clones[0], sends[0])), R, key+"/clone-then-try-send", sends.Pos(p), "one Clone and one non-blocking send per entry", "the fan-out does not (Clone; non-blocking send) once per entry: "+argsOf(sends))
	r.Check(len(frees) == 1 && hasAtomPrefix(frees[0].Guard, "!arm("), R, key+"/full-queue-drops-copy", frees.Pos(p), "when the entry's queue is full the copy is released (the sender never blocks)", "a full queue does not release the copy")
	if len(sends) == 1 {
		fanoutNoBypass(p, r, R, key, sends[0], nil, "")
	}
	r.Check(len(outFrees) >= 1, R, key+"/own-reference-released", outFrees.Pos(p), "the sender's own reference is released after the loop", "the sender's own reference is not released after the fan-out")
}

// loopBody: the natural loop (header + blocks reaching a latch) of the innermost loop
// containing b; nil if b is not in a loop.
func loopBody(b *ssa.BasicBlock) (*ssa.BasicBlock, map[*ssa.BasicBlock]bool) {
	head := innermostLoopHead(b, nil)
	if head == nil {
		return nil, nil
	}
	body := map[*ssa.BasicBlock]bool{head: true}
	var stack []*ssa.BasicBlock
	for _, t := range head.Preds {
		if head.Dominates(t) {
			stack = append(stack, t)
		}
	}
	for len(stack) > 0 {
		x := stack[len(stack)-1]
		stack = stack[:len(stack)-1]
		if body[x] {
			continue
		}
		body[x] = true
		stack = append(stack, x.Preds...)
	}
	return head, body
}

// fanoutNoBypass: in the innermost loop around `at` (the per-entry delivery attempt), every
// iteration reaches `at` unless it takes an edge whose condition is one of the declared
// skip conditions (e.g. "this entry is the source pipe").  A path from the loop head
// back to the loop head that avoids `at` under any other condition means some entries are
// silently passed over: the table is visited, but the message is not offered.
func fanoutNoBypass(p *Prog, r *Report, R, key string, ev *Ev, allowed func(atom string) bool, what string) {
	at := loopInstr(ev)
	if at == ev.In && ev.Subst != nil {
		// the loop is inside a private helper: read its conditions in the anchor's terms
		saved := descSubst
		descSubst = ev.Subst
		defer func() { descSubst = saved }()
	}
	head, body := loopBody(at.Block())
	if head == nil {
		r.Bad(R, key+"/offered-to-every-entry", p.InstrPos(at), "ANCHOR-MISSING: the delivery attempt is not inside a loop")
		return
	}
	target := at.Block()
	// enumerate simple paths head -> ... -> head inside body avoiding target
	var bad []string
	var path []string
	seen := map[*ssa.BasicBlock]bool{}
	var walk func(b *ssa.BasicBlock, okSkip bool)
	walk = func(b *ssa.BasicBlock, okSkip bool) {
		if len(bad) > 0 {
			return
		}
		for i, s := range b.Succs {
			if !body[s] || s == target {
				continue
			}
			atom := ""
			if iff, ok := b.Instrs[len(b.Instrs)-1].(*ssa.If); ok {
				atom = NormAtom(iff.Cond, i == 0)
			}
			sk := okSkip || (atom != "" && allowed != nil && allowed(atom))
			if s == head {
				if !sk {
					pp := append(append([]string{}, path...), atom)
					bad = append(bad, strings.Join(nonEmpty(pp), " && ")+" (back to the loop head from "+p.InstrPos(b.Instrs[len(b.Instrs)-1])+")")
				}
				continue
			}
			if seen[s] {
				continue
			}
			seen[s] = true
			path = append(path, atom)
			walk(s, sk)
			path = path[:len(path)-1]
			seen[s] = false
		}
	}
	walk(head, false)
	r.Check(len(bad) == 0, R, key+"/offered-to-every-entry", p.InstrPos(at), "every iteration reaches the delivery attempt"+what, "an iteration of the fan-out loop can pass over an entry without attempting delivery, under a condition that is not a declared skip: "+strings.Join(bad, "; "))
}

func nonEmpty(xs []string) []string {
	var out []string
	for _, x := range xs {
		if x != "" {
			out = append(out, x)
		}
	}
	return out
}

// inBody: the event lies in the loop — itself, or (for an event found in a private helper)
// the call through which it is reached.
func inBody(body map[*ssa.BasicBlock]bool, e *Ev) bool {
	return body[e.In.Block()] || body[e.At().Block()]
}

// loopInstr: the instruction to use for loop questions about e: the event's own when it is
// inside a loop of its function, else the call site in the anchor function.
func loopInstr(e *Ev) ssa.Instruction {
	if h, _ := loopBody(e.In.Block()); h != nil {
		return e.In
	}
	return e.At()
}

// DumpLoops lists every range loop of the loaded program with whether its body can leave the
// loop early (discovery aid for the sweep table).
func DumpLoops(p *Prog) {
	for _, fn := range p.Funcs {
		for _, l := range p.rangeLoops(fn) {
			ex := ""
			for _, e := range l.exits {
				ex += " EXIT@" + p.Pos(e.Pos())
			}
			fmt.Printf("AST %s\t%s\t%s\t%s\n", p.Pos(l.at.Pos()), p.FuncName(fn), l.typ, ex)
		}
		EachInstr(fn, func(in ssa.Instruction) {
			rng, ok := in.(*ssa.Range)
			if !ok {
				return
			}
			var head *ssa.BasicBlock
			for _, ref := range *rng.Referrers() {
				if nx, ok := ref.(*ssa.Next); ok {
					head = nx.Block()
				}
			}
			if head == nil {
				return
			}
			_, body := loopBody(head)
			early := ""
			for b := range body {
				if b == head {
					continue
				}
				for _, s := range b.Succs {
					if !body[s] && !isPanicBlock(s) {
						early = "EARLY-EXIT " + p.InstrPos(b.Instrs[len(b.Instrs)-1])
					}
				}
				for _, in := range b.Instrs {
					if _, ok := in.(*ssa.Return); ok {
						early = "RETURN " + p.InstrPos(in)
					}
				}
			}
			fmt.Printf("%s\t%s\trange %s\t%s\n", p.InstrPos(rng), p.FuncName(fn), Desc(rng.X), early)
		})
	}
}
