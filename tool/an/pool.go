package an

import (
	"fmt"
	"go/ast"
	"go/constant"
	"go/token"
	"strings"

	"golang.org/x/tools/go/ssa"
)

// poolRules: invariants of the message pool and of the reference-count primitives
// (C01.1-2, C17.2).  Together: a recycled buffer has capacity >= the requested size, a
// fresh message is empty with one reference, Free recycles only the last reference into
// the pool of its own size class, MakeUnique/Dup give out private full copies.
func poolRules(p *Prog, r *Report, R string) {
	q := NewQ(p, r)
	// ---- the table literal (AST): maxbody_i == size allocated by its New, ascending
	root := p.ByRel[""]
	type ent struct {
		max, alloc int64
		pos        token.Pos
	}
	var ents []ent
	found := false
	if root != nil {
		for _, f := range p.SubjectFiles(root) {
			ast.Inspect(f, func(n ast.Node) bool {
				vs, ok := n.(*ast.ValueSpec)
				if !ok || len(vs.Names) != 1 || vs.Names[0].Name != "messageCache" || len(vs.Values) != 1 {
					return true
				}
				cl, ok := vs.Values[0].(*ast.CompositeLit)
				if !ok {
					return true
				}
				found = true
				for _, el := range cl.Elts {
					ecl, ok := el.(*ast.CompositeLit)
					// an entry built by a one-argument constructor (`newMsgCache(64)`): read the
					// constructor's returned literal with its parameter bound to the constant
					var bindName string
					var bindVal int64 = -1
					if call, isCall := el.(*ast.CallExpr); isCall && !ok && len(call.Args) == 1 {
						if tv, okc := root.TypesInfo.Types[call.Args[0]]; okc && tv.Value != nil {
							if id, isId := call.Fun.(*ast.Ident); isId {
								for _, f2 := range p.SubjectFiles(root) {
									for _, d := range f2.Decls {
										fd, isFd := d.(*ast.FuncDecl)
										if !isFd || fd.Recv != nil || fd.Name.Name != id.Name || fd.Body == nil || len(fd.Body.List) != 1 || fd.Type.Params.NumFields() != 1 {
											continue
										}
										if rs, isRet := fd.Body.List[0].(*ast.ReturnStmt); isRet && len(rs.Results) == 1 {
											if rcl, isCl := rs.Results[0].(*ast.CompositeLit); isCl && len(fd.Type.Params.List[0].Names) == 1 {
												ecl, ok = rcl, true
												bindName = fd.Type.Params.List[0].Names[0].Name
												bindVal, _ = constant.Int64Val(tv.Value)
											}
										}
									}
								}
							}
						}
					}
					if !ok {
						continue
					}
					constOf := func(x ast.Expr) (int64, bool) {
						if id, isId := x.(*ast.Ident); isId && bindName != "" && id.Name == bindName {
							return bindVal, true
						}
						if tv, okc := root.TypesInfo.Types[x]; okc && tv.Value != nil {
							v, _ := constant.Int64Val(tv.Value)
							return v, true
						}
						return -1, false
					}
					e := ent{max: -1, alloc: -1, pos: el.Pos()}
					for _, kvx := range ecl.Elts {
						kv, ok := kvx.(*ast.KeyValueExpr)
						if !ok {
							continue
						}
						key, _ := kv.Key.(*ast.Ident)
						if key == nil {
							continue
						}
						switch key.Name {
						case "maxbody":
							if v, ok := constOf(kv.Value); ok {
								e.max = v
							}
						case "pool":
							ast.Inspect(kv.Value, func(m ast.Node) bool {
								call, ok := m.(*ast.CallExpr)
								if !ok {
									return true
								}
								if id, ok := call.Fun.(*ast.Ident); ok && id.Name == "newMsg" && len(call.Args) == 1 {
									if v, ok := constOf(call.Args[0]); ok {
										e.alloc = v
									}
								}
								return true
							})
						}
					}
					ents = append(ents, e)
				}
				return false
			})
		}
	}
	if !found || len(ents) == 0 {
		r.Bad(R, "messageCache/table", "-", "ANCHOR-MISSING: the messageCache table literal was not found")
	} else {
		prev := int64(0)
		for i, e := range ents {
			key := fmt.Sprintf("messageCache[%d]", i)
			r.Check(e.max > 0 && e.alloc >= e.max, R, key+"/capacity", p.Pos(e.pos), fmt.Sprintf("class %d is allocated with capacity %d", e.max, e.alloc),
				fmt.Sprintf("pool class maxbody=%d allocates buffers of capacity %d: NewMessage(sz) for %d <= sz < %d returns a buffer too small for the request (stream Recv slices Body[0:sz] beyond its capacity => panic / truncated message)", e.max, e.alloc, e.alloc, e.max))
			r.Check(e.alloc == e.max, R, key+"/recycles-to-own-class", p.Pos(e.pos), "bsize equals the class size, so Free finds the class", fmt.Sprintf("class maxbody=%d allocates bsize=%d: Free never matches a class for it (or matches another one)", e.max, e.alloc))
			r.Check(e.max > prev, R, key+"/ascending", p.Pos(e.pos), "classes ascend", "size classes are not in ascending order: NewMessage picks the first class that fits")
			prev = e.max
		}
		r.Count("pool.size_classes", len(ents))
	}
	// ---- NewMessage
	nm := q.Fn(R, "", "", "NewMessage")
	if nm.OK() {
		get := nm.Ev("call", "sync.(*Pool).Get")
		ok := len(get) == 1
		if ok {
			ok = false
			for _, g := range get[0].Guard {
				for _, op := range []string{"<", "<="} {
					atomSides(g, op, func(x, y string) bool {
						if x == "arg1" && strings.HasSuffix(y, ".maxbody") {
							// the pool taken is the one whose maxbody was compared: the same cache
							// entry, named by index (messageCache[i]) or by a range value copy (ci)
							entry := strings.TrimSuffix(y, ".maxbody")
							if cacheEntryDesc(nm.fn, entry) && strings.HasPrefix(get[0].Args[0], entry+".pool") {
								ok = true
							}
						}
						return ok
					})
				}
			}
		}
		r.Check(ok, R, "NewMessage/class-fits", get.Pos(p), "pool i is used only when sz < (or <=) maxbody_i", "NewMessage takes a pool buffer without the guard sz < maxbody of that same class: "+guardsOf(get))
		al := nm.Ev("call", "mangos.newMsg").Arg(0, "arg1")
		okFall := len(al) == 1 && al.AllGuarded("φm == nil")
		if !okFall && len(al) == 1 && len(get) == 1 && al[0].In.Parent() == get[0].In.Parent() {
			// early-return form: the pool hit returns at once, the fallback is what is left —
			// no path leads from the pool Get to the fresh allocation
			okFall = !CanPrecede(blockReach(al[0].In.Parent()), get[0].In, al[0].In)
		}
		r.Check(okFall, R, "NewMessage/fallback-exact", al.Pos(p), "otherwise allocates exactly sz", "NewMessage does not fall back to newMsg(sz) when no class fits")
		b := nm.Ev("store", "*.Body")
		h := nm.Ev("store", "*.Header")
		rc := nm.Ev("call", "atomic.StoreInt32")
		r.Check(len(b) == 1 && strings.HasSuffix(b[0].Args[0], ".bbuf") && b[0].Unconditional(), R, "NewMessage/body-reset", b.Pos(p), "Body = bbuf (empty) on every path", "NewMessage does not reset Body to the empty bbuf on every path: a recycled message carries old bytes")
		r.Check(len(h) == 1 && strings.HasSuffix(h[0].Args[0], ".hbuf") && h[0].Unconditional(), R, "NewMessage/header-reset", h.Pos(p), "Header = hbuf (empty) on every path", "NewMessage does not reset Header on every path")
		r.Check(len(rc) == 1 && strings.HasSuffix(rc[0].Args[0], ".refcnt") && rc[0].Args[1] == "1" && rc[0].Unconditional(), R, "NewMessage/refcnt-one", rc.Pos(p), "refcnt = 1 atomically", "NewMessage does not set the reference count to 1 on every path")
	}
	nw := q.Fn(R, "", "", "newMsg")
	if nw.OK() {
		bb := nw.Ev("store", "*.bbuf")
		bs := nw.Ev("store", "*.bsize")
		r.Check(len(bb) == 1 && bb[0].Args[0] == "make([],0,arg1)", R, "newMsg/capacity", bb.Pos(p), "bbuf = make([]byte, 0, sz)", "newMsg does not allocate bbuf with length 0 and capacity sz: "+argsOf(bb))
		r.Check(len(bs) == 1 && bs[0].Args[0] == "arg1", R, "newMsg/bsize", bs.Pos(p), "bsize = sz", "newMsg does not record bsize = sz")
	}
	for _, fld := range []string{"bbuf", "hbuf", "bsize"} {
		q.OnlyIn(R, "writers-of-"+fld, p.WritersOf("mangos.Message."+fld), []string{"mangos.newMsg"}, []string{"mangos.newMsg"})
	}
	// ---- Free
	fr := q.Fn(R, "", "Message", "Free")
	if fr.OK() {
		put := fr.Ev("call", "sync.(*Pool).Put")
		dec := fr.Ev("call", "atomic.AddInt32").Arg(1, "-1")
		okp := len(put) == 1 && put.AllGuarded("atomic.AddInt32(recv.refcnt,-1) == 0") && put[0].Args[1] == "recv"
		r.Check(okp, R, "Free/last-reference-only", put.Pos(p), "recycled only when the decrement reaches 0", "Free puts the message back into the pool without the guard (decrement == 0): a message still referenced elsewhere is recycled")
		okc := false
		if len(put) == 1 {
			for _, g := range put[0].Guard {
				atomSides(g, "==", func(x, y string) bool {
					if x == "recv.bsize" && strings.HasSuffix(y, ".maxbody") {
						entry := strings.TrimSuffix(y, ".maxbody")
						if cacheEntryDesc(fr.fn, entry) && strings.HasPrefix(put[0].Args[0], entry+".pool") {
							okc = true
						}
					}
					return okc
				})
			}
		}
		r.Check(okc, R, "Free/own-class", put.Pos(p), "returned to the pool whose maxbody == bsize", "Free returns a buffer to a pool of a different size class (the comparison is not bsize == maxbody of that pool): a later NewMessage gets a buffer that is too small")
		r.Check(len(dec) == 1 && dec.AllGuarded("recv != nil") && len(dec[0].Guard) == 1, R, "Free/decrements-once", dec.Pos(p), "one atomic decrement per Free", "Free does not decrement the reference count exactly once")
	}
	cl := q.Fn(R, "", "Message", "Clone")
	if cl.OK() {
		inc := cl.Ev("call", "atomic.AddInt32").Arg(1, "1")
		r.Check(len(inc) == 1 && inc[0].Unconditional(), R, "Clone/increments-once", inc.Pos(p), "one atomic increment", "Clone does not increment the reference count exactly once")
	}
	mu := q.Fn(R, "", "Message", "MakeUnique")
	if mu.OK() {
		var same, cp Sel
		for _, e := range mu.Ev("return", "") {
			if e.Args[0] == "recv" {
				same = append(same, e)
			} else if e.Args[0] == "mangos.(*Message).Dup(recv)" {
				cp = append(cp, e)
			}
		}
		r.Check(len(same) == 1 && same.AllGuarded("atomic.LoadInt32(recv.refcnt) == 1"), R, "MakeUnique/same-iff-sole-owner", same.Pos(p), "returns the receiver only when refcnt == 1", "MakeUnique returns the shared message itself although other references exist")
		fre := mu.Ev("call", "mangos.(*Message).Free").Arg(0, "recv")
		dup := mu.Ev("call", "mangos.(*Message).Dup").Arg(0, "recv")
		r.Check(len(cp) == 1 && len(fre) == 1 && len(dup) == 1 && fre.DominatedBy(dup), R, "MakeUnique/copy-then-release", cp.Pos(p), "otherwise returns a Dup and releases its reference to the original (after copying)", "MakeUnique does not (copy, then release the original, then return the copy)")
	}
	du := q.Fn(R, "", "Message", "Dup")
	if du.OK() {
		nmc := du.Ev("call", "mangos.NewMessage")
		okb, okh := false, false
		for _, e := range du.Ev("store", "*.Body") {
			if strings.HasPrefix(e.What, "mangos.NewMessage(") && strings.HasSuffix(e.Args[0], ",recv.Body)") && strings.HasPrefix(e.Args[0], "append(mangos.NewMessage(") {
				okb = true
			}
		}
		for _, e := range du.Ev("store", "*.Header") {
			if strings.HasPrefix(e.What, "mangos.NewMessage(") && strings.HasSuffix(e.Args[0], ",recv.Header)") && strings.HasPrefix(e.Args[0], "append(mangos.NewMessage(") {
				okh = true
			}
		}
		r.Check(len(nmc) == 1 && okb && okh, R, "Dup/full-copy", du.Pos(), "copies all of Body and Header into a fresh message", "Dup does not copy the whole Body and Header into a fresh message (aliasing or truncation)")
		ret := du.Ev("return", "")
		r.Check(len(ret) == 1 && strings.HasPrefix(ret[0].Args[0], "mangos.NewMessage("), R, "Dup/returns-copy", ret.Pos(p), "returns the fresh message", "Dup does not return the fresh message")
	}
	// refcnt only through sync/atomic
	if fi := p.E3().fields["mangos.Message.refcnt"]; fi != nil {
		nonAtomic := 0
		for _, a := range fi.Accesses {
			if !a.Atomic {
				nonAtomic++
			}
		}
		r.Check(nonAtomic == 0 && len(fi.Accesses) >= 4, R, "refcnt/atomic-only", "-", fmt.Sprintf("%d accesses, all through sync/atomic", len(fi.Accesses)), "the reference count is accessed non-atomically")
	} else {
		r.Bad(R, "refcnt/atomic-only", "-", "ANCHOR-MISSING: field Message.refcnt not found")
	}
}

// derivedFromMsg: v is (a re-slice of) a load of the Body/Header field of a *Message
// value; returns that message value.
func derivedFromMsg(v ssa.Value) (ssa.Value, string) {
	for i := 0; i < 6; i++ {
		switch x := v.(type) {
		case *ssa.Slice:
			v = x.X
			continue
		case *ssa.UnOp:
			if x.Op == token.MUL {
				if fa, ok := x.X.(*ssa.FieldAddr); ok && isMsgPtr(fa.X.Type()) {
					fn := fieldName(fa.X.Type(), fa.Field)
					if fn == "Body" || fn == "Header" {
						return fa.X, fn
					}
				}
			}
		}
		break
	}
	return nil, ""
}

// uniqueSites: the frozen table of functions that write through a message which may be
// shared with another holder (a survey the application also sent on another context, a
// message a device forwards to several sockets, a message queued to several contexts).
// Each must call MakeUnique() on it, use the result, and do so before the first write
// (the order is E5's write-before-unique rule).  Confirmed by reading; one line each.
var uniqueSiteTable = [][4]string{
	{"protocol/surveyor", "context", "SendMsg", "the survey header is overwritten with the new survey id: a message also sent on another context would go out under the wrong id"},
	{"protocol/xbus", "socket", "SendMsg", "the source-pipe header of a forwarded message is stripped: other holders of the same message lose it and echo the message to its sender"},
	{"protocol/sub", "context", "RecvMsg", "the message was queued to every matching context: the application must get a private copy"},
	{"protocol/xpair1", "pipe", "receiver", "the hop count is written into the header in place"},
}

func uniqueSites(p *Prog, r *Report, R string, only func(rel string) bool) {
	q := NewQ(p, r)
	for _, t := range uniqueSiteTable {
		if only != nil && !only(t[0]) {
			continue
		}
		f := q.Fn(R, t[0], t[1], t[2])
		if !f.OK() {
			continue
		}
		mu := f.Ev("call", "mangos.(*Message).MakeUnique")
		used := len(mu) >= 1
		for _, e := range mu {
			if c, ok := e.In.(*ssa.Call); !ok || c.Referrers() == nil || len(*c.Referrers()) == 0 {
				used = false
			}
		}
		r.Check(used, R, f.Name+"/makes-unique", mu.Pos(p), "MakeUnique() is called and its result used", "the message is written through without MakeUnique(): "+t[3])
	}
}

// freshBackingPerMessage: inside a per-pipe loop every slice installed as a message's
// Header or Body is backed by memory of that iteration: the message's own buffers, or a
// make/append-onto-a-fresh-slice evaluated inside the loop.  A buffer created once before
// the loop (or kept in a field of the pipe) and installed in every message — in particular
// append(prefix, …) onto a prefix with spare capacity — makes all messages of the pipe share
// one backing array: a later message overwrites the header of an earlier one the
// application (or a queue) still holds.
func freshBackingPerMessage(p *Prog, r *Report, R string, inPkg func(rel string) bool) {
	n := 0
	for _, fn := range p.Funcs {
		rel, _ := p.FuncRel(fn)
		if !inPkg(rel) {
			continue
		}
		EachInstr(fn, func(in ssa.Instruction) {
			st, ok := in.(*ssa.Store)
			if !ok {
				return
			}
			fa, ok := st.Addr.(*ssa.FieldAddr)
			if !ok || !isMsgPtr(fa.X.Type()) {
				return
			}
			fld := fieldName(fa.X.Type(), fa.Field)
			if fld != "Header" && fld != "Body" {
				return
			}
			_, body := loopBody(st.Block())
			if body == nil {
				return
			}
			n++
			root, how := backingRoot(st.Val, 0)
			bad := ""
			switch x := root.(type) {
			case nil:
			case *ssa.Const:
			case *ssa.MakeSlice:
				if !body[x.Block()] {
					bad = "a slice made once at " + p.InstrPos(x) + ", outside the loop"
				}
			case *ssa.Alloc:
				if !body[x.Block()] {
					bad = "an array allocated once at " + p.InstrPos(x) + ", outside the loop"
				}
			case *ssa.UnOp:
				if fa2, ok := x.X.(*ssa.FieldAddr); ok && !isMsgPtr(fa2.X.Type()) {
					bad = "the field " + Desc(fa2) + " of a longer-lived object"
				}
			case *ssa.Phi:
				// a slice carried around the loop
				if x.Block() != nil && body[x.Block()] {
					for _, e := range x.Edges {
						if ms, ok := e.(*ssa.MakeSlice); ok && !body[ms.Block()] {
							bad = "a slice made once at " + p.InstrPos(ms) + ", outside the loop"
						}
					}
				}
			}
			key := p.FuncName(fn) + "/" + Desc(fa)
			r.Check(bad == "", R, key, p.InstrPos(st), "installed slice is the message's own buffer or fresh in this iteration ("+how+")", "the "+fld+" installed in each message of the loop is backed by "+bad+" ("+how+"): all messages from this pipe share one backing array, and a later message overwrites the "+fld+" of earlier ones that are still queued or held by the application")
		})
	}
	r.Count("pool.in_loop_buffer_installs", n)
}

// backingRoot follows slicing and append (first argument: the result may reuse its backing
// array) back to where the memory comes from.
func backingRoot(v ssa.Value, d int) (ssa.Value, string) {
	if d > 8 {
		return nil, "?"
	}
	switch x := v.(type) {
	case *ssa.Slice:
		return backingRoot(x.X, d+1)
	case *ssa.Call:
		if b, ok := x.Call.Value.(*ssa.Builtin); ok && b.Name() == "append" {
			rt, how := backingRoot(x.Call.Args[0], d+1)
			return rt, "append onto " + how
		}
		return nil, "call " + CalleeName(&x.Call)
	case *ssa.MakeSlice:
		return x, "make"
	case *ssa.Alloc:
		return x, "array"
	case *ssa.Const:
		return x, "nil"
	case *ssa.UnOp:
		if x.Op == token.MUL {
			if fa, ok := x.X.(*ssa.FieldAddr); ok {
				if isMsgPtr(fa.X.Type()) {
					return nil, "the message's own " + fieldName(fa.X.Type(), fa.Field)
				}
				return x, "field " + Desc(fa)
			}
			if al, ok := x.X.(*ssa.Alloc); ok {
				// a local variable cell: its stored values
				if refs := al.Referrers(); refs != nil {
					for _, ref := range *refs {
						if s, ok := ref.(*ssa.Store); ok && s.Addr == al {
							return backingRoot(s.Val, d+1)
						}
					}
				}
			}
		}
		return nil, Desc(x)
	case *ssa.Phi:
		return x, "loop-carried slice"
	}
	return nil, Desc(v)
}

// cacheEntryDesc: desc names one entry of messageCache — `mangos.messageCache[i]`, or a
// local that holds a copy of the entry the loop is at (`for _, ci := range messageCache`).
func cacheEntryDesc(fn *ssa.Function, desc string) bool {
	if strings.HasPrefix(desc, "mangos.messageCache[") {
		return true
	}
	if !strings.HasPrefix(desc, "$") {
		return false
	}
	ok := false
	EachInstr(fn, func(in ssa.Instruction) {
		st, isSt := in.(*ssa.Store)
		if !isSt {
			return
		}
		if al, isAl := st.Addr.(*ssa.Alloc); isAl && "$"+al.Comment == desc {
			if strings.HasPrefix(Desc(st.Val), "mangos.messageCache[") {
				ok = true
			}
		}
	})
	return ok
}
