package an

import (
	"fmt"
	"go/constant"
	"go/token"
	"go/types"
	"sort"
	"strings"

	"golang.org/x/tools/go/ssa"
)

// E5 MSGOWN: message ownership typestate (property simulation over disjunctive worlds).
// See DESIGN 3.4/E5 and Appendix D.

const (
	stLive = iota
	stFreed
	stConsumed
	stNil
)

var stName = map[int]string{stLive: "live", stFreed: "freed", stConsumed: "handed-off", stNil: "nil"}

type ost struct {
	st       int
	k        int    // extra references created by Clone in this function
	borrowed string // loaded from this field path and the field still holds it
	retained string // stored into this field path
	pend     ssa.Value
	where    string // position of the release / hand-off
}

type world struct {
	o     map[ssa.Value]ost
	alias map[ssa.Value]ssa.Value    // phi -> origin (nil value = nil constant)
	agg   map[*ssa.Alloc][]ssa.Value // local aggregate -> message origins stored in it
	hdr   map[ssa.Value]bool         // param origin whose Header was re-sliced and not restored
	errs  map[ssa.Value]bool         // error value -> known to be nil (true) / non-nil (false) in this world
	deriv map[ssa.Value]string       // origin -> heap field that holds an un-copied slice of its Body/Header
	dfree map[ssa.Value]bool         // origins with a pending `defer m.Free()` (released at rundefers)
	wr    map[ssa.Value]string       // origin -> where the message was first written through (Header/Body)
	bools map[ssa.Value]bool         // boolean merge -> its constant value on the way this world came by
	cells map[*ssa.Alloc]ssa.Value   // local *Message variable that lives in memory (captured by a closure) -> the origin it holds (nil value = nil)
	dcell map[*ssa.Alloc]bool        // such variables that a deferred closure releases at function exit
}

func newWorld() *world {
	return &world{o: map[ssa.Value]ost{}, alias: map[ssa.Value]ssa.Value{}, agg: map[*ssa.Alloc][]ssa.Value{}, hdr: map[ssa.Value]bool{}, errs: map[ssa.Value]bool{}, deriv: map[ssa.Value]string{}, dfree: map[ssa.Value]bool{}, wr: map[ssa.Value]string{}, bools: map[ssa.Value]bool{}, cells: map[*ssa.Alloc]ssa.Value{}, dcell: map[*ssa.Alloc]bool{}}
}

func (w *world) clone() *world {
	n := newWorld()
	for k, v := range w.o {
		n.o[k] = v
	}
	for k, v := range w.alias {
		n.alias[k] = v
	}
	for k, v := range w.agg {
		n.agg[k] = append([]ssa.Value{}, v...)
	}
	for k, v := range w.hdr {
		n.hdr[k] = v
	}
	for k, v := range w.errs {
		n.errs[k] = v
	}
	for k, v := range w.deriv {
		n.deriv[k] = v
	}
	for k, v := range w.dfree {
		n.dfree[k] = v
	}
	for k, v := range w.wr {
		n.wr[k] = v
	}
	for k, v := range w.bools {
		n.bools[k] = v
	}
	for k, v := range w.cells {
		n.cells[k] = v
	}
	for k, v := range w.dcell {
		n.dcell[k] = v
	}
	return n
}

func (w *world) key() string {
	var parts []string
	for k, v := range w.o {
		parts = append(parts, fmt.Sprintf("%s=%d/%d/%s/%s/%v", k.Name(), v.st, v.k, v.borrowed, v.retained, v.pend != nil))
	}
	for k, v := range w.alias {
		if v == nil {
			parts = append(parts, k.Name()+"->nil")
		} else {
			parts = append(parts, k.Name()+"->"+v.Name())
		}
	}
	for k, v := range w.agg {
		s := k.Name() + ":"
		for _, x := range v {
			s += x.Name() + ","
		}
		parts = append(parts, s)
	}
	for k, v := range w.hdr {
		if v {
			parts = append(parts, "hdr:"+k.Name())
		}
	}
	for k, v := range w.errs {
		parts = append(parts, fmt.Sprintf("err:%s=%v", k.Name(), v))
	}
	for k, v := range w.deriv {
		parts = append(parts, "deriv:"+k.Name()+"="+v)
	}
	for k := range w.dfree {
		parts = append(parts, "dfree:"+k.Name())
	}
	for k := range w.wr {
		parts = append(parts, "wr:"+k.Name())
	}
	for k, v := range w.cells {
		if v == nil {
			parts = append(parts, "cell:"+k.Name()+"=nil")
		} else {
			parts = append(parts, "cell:"+k.Name()+"="+v.Name())
		}
	}
	for k := range w.dcell {
		parts = append(parts, "dcell:"+k.Name())
	}
	for k, v := range w.bools {
		parts = append(parts, fmt.Sprintf("bool:%s=%v", k.Name(), v))
	}
	sort.Strings(parts)
	return strings.Join(parts, ";")
}

// E5Issue is one ownership violation.
type E5Issue struct {
	Kind string // double-release, use-after-release, release-on-error, unique-discarded, retained-handoff, return-released, shared-not-unique
	Fn   *ssa.Function
	In   ssa.Instruction
	What string
	Msg  string
}

type e5Summary struct {
	// sentTo: channel fields a message parameter is sent on inside the function (so that a
	// caller handing over a shared, Clone'd reference marks those queues as shared-fed)
	sentTo map[int][]*types.Var
	param  map[int]string // param index -> "borrow" | "consume" | "iffnil" | "unknown"
}

type e5Result struct {
	issues    []E5Issue
	funcs     int // functions analysed (touching *Message)
	origins   int
	worldsMax int
	undecided []string
	summ      map[*ssa.Function]*e5Summary
	inprog    map[*ssa.Function]bool
	sharedFed map[*types.Var]string
}

func isMsgPtr(t types.Type) bool {
	p, ok := t.Underlying().(*types.Pointer)
	if !ok {
		if pp, ok2 := t.(*types.Pointer); ok2 {
			p = pp
		} else {
			return false
		}
	}
	el := p.Elem()
	if a, ok := el.(*types.Alias); ok {
		el = types.Unalias(a)
	}
	n, ok := el.(*types.Named)
	return ok && n.Obj().Name() == "Message" && n.Obj().Pkg() != nil && n.Obj().Pkg().Path() == ModPath
}

func isBoolType(t types.Type) bool {
	b, ok := t.Underlying().(*types.Basic)
	return ok && b.Kind() == types.Bool
}

func msgMethod(c *ssa.CallCommon) string {
	fn := c.StaticCallee()
	if fn == nil || fn.Signature.Recv() == nil || len(c.Args) == 0 {
		return ""
	}
	if !isMsgPtr(fn.Signature.Recv().Type()) {
		return ""
	}
	return fn.Name()
}

func stripCast(v ssa.Value) ssa.Value {
	for {
		switch x := v.(type) {
		case *ssa.ChangeType:
			v = x.X
		case *ssa.MakeInterface:
			v = x.X
		case *ssa.ChangeInterface:
			v = x.X
		default:
			return v
		}
	}
}

type e5Ctx struct {
	p         *Prog
	r         *e5Result
	fn        *ssa.Function
	seen      map[string]bool
	exit      []*world // worlds at returns with the returned error description
	exitErr   []string
	paramSent map[*ssa.Parameter][]*types.Var
	hdrStrip  map[*ssa.Parameter]ssa.Instruction // where the parameter's header was re-sliced
}

func (c *e5Ctx) issue(kind string, in ssa.Instruction, what, msg string) {
	k := kind + "|" + c.p.InstrPos(in) + "|" + what
	if c.seen[k] {
		return
	}
	c.seen[k] = true
	c.r.issues = append(c.r.issues, E5Issue{Kind: kind, Fn: c.fn, In: in, What: what, Msg: msg})
}

// origin resolves a *Message value to its origin in world w (nil = definitely nil).
func (c *e5Ctx) origin(w *world, v ssa.Value) (ssa.Value, bool) {
	v = stripCast(v)
	if cst, ok := v.(*ssa.Const); ok && cst.Value == nil {
		return nil, true
	}
	if ph, ok := v.(*ssa.Phi); ok {
		o, ok := w.alias[ph]
		if !ok {
			return nil, false // phi not yet bound in this world (loop-carried before first pass)
		}
		return o, true
	}
	// a local variable that lives in memory (it is captured by a closure): a load reads the
	// origin the last store put there
	if u, ok := v.(*ssa.UnOp); ok && u.Op == token.MUL {
		if al, ok := u.X.(*ssa.Alloc); ok {
			if o, known := w.cells[al]; known {
				return o, true
			}
		}
	}
	// fields of one local tuple/struct value are one origin however often they are read
	switch x := v.(type) {
	case *ssa.Field:
		for o := range w.o {
			if f, ok := o.(*ssa.Field); ok && f != x && f.X == x.X && f.Field == x.Field {
				return o, true
			}
		}
	case *ssa.UnOp:
		if fa, ok := x.X.(*ssa.FieldAddr); ok && x.Op == token.MUL {
			if al, isLocal := fa.X.(*ssa.Alloc); isLocal {
				for o := range w.o {
					if u, ok := o.(*ssa.UnOp); ok && u != x {
						if fa2, ok := u.X.(*ssa.FieldAddr); ok && fa2.X == ssa.Value(al) && fa2.Field == fa.Field {
							return o, true
						}
					}
				}
			}
		}
	}
	if _, ok := w.o[v]; !ok {
		st := ost{st: stLive}
		if u, ok := v.(*ssa.UnOp); ok && u.Op == token.MUL {
			if fa, ok := u.X.(*ssa.FieldAddr); ok {
				// a field of a heap object (not of a local struct variable)
				if _, isLocal := fa.X.(*ssa.Alloc); !isLocal {
					st.borrowed = Desc(fa)
				}
			}
		}
		w.o[v] = st
		c.r.origins++
	}
	return v, true
}

func (c *e5Ctx) describe(o ssa.Value) string {
	if o == nil {
		return "nil"
	}
	return Desc(o)
}

// release: one reference leaves (free or hand-off).
func (c *e5Ctx) release(w *world, o ssa.Value, in ssa.Instruction, how int, what string) {
	if o == nil {
		return
	}
	s := w.o[o]
	switch s.st {
	case stNil:
		return
	case stFreed, stConsumed:
		kind := "double-release"
		c.issue(kind, in, c.describe(o), fmt.Sprintf("%s of a message that was already %s at %s: the reference count goes below zero / the buffer is recycled while still in use", what, stName[s.st], s.where))
		return
	}
	if how == stConsumed {
		if par, isPar := o.(*ssa.Parameter); isPar {
			if fv := c.sentField(in); fv != nil {
				if c.paramSent == nil {
					c.paramSent = map[*ssa.Parameter][]*types.Var{}
				}
				c.paramSent[par] = append(c.paramSent[par], fv)
			}
		}
	}
	if s.k > 0 {
		s.k--
		w.o[o] = s
		if how == stConsumed {
			c.noteSharedSend(in, what)
			// handed to a private helper that queues it: those queues are shared-fed too
			if cc := CallOf(in); cc != nil {
				if sc := cc.StaticCallee(); sc != nil && c.p.moduleFunc(sc) && sc.Blocks != nil {
					sum := c.r.summaryOf(c.p, sc)
					for _, fvs := range sum.sentTo {
						for _, fv := range fvs {
							c.r.sharedFed[fv] = c.p.InstrPos(in)
						}
					}
				}
			}
		}
		return
	}
	if f, ok := w.deriv[o]; ok {
		c.issue("alias-retained", in, c.describe(o), fmt.Sprintf("%s of a message while %s still holds an un-copied slice of its buffer: the new owner frees or reuses the buffer and %s silently changes", what, f, f))
	}
	if how == stConsumed && (s.borrowed != "" || s.retained != "") {
		f := s.borrowed
		if f == "" {
			f = s.retained
		}
		c.issue("retained-handoff", in, c.describe(o), fmt.Sprintf("%s of a message that is still held in %s without a Clone: the holder and the receiver now share one reference (it is released twice / recycled while retained)", what, f))
	}
	s.st = how
	s.where = c.p.InstrPos(in)
	w.o[o] = s
}

func (c *e5Ctx) use(w *world, v ssa.Value, in ssa.Instruction, what string) {
	o, ok := c.origin(w, v)
	if !ok || o == nil {
		return
	}
	s := w.o[o]
	if s.st == stFreed || s.st == stConsumed {
		if s.k > 0 {
			return
		}
		c.issue("use-after-release", in, c.describe(o), fmt.Sprintf("%s after the message was %s at %s", what, stName[s.st], s.where))
	}
}

// sentField: the channel field a send / select-send arm at in writes to.
func (c *e5Ctx) sentField(in ssa.Instruction) *types.Var {
	var ch ssa.Value
	switch x := in.(type) {
	case *ssa.Send:
		ch = x.Chan
	case *ssa.If:
		if bo, ok := x.Cond.(*ssa.BinOp); ok {
			if ex, ok := bo.X.(*ssa.Extract); ok {
				if sel, ok := ex.Tuple.(*ssa.Select); ok {
					if k, ok := ConstInt(bo.Y); ok && int(k) < len(sel.States) {
						ch = sel.States[k].Chan
					}
				}
			}
		}
	}
	if ch == nil {
		return nil
	}
	if fa := chanField(ch); fa != nil {
		return FieldVar(fa)
	}
	return nil
}

// noteSharedSend records channel fields that receive a Clone'd (shared) message.
func (c *e5Ctx) noteSharedSend(in ssa.Instruction, what string) {
	var ch ssa.Value
	switch x := in.(type) {
	case *ssa.Send:
		ch = x.Chan
	case *ssa.If:
		// select arm
		if bo, ok := x.Cond.(*ssa.BinOp); ok {
			if ex, ok := bo.X.(*ssa.Extract); ok {
				if sel, ok := ex.Tuple.(*ssa.Select); ok {
					if k, ok := ConstInt(bo.Y); ok && int(k) < len(sel.States) {
						ch = sel.States[k].Chan
					}
				}
			}
		}
	}
	if ch == nil {
		return
	}
	if fa := chanField(ch); fa != nil {
		c.r.sharedFed[FieldVar(fa)] = c.p.InstrPos(in)
	}
}

// contract of a call for its i-th argument that is a *Message.
func (c *e5Ctx) argContract(in ssa.Instruction, cc *ssa.CallCommon, argIdx int) string {
	if cc.IsInvoke() {
		switch cc.Method.Name() {
		case "SendMsg", "Send":
			return "iffnil"
		}
		return "borrow"
	}
	sc := cc.StaticCallee()
	if sc == nil {
		return "borrow"
	}
	if !c.p.moduleFunc(sc) || sc.Blocks == nil {
		return "borrow"
	}
	sum := c.r.summaryOf(c.p, sc)
	if s, ok := sum.param[argIdx]; ok {
		return s
	}
	return "borrow"
}

func (r *e5Result) summaryOf(p *Prog, fn *ssa.Function) *e5Summary {
	if s, ok := r.summ[fn]; ok {
		return s
	}
	if r.inprog[fn] {
		return &e5Summary{param: map[int]string{}}
	}
	r.inprog[fn] = true
	ctx := p.e5Func(r, fn)
	delete(r.inprog, fn)
	sum := &e5Summary{param: map[int]string{}, sentTo: map[int][]*types.Var{}}
	for i, par := range fn.Params {
		if !isMsgPtr(par.Type()) {
			continue
		}
		sum.sentTo[i] = ctx.paramSent[par]
		allLive, allGone := true, true
		nilGone, errLive := true, true
		n := 0
		for j, w := range ctx.exit {
			s, ok := w.o[par]
			if !ok {
				s = ost{st: stLive}
			}
			n++
			gone := (s.st == stFreed || s.st == stConsumed) && s.k == 0
			if s.retained != "" {
				gone = true
			}
			if gone {
				allLive = false
			} else {
				allGone = false
			}
			e := ctx.exitErr[j]
			if e == "nil" {
				if !gone {
					nilGone = false
				}
			} else if e != "" {
				if gone {
					errLive = false
				}
			}
		}
		switch {
		case n == 0 || allLive:
			sum.param[i] = "borrow"
		case allGone:
			sum.param[i] = "consume"
		case nilGone && errLive:
			sum.param[i] = "iffnil"
		default:
			sum.param[i] = "unknown"
		}
	}
	r.summ[fn] = sum
	return sum
}

func returnsError(fn *ssa.Function) bool {
	res := fn.Signature.Results()
	if res.Len() == 0 {
		return false
	}
	return res.At(res.Len()-1).Type().String() == "error"
}

// e5Func analyses one function; returns the context with exit worlds.
func (p *Prog) e5Func(r *e5Result, fn *ssa.Function) *e5Ctx {
	c := &e5Ctx{p: p, r: r, fn: fn, seen: map[string]bool{}}
	if len(fn.Blocks) == 0 {
		return c
	}
	in := make([]map[string]*world, len(fn.Blocks))
	for i := range in {
		in[i] = map[string]*world{}
	}
	w0 := newWorld()
	for _, par := range fn.Params {
		if isMsgPtr(par.Type()) {
			w0.o[par] = ost{st: stLive}
		}
	}
	in[0][w0.key()] = w0
	type item struct {
		b *ssa.BasicBlock
		w *world
	}
	work := []item{{fn.Blocks[0], w0}}
	steps := 0
	for len(work) > 0 {
		steps++
		if steps > 40000 {
			r.undecided = append(r.undecided, p.FuncName(fn)+": world explosion")
			break
		}
		it := work[len(work)-1]
		work = work[:len(work)-1]
		w := it.w.clone()
		b := it.b
		dead := false
		for _, ins := range b.Instrs {
			if c.transfer(w, ins) {
				dead = true
				break
			}
		}
		if dead {
			continue
		}
		last := b.Instrs[len(b.Instrs)-1]
		for si, s := range b.Succs {
			nw := w.clone()
			if iff, ok := last.(*ssa.If); ok {
				if !c.refine(nw, iff, si == 0) {
					continue
				}
			}
			// bind phis of s for this edge
			pi := -1
			for k, pb := range s.Preds {
				if pb == b {
					pi = k
				}
			}
			for _, ins := range s.Instrs {
				ph, ok := ins.(*ssa.Phi)
				if !ok {
					break
				}
				if pi >= 0 && !isMsgPtr(ph.Type()) {
					// single-exit style: `err = X … return err`, `drop = true … if drop {…}`:
					// on this way into the merge the error / flag is what this edge carries
					e := ph.Edges[pi]
					switch {
					case ph.Type().String() == "error":
						if k, ok := constLikeValue(e); ok {
							nw.errs[ph] = k == "nil"
						} else if known, ok := w.errs[e]; ok {
							nw.errs[ph] = known
						} else {
							delete(nw.errs, ph)
							// `err = p.SendMsg(m)` merged into a loop variable that is tested
							// later (`for err == nil {…}`): the pending outcome of the consuming
							// call is decided by the test of the merge
							for o, s := range nw.o {
								if s.pend != nil && s.pend == e {
									s.pend = ph
									nw.o[o] = s
								}
							}
						}
					case isBoolType(ph.Type()):
						if k, ok := e.(*ssa.Const); ok && k.Value != nil && k.Value.Kind() == constant.Bool {
							nw.bools[ph] = constant.BoolVal(k.Value)
						} else if known, ok := w.bools[e]; ok {
							nw.bools[ph] = known
						} else {
							delete(nw.bools, ph)
						}
					}
				}
				if !isMsgPtr(ph.Type()) || pi < 0 {
					continue
				}
				o, ok2 := c.origin(w, ph.Edges[pi]) // resolve in the pre-edge world
				if ok2 {
					if o != nil {
						if _, has := nw.o[o]; !has {
							nw.o[o] = w.o[o]
						}
					}
					nw.alias[ph] = o
				} else {
					delete(nw.alias, ph)
				}
			}
			k := nw.key()
			if _, seen := in[s.Index][k]; seen {
				continue
			}
			if len(in[s.Index]) > 48 {
				r.undecided = append(r.undecided, p.FuncName(fn)+": too many worlds")
				continue
			}
			in[s.Index][k] = nw
			if len(in[s.Index]) > r.worldsMax {
				r.worldsMax = len(in[s.Index])
			}
			work = append(work, item{s, nw})
		}
	}
	return c
}

// refine applies a branch condition to a world; false = edge infeasible in this world.
func (c *e5Ctx) refine(w *world, iff *ssa.If, taken bool) bool {
	// a flag whose value is known on the way this world came by
	{
		cond, want := iff.Cond, taken
		if u, ok := cond.(*ssa.UnOp); ok && u.Op == token.NOT {
			cond, want = u.X, !taken
		}
		if known, ok := w.bools[cond]; ok && known != want {
			return false
		}
	}
	bo, ok := iff.Cond.(*ssa.BinOp)
	if !ok {
		return true
	}
	if bo.Op != token.EQL && bo.Op != token.NEQ {
		return true
	}
	isNil := func(v ssa.Value) bool { cst, ok := v.(*ssa.Const); return ok && cst.Value == nil }
	eq := (bo.Op == token.EQL) == taken // on this edge X == Y holds
	// message == nil tests
	var mv ssa.Value
	if isMsgPtr(bo.X.Type()) && isNil(bo.Y) {
		mv = bo.X
	} else if isMsgPtr(bo.Y.Type()) && isNil(bo.X) {
		mv = bo.Y
	}
	if mv != nil {
		o, ok := c.origin(w, mv)
		if !ok {
			return true
		}
		if o == nil {
			return eq // definitely nil: only the == nil edge is feasible
		}
		s := w.o[o]
		if eq {
			// the value is nil on this edge
			if _, isPar := o.(*ssa.Parameter); isPar {
				s.st = stNil
				w.o[o] = s
				return true
			}
			switch o.(type) {
			case *ssa.Call, *ssa.UnOp, *ssa.Extract, *ssa.Lookup:
				s.st = stNil
				w.o[o] = s
				return true
			}
			return true
		}
		if s.st == stNil {
			return false
		}
		return true
	}
	// err tests of consuming calls
	var ev ssa.Value
	if isNil(bo.Y) {
		ev = bo.X
	} else if isNil(bo.X) {
		ev = bo.Y
	}
	if ev != nil && ev.Type().String() == "error" {
		w.errs[ev] = eq
	}
	if ev != nil {
		for o, s := range w.o {
			if s.pend != nil && s.pend == ev {
				s.pend = nil
				if eq {
					// err == nil: the callee took the message
					w.o[o] = s
					c.release(w, o, iff, stConsumed, "successful send")
					s = w.o[o]
				}
				w.o[o] = s
			}
		}
	}
	// select index tests: idx == k
	if ex, ok := bo.X.(*ssa.Extract); ok && ex.Index == 0 {
		if sel, ok := ex.Tuple.(*ssa.Select); ok {
			if k, ok := ConstInt(bo.Y); ok && eq && int(k) >= 0 && int(k) < len(sel.States) {
				st := sel.States[k]
				if st.Dir == types.SendOnly {
					c.consumeValue(w, st.Send, iff, "send on "+Desc(st.Chan))
				}
			}
		}
	}
	return true
}

// selectIndexTested: some branch of the function depends on whether arm k of sel was taken.
func selectIndexTested(sel *ssa.Select, k int) bool {
	if sel.Referrers() == nil {
		return false
	}
	for _, ref := range *sel.Referrers() {
		ex, ok := ref.(*ssa.Extract)
		if !ok || ex.Index != 0 || ex.Referrers() == nil {
			continue
		}
		for _, r2 := range *ex.Referrers() {
			bo, ok := r2.(*ssa.BinOp)
			if !ok || bo.Referrers() == nil {
				continue
			}
			kk, isC := ConstInt(bo.Y)
			if !isC {
				kk, isC = ConstInt(bo.X)
			}
			if !isC {
				return true // compared with something we cannot read: assume tested
			}
			for _, r3 := range *bo.Referrers() {
				if _, isIf := r3.(*ssa.If); isIf {
					// any tested arm index partitions the outcomes; for a select with default
					// (non-blocking) a test of another arm does not tell whether k was taken,
					// but every arm that has a body is tested, so an untested k has no body
					if int(kk) == k {
						return true
					}
				}
			}
		}
	}
	return false
}

// consumeValue: a value (message or local aggregate holding messages) is handed off.
func (c *e5Ctx) consumeValue(w *world, v ssa.Value, in ssa.Instruction, what string) {
	v = stripCast(v)
	if isMsgPtr(v.Type()) {
		if o, ok := c.origin(w, v); ok && o != nil {
			c.release(w, o, in, stConsumed, what)
		}
		return
	}
	// aggregate loaded from a local struct
	if u, ok := v.(*ssa.UnOp); ok && u.Op == token.MUL {
		if al, ok := u.X.(*ssa.Alloc); ok {
			for _, o := range w.agg[al] {
				c.release(w, o, in, stConsumed, what)
			}
		}
	}
}

// transfer applies one instruction; returns true if the path ends (panic).
func (c *e5Ctx) transfer(w *world, ins ssa.Instruction) bool {
	// an origin is (re)defined each time its instruction executes (loops)
	if v, ok := ins.(ssa.Value); ok && isMsgPtr(v.Type()) {
		switch ins.(type) {
		case *ssa.Phi, *ssa.ChangeType, *ssa.MakeInterface, *ssa.ChangeInterface, *ssa.Field:
		default:
			delete(w.o, v)
			for al, os := range w.agg {
				var keep []ssa.Value
				for _, o := range os {
					if o != v {
						keep = append(keep, o)
					}
				}
				w.agg[al] = keep
			}
		}
	}
	if x, ok := ins.(*ssa.Defer); ok {
		// `defer func() { m.Free(); … }()` with m a variable of the enclosing function: the
		// message m holds when the function returns is released then
		if mc, ok := x.Call.Value.(*ssa.MakeClosure); ok {
			if cf, ok := mc.Fn.(*ssa.Function); ok {
				EachInstr(cf, func(in2 ssa.Instruction) {
					cc2 := CallOf(in2)
					if cc2 == nil || msgMethod(cc2) != "Free" || len(cc2.Args) == 0 {
						return
					}
					u, ok := stripCast(cc2.Args[0]).(*ssa.UnOp)
					if !ok || u.Op != token.MUL {
						return
					}
					fv, ok := u.X.(*ssa.FreeVar)
					if !ok {
						return
					}
					for i, f := range cf.FreeVars {
						if f == fv && i < len(mc.Bindings) {
							if al, ok := mc.Bindings[i].(*ssa.Alloc); ok {
								w.dcell[al] = true
							}
						}
					}
				})
			}
		}
	}
	// a slice of the message's Body/Header that was read while the message was live is the
	// message's buffer: indexing, slicing, ranging over it or passing it on after the release
	// reads a buffer that is back in the pool (`body := m.Body; m.Free(); write(body)`)
	{
		bufUse := func(v ssa.Value, what string) {
			mv, fld := derivedFromMsg(v)
			if mv == nil {
				return
			}
			// only through a value that was loaded earlier: a fresh m.Body after the release
			// is reported as an access to the message itself
			o, ok := c.origin(w, mv)
			if !ok || o == nil {
				return
			}
			s := w.o[o]
			if s.st == stFreed && s.k == 0 {
				c.issue("buffer-after-release", ins, c.describe(o), fmt.Sprintf("%s of the message's %s (read before) after the message was freed at %s: the buffer is back in the pool and may already hold another message", what, fld, s.where))
			}
		}
		switch x := ins.(type) {
		case *ssa.IndexAddr:
			bufUse(x.X, "indexing")
		case *ssa.Slice:
			bufUse(x.X, "slicing")
		case *ssa.Range:
			bufUse(x.X, "ranging")
		case *ssa.Call:
			if bi, isB := x.Call.Value.(*ssa.Builtin); !(isB && (bi.Name() == "len" || bi.Name() == "cap")) {
				for _, a := range x.Call.Args {
					bufUse(a, "passing on")
				}
			}
		}
	}
	switch x := ins.(type) {
	case *ssa.Panic:
		return true
	case *ssa.Send:
		c.consumeValue(w, x.X, ins, "send on "+Desc(x.Chan))
	case *ssa.Select:
		// a send arm whose outcome nothing tests (`select { case q <- m: default: }` with both
		// bodies empty compiles to no branch): from here on the message may be in the queue
		for k, st := range x.States {
			if st.Dir == types.SendOnly && !selectIndexTested(x, k) {
				c.consumeValue(w, st.Send, ins, "possible send on "+Desc(st.Chan)+" (the select's outcome is not tested)")
			}
		}
	case *ssa.Go:
		for _, a := range x.Call.Args {
			if isMsgPtr(a.Type()) {
				if o, ok := c.origin(w, a); ok && o != nil {
					c.release(w, o, ins, stConsumed, "hand-off to goroutine "+CalleeName(&x.Call))
				}
			}
		}
	case *ssa.Store:
		// message stored into a field / local aggregate
		if isMsgPtr(x.Val.Type()) {
			o, ok := c.origin(w, x.Val)
			if al, isCell := x.Addr.(*ssa.Alloc); isCell {
				if ok {
					w.cells[al] = o
				} else {
					delete(w.cells, al)
				}
			}
			if fa, isFa := x.Addr.(*ssa.FieldAddr); isFa {
				if al, isAl := fa.X.(*ssa.Alloc); isAl {
					if ok && o != nil {
						w.agg[al] = []ssa.Value{o}
					} else {
						w.agg[al] = nil
					}
				} else {
					path := Desc(fa)
					// overwriting a field gives ownership back to whoever loaded it before
					for oo, s := range w.o {
						if s.borrowed == path || s.retained == path {
							s.borrowed, s.retained = "", ""
							w.o[oo] = s
						}
					}
					if ok && o != nil {
						s := w.o[o]
						s.retained = path
						w.o[o] = s
					}
				}
			}
		}
		// element store into the message's Header/Body
		if ia, ok := x.Addr.(*ssa.IndexAddr); ok {
			if mv, _ := derivedFromMsg(ia.X); mv != nil {
				if o, ok := c.origin(w, mv); ok && o != nil {
					if _, seen := w.wr[o]; !seen {
						w.wr[o] = c.p.InstrPos(ins)
					}
				}
			}
		}
		// an un-copied slice of a message buffer stored into a heap field
		if mv, _ := derivedFromMsg(x.Val); mv != nil {
			if fa, ok := x.Addr.(*ssa.FieldAddr); ok && !isMsgPtr(fa.X.Type()) {
				if _, isLocal := fa.X.(*ssa.Alloc); !isLocal {
					if o, ok := c.origin(w, mv); ok && o != nil {
						w.deriv[o] = Desc(fa)
					}
				}
			}
		}
		// write through a message (Header/Body field or element)
		if fa, ok := x.Addr.(*ssa.FieldAddr); ok && isMsgPtr(fa.X.Type()) {
			c.use(w, fa.X, ins, "write to ."+fieldName(fa.X.Type(), fa.Field))
			if o, ok := c.origin(w, fa.X); ok && o != nil {
				if _, seen := w.wr[o]; !seen {
					w.wr[o] = c.p.InstrPos(ins)
				}
			}
			// header stripping of a parameter: m.Header = m.Header[k:] ... m.Header = saved
			if par, isPar := stripCast(fa.X).(*ssa.Parameter); isPar && fieldName(fa.X.Type(), fa.Field) == "Header" {
				switch v := x.Val.(type) {
				case *ssa.Slice:
					if v.Low != nil && Desc(v.X) == Desc(fa) {
						w.hdr[par] = true
						if c.hdrStrip == nil {
							c.hdrStrip = map[*ssa.Parameter]ssa.Instruction{}
						}
						c.hdrStrip[par] = x
					}
				case *ssa.UnOp:
					// restored only by a value of the header that was read BEFORE the strip
					if v.Op == token.MUL && Desc(v.X) == Desc(fa) {
						if at := c.hdrStrip[par]; at == nil || InstrDominates(v, at) {
							delete(w.hdr, par)
						}
					}
				case *ssa.Phi:
					// `var hdr []byte; if … { hdr = m.Header; m.Header = hdr[4:] }`: the saved
					// header is that read wherever the strip happened at all
					if u, ok := derefBase(v).(*ssa.UnOp); ok && u.Op == token.MUL && Desc(u.X) == Desc(fa) {
						if at := c.hdrStrip[par]; at == nil || InstrDominates(u, at) {
							delete(w.hdr, par)
						}
					}
				}
			}
		}
	case *ssa.FieldAddr:
		if isMsgPtr(x.X.Type()) {
			c.use(w, x.X, ins, "access to ."+fieldName(x.X.Type(), x.Field))
		}
	case *ssa.RunDefers:
		{
			var als []*ssa.Alloc
			for al := range w.dcell {
				als = append(als, al)
			}
			sort.Slice(als, func(i, j int) bool { return als[i].Name() < als[j].Name() })
			for _, al := range als {
				if o, ok := w.cells[al]; ok && o != nil {
					c.release(w, o, x, stFreed, "deferred Free (in a deferred closure)")
				}
			}
		}
		var ds []ssa.Value
		for o := range w.dfree {
			ds = append(ds, o)
		}
		sort.Slice(ds, func(i, j int) bool { return ds[i].Name() < ds[j].Name() })
		for _, o := range ds {
			c.release(w, o, x, stFreed, "deferred Free")
			delete(w.dfree, o)
		}
	case *ssa.Return:
		errDesc := ""
		if returnsError(c.fn) && len(x.Results) > 0 {
			ev := resolveSpill(x.Results[len(x.Results)-1], x)
			errDesc = Desc(ev)
			if known, ok := w.errs[ev]; ok {
				if known {
					errDesc = "nil"
				} else if !strings.HasPrefix(errDesc, "Err") {
					errDesc = "non-nil " + errDesc
				}
			}
			if errDesc != "nil" {
				// non-nil if constant error or guarded by != nil
				isErr := strings.HasPrefix(errDesc, "Err") || strings.HasPrefix(errDesc, "non-nil ")
				for _, g := range c.p.GuardStrings(x) {
					if g == errDesc+" != nil" {
						isErr = true
					}
					if g == errDesc+" == nil" {
						errDesc = "nil"
					}
				}
				if errDesc != "nil" && !isErr {
					errDesc = "possibly non-nil " + errDesc
				}
			}
		}
		for _, rv := range x.Results {
			rv = resolveSpill(rv, x)
			if isMsgPtr(rv.Type()) {
				if o, ok := c.origin(w, rv); ok && o != nil {
					s := w.o[o]
					if (s.st == stFreed || s.st == stConsumed) && s.k == 0 {
						c.issue("return-released", x, c.describe(o), "returns a message that was "+stName[s.st]+" at "+s.where)
					}
					if f, ok := w.deriv[o]; ok {
						c.issue("alias-retained", x, c.describe(o), fmt.Sprintf("the message is returned to the caller while %s still holds an un-copied slice of its buffer: when the caller frees the message the buffer is recycled and %s changes under its owner", f, f))
					}
				}
				continue
			}
			if mv, fld := derivedFromMsg(rv); mv != nil {
				if o, ok := c.origin(w, mv); ok && o != nil {
					s := w.o[o]
					if (s.st == stFreed || s.st == stConsumed) && s.k == 0 {
						c.issue("use-after-release", x, c.describe(o), fmt.Sprintf("returns a slice of the message's %s although the message was %s at %s: the caller's bytes alias a recycled buffer", fld, stName[s.st], s.where))
					}
				}
			}
		}
		// exit rule for Send-like functions
		nm := c.fn.Name()
		if (nm == "SendMsg" || nm == "Send") && errDesc != "" && errDesc != "nil" {
			for _, par := range c.fn.Params {
				if !isMsgPtr(par.Type()) {
					continue
				}
				s := w.o[par]
				if w.hdr[par] && s.st == stLive {
					c.issue("modified-on-error", x, c.describe(par), fmt.Sprintf("%s returns the error %s with the caller's message header still stripped (m.Header = m.Header[k:] not undone): a retry of the same message is routed by the wrong header word", nm, errDesc))
				}
				if (s.st == stFreed || s.st == stConsumed) && s.k == 0 {
					c.issue("release-on-error", x, c.describe(par), fmt.Sprintf("%s returns the error %s although the message was %s at %s: on failure the caller keeps (and frees or retries) the message => double release", nm, errDesc, stName[s.st], s.where))
				}
			}
		}
		c.exit = append(c.exit, w.clone())
		c.exitErr = append(c.exitErr, errDesc)
	case ssa.CallInstruction:
		cc := x.Common()
		switch msgMethod(cc) {
		case "Free":
			if o, ok := c.origin(w, cc.Args[0]); ok && o != nil {
				if _, isDefer := ins.(*ssa.Defer); isDefer {
					w.dfree[o] = true
					return false
				}
				c.release(w, o, ins, stFreed, "Free")
			}
			return false
		case "Clone":
			if o, ok := c.origin(w, cc.Args[0]); ok && o != nil {
				c.use(w, cc.Args[0], ins, "Clone")
				s := w.o[o]
				s.k++
				w.o[o] = s
			}
			return false
		case "MakeUnique":
			c.use(w, cc.Args[0], ins, "MakeUnique")
			if o, ok := c.origin(w, cc.Args[0]); ok && o != nil {
				if at, seen := w.wr[o]; seen {
					c.issue("write-before-unique", ins, c.describe(o), "the message is written through at "+at+" before MakeUnique() is called on it: the code treats the message as possibly shared (that is what MakeUnique is for), so the write lands in the copy other holders still read — they see the stripped/overwritten header or body")
				}
			}
			if call, ok := ins.(*ssa.Call); ok {
				if call.Referrers() == nil || len(*call.Referrers()) == 0 {
					c.issue("unique-discarded", ins, Desc(cc.Args[0]), "the result of MakeUnique() is discarded: if the message was shared, the private copy is lost and the shared original (already released by MakeUnique) keeps being used")
				}
				if o, ok := c.origin(w, cc.Args[0]); ok && o != nil {
					s := w.o[o]
					if s.k > 0 {
						s.k--
					} else {
						s.st = stConsumed
						s.where = c.p.InstrPos(ins)
					}
					// when the result is discarded the code keeps using the receiver: report once, do not cascade
					if call.Referrers() == nil || len(*call.Referrers()) == 0 {
						s.st = stLive
					}
					w.o[o] = s
				}
				w.o[call] = ost{st: stLive}
			}
			return false
		case "Dup":
			c.use(w, cc.Args[0], ins, "Dup")
			return false
		}
		if _, isDefer := ins.(*ssa.Defer); isDefer {
			return false
		}
		// generic call: message arguments
		for i, a := range cc.Args {
			if !isMsgPtr(a.Type()) {
				continue
			}
			o, ok := c.origin(w, a)
			if !ok || o == nil {
				continue
			}
			idx := i
			if cc.IsInvoke() {
				idx = i + 1
			}
			c.use(w, a, ins, "passing to "+CalleeName(cc))
			// the socket-level SendMsg rewrites the message (it installs the routing header in
			// place): a caller that still holds a further reference shares that header with the
			// message in flight, and the next use overwrites it
			if cc.IsInvoke() && cc.Method.Name() == "SendMsg" && apiSendIface(cc.Value.Type()) {
				if st := w.o[o]; st.k > 0 && st.st == stLive {
					c.issue("send-while-shared", ins, c.describe(o), "the message is handed to "+CalleeName(cc)+" while the sender still holds another reference to it (Clone without a matching release before the send): the protocol writes its routing header into the very message the sender keeps and hands over again, so a message still in flight gets the next one's header")
				}
			}
			switch c.argContract(ins, cc, idx) {
			case "consume":
				c.release(w, o, ins, stConsumed, "hand-off to "+CalleeName(cc))
			case "iffnil":
				if call, isCall := ins.(*ssa.Call); isCall {
					// find the error result value
					var ev ssa.Value
					if call.Type().String() == "error" {
						ev = call
					} else if refs := call.Referrers(); refs != nil {
						for _, rf := range *refs {
							if ex, ok := rf.(*ssa.Extract); ok && ex.Type().String() == "error" {
								ev = ex
							}
						}
					}
					s := w.o[o]
					if ev != nil && ev.Referrers() != nil && len(*ev.Referrers()) > 0 {
						s.pend = ev
					} else {
						// error ignored: assume success
						w.o[o] = s
						c.release(w, o, ins, stConsumed, "send via "+CalleeName(cc)+" (error ignored)")
						s = w.o[o]
					}
					w.o[o] = s
				}
			}
		}
	}
	return false
}

// apiSendIface: the application-facing send interfaces (Socket, Context, protocol.Protocol /
// ProtocolBase / ProtocolContext), as opposed to a pipe, whose SendMsg does not rewrite.
func apiSendIface(t types.Type) bool {
	n := typeShort(t)
	for _, suf := range []string{"Socket", "Context", "Protocol", "ProtocolBase", "ProtocolContext"} {
		if strings.HasSuffix(n, "."+suf) || n == suf {
			return true
		}
	}
	return false
}

// E5 runs the ownership analysis over every in-scope function that touches a *Message.
func (p *Prog) E5() *e5Result {
	if p.e5 != nil {
		return p.e5
	}
	r := &e5Result{summ: map[*ssa.Function]*e5Summary{}, inprog: map[*ssa.Function]bool{}, sharedFed: map[*types.Var]string{}}
	p.e5 = r
	for _, fn := range p.Funcs {
		touches := false
		for _, par := range fn.Params {
			if isMsgPtr(par.Type()) {
				touches = true
			}
		}
		if !touches {
			EachInstr(fn, func(in ssa.Instruction) {
				if v, ok := in.(ssa.Value); ok && isMsgPtr(v.Type()) {
					touches = true
				}
			})
		}
		if !touches {
			continue
		}
		r.funcs++
		if _, done := r.summ[fn]; done {
			continue
		}
		r.summaryOf(p, fn)
	}
	// de-duplicate issues (functions analysed once thanks to the summary memo)
	seen := map[string]bool{}
	var out []E5Issue
	for _, is := range r.issues {
		k := is.Kind + "|" + p.FuncName(is.Fn) + "|" + p.InstrPos(is.In) + "|" + is.What
		if !seen[k] {
			seen[k] = true
			out = append(out, is)
		}
	}
	r.issues = out
	return r
}

// e5SendContracts: every implementation of the "send" methods (Send / SendMsg taking a
// *Message and returning error) must honour the contract its callers rely on through the
// interface: on an error return the message still belongs to the caller (who frees or
// retries it), with its header as the caller passed it.  An implementation that also
// releases it on an error path (directly or by a deferred Free) makes every caller's error
// handling a double release.  One obligation per implementation, from E5's exit rule.
func e5SendContracts(p *Prog, r *Report, rule string, inPkg func(rel string) bool) {
	res := p.E5()
	n := 0
	var fns []*ssa.Function
	for _, fn := range p.Funcs {
		fns = append(fns, fn)
	}
	sort.Slice(fns, func(i, j int) bool { return p.FuncName(fns[i]) < p.FuncName(fns[j]) })
	for _, fn := range fns {
		if fn.Signature.Recv() == nil || (fn.Name() != "Send" && fn.Name() != "SendMsg") {
			continue
		}
		rel, _ := p.FuncRel(fn)
		if inPkg != nil && !inPkg(rel) {
			continue
		}
		if !returnsError(fn) || len(fn.Params) != 2 || !isMsgPtr(fn.Params[1].Type()) {
			continue
		}
		n++
		key := p.FuncName(fn)
		bad := false
		for _, is := range res.issues {
			if is.Fn == fn && (is.Kind == "release-on-error" || is.Kind == "modified-on-error") {
				bad = true
				r.Bad(rule, key+"/"+is.Kind, p.InstrPos(is.In), is.Msg)
			}
		}
		if !bad {
			r.OK(rule, key, p.Pos(fn.Pos()), "no error return releases or leaves modified the caller's message")
		}
	}
	r.Count("e5.send_implementations", n)
}
