package an

import (
	"fmt"
	"sort"
	"strings"

	"golang.org/x/tools/go/ssa"
)

func init() {
	register(&PropInfo{ID: "C05", Run: runC05,
		Explanation: "anchored shape rules + E5: REP/RESPONDENT contexts keep a private copy of the request's routing header and the pipe it arrived on (from the same queue entry, under the lock); SendMsg fails with ErrProtoState when nothing is pending (no side effect), installs exactly that header, can only queue on that pipe, clears both, and discards the reply when the pipe has gone; receivers move header words until the top-bit word; the raw sockets prepend/strip exactly one pipe-id word, route by a comma-ok lookup to that pipe only, and restore the header on error returns.",
		Assumptions: commonAssumptions})
}

func runC05(p *Prog, r *Report) {
	crossCutting(p, r, "C05.X", "protocol/rep", "protocol/respondent", "protocol/xrep", "protocol/xrespondent")
	r.Describe("C05.12/id-freshness", "a pipe id is not handed out again as soon as it is freed: raw REP/RESPONDENT route replies by pipes[id] alone, so a late reply for a departed connection must miss")
	allocatorFreshness(p, r, "C05.12/id-freshness")
	lockBalance(p, r, "C05.7/E1", "protocol/rep", "protocol/respondent", "protocol/xrep", "protocol/xrespondent")
	q := NewQ(p, r)
	for _, rel := range []string{"protocol/rep", "protocol/respondent"} {
		mu := rel + ".socket.Mutex"
		R := "C05.1/context-remembers-route"
		r.Describe(R, "context.RecvMsg stores, under the socket lock and from the same queue entry, a private copy of the request header (backtrace) and the arrival pipe")
		rm := q.Fn(R, rel, "context", "RecvMsg")
		if rm.OK() {
			var bt, rp Sel
			for _, e := range rm.Ev("store", "recv.backtrace") {
				if e.Args[0] != "nil" {
					bt = append(bt, e)
				}
			}
			for _, e := range rm.Ev("store", "recv.recvPipe") {
				if e.Args[0] != "nil" {
					rp = append(rp, e)
				}
			}
			okCopy := len(bt) == 1 && privateCopyOfHeader(rm, bt[0])
			r.Check(okCopy, R, rel+"/backtrace-is-a-copy", bt.Pos(p), "backtrace = append([]byte{}, m.Header...)", "the saved routing header is not a private copy of the request header (it aliases the message buffer the application will free): "+argsOf(bt))
			r.Check(len(bt) == 1 && len(rp) == 1 && bt.AllHeld(mu) && rp.AllHeld(mu) && bt[0].In.Block() == rp[0].In.Block(), R, rel+"/route-stored-together-under-lock", rp.Pos(p), "backtrace and recvPipe stored together under the lock", "backtrace and recvPipe are not stored together under the socket lock")
			// same entry: header source and pipe source are fields of one received entry
			same := false
			if len(bt) == 1 && len(rp) == 1 {
				same = sameEntryPair(bt[0].In.(*ssa.Store).Val, rp[0].In.(*ssa.Store).Val)
			}
			r.Check(same, R, rel+"/route-from-same-entry", rp.Pos(p), "header and pipe come from the same received queue entry", "the saved header and the saved pipe do not come from the same queue entry: the reply goes to another client's connection")
		}
		R = "C05.2/context-send"
		r.Describe(R, "context.SendMsg: ErrProtoState iff nothing pending, header := saved backtrace, queued only on the saved pipe's sendQ, state cleared under the lock, reply discarded when that pipe has gone")
		sm := q.Fn(R, rel, "context", "SendMsg")
		if sm.OK() {
			var ps Sel
			for _, e := range sm.Ev("return", "") {
				if e.Args[0] == "ErrProtoState" {
					ps = append(ps, e)
				}
			}
			r.Check(len(ps) == 1 && ps.AllGuarded("recv.backtrace == nil"), R, rel+"/protostate-iff-nothing-pending", ps.Pos(p), "ErrProtoState iff backtrace == nil", "SendMsg with no request pending does not return ErrProtoState under backtrace == nil")
			se := 0
			for _, e := range sm.All() {
				if hasAtom(e.Guard, "recv.backtrace == nil") {
					switch e.Kind {
					case "store":
						if !strings.HasPrefix(e.What, "$") && e.What != "new" {
							se++
						}
					case "go", "send", "select-send", "close":
						se++
					}
				}
			}
			r.Check(se == 0, R, rel+"/protostate-no-side-effect", sm.Pos(), "no side effect on that path", "the ErrProtoState path has side effects")
			hd := sm.Ev("store", "arg1.Header").Arg(0, "recv.backtrace")
			r.Check(len(hd) == 1 && hd.AllGuarded("recv.backtrace != nil"), R, rel+"/header-is-saved-backtrace", hd.Pos(p), "m.Header = saved backtrace", "the reply header is not the saved routing header of the request")
			if len(hd) == 1 {
				st := hd[0].In.(*ssa.Store)
				r.Check(loadBeforeStores(sm.fn, st.Val), R, rel+"/backtrace-read-before-clear", hd.Pos(p), "the backtrace is read before it is cleared", "the backtrace is cleared before it is read")
			}
			snd := sm.Ev("select-send", "")
			okq := len(snd) == 1 && snd[0].What == "recv.recvPipe.sendQ" && snd[0].Args[0] == "arg1"
			if okq {
				sel := snd[0].In.(*ssa.Select)
				okq = loadBeforeStoresPath(sm.fn, sel.States[snd[0].Arm].Chan, "recv.recvPipe")
			}
			r.Check(okq, R, rel+"/queued-only-on-arrival-pipe", snd.Pos(p), "the only channel m can be sent on is the saved pipe's sendQ", "the reply can be queued on a channel other than the arrival pipe's sendQ: "+argsOf(snd))
			c1 := sm.Ev("store", "recv.backtrace").Arg(0, "nil")
			c2 := sm.Ev("store", "recv.recvPipe").Arg(0, "nil")
			r.Check(len(c1) == 1 && len(c2) == 1 && c1.AllHeld(mu) && c2.AllHeld(mu), R, rel+"/state-cleared-under-lock", c1.Pos(p), "backtrace and recvPipe cleared under the lock (one reply per request)", "the pending-request state is not cleared under the lock: a second Send re-uses the route")
			// pipe gone: arm on the pipe's closeQ frees and returns nil
			cq := sm.Ev("select-recv", "recv.recvPipe.closeQ")
			okGone := len(cq) == 1
			if okGone {
				arm := "arm(<-" + cq[0].What + ")"
				fr := sm.Ev("call", "mangos.(*Message).Free").Guarded(arm)
				rt := sm.Ev("return", "").Guarded(arm)
				okGone = len(fr) == 1 && len(rt) == 1 && rt[0].Args[0] == "nil"
			}
			r.Check(okGone, R, rel+"/discarded-if-pipe-gone", cq.Pos(p), "reply freed and nil returned when the arrival pipe has closed", "when the arrival pipe has gone the reply is not discarded (freed, nil)")
		}
		q.StoreClasses(R, rel+"/route-set-only-by-RecvMsg", rel+".context.backtrace", map[string]string{rel + ".(*context).RecvMsg": "set,nil?", rel + ".(*context).SendMsg": "nil"})
		q.StoreClasses(R, rel+"/pipe-set-only-by-RecvMsg", rel+".context.recvPipe", map[string]string{rel + ".(*context).RecvMsg": "set,nil?", rel + ".(*context).SendMsg": "nil"})
		// (the end-of-backtrace test is decided for all four receivers below: top-bit-test-exact)
	}

	// every receiver that walks a backtrace (cooked and raw, REP and RESPONDENT) ends it at the
	// word whose top bit is set — decided by evaluating whatever test the code makes on the
	// word (first byte & 0x80, first byte >= 0x80, the whole word >= / & 0x80000000, …) for
	// words around the boundary, 0x80000000 itself included
	{
		R := "C05.3/backtrace-parse"
		n := 0
		for _, rel := range []string{"protocol/rep", "protocol/respondent", "protocol/xrep", "protocol/xrespondent"} {
			rc := q.Fn(R, rel, "pipe", "receiver")
			if !rc.OK() {
				continue
			}
			good, bad := 0, ""
			rc.EachInstrDeep(func(in ssa.Instruction) {
				bo, ok := in.(*ssa.BinOp)
				if !ok {
					return
				}
				if _, cmp := negOp[bo.Op]; !cmp {
					return
				}
				verdict, applies := topBitTest(bo)
				if !applies {
					return
				}
				if verdict == "" {
					good++
				} else {
					bad = p.InstrPos(in) + ": " + verdict
				}
			})
			n += good
			r.Check(good >= 1 && bad == "", R, rel+"/top-bit-test-exact", rc.Pos(), "the end-of-backtrace test is true exactly for words with the top bit set", "the end-of-backtrace test of the "+rel+" receiver is not `top bit of the word set`: "+bad+" — a request whose id word sits on the boundary (0x80000000) is parsed past its id (dropped, or payload bytes taken for routing data)")
		}
		r.Count("c05.top_bit_tests", n)
		r.Floor(R, "c05.top_bit_tests", 4)
	}

	r.Describe("C05.6/route-recorded", "the route back is a private copy (cooked) / the arrival pipe id (raw)")
	backtraceCopyRule(p, r, "C05.6/route-recorded")
	c05Raw(p, r, "C05.4/raw-routing", []string{"protocol/xrep", "protocol/xrespondent"})
}

// c05Raw: the raw REP/RESPONDENT routing rules (C05.4; also used by C07 for xrespondent).
func c05Raw(p *Prog, r *Report, R string, rels []string) {
	q := NewQ(p, r)
	r.Describe(R, "xrep/xrespondent.SendMsg: pipe id = first 4 header bytes (len checked), exactly those 4 stripped, comma-ok lookup, miss => free+nil, hit => that pipe's sendQ only; header restored on error returns")
	for _, rel := range rels {
		mu := rel + ".socket.Mutex"
		sm := q.Fn(R, rel, "socket", "SendMsg")
		if !sm.OK() {
			continue
		}
		const idd = "binary.(bigEndian).Uint32(encoding/binary.BigEndian,arg1.Header)"
		idc := sm.Ev("call", "binary.(bigEndian).Uint32").Arg(1, "arg1.Header")
		r.Check(len(idc) == 1 && idc.AllGuarded("len(arg1.Header) >= 4"), R, rel+"/id-from-first-word", idc.Pos(p), "id = BigEndian.Uint32(Header) under len(Header) >= 4", "the destination pipe id is not read from the first header word under a length check")
		st := sm.Ev("store", "arg1.Header").Arg(0, "arg1.Header[4:]")
		r.Check(len(st) == 1, R, rel+"/strips-one-word", st.Pos(p), "Header = Header[4:]", "SendMsg does not strip exactly the 4-byte pipe id from the header")
		if len(idc) == 1 && len(st) == 1 {
			r.Check(InstrDominates(idc[0].In, st[0].In), R, rel+"/id-read-before-strip", st.Pos(p), "id read before the strip", "the id is read after the header was stripped (reads the next hop's word)")
		}
		// the only thing a reply's header has to satisfy is that it holds the word to route by:
		// every condition on the header (or on the hop limit) that decides between queueing
		// and discarding is `len(Header) >= 4`
		{
			var extra []string
			for _, e := range append(sm.Ev("call", "mangos.(*Message).Free"), sm.Ev("select-send", "")...) {
				for _, g := range e.Guard {
					if g == "len(arg1.Header) < 4" || g == "len(arg1.Header) >= 4" {
						continue
					}
					if strings.Contains(g, "len(arg1.Header)") || strings.Contains(g, ".ttl") || strings.Contains(g, "len(arg1.Body)") {
						extra = append(extra, g)
					}
				}
			}
			sort.Strings(extra)
			r.Check(len(extra) == 0, R, rel+"/reply-size-conditions-exact", sm.Pos(), "a reply is queued or discarded on no condition on its header or body other than len(Header) >= 4", "a reply is queued or discarded depending on "+strings.Join(nonEmpty(extra), ", ")+": the reply path applies no hop limit and no size rule of its own (a request accepted at the hop limit has one more header word on its way back than it had on arrival), so such replies never reach the client that asked")
		}
		hit := "recv.pipes[" + idd + "]#1"
		snd := sm.Ev("select-send", "")
		okq := len(snd) == 1 && snd[0].What == "recv.pipes["+idd+"]#0.sendQ" && snd[0].Args[0] == "arg1" && hasAtom(snd[0].Guard, hit)
		r.Check(okq, R, rel+"/queued-only-on-addressed-pipe", snd.Pos(p), "the reply is queued only on the sendQ of the pipe named by its header, on the lookup hit", "the reply can go to a pipe other than the one its header names: "+argsOf(snd))
		fr := sm.Ev("call", "mangos.(*Message).Free").Guarded("!" + hit)
		rt := sm.Ev("return", "").Guarded("!" + hit)
		if len(fr) == 0 && len(rt) == 0 {
			// the miss and the short header share one discard exit (a flag set only by the hit)
			fr = sm.Ev("call", "mangos.(*Message).Free").Guarded("maybe-not:" + hit)
			rt = sm.Ev("return", "").Guarded("maybe-not:" + hit)
		}
		r.Check(len(fr) == 1 && len(rt) == 1 && rt[0].Args[0] == "nil", R, rel+"/unknown-pipe-discarded", fr.Pos(p), "unknown pipe id: freed, nil", "a reply for an unknown/closed pipe is not discarded silently")
		// lookup under the lock
		lk := false
		EachInstr(sm.fn, func(in ssa.Instruction) {
			if l, ok := in.(*ssa.Lookup); ok && l.CommaOk && Desc(l.X) == "recv.pipes" {
				for _, h := range p.mutexesHeld(sm.fn, in) {
					if h == mu {
						lk = true
					}
				}
			}
		})
		r.Check(lk, R, rel+"/lookup-under-lock", sm.Pos(), "pipe table read under the socket lock", "the pipe table is read without the socket lock")
		// E5 issues in this function (modified-on-error, release-on-error)
		nE5 := 0
		for _, is := range p.E5().issues {
			if is.Fn == sm.fn {
				nE5++
				r.Bad(R, rel+"/SendMsg/"+is.Kind, p.InstrPos(is.In), is.Msg)
			}
		}
		if nE5 == 0 {
			r.OK(R, rel+"/SendMsg/error-returns-leave-message-intact", sm.Pos(), "every error return leaves the caller's message unreleased with its header restored")
		}
		q.OnlyIn(R, rel+"/writers-of-pipes", p.PostPubWritersOf(rel+".socket.pipes"), []string{rel + ".(*socket).AddPipe", rel + ".(*socket).RemovePipe"}, []string{rel + ".(*socket).AddPipe", rel + ".(*socket).RemovePipe"})
		ap := q.Fn(R, rel, "socket", "AddPipe")
		if ap.OK() {
			mu2 := ap.Ev("mapupdate", "recv.pipes")
			r.Check(len(mu2) == 1 && mu2[0].Args[0] == "arg1.ID()", R, rel+"/registered-under-own-id", mu2.Pos(p), "pipes[pp.ID()] = p", "a pipe is not registered under its own id")
		}
	}
}

// backtraceCopyRule: shared by C05.1 and C09.6.
func backtraceCopyRule(p *Prog, r *Report, R string) {
	q := NewQ(p, r)
	for _, rel := range []string{"protocol/rep", "protocol/respondent"} {
		rm := q.Fn(R, rel, "context", "RecvMsg")
		if !rm.OK() {
			continue
		}
		var bt Sel
		for _, e := range rm.Ev("store", "recv.backtrace") {
			if e.Args[0] != "nil" {
				bt = append(bt, e)
			}
		}
		okCopy := len(bt) == 1 && privateCopyOfHeader(rm, bt[0])
		r.Check(okCopy, R, rel+"/backtrace-is-a-copy", bt.Pos(p), "backtrace = append([]byte{}, m.Header...)", "the saved routing header is not a private copy of the request header: once the application frees the request, the next request recycled into that buffer overwrites the saved route and the reply goes to (or is labelled for) another client: "+argsOf(bt))
	}
	for _, rel := range []string{"protocol/xrep", "protocol/xrespondent"} {
		f := q.Fn(R, rel, "pipe", "receiver")
		if !f.OK() {
			continue
		}
		put := f.Ev("call", "binary.(bigEndian).PutUint32")
		okPut := len(put) == 1 && strings.HasSuffix(put[0].Args[1], ".Header") && put[0].Args[2] == "recv.p.ID()"
		r.Check(okPut, R, rel+"/records-arrival-pipe", put.Pos(p), "the first header word is the id of the pipe the request arrived on", "the raw receiver does not record the arriving pipe's id as the first header word: replies cannot be routed back to the asking client: "+argsOf(put))
	}
}

func itoa(i int) string {
	return strings.TrimSpace(strings.Replace(" "+string(rune('0'+i)), " ", "", 1))
}

// loadBeforeStoresPath: v is (a field of) a load of `path` that executes before any store
// to path in fn.
func loadBeforeStoresPath(fn *ssa.Function, v ssa.Value, path string) bool {
	for i := 0; i < 6; i++ {
		switch x := v.(type) {
		case *ssa.UnOp:
			if Desc(x.X) == path || (x.Op.String() == "*" && Desc(x) == path && func() bool { _, ok := x.X.(*ssa.FieldAddr); return ok }() && fieldPathIs(x, path)) {
				return loadBeforeStores(fn, x)
			}
			v = x.X
			continue
		case *ssa.FieldAddr:
			v = x.X
			continue
		}
		break
	}
	return false
}

func fieldPathIs(u *ssa.UnOp, path string) bool { return Desc(u.X) == path }

// phiPairFromSameEntry: in rep.context.RecvMsg, m and p are assigned from the fields of
// one received entry (`m, p = entry.m, entry.p`).
func phiPairFromSameEntry(fn *ssa.Function) bool {
	var mSrc, pSrc ssa.Value
	EachInstr(fn, func(in ssa.Instruction) {
		ph, ok := in.(*ssa.Phi)
		if !ok {
			return
		}
		for _, e := range ph.Edges {
			if u, ok := e.(*ssa.UnOp); ok {
				if fa, ok := u.X.(*ssa.FieldAddr); ok {
					switch fieldName(fa.X.Type(), fa.Field) {
					case "m":
						mSrc = fa.X
					case "p":
						pSrc = fa.X
					}
				}
			}
		}
	})
	return mSrc != nil && mSrc == pSrc
}

// sameEntryPair: the message whose Header is copied into hdrVal and the pipe stored as
// pipeVal are the .m and .p (any two fields) of ONE received queue entry: every source of
// both values (through phis; nil constants aside) is a field load from the same base value.
// Decided on the values, not on the names of the locals that hold them.
func sameEntryPair(hdrVal, pipeVal ssa.Value) bool {
	// the message: …Header of M inside append(…, M.Header...)
	var msg ssa.Value
	var find func(v ssa.Value, d int)
	find = func(v ssa.Value, d int) {
		if d > 6 || msg != nil {
			return
		}
		switch x := v.(type) {
		case *ssa.Call:
			for _, a := range x.Call.Args {
				find(a, d+1)
			}
		case *ssa.Slice:
			find(x.X, d+1)
		case *ssa.MakeSlice:
			find(x.Len, d+1) // make([]byte, len(M.Header)) + copy
		case *ssa.UnOp:
			if fa, ok := x.X.(*ssa.FieldAddr); ok && isMsgPtr(fa.X.Type()) && fieldName(fa.X.Type(), fa.Field) == "Header" {
				msg = fa.X
				return
			}
			find(x.X, d+1)
		}
	}
	find(hdrVal, 0)
	if msg == nil {
		return false
	}
	bases := func(v ssa.Value) (map[ssa.Value]bool, bool) {
		out := map[ssa.Value]bool{}
		ok := true
		var walk func(x ssa.Value, d int)
		seen := map[ssa.Value]bool{}
		walk = func(x ssa.Value, d int) {
			if seen[x] || d > 6 {
				return
			}
			seen[x] = true
			switch y := x.(type) {
			case *ssa.Phi:
				for _, e := range y.Edges {
					walk(e, d+1)
				}
			case *ssa.Const:
			case *ssa.UnOp:
				if fa, isFa := y.X.(*ssa.FieldAddr); isFa {
					out[fa.X] = true
				} else {
					ok = false
				}
			case *ssa.Field:
				out[y.X] = true
			default:
				ok = false
			}
		}
		walk(v, 0)
		return out, ok
	}
	mb, ok1 := bases(msg)
	pb, ok2 := bases(pipeVal)
	if !ok1 || !ok2 || len(mb) != 1 || len(pb) != 1 {
		return false
	}
	for b := range mb {
		return pb[b]
	}
	return false
}

// privateCopyOfHeader: the stored value is a fresh slice holding the bytes of some message's
// Header: `append([]byte{}, M.Header...)`, or `make([]byte, len(M.Header))` filled by
// `copy(that, M.Header)` before it is stored.
func privateCopyOfHeader(f *F, st *Ev) bool {
	v := st.Args[0]
	if strings.HasPrefix(v, "append($slicelit[:],") && strings.HasSuffix(v, ".Header)") {
		return true
	}
	if strings.HasPrefix(v, "make([],len(") && strings.Contains(v, ".Header)") {
		for _, c := range f.Ev("call", "copy") {
			if len(c.Args) != 2 || !strings.HasSuffix(c.Args[1], ".Header") || !strings.Contains(v, "len("+c.Args[1]+")") {
				continue
			}
			if c.Args[0] == v && evDominates(c, st) {
				return true // filled, then stored
			}
			if c.Args[0] == st.What && c.In.Block() == st.In.Block() && evDominates(st, c) && len(c.Held) > 0 && len(st.Held) > 0 {
				return true // stored, then filled through the field in the same critical section
			}
		}
	}
	return false
}

// topBitTest: cmp is a comparison over the first byte of a 4-byte word of a message buffer
// (X.Body[0], X.Header[len-4]) or over the whole word (BigEndian.Uint32 of it).  It is
// evaluated for words around the boundary and compared with "top bit set"; the result is ""
// when it is that test (in either polarity), a counter-example otherwise.  applies=false when
// the comparison is about something else (a length check, a hop count).
func topBitTest(cmp *ssa.BinOp) (string, bool) {
	var byteLeaf, wordLeaf []string
	var walk func(v ssa.Value, d int)
	walk = func(v ssa.Value, d int) {
		if d > 5 {
			return
		}
		switch x := v.(type) {
		case *ssa.BinOp:
			walk(x.X, d+1)
			walk(x.Y, d+1)
		case *ssa.Convert:
			walk(x.X, d+1)
		case *ssa.ChangeType:
			walk(x.X, d+1)
		case *ssa.UnOp:
			ds := Desc(x)
			if strings.HasSuffix(ds, ".Body[0]") || (strings.Contains(ds, ".Header[(len(") && strings.HasSuffix(ds, ") - 4)]")) {
				byteLeaf = append(byteLeaf, ds)
			}
		case *ssa.Call:
			if CalleeName(&x.Call) == "binary.(bigEndian).Uint32" {
				wordLeaf = append(wordLeaf, Desc(x))
			}
		}
	}
	walk(cmp, 0)
	if len(byteLeaf)+len(wordLeaf) == 0 {
		return "", false
	}
	// hop counters compare such bytes too (xstar/pair1 are not analysed here, but be safe):
	// only comparisons against a constant with bit 7 / bit 31 in play
	involves := false
	for _, side := range []ssa.Value{cmp.X, cmp.Y} {
		var c func(v ssa.Value, d int)
		c = func(v ssa.Value, d int) {
			if d > 4 {
				return
			}
			switch x := v.(type) {
			case *ssa.Const:
				if k, ok := ConstInt(x); ok && (k == 0x80 || k == 0x7f || k == 0x80000000 || k == 0x7fffffff) {
					involves = true
				}
			case *ssa.BinOp:
				c(x.X, d+1)
				c(x.Y, d+1)
			case *ssa.Convert:
				c(x.X, d+1)
			}
		}
		c(side, 0)
	}
	if !involves {
		return "", false
	}
	agreePos, agreeNeg := true, true
	counter := ""
	for _, w := range []int64{0, 1, 0x7fffffff, 0x80000000, 0x80000001, 0xffffffff, 0x80ffffff, 0x7f000000} {
		env := map[string]int64{}
		for _, l := range byteLeaf {
			env[l] = w >> 24
		}
		for _, l := range wordLeaf {
			env[l] = w
		}
		v, known := evalBool(cmp, env)
		if !known {
			return "", false
		}
		want := w&0x80000000 != 0
		if v != want {
			agreePos = false
			if counter == "" {
				counter = fmt.Sprintf("`%s` is %v for the word %#08x", NormAtom(cmp, true), v, w)
			}
		}
		if v == want {
			agreeNeg = false
		}
	}
	if agreePos || agreeNeg {
		return "", true
	}
	return counter, true
}
