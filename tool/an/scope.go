package an

import "strings"

// KnownPath is the known-findings file (set by the command before any property runs): an
// obligation that is a recorded finding of its home property is not imported elsewhere.
var KnownPath string

var knownCache *KnownFile

func knownHome(o *Ob) bool {
	if knownCache == nil {
		knownCache = &KnownFile{}
		if KnownPath != "" {
			if k, err := LoadKnown(KnownPath); err == nil {
				knownCache = k
			}
		}
	}
	return knownCache.Match(o) != nil
}

// propReport runs another property's whole rule set once per loaded program and keeps the
// result.  While it runs, importProp is inert (imports are not transitive, and two properties
// that import from each other do not recurse).
func (p *Prog) propReport(id string) *Report {
	if p.propReports == nil {
		p.propReports = map[string]*Report{}
	}
	if r, ok := p.propReports[id]; ok {
		return r
	}
	pi := Lookup(id)
	r := NewReport(id, "")
	p.propReports[id] = r
	if pi == nil {
		return r
	}
	saved := p.importing
	p.importing = true
	pi.Run(p, r)
	p.importing = saved
	return r
}

// importProp attaches to a behavioural property, under rule R, obligations decided by the
// rule set of another property: the structural necessary conditions it shares with it
// (mechanisms that several properties rest on — the id allocator, the handshake, the send
// contract, queue sizing — are decided once, where they are anchored, and each property whose
// behaviour breaks when they break carries them).  sel picks the obligations: a list of
// "rulePrefix" or "rulePrefix|keySubstring" entries.
func importProp(p *Prog, r *Report, R, why, from string, sel ...string) {
	r.Describe(R, why+" (obligations of "+from+": "+strings.Join(sel, ", ")+")")
	if p.importing {
		return
	}
	src := p.propReport(from)
	n := 0
	for _, o := range src.Obs {
		keep := false
		for _, s := range sel {
			rp, ks := s, ""
			if i := strings.Index(s, "|"); i >= 0 {
				rp, ks = s[:i], s[i+1:]
			}
			if strings.HasPrefix(o.Rule, rp) && (ks == "" || strings.Contains(o.Key, ks)) {
				keep = true
			}
		}
		if !keep || strings.HasPrefix(o.Key, "floor:") || knownHome(o) {
			continue
		}
		n++
		r.add(R, o.Rule+"/"+o.Key, o.Status, o.Pos, o.Msg, o.Witness)
	}
	if n == 0 {
		r.Bad(R, "import:"+from, "-", "rule went blind: no obligation of "+from+" matches "+strings.Join(sel, ", "))
	}
}

// imp is one import: the obligations sel of property from, attached under rule with reason why.
type imp struct {
	rule, from, why string
	sel             []string
}

// propImports: the shared mechanisms each behavioural property rests on (confirmed by reading
// the property statements against the code; every line names the clause it serves).
var propImports = map[string][]imp{
	"C01": {
		{"C01.20/websocket-configuration", "C15", "a message at the receive limit is delivered over ws/wss whatever its bytes are: the websocket connection is configured with sub-protocols and TLS material only — with compression negotiated, gorilla's read limit counts the deflated frame, which for incompressible content is larger than the message", []string{"C15.14/std-config-fields|websocket"}},
		{"C01.19/one-transmission-per-connection", "C04", "a connection carries one request at a time: a pipe is in REQ's ready list only while it is idle, and only the scheduler, the end of a transmission, attach and detach change that list (two transmissions on one stream interleave their frames on transports that write a frame in several pieces)", []string{"C04.6/pipe-loss|readyQ-writers"}},
		{"C01.18/core-passes-on", "C16", "the core hands on every message the transport delivered: pipe.RecvMsg gives up (and closes the pipe) only when the transport's Recv failed, so the receive limit that applies is the endpoint's own", []string{"C16.4/error-closes-only-that-pipe|pipe.RecvMsg"}},
		{"C01.17/one-delivery-per-context", "C06", "one publication yields one receive per context: the SUB receiver queues a message once for a context however many of its subscriptions match", []string{"C06.2/receiver"}},
		{"C01.16/cooked-bus-header", "C08", "a cooked BUS socket sends the body alone: a stale header of any length is discarded, not put on the wire in front of it", []string{"C08.2/bus-receive|bus.SendMsg"}},
		{"C01.14/delivered-private", "C17", "a message handed to one receiver is not the buffer handed to another: what one does with its copy cannot change what the other reads", []string{"C17.3/shared-queue", "C17.6/unique-sites"}},
		{"C01.15/ownership", "C17", "a message on its way is not released while something still holds and re-sends it (a recycled buffer arrives with another message's bytes)", []string{"C17.1/E5"}},
		{"C01.13/request-id-marker", "C03", "every request id carries the bit that ends the backtrace: without it the REP side takes payload words for routing data and the application sees a truncated body", []string{"C03.12/id-end-marker"}},
		{"C01.12/limit-read-per-connection", "C16", "the receive limit a message is checked against is the one configured when its connection is accepted: a stale limit drops messages the property says are delivered", []string{"C16.11/limit-read-per-connection"}},
	},
	"C02": {
		{"C02.19/conn-configuration", "C15", "an established conversation is not torn down by the transport itself: no deadline is left armed on the connection (a write deadline set for the handshake and never cleared fails every Send made later, closes the pipe and loses the message)", []string{"C15.13/conn-configuration"}},
		{"C02.18/carry-on", "C12", "PAIR admits the next peer once the first has gone: a listener keeps accepting whatever happened to an earlier connection attempt — a peer's failure (a hang-up during the handshake included) is never reported as 'endpoint closed', which is what ends the accept loop and the redial", []string{"C12.5/ErrClosed-means-closed", "C12.3/endpoint-usable"}},
		{"C02.17/redial-timer", "C14", "a further connection attempt follows every loss: the redial timer is stopped and cleared only by the dialer's Close (a late attach notification that cancels it leaves the dialer silent for good, and the peer waiting for its turn is never admitted)", []string{"C14.13/timer-discipline|internal/core.dialer.redialer"}},
		{"C02.16/framing", "C01", "each frame's length prefix is read completely before it is interpreted: a short read of the prefix turns the rest of the stream into messages nobody sent", []string{"C01.3/framing"}},
		{"C02.15/no-peer-signal", "C18", "the 'ran out of peers' signal of PUSH is re-armed where it was raised: otherwise every send made after the last peer left and before the next one is admitted fails at once although fail-no-peers semantics only apply while there is no peer, and sends accepted later are refused", []string{"C18.4/fail-no-peers|xpush"}},
		{"C02.13/api-copies", "C01", "Recv hands the application a private copy of the body: the delivered bytes do not change when the message is recycled", []string{"C01.8/api-copies"}},
		{"C02.8/E3", "C11", "PAIR admission and PUSH scheduling state (and the core attach/detach flags they are driven by) is read and written under its lock: a detach decided on a stale flag never tells the protocol its peer has gone", []string{"C11.1/E3|internal/core", "C11.1/E3|protocol/xpair", "C11.1/E3|protocol/xpush", "C11.1/E3|protocol/xpull"}},
		{"C02.9/ownership", "C17", "a message accepted for delivery is neither released twice nor shared with a later one (no duplication, loss or reordering through a recycled buffer)", []string{"C17.5/send-contract", "C17.1/E5|protocol/xpair", "C17.1/E5|protocol/xpush", "C17.1/E5|protocol/xpull", "C17.1/E5|transport"}},
		{"C02.11/wakers", "C14", "the PUSH scheduler is woken by every pipe that becomes ready (a conditional wake-up strands queued messages)", []string{"C14.8/wakers-complete|protocol/xpush"}},
		{"C02.10/lifecycle", "C13", "the protocol is told of every arrival and departure exactly once: a second peer is admitted once the first has gone", []string{"C13.1/addPipe", "C13.2/detached", "C13.3/once-each"}},
	},
	"C03": {
		{"C03.18/req-send-outcome", "C17", "a Send that gave up wipes its own request only: SendMsg reports an error, and clears the request state, only while its message is still the one parked (a newer request sent meanwhile keeps its id, so its abandoned predecessor's late reply finds nothing)", []string{"C17.11/req-send-outcome"}},
		{"C03.17/websocket-frame", "C01", "the reply handed to the application is the payload of its own frame, in memory of its own: a body that is a window into a buffer the connection reuses turns into the next frame's bytes (a stale or unsolicited reply the receiver rightly drops) before Recv returns it", []string{"C01.6/websocket"}},
		{"C03.16/send-contract", "C17", "a failed transmission leaves the message with its sender at every layer: REQ keeps that message for retransmission, and a buffer released under it is recycled into the next incoming reply", []string{"C17.5/send-contract|internal/core"}},
		{"C03.14/ownership", "C17", "the request REQ keeps is not released under it (with retries disabled too): a recycled buffer turns the reply being delivered into another message", []string{"C17.1/E5|protocol/req"}},
		{"C03.13/api-copies", "C01", "the reply handed to the application is a private copy: it is not overwritten by a later message", []string{"C01.8/api-copies"}},
		{"C03.10/request-state", "C04", "the id of an abandoned request leaves the id table wherever the request is given up (a stale reply must find nothing)", []string{"C04.6/pipe-loss", "C04.7/request-state-transitions"}},
		{"C03.11/E3", "C11", "request state is accessed under the socket lock", []string{"C11.1/E3|protocol/req", "C11.1/E3|protocol/xreq"}},
	},
	"C04": {
		{"C04.26/failure-detaches", "C16", "a request is re-sent (or cancelled) as soon as the connection that carried it closes: every failed write or read on a pipe closes that pipe, which is what tells the protocol", []string{"C16.4/error-closes-only-that-pipe"}},
		{"C04.25/rearm-stops-previous", "C10", "a request is re-sent each time the retry interval elapses, never sooner: the retry timer armed by a transmission is stopped before the next transmission arms its own, so a re-send caused by the loss of the connection is not followed by the previous timer's re-send", []string{"C10.25/rearm-stops-previous|protocol/req"}},
		{"C04.22/transport-leaves-message-intact", "C17", "sending does not rewrite the message: the request kept for retransmission goes out byte-identical the second time", []string{"C17.4/no-write-through"}},
		{"C04.21/retry-inherited", "C19", "a context opened on the socket retries at the interval configured on the socket, including 0 = never (the interval is what decides whether an unanswered request is sent again)", []string{"C19.4/inheritance|protocol/req"}},
		{"C04.20/api-copies", "C01", "the request kept for retransmission is a private copy of the bytes the caller passed: the re-send is byte-identical whatever the caller does with its buffer", []string{"C01.8/api-copies"}},
		{"C04.19/lifecycle", "C13", "REQ is told of every departure of a pipe it was told of: only then is the request that rode it re-sent", []string{"C13.1/addPipe", "C13.2/detached", "C13.3/once-each"}},
		{"C04.16/send-contract", "C17", "the request kept for retransmission is not released by a failed transmission (the re-send must be byte-identical)", []string{"C17.5/send-contract|transport"}},
		{"C04.14/id-table", "C03", "only the request path registers and clears ids", []string{"C03.2/id-table-writers"}},
		{"C04.15/E3", "C11", "request state is accessed under the socket lock", []string{"C11.1/E3|protocol/req"}},
	},
	"C05": {
		{"C05.18/channels-not-shared", "C10", "each connection has a send queue of its own: a reply queued for a requester that has gone is not written to the next one that connects", []string{"C10.21/channels-not-shared|protocol/rep", "C10.21/channels-not-shared|protocol/xrep", "C10.21/channels-not-shared|protocol/respondent", "C10.21/channels-not-shared|protocol/xrespondent"}},
		{"C05.17/waited-channel-stable", "C19", "the per-connection sender of REP/RESPONDENT keeps serving the queue replies are put on: a queue replaced under a parked sender accepts replies that are never written to the connection", []string{"C19.21/waited-channel-stable|protocol/rep", "C19.21/waited-channel-stable|protocol/xrep", "C19.21/waited-channel-stable|protocol/respondent", "C19.21/waited-channel-stable|protocol/xrespondent"}},
		{"C05.16/lifecycle", "C13", "the protocol is told when a connection has gone (replies addressed to it are then discarded instead of blocking)", []string{"C13.2/detached", "C13.3/once-each"}},
		{"C05.15/request-id-marker", "C03", "the id word that ends the backtrace is recognisable", []string{"C03.12/id-end-marker"}},
		{"C05.13/E3", "C11", "routing state is accessed under the socket lock", []string{"C11.1/E3|protocol/rep", "C11.1/E3|protocol/respondent", "C11.1/E3|protocol/xrep", "C11.1/E3|protocol/xrespondent"}},
		{"C05.14/ownership", "C17", "the saved route and the reply are not aliased with recycled buffers", []string{"C17.1/E5|protocol/rep", "C17.1/E5|protocol/respondent", "C17.1/E5|protocol/xrep", "C17.1/E5|protocol/xrespondent"}},
	},
	"C06": {
		{"C06.17/framing", "C01", "a publication crosses a stream transport unmodified whatever its length: the frame announces len(Header)+len(Body) and carries exactly those bytes on every send path", []string{"C01.3/framing", "C01.9/E6d"}},
		{"C06.16/derived-coherent", "C11", "PUB reaches every subscriber: a list of subscribers kept beside the table of pipes is rebuilt or cleared in the same critical section as every change of the table", []string{"C11.16/derived-coherent"}},
		{"C06.15/unique-primitive", "C01", "MakeUnique copies before it gives up its reference: two contexts making the same publication their own at the same time each end up with an intact private copy", []string{"C01.1/pool|MakeUnique"}},
		{"C06.14/api-copies", "C01", "a delivered body is a private copy: it does not change when later messages arrive", []string{"C01.8/api-copies"}},
		{"C06.13/one-connection-per-dialer", "C14", "a dialer re-establishes one connection per loss: a second connection to the same publisher delivers every message twice", []string{"C14.5/redial-after-loss", "C14.2/backoff"}},
		{"C06.12/send-contract", "C17", "a message shared by all subscriber pipes is released once per pipe, also when a write fails", []string{"C17.5/send-contract|transport"}},
		{"C06.10/queue-sizing", "C19", "a context's queue and the length recorded for it agree, and a new context starts from the socket's: unsubscribe rebuilds the queue from the recorded length and re-queues under the lock", []string{"C19.4/inheritance|protocol/sub", "C19.6/queue-length-agrees|protocol/sub", "C19.6/queue-length-agrees|protocol/xsub", "C19.6/queue-length-agrees|protocol/xpub"}},
		{"C06.11/E3", "C11", "subscription state is accessed under the socket lock", []string{"C11.1/E3|protocol/sub", "C11.1/E3|protocol/xsub", "C11.1/E3|protocol/xpub"}},
	},
	"C07": {
		{"C07.22/survey-timer", "C10", "a survey expires at its survey time: the timer that ends it is armed where the survey starts and by nothing else (re-arming it when an option changes restarts the clock, and late responses are delivered)", []string{"C10.16/timer-discipline|protocol/surveyor"}},
		{"C07.21/derived-coherent", "C11", "every connected respondent is sent each survey: a list of respondents kept beside the table of pipes is rebuilt or cleared in the same critical section as every change of the table", []string{"C11.16/derived-coherent"}},
		{"C07.20/id-freshness", "C13", "a raw RESPONDENT routes an answer by the id of the connection the survey came in on: the id of a surveyor that has gone is not handed to the next one to connect", []string{"C13.8/allocator"}},
		{"C07.17/fresh-backing", "C17", "each survey's backtrace lives in memory of its own", []string{"C17.7/fresh-backing-per-message|protocol/xrespondent", "C17.7/fresh-backing-per-message|protocol/respondent", "C17.7/fresh-backing-per-message|protocol/xsurveyor", "C17.7/fresh-backing-per-message|protocol/surveyor"}},
		{"C07.15/queue-sizing", "C19", "every connected respondent is sent each survey, queue space permitting: the space is the configured one", []string{"C19.6/queue-length-agrees|protocol/surveyor", "C19.6/queue-length-agrees|protocol/xsurveyor", "C19.6/queue-length-agrees|protocol/respondent", "C19.6/queue-length-agrees|protocol/xrespondent", "C19.4/inheritance|protocol/surveyor", "C19.4/inheritance|protocol/respondent"}},
		{"C07.16/E3", "C11", "survey state is accessed under the socket lock", []string{"C11.1/E3|protocol/surveyor", "C11.1/E3|protocol/xsurveyor", "C11.1/E3|protocol/respondent", "C11.1/E3|protocol/xrespondent"}},
	},
	"C08": {
		{"C08.19/send-contract", "C17", "a message broadcast to several peers is released once per peer: a transport or the core that releases it on a failed write — which the per-peer sender then releases again — recycles the buffer while a slower peer still holds it, and that peer receives another message's bytes", []string{"C17.5/send-contract|transport", "C17.5/send-contract|internal/core", "C17.1/E5|transport", "C17.1/E5|internal/core"}},
		{"C08.18/derived-coherent", "C11", "BUS and STAR reach every other member: a list of members kept beside the table of pipes is rebuilt or cleared in the same critical section as every change of the table", []string{"C11.16/derived-coherent"}},
		{"C08.17/waited-channel-stable", "C19", "a STAR receiver waiting for room in the socket's receive queue, and a per-peer sender waiting on its queue, keep forwarding after a queue option is changed: a goroutine left on a replaced channel stops that peer's traffic for good", []string{"C19.21/waited-channel-stable|protocol/xstar", "C19.21/waited-channel-stable|protocol/xbus"}},
		{"C08.16/redial-timer", "C14", "one connection per dialer: the redial timer is armed only by the two places that schedule a redial (a spent timer re-armed by an option setter dials a second connection, and every message then arrives twice)", []string{"C14.13/timer-discipline|redialer"}},
		{"C08.14/inproc-copies", "C01", "each member gets a message of its own over inproc too (the hop count one member bumps is not the other's)", []string{"C01.7/inproc"}},
		{"C08.15/queue-read-at-use", "C19", "a receiver delivers into the receive queue in force now, not the one it saw when the peer connected", []string{"C19.9/options-read-at-use|protocol/xstar", "C19.9/options-read-at-use|protocol/xbus"}},
		{"C08.13/one-connection-per-dialer", "C14", "a dialer that failed and was reported as failed does not keep connecting in the background: a second pipe to the same member delivers every message twice", []string{"C14.2/backoff", "C14.5/redial-after-loss"}},
		{"C08.12/queue-sizing", "C19", "the per-peer send queue has the configured length (messages fitting it are not dropped)", []string{"C19.6/queue-length-agrees|protocol/xbus", "C19.6/queue-length-agrees|protocol/xstar"}},
		{"C08.10/id-nonzero", "C13", "BUS uses id 0 for 'no source pipe': a pipe must never get it", []string{"C13.8/allocator"}},
		{"C08.11/E3", "C11", "peer tables are accessed under the socket lock", []string{"C11.1/E3|protocol/xbus", "C11.1/E3|protocol/xstar"}},
	},
	"C09": {
		{"C09.19/send-contract", "C17", "a device's fan-out shares one message among its peers by reference count: a failed write releases one reference, at one layer", []string{"C17.5/send-contract|internal/core", "C17.5/send-contract|transport", "C17.1/E5|internal/core"}},
		{"C09.18/frame-buffers-local", "C15", "a device's connections send concurrently: each frame's length prefix is built in memory of its own call, so payloads and routing words stay with their frame", []string{"C15.12/frame-buffers-local"}},
		{"C09.16/id-freshness", "C13", "a routing word names the connection a request came in on: the id of a connection that has gone is not handed to the next one while replies addressed to it can still be in flight", []string{"C13.8/allocator"}},
		{"C09.17/raw-fanout", "C07", "a survey device forwards through the raw surveyor socket: its fan-out offers every survey to every pipe whatever the queue length option", []string{"C07.19/raw-fanout"}},
		{"C09.15/inproc-copies", "C01", "a message crossing an in-process link arrives as header followed by body, in a buffer of its own: a device forwards what it received, so a mangled copy is forwarded mangled", []string{"C01.7/inproc"}},
		{"C09.13/request-id-marker", "C03", "every request id ends the backtrace: devices stop copying routing words at it", []string{"C03.12/id-end-marker"}},
		{"C09.12/transport-leaves-message-intact", "C17", "sending a message does not rewrite it: a message shared by reference count (forwarded, broadcast or kept for re-sending) goes out identical on every connection", []string{"C17.4/no-write-through"}},
		{"C09.11/forwarded-message-intact", "C17", "a message handed back to the forwarder after a failed send is unchanged (a retry routes by the same header)", []string{"C17.5/send-contract|protocol/x", "C17.1/E5|protocol/xrep", "C17.1/E5|protocol/xreq", "C17.1/E5|protocol/xrespondent", "C17.1/E5|protocol/xsurveyor"}},
		{"C09.10/ttl-read-at-use", "C19", "the hop limit applied to a message is the one in force when the message arrived", []string{"C19.9/options-read-at-use|.ttl"}},
		{"C09.9/star-forward", "C08", "a STAR node forwards a private copy with the hop header intact whatever the local application does with its own copy", []string{"C08.4/star-forward"}},
	},
	"C10": {
		{"C10.26/attach", "C13", "no pipe and no pipe id remains after Close: a pipe is in the socket's list before anything (a hook, the protocol) can close it, so that Close removes it and a refused pipe is not listed after it has released its id", []string{"C13.1/addPipe"}},
		{"C10.24/accept-loop", "C16", "a connection is known to the handshaker from the moment it is accepted: the accept loop itself performs no handshake step, so a peer stalled in one is reached by Close", []string{"C16.8/accept-loop"}},
		{"C10.23/closer-leak", "C12", "no connection remains after Close: every connection a transport obtains is closed or handed to a pipe on every path, so that something the socket closes owns it (a connection dropped on a refusing path outlives the socket)", []string{"C12.16/closer-leak"}},
		{"C10.22/dialer-list", "C13", "Close closes the dialers in the socket's list: the list holds exactly the dialers created on the socket, and nothing but their creation writes it (a dialer dropped from the list keeps dialling after Close)", []string{"C13.14/core-state-writers|writers-of-dialers", "C13.14/core-state-writers|writers-of-listeners"}},
		{"C10.20/nil-safe", "C12", "tear-down clears optional fields (timers, listeners, the peer): a call made after Close, or a Close of something that never started, fails or does nothing instead of dereferencing what is no longer there", []string{"C12.18/nil-safe"}},
		{"C10.19/lock-order", "C11", "Close takes the socket's and the endpoints' locks: two paths that take them in opposite orders can leave both held for ever, and Close never returns", []string{"C11.2/E2"}},
		{"C10.12/E10c", "C19", "a queue that a goroutine re-fills under the socket lock has room for it: otherwise that goroutine blocks holding the lock and Close never returns", []string{"C19.2/E10c"}},
	},
	"C11": {
		{"C11.20/unique-sites", "C17", "a message that may be shared by reference count is copied before the library writes to it: two sockets sending the same message otherwise read and rewrite one header without synchronisation", []string{"C17.6/unique-sites"}},
		{"C11.19/deadline-per-call", "C18", "each blocked call waits on a deadline of its own: a timer shared by the callers of one socket fires for one of them only", []string{"C18.1/deadline-select"}},
		{"C11.18/no-wait-under-lock", "C12", "never deadlock: no wait for the network, a channel or an application callback while a library lock is held (one silent peer would block every call that needs the lock)", []string{"C12.2/E4"}},
		{"C11.17/req-timers", "C18", "the library's own timer goroutines act only on the request they were armed for: a send deadline that fires after its send completed does not cancel the request that is waiting for its reply (Recv would return a result no sequential use allows)", []string{"C18.3/req-timers"}},
		{"C11.15/nil-safe", "C12", "concurrent calls never crash the process: no use through an optional field where the module's own tests and assignments do not establish it, and no assignment into a map that may not have been made", []string{"C12.18/nil-safe"}},
		{"C11.13/unsubscribe-prune", "C06", "unsubscribe prunes by draining the old queue into a fresh one without blocking: receivers take from the queue without the socket lock, so a pass that counts the queue and then receives that many times can block for ever holding the lock", []string{"C06.3/unsubscribe", "C06.9/queue-swap-wakes"}},
		{"C11.14/context-state", "C05", "a RESPONDENT context's 'survey to answer' state is cleared and restored as a whole: a half-restored state lets the next SendMsg dereference a pipe that is not there", []string{"C05.2/context-send|protocol/respondent"}},
		{"C11.12/forward-copies", "C08", "a message handed to the application and the one forwarded to other peers are separate copies: the application's writes do not race with the senders still transmitting it", []string{"C08.4/star-forward"}},
		{"C11.10/no-callback-under-lock", "C13", "application hooks are called with no internal lock held (a hook that closes the pipe or uses the socket would deadlock)", []string{"C13.6/hook-no-lock"}},
		{"C11.9/ownership", "C17", "concurrent users of one socket never end up holding the same message or buffer", []string{"C17.1/E5", "C17.5/send-contract", "C17.7/fresh-backing-per-message"}},
	},
	"C12": {
		{"C12.20/accept-loop", "C16", "silent connections never stop a listener from accepting: the accept goroutine waits for nothing but Accept — no handshake step, channel, WaitGroup or condition variable directly or below the calls it makes", []string{"C16.8/accept-loop"}},
		{"C12.19/attach", "C13", "a connection lost while it is being attached is detached again: the attach and the record that it happened are one critical section with Close, so the protocol is told of the loss and admits the next peer", []string{"C13.1/addPipe"}},
		{"C12.15/fail-no-peers", "C18", "losing the last peer fails the blocked senders once and leaves the socket usable for the next peer", []string{"C18.4/fail-no-peers"}},
		{"C12.13/refused-device", "C19", "a Device call that is refused has started nothing", []string{"C19.7/refused-device-has-no-effect"}},
		{"C12.14/close-affects-only-itself", "C10", "closing an endpoint that failed to start does not disturb the one that owns the address", []string{"C10.11/close-affects-only-itself"}},
		{"C12.12/lock-order", "C11", "no two paths take the same two locks in opposite orders (a deadlock wedges every later call)", []string{"C11.2/E2"}},
		{"C12.10/queue-sizing", "C19", "queue and recorded length agree wherever a queue is built: a rebuild that re-queues under the lock into a smaller queue wedges the socket", []string{"C19.6/queue-length-agrees"}},
		{"C12.11/redial", "C14", "losing or failing a connection at any stage never stops a dialer from redialling", []string{"C14.2/backoff", "C14.5/redial-after-loss"}},
	},
	"C13": {
		{"C13.17/wake-ups", "C10", "a dialer parked in the transport until its listener accepts again is woken when it does: every waiter is woken (the condition variable is shared by all addresses), so the listener and its dialer carry on after a pipe was closed while attaching", []string{"C10.1/cond|transport/inproc"}},
		{"C13.18/pipe-options-after-close", "C19", "a pipe's read-only options answer for as long as the pipe object exists (in the Detached callback too): option getters answer with a value, bad-value or bad-option only, never 'closed'", []string{"C19.1/option-shape|transport.(*conn)", "C19.1/option-shape|transport/ws", "C19.1/option-shape|transport/inproc"}},
		{"C13.16/redial-decision", "C14", "a pipe closed from a hook while it is attaching leaves the dialer redialling: the decision to schedule the next attempt depends on nothing but (asked to redial, closed, outcome)", []string{"C14.2/backoff"}},
		{"C13.15/redial-after-loss", "C14", "a dialer's next pipe exists only if the loss of the previous one schedules the redial: every departure of a dialed pipe arms the timer while the dialer is open, whatever the current delay", []string{"C14.5/redial-after-loss"}},
		{"C13.10/carry-on", "C12", "the listener and the dialer carry on accepting and redialling: a peer's failure is never reported as 'endpoint closed'", []string{"C12.5/ErrClosed-means-closed", "C12.3/endpoint-usable"}},
		{"C13.11/handshake", "C16", "a connection that fails its handshake yields no pipe and does not end the accept loop", []string{"C16.6/handshake-validation"}},
	},
	"C14": {
		{"C14.17/dialer-configuration", "C15", "a dialer re-establishes its connection however long it has existed: the operating system's dialer is configured with relative settings only (keep-alive, timeout), never with an absolute deadline fixed when the mangos dialer was created", []string{"C15.14/std-config-fields|net.Dialer", "C15.14/std-config-fields|websocket.Dialer"}},
		{"C14.15/option-ranges", "C19", "each reconnect option accepts every non-negative duration whatever the other is set to: the socket forwards them one at a time and ignores a refusal, so a cross-check between them leaves the dialer on its old values", []string{"C19.2/ranges|internal/core.(*dialer)"}},
		{"C14.14/option-stores", "C19", "each reconnect option writes its own field: the current delay is changed only by the back-off and the reset, never by setting the maximum", []string{"C19.3/set-get-symmetry|internal/core.(*dialer)"}},
		{"C14.11/dial-returns", "C16", "every handshake outcome is reported to the Dial that waits for it: otherwise the dialer never learns of the failure and never retries", []string{"C16.5/handshaker|worker/"}},
		{"C14.12/dialer-list", "C13", "the socket's dialer list holds exactly the dialers created on it: Close closes those, and a dialer dropped from the list keeps dialling after Close", []string{"C13.14/core-state-writers|writers-of-dialers"}},
		{"C14.10/wake-ups", "C10", "a dialer parked in the transport until its listener appears is woken when it does (every waiter is woken: the condition variable is shared by all addresses)", []string{"C10.1/cond|transport/inproc"}},
		{"C14.9/attach", "C13", "a pipe closed while attaching never reaches the protocol, and a refused one is closed through the core: otherwise the protocol keeps a dead pipe, every later connection is refused and traffic never resumes", []string{"C13.1/addPipe"}},
		{"C14.7/registration", "C10", "a dialer is registered with its socket, or refused, atomically with the socket's closed state: a dialer added to a closed socket keeps dialling for ever", []string{"C10.3/socket-close|NewDialer", "C10.10/E3b|internal/core.(*socket).NewDialer", "C10.10/E3b|internal/core.(*dialer)"}},
	},
	"C16": {
		{"C16.29/id-table-writers", "C03", "a reply is matched against requests that have been transmitted: an id enters the table where its request goes out, so a peer that guesses the id of a request still queued cannot complete it", []string{"C03.2/id-table-writers"}},
		{"C16.28/redial-decision", "C14", "one peer that answers with the wrong protocol does not stop the dialer: the decision to schedule another attempt depends on nothing but (asked to redial, closed, outcome is not ErrClosed)", []string{"C14.2/backoff"}},
		{"C16.26/channels-not-shared", "C10", "what is queued for one peer is never delivered to another: per-connection queues and close channels belong to one connection", []string{"C10.21/channels-not-shared|protocol/"}},
		{"C16.24/limit-settable-on-live-listener", "C19", "the receive limit can be lowered on a listener that is already bound: option setters answer with nil, bad-value or bad-option only, never 'wrong state'", []string{"C19.1/option-shape|transport/"}},
		{"C16.22/attach", "C13", "a connection that dies right behind a valid handshake is taken off the protocol again: attach and the added flag change under the pipe lock, so the close that follows sees them", []string{"C13.1/addPipe"}},
		{"C16.19/hop-word", "C09", "the hop count is the whole header word: a peer cannot smuggle a huge count past the limit in its upper bytes", []string{"C09.1/hop-normal-form"}},
		{"C16.18/queue-room", "C19", "a receiver that re-queues under the socket lock always has room: otherwise one message from a peer blocks it with the lock held and the whole socket stalls", []string{"C19.2/E10c", "C19.2/ranges"}},
		{"C16.16/no-cross-peer-pollution", "C17", "nothing one peer sends can end up in state kept for another peer (saved routes are private copies)", []string{"C17.1/E5|protocol/"}},
		{"C16.13/channel-typestate", "C11", "no send can reach a channel that a concurrent close may already have closed (a send on a closed channel panics the process): responses for a survey being retired, messages for a pipe being removed", []string{"C11.4/E10b", "C11.4/E10a"}},
		{"C16.15/ws-limit-applied", "C19", "the configured receive limit reaches SetReadLimit on both the dialing and the accepting side", []string{"C19.12/option-type-agreement|MAX-RCV-SIZE"}},
		{"C16.14/websocket-handshake", "C15", "a websocket peer whose sub-protocol is not exactly the expected name is refused", []string{"C15.5/websocket"}},
	},
	"C15": {
		{"C15.11/handshake-results", "C13", "each completed handshake is handed out once and then forgotten: a failed one left at the head of the queue is reported for every later, conformant peer", []string{"C13.13/queue-pops|transport."}},
		{"C15.10/pool", "C01", "a message obtained for an announced length has room for it: the receive path slices the pooled buffer to that length", []string{"C01.1/pool"}},
		{"C15.9/send-contract", "C17", "the frame is written from the message's own buffers: they are not released before or regardless of the write", []string{"C17.5/send-contract|transport", "C17.1/E5|transport"}},
	},
	"C17": {
		{"C17.9/inproc-copies", "C01", "the in-process transport hands the receiver a message of its own, header or not", []string{"C01.7/inproc"}},
		{"C17.8/api-copies", "C01", "Recv hands out a copy of the body whatever its size; the message goes back to the pool", []string{"C01.8/api-copies"}},
	},
	"C18": {
		{"C18.18/waiters-reread", "C19", "a Recv that is woken because its queue was replaced waits on the new queue: otherwise it times out with messages waiting, or never returns", []string{"C19.24/waiters-reread"}},
		{"C18.17/rearm-stops-previous", "C10", "a deadline fires once, for the call it was armed for: a timer field is re-armed only after the timer it may still hold was stopped", []string{"C10.25/rearm-stops-previous"}},
		{"C18.16/macat-durations", "C20", "macat hands the socket the deadline it was given: bare numbers are whole seconds (a fraction is refused rather than truncated), and a deadline that was not given is never applied", []string{"C20.4/duration", "C20.18/unset-deadline-never-applied"}},
		{"C18.15/queue-room", "C19", "a Recv never hangs beyond its deadline on the socket lock: a receiver goroutine that re-sends into a context's queue while holding the lock needs room in it, so a queue length of 0 is refused", []string{"C19.2/E10c"}},
		{"C18.14/waited-channel-stable", "C19", "a call parked on a channel it took from a field is woken when the field is given another channel: otherwise it times out with a message waiting in the new one, or waits for ever", []string{"C19.21/waited-channel-stable"}},
		{"C18.13/queue-swap-wakes", "C19", "a receiver blocked on a queue that is replaced is woken to look at the new one (otherwise it times out with a message waiting, or waits for ever)", []string{"C19.8/queue-swap-wakes"}},
		{"C18.12/timer-fields", "C11", "deadline timers and deadline values are read and written under the socket lock: a timer stopped or replaced outside it is the wrong call's timer", []string{"C11.1/E3|Timer", "C11.1/E3|Expire", "C11.1/E3|Deadline"}},
		{"C18.11/no-wait-under-lock", "C12", "no blocking wait while holding a socket lock: every other call on the socket would ignore its own deadline for as long", []string{"C12.2/E4"}},
		{"C18.10/inheritance", "C19", "a new context starts with the deadlines configured on the socket (send from send, receive from receive)", []string{"C19.4/inheritance"}},
	},
	"C19": {
		{"C19.23/fail-no-peers-switch", "C18", "OptionFailNoPeers takes effect both ways: after it is switched off a send waits for a peer again (the channel that fails senders is replaced where it was closed, not left closed until the next peer)", []string{"C18.4/fail-no-peers"}},
		{"C19.22/option-value-copied", "C06", "an accepted subscription is the bytes given at the time of the call: the stored topic is a copy, so what Get, matching and Unsubscribe see does not change when the caller reuses its buffer", []string{"C06.3/unsubscribe|subscription-is-a-copy"}},
		{"C19.17/reconnect-reset", "C14", "ReconnectTime takes effect as documented whatever MaxReconnectTime is: after a successful attach the delay returns to it", []string{"C14.4/reset"}},
		{"C19.18/ttl-range", "C09", "the TTL option accepts exactly 1..255 on every protocol that has it", []string{"C09.3/ttl-option"}},
		{"C19.15/best-effort-takes-effect", "C18", "an accepted BestEffort / deadline value takes effect as documented on every send and receive path", []string{"C18.1/deadline-select"}},
		{"C19.11/backoff", "C14", "MaxReconnectTime takes effect as documented: 0 disables the back-off, otherwise it caps it", []string{"C14.2/backoff"}},
	},
}

// ApplyImports adds the imported obligations of property r.Prop (after its own rules ran).
func ApplyImports(p *Prog, r *Report) {
	if p.importing {
		return
	}
	for _, im := range propImports[r.Prop] {
		importProp(p, r, im.rule, im.why, im.from, im.sel...)
	}
}
