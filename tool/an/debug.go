package an

import "fmt"

// DumpE3 prints the inferred guard table (debug aid).
func DumpE3(p *Prog) {
	e3 := p.E3()
	for _, k := range e3.keys {
		fi := e3.fields[k]
		nl, nu, nw, npre := 0, 0, 0, 0
		for _, a := range fi.Accesses {
			if a.PrePub {
				npre++
				continue
			}
			if a.Write {
				nw++
			}
			if len(a.Locks) > 0 {
				nl++
			} else {
				nu++
			}
		}
		fmt.Printf("%-55s rule=%d guard=%v locked=%d unlocked=%d writes=%d prepub=%d bad=%d excused=%d\n", k, fi.Rule, fi.Guard, nl, nu, nw, npre, len(fi.Bad), len(fi.Excused))
	}
}
