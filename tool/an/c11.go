package an

import (
	"fmt"
	"go/token"
	"go/types"
	"golang.org/x/tools/go/ssa"
	"sort"
	"strings"
)

func init() {
	register(&PropInfo{ID: "C11", Run: runC11,
		Explanation: "E3 lockset consistency of every struct field of the module (writer discipline / majority lock, pre-publication and entry locksets), E2 acyclic lock-order graph, E1 no self-deadlock, E10 channel close typestate, frozen crash surface (unchecked type assertions, panics).",
		Assumptions: commonAssumptions})
}

func lockList(m map[string]bool) string {
	var ks []string
	for k := range m {
		ks = append(ks, k)
	}
	sort.Strings(ks)
	return "{" + strings.Join(ks, ",") + "}"
}

func runC11(p *Prog, r *Report) {
	derivedCoherent(p, r, "C11.16/derived-coherent", func(rel string) bool {
		return strings.HasPrefix(rel, "protocol/") || strings.HasPrefix(rel, "transport") || rel == "internal/core"
	})
	publishOrder(p, r, "C11.11/publish-order", func(rel string) bool {
		return strings.HasPrefix(rel, "protocol/") || strings.HasPrefix(rel, "transport") || rel == "internal/core"
	})
	r.Floor("C11.11/publish-order", "publish_closes.C11.11/publish-order", 5)
	r.Describe("C11.1/E3", "every post-publication access of a lock-disciplined field holds its inferred guard")
	e3 := p.E3()
	nGuarded, nAcc := 0, 0
	nSliceAlias := 0
	_ = nSliceAlias
	for _, k := range e3.keys {
		fi := e3.fields[k]
		if fi.Rule != 1 && fi.Rule != 2 {
			continue
		}
		nGuarded++
		nAcc += len(fi.Accesses)
		// a map is a reference: reading the field under its lock and walking the map after
		// the unlock is an unguarded access to the same map the writers update
		for _, a := range fi.Accesses {
			if a.Write || a.PrePub || len(fi.Guard) == 0 {
				continue
			}
			for _, u := range mapAliasUses(a.In) {
				held := p.heldAbs(a.Fn, u)
				ok := false
				for _, g := range fi.Guard {
					if held[g] {
						ok = true
					}
				}
				if !ok {
					r.Bad("C11.1/E3", fi.Key+"@"+p.FuncName(a.Fn)+"/alias", p.InstrPos(u),
						fmt.Sprintf("the map %s is read into a local under its guard %v and then iterated / indexed here without it (a map value is a reference, not a snapshot): concurrent map access with every writer => crash (\"concurrent map iteration and map write\") or missed entries", fi.Key, fi.Guard))
				}
			}
		}
		// a slice is a reference to its backing array: where some writer changes the array in
		// place (the removal idiom append(x[:i], x[i+1:]...), a re-fill of x[:0], x[i] = v),
		// walking a copy of the slice header after the unlock reads what that writer writes
		if inPlaceWriter(fi) != nil {
			w := inPlaceWriter(fi)
			for _, a := range fi.Accesses {
				if a.Write || a.PrePub || len(fi.Guard) == 0 {
					continue
				}
				for _, u := range sliceAliasUses(a.In) {
					held := p.heldAbs(a.Fn, u)
					ok := false
					for _, g := range fi.Guard {
						if held[g] {
							ok = true
						}
					}
					if !ok {
						nSliceAlias++
						r.Bad("C11.1/E3", fi.Key+"@"+p.FuncName(a.Fn)+"/slice-alias", p.InstrPos(u),
							fmt.Sprintf("the slice %s is read into a local under its guard %v and its elements are read here without it, while %s rewrites the same backing array in place (a slice value is a reference, not a snapshot): the walk sees elements twice or not at all", fi.Key, fi.Guard, p.InstrPos(w)))
					}
				}
			}
		}
		if len(fi.Bad) == 0 {
			r.OK("C11.1/E3", fi.Key, p.Pos(fi.Field.Pos()), fmt.Sprintf("guard %v (rule %d), %d accesses", fi.Guard, fi.Rule, len(fi.Accesses)))
			continue
		}
		for _, a := range fi.Bad {
			kind := "read"
			if a.Write {
				kind = "write"
			}
			r.Bad("C11.1/E3", fi.Key+"@"+p.FuncName(a.Fn), p.InstrPos(a.In),
				fmt.Sprintf("%s of %s without its guard %v (held: %s); the field is written under that lock elsewhere => data race with that writer", kind, fi.Key, fi.Guard, lockList(a.Locks)))
		}
	}
	r.Count("e3.guarded_fields", nGuarded)
	r.Count("e3.accesses_checked", nAcc)
	r.Floor("C11.1/E3", "e3.guarded_fields", 100)

	r.Describe("C11.2/E2", "global lock-order graph (type-based locks + Once pseudo-locks) is acyclic")
	e2Obligations(p, r, "C11.2/E2")
	r.Floor("C11.2/E2", "e2.order_edges", 10)

	r.Describe("C11.4/E10a", "every builtin close(ch) follows a close-once idiom (once / flag / swap / RemovePipe / init / fresh)")
	e10Close(p, r, "C11.4/E10a")
	r.Floor("C11.4/E10a", "e10.close_sites", 55)

	r.Describe("C11.4/E10b", "a channel field that is both closed and sent to: senders look the owner up and send inside one critical section, every close is dominated by the owner's removal under that lock")
	e10SendOnClosable(p, r, "C11.4/E10b")
	r.Floor("C11.4/E10b", "e10.closed_and_sent_channel_fields", 1)

	r.Describe("C11.5/E3b", "check-then-act atomicity: a write under a lock that depends on a field guarded by the same lock reads that field in the critical section that writes")
	e3bObligations(p, r, "C11.5/E3b", nil)
	r.Floor("C11.5/E3b", "e3b.functions_with_conditional_locked_writes", 40)

	r.Describe("C11.6/cond", "condition variables: every Wait loop re-checks, inside the loop, a condition its closer falsifies; closers broadcast on every path that sets it; Signal only where a single library goroutine can wait (no lost wake-ups between concurrent callers)")
	e4CondWaits(p, r, "C11.6/cond")

	r.Describe("C11.7/listen-vs-close", "concurrent Listen and Close on one listener: the closed test and the bind are one critical section")
	coreListenAtomic(p, r, "C11.7/listen-vs-close")

	r.Describe("C11.8/E10c", "the blocking re-send under the socket lock in SUB (allow-listed in C12) needs a queue of capacity >= 1: option values that make it unbuffered wedge every call on the socket")
	e10Capacity(p, r, "C11.8/E10c", needCapOne, func(dest string) bool { return dest == "protocol/sub.context.recvQ" })

	r.Describe("C11.3/E1", "no lock is acquired while already held (directly or through a callee)")
	e1Obligations(p, r, "C11.3/E1", map[string]bool{"double-lock": true, "callee-relock": true})
}

// mapAliasUses: in is a load of a map-typed field; the instructions that iterate, index or
// update the loaded map value (through locals and merges).
func mapAliasUses(in ssa.Instruction) []ssa.Instruction {
	ld, ok := in.(*ssa.UnOp)
	if !ok || ld.Op != token.MUL {
		return nil
	}
	if _, isMap := ld.Type().Underlying().(*types.Map); !isMap {
		return nil
	}
	var out []ssa.Instruction
	seen := map[ssa.Value]bool{}
	var walk func(v ssa.Value, d int)
	walk = func(v ssa.Value, d int) {
		if seen[v] || d > 6 || v.Referrers() == nil {
			return
		}
		seen[v] = true
		for _, ref := range *v.Referrers() {
			switch x := ref.(type) {
			case *ssa.Range:
				if x.X == v {
					for _, nr := range *x.Referrers() {
						if nx, ok := nr.(*ssa.Next); ok {
							out = append(out, nx)
						}
					}
				}
			case *ssa.Lookup:
				if x.X == v {
					out = append(out, x)
				}
			case *ssa.MapUpdate:
				if x.Map == v {
					out = append(out, x)
				}
			case *ssa.Call:
				if b, ok := x.Call.Value.(*ssa.Builtin); ok && (b.Name() == "len" || b.Name() == "delete") && len(x.Call.Args) > 0 && x.Call.Args[0] == v {
					out = append(out, x)
				}
			case *ssa.Phi:
				walk(x, d+1)
			case *ssa.Store:
				if al, ok := x.Addr.(*ssa.Alloc); ok && x.Val == v {
					for _, ar := range *al.Referrers() {
						if u, ok := ar.(*ssa.UnOp); ok && u.Op == token.MUL {
							walk(u, d+1)
						}
					}
				}
			}
		}
	}
	walk(ld, 0)
	return out
}

// inPlaceWriter: an access of the slice-typed field whose value is re-used as the destination
// of an append through a re-slice (x[:i], x[:0]) or indexed for a store: the backing array is
// changed in place.  nil when every writer builds a new array.
func inPlaceWriter(fi *FieldInfo) ssa.Instruction {
	if _, ok := fi.Field.Type().Underlying().(*types.Slice); !ok {
		return nil
	}
	for _, a := range fi.Accesses {
		ld, ok := a.In.(*ssa.UnOp)
		if !ok || ld.Op != token.MUL || ld.Referrers() == nil {
			continue
		}
		for _, ref := range *ld.Referrers() {
			switch x := ref.(type) {
			case *ssa.Slice:
				if x.X != ld || x.Referrers() == nil {
					continue
				}
				for _, r2 := range *x.Referrers() {
					if c, ok := r2.(*ssa.Call); ok && IsBuiltin(&c.Call, "append") && len(c.Call.Args) > 0 && c.Call.Args[0] == x {
						return c
					}
					if c, ok := r2.(*ssa.Call); ok && IsBuiltin(&c.Call, "copy") && len(c.Call.Args) > 0 && c.Call.Args[0] == x {
						return c
					}
				}
			case *ssa.IndexAddr:
				if x.X != ld || x.Referrers() == nil {
					continue
				}
				for _, r2 := range *x.Referrers() {
					if st, ok := r2.(*ssa.Store); ok && st.Addr == x {
						return st
					}
				}
			}
		}
	}
	return nil
}

// sliceAliasUses: in is a load of a slice-typed field; the element reads of the loaded value
// (through locals, merges and re-slices).
func sliceAliasUses(in ssa.Instruction) []ssa.Instruction {
	ld, ok := in.(*ssa.UnOp)
	if !ok || ld.Op != token.MUL {
		return nil
	}
	if _, isSlice := ld.Type().Underlying().(*types.Slice); !isSlice {
		return nil
	}
	var out []ssa.Instruction
	seen := map[ssa.Value]bool{}
	var walk func(v ssa.Value, d int)
	walk = func(v ssa.Value, d int) {
		if seen[v] || d > 6 || v.Referrers() == nil {
			return
		}
		seen[v] = true
		for _, ref := range *v.Referrers() {
			switch x := ref.(type) {
			case *ssa.IndexAddr:
				if x.X == v && x.Referrers() != nil {
					for _, r2 := range *x.Referrers() {
						if u, ok := r2.(*ssa.UnOp); ok && u.Op == token.MUL {
							out = append(out, u)
						}
					}
				}
			case *ssa.Slice:
				if x.X == v {
					walk(x, d+1)
				}
			case *ssa.Phi:
				walk(x, d+1)
			case *ssa.Store:
				if al, ok := x.Addr.(*ssa.Alloc); ok && x.Val == v {
					for _, ar := range *al.Referrers() {
						if u, ok := ar.(*ssa.UnOp); ok && u.Op == token.MUL {
							walk(u, d+1)
						}
					}
				}
			}
		}
	}
	walk(ld, 0)
	return out
}
