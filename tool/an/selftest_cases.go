package an

import (
	"fmt"
	"path/filepath"
	"sort"
	"strings"

	"golang.org/x/tools/go/ssa"
)

// The engine self-test corpus: a synthetic package that exists only as a go/packages
// overlay (nothing is written into /repo).  It is loaded together with the real tree, so
// the engines run on it exactly as they run on mangos.  Functions named bad… must be
// reported by the named engine with the named kind; functions named ok… are the
// corresponding correct idioms and must not be reported.  This is the "tiny positive
// example that must match on every run" for rules whose expected count on the tree is
// zero, and the guard against an engine going blind after a refactoring of the analyser.
const selfTestSrc = `package zzselftest

import (
	"errors"
	"io"
	"net"
	"sync"
	"time"

	mangos "go.nanomsg.org/mangos/v3"
)

type T struct {
	sync.Mutex
	closed bool
	n      int
	q      []int
	cv     *sync.Cond
	tm     *time.Timer
}

func NewT() *T {
	t := &T{}
	t.cv = sync.NewCond(t)
	return t
}

func work() {}

// ---- E1 lock typestate
func (t *T) badE1HeldAtReturn(x bool) int {
	t.Lock()
	if x {
		return 1
	}
	t.Unlock()
	return 0
}

func (t *T) okE1Defer(x bool) int {
	t.Lock()
	defer t.Unlock()
	if x {
		return 1
	}
	return 0
}

func (t *T) badE1Double() {
	t.Lock()
	t.Lock()
	t.Unlock()
	t.Unlock()
}

// ---- E3 guarded-by
func (t *T) SetN(v int) {
	t.Lock()
	t.n = v
	t.Unlock()
}

func (t *T) BadE3Read() int { return t.n }

func (t *T) OkE3Read() int {
	t.Lock()
	v := t.n
	t.Unlock()
	return v
}

// ---- E3b check-then-act, and the closer used by the Cond rules
func (t *T) Close() {
	t.Lock()
	if t.tm != nil {
		t.tm.Stop()
	}
	t.closed = true
	t.cv.Broadcast()
	t.Unlock()
}

func (t *T) BadE3bStale() {
	t.Lock()
	if t.closed {
		t.Unlock()
		return
	}
	t.Unlock()
	work()
	t.Lock()
	t.tm = time.AfterFunc(time.Second, work)
	t.Unlock()
}

func (t *T) OkE3bRecheck() {
	t.Lock()
	if t.closed {
		t.Unlock()
		return
	}
	t.Unlock()
	work()
	t.Lock()
	if !t.closed && t.tm == nil {
		t.tm = time.AfterFunc(time.Second, work)
	}
	t.Unlock()
}

// ---- Cond rules
func (t *T) BadCondWait() {
	t.Lock()
	for len(t.q) == 0 {
		t.cv.Wait()
	}
	t.Unlock()
}

func (t *T) OkCondWait() {
	t.Lock()
	for len(t.q) == 0 && !t.closed {
		t.cv.Wait()
	}
	t.Unlock()
}

func (t *T) BadCondSignal() {
	t.Lock()
	t.q = append(t.q, 1)
	t.cv.Signal()
	t.Unlock()
}

// ---- E5 message ownership
func BadE5Double(m *mangos.Message) {
	m.Free()
	m.Free()
}

func OkE5Once(m *mangos.Message) { m.Free() }

func BadE5UseAfter(m *mangos.Message) int {
	m.Free()
	return len(m.Body)
}

func BadE5WriteBeforeUnique(m *mangos.Message) *mangos.Message {
	m.Header = m.Header[:0]
	m = m.MakeUnique()
	return m
}

func OkE5UniqueThenWrite(m *mangos.Message) *mangos.Message {
	m = m.MakeUnique()
	m.Header = m.Header[:0]
	return m
}

type badSender struct{}

func (badSender) SendMsg(m *mangos.Message) error {
	defer m.Free()
	return errors.New("failed")
}

type okSender struct{ fail bool }

// (methods are only analysed for types that can reach an interface)
var _ = []interface{}{badSender{}, okSender{}}

func (s okSender) SendMsg(m *mangos.Message) error {
	if s.fail {
		return errors.New("failed")
	}
	m.Free()
	return nil
}

// ---- E6d buffer bounds
func BadE6d(m *mangos.Message) byte { return m.Body[3] }

func OkE6d(m *mangos.Message) byte {
	if len(m.Body) < 4 {
		return 0
	}
	return m.Body[3]
}

func OkE6dRange(m *mangos.Message) (n int) {
	for i := range m.Body {
		n += int(m.Body[i])
	}
	return
}

// ---- E5 through a variable captured by a deferred closure
type sink interface {
	SendMsg(*mangos.Message) error
}

func BadE5DeferredClosure(q chan *mangos.Message, stop chan struct{}, s sink) {
	var m *mangos.Message
	defer func() {
		m.Free()
	}()
	for {
		select {
		case <-stop:
			return
		case m = <-q:
		}
		if err := s.SendMsg(m); err != nil {
			return
		}
	}
}

func OkE5Loop(q chan *mangos.Message, stop chan struct{}, s sink) {
	for {
		var m *mangos.Message
		select {
		case <-stop:
			return
		case m = <-q:
		}
		if err := s.SendMsg(m); err != nil {
			m.Free()
			return
		}
	}
}

func BadE5LoopErr(q chan *mangos.Message, stop chan struct{}, s sink) {
	var m *mangos.Message
	var err error
	for err == nil {
		select {
		case <-stop:
			err = errors.New("stopped")
		case m = <-q:
			err = s.SendMsg(m)
		}
	}
	m.Free()
}

func BadBufferAfterFree(m *mangos.Message, w io.Writer) {
	body := m.Body
	m.Free()
	_, _ = w.Write(body)
}

func OkBufferBeforeFree(m *mangos.Message, w io.Writer) {
	body := m.Body
	_, _ = w.Write(body)
	m.Free()
}

// ---- E5: a send arm nobody tests
func (x *Q) BadE5SelectSendThenFree() {
	m := <-x.other
	select {
	case x.q <- m:
	default:
	}
	m.Free()
}

// ---- E11 closer leak
type L struct {
	l     net.Listener
	ready bool
}

func (x *L) BadE11Leak(addr string) error {
	l, err := net.Listen("tcp", addr)
	if err != nil {
		return err
	}
	if !x.ready {
		return errors.New("not configured")
	}
	x.l = l
	return nil
}

func (x *L) OkE11Closed(addr string) error {
	l, err := net.Listen("tcp", addr)
	if err != nil {
		return err
	}
	if !x.ready {
		_ = l.Close()
		return errors.New("not configured")
	}
	x.l = l
	return nil
}

func (x *L) OkE11StoredFirst(addr string) (err error) {
	x.l, err = net.Listen("tcp", addr)
	if err != nil {
		return
	}
	return nil
}

// ---- E12 nil safety
type N struct {
	tm    *time.Timer
	peer  *L
	route []byte
	from  *L
	byID  map[int]*L
	lazy  map[int]*L
}

func NewN() *N { return &N{byID: map[int]*L{}} }

func (x *N) Arm() {
	if x.tm != nil {
		x.tm.Stop()
		x.tm = nil
	}
	x.tm = time.AfterFunc(time.Second, func() {})
}

func (x *N) BadE12Stop() {
	x.tm.Stop()
	x.tm = nil
}

func (x *N) OkE12Stop() {
	if t := x.tm; t != nil {
		t.Stop()
	}
}

func (x *N) SetPeer(p *L) { x.peer = p }
func (x *N) Drop()        { x.peer = nil }

func (x *N) BadE12AfterClear() bool {
	if x.peer == nil {
		return false
	}
	x.Drop()
	return x.peer.ready
}

func (x *N) OkE12Helper() bool {
	if x.peer == nil {
		return false
	}
	return x.peerReady()
}

func (x *N) peerReady() bool { return x.peer.ready }

func (x *N) Got(route []byte, from *L) {
	if route != nil && from != nil {
		x.route = route
		x.from = from
	}
}

func (x *N) OkE12Companion() bool {
	if x.route == nil {
		return false
	}
	f := x.from
	x.from = nil
	x.route = nil
	return f.ready
}

func (x *N) OkE12Map(id int, l *L) { x.byID[id] = l }

func (x *N) BadE12LazyMap(id int, l *L) { x.lazy[id] = l }

func (x *N) OkE12LazyMap(id int, l *L) {
	if x.lazy == nil {
		x.lazy = map[int]*L{}
	}
	x.lazy[id] = l
}

// ---- E13 waited channel replaced
type W struct {
	sync.Mutex
	q     chan int
	sizeQ chan struct{}
}

func NewW() *W { return &W{q: make(chan int, 1), sizeQ: make(chan struct{})} }

func (x *W) Wait() int {
	for {
		x.Lock()
		q, z := x.q, x.sizeQ
		x.Unlock()
		select {
		case v := <-q:
			return v
		case <-z:
		}
	}
}

func (x *W) BadE13StaleWait() int {
	x.Lock()
	q, z := x.q, x.sizeQ
	x.Unlock()
	for {
		select {
		case v := <-q:
			return v
		case <-z:
			x.Lock()
			z = x.sizeQ
			x.Unlock()
		}
	}
}

func (x *W) OkE13RefreshWait() int {
	x.Lock()
	q, z := x.q, x.sizeQ
	x.Unlock()
	for {
		select {
		case v := <-q:
			return v
		case <-z:
			x.Lock()
			q, z = x.q, x.sizeQ
			x.Unlock()
		}
	}
}

func (x *W) BadE13Resize(n int) {
	x.Lock()
	x.q = make(chan int, n)
	x.Unlock()
}

func (x *W) OkE13Resize(n int) {
	x.Lock()
	x.q = make(chan int, n)
	old := x.sizeQ
	x.sizeQ = make(chan struct{})
	x.Unlock()
	close(old)
}

// ---- E14 derived field
type D struct {
	sync.Mutex
	byID map[int]*L
	list []*L
}

func (x *D) All() []*L {
	x.Lock()
	l := x.list
	if l == nil {
		for _, v := range x.byID {
			l = append(l, v)
		}
		x.list = l
	}
	x.Unlock()
	return l
}

func (x *D) BadE14Add(id int, v *L) {
	x.Lock()
	x.list = nil
	x.Unlock()
	x.Lock()
	x.byID[id] = v
	x.Unlock()
}

func (x *D) OkE14Del(id int) {
	x.Lock()
	delete(x.byID, id)
	x.list = nil
	x.Unlock()
}

// ---- E11: resource parked in a fresh object
type holder struct{ l net.Listener }

func BadE11FreshObject(addr string, ready bool) (*holder, error) {
	h := &holder{}
	var err error
	if h.l, err = net.Listen("tcp", addr); err != nil {
		return nil, err
	}
	if !ready {
		return nil, errors.New("not configured")
	}
	return h, nil
}

func OkE11FreshObject(addr string, ready bool) (*holder, error) {
	h := &holder{}
	var err error
	if h.l, err = net.Listen("tcp", addr); err != nil {
		return nil, err
	}
	if !ready {
		_ = h.l.Close()
		return nil, errors.New("not configured")
	}
	return h, nil
}

// ---- E12a: closing a channel that was never made
type CQ struct {
	done chan struct{}
	lazy chan struct{}
}

func NewCQ() *CQ { return &CQ{done: make(chan struct{})} }

func (x *CQ) OkE12Close() { close(x.done) }

func (x *CQ) BadE12CloseLazy() { close(x.lazy) }

func (x *CQ) Start() {
	if x.lazy == nil {
		x.lazy = make(chan struct{})
	}
}

// ---- re-arming a timer field
func (x *N) BadRearm(d time.Duration) {
	x.tm = time.AfterFunc(d, func() {})
}

func (x *N) OkRearm(d time.Duration) {
	if x.tm != nil {
		x.tm.Stop()
		x.tm = nil
	}
	if d > 0 {
		x.tm = time.AfterFunc(d, func() {})
	}
}

// ---- round-8 rules: requeue, publish order, complete read
type Q struct {
	q     chan *mangos.Message
	other chan *mangos.Message
}

func (x *Q) BadRequeue() {
	m := <-x.q
	select {
	case x.q <- m:
	default:
		m.Free()
	}
}

func (x *Q) OkForward() {
	m := <-x.q
	select {
	case x.other <- m:
	default:
		m.Free()
	}
}

type P struct {
	ready chan struct{}
	peer  *P
}

func NewP() *P { return &P{ready: make(chan struct{})} }

func BadPublish(a, b *P) {
	close(a.ready)
	a.peer = b
}

func OkPublish(a, b *P) {
	a.peer = b
	close(a.ready)
}

func BadShortRead(r io.Reader, n int) ([]byte, error) {
	b := make([]byte, n)
	if _, err := io.ReadFull(r, b); err != nil && err != io.EOF {
		return nil, err
	}
	return b, nil
}

func OkFullRead(r io.Reader, n int) ([]byte, error) {
	b := make([]byte, n)
	if _, err := io.ReadFull(r, b); err != nil {
		return nil, err
	}
	return b, nil
}
`

const selfTestRel = "internal/zzselftest"

func runSelfTests(verifDir string) SelfTestResult {
	res := SelfTestResult{}
	repo := "/repo"
	conf := Config{Dir: repo, Overlay: map[string][]byte{
		filepath.Join(repo, selfTestRel, "cases.go"): []byte(selfTestSrc),
	}}
	p, err := Load(conf)
	if err != nil {
		res.Failures = append(res.Failures, "load with the self-test overlay failed: "+err.Error())
		return res
	}
	if p.ByRel[selfTestRel] == nil {
		res.Failures = append(res.Failures, "the self-test package was not loaded")
		return res
	}
	// collect findings per function of the synthetic package: "engine/kind"
	got := map[string]map[string]bool{}
	add := func(fn, what string) {
		i := strings.LastIndex(fn, ".")
		short := fn[i+1:]
		short = strings.TrimSuffix(short, "$1")
		if got[short] == nil {
			got[short] = map[string]bool{}
		}
		got[short][what] = true
	}
	inSelf := func(name string) bool { return strings.HasPrefix(name, selfTestRel+".") }
	for _, is := range p.E1().issues {
		if n := p.FuncName(is.Fn); inSelf(n) {
			add(n, "E1/"+is.Kind)
		}
	}
	e3 := p.E3()
	for _, k := range e3.keys {
		for _, a := range e3.fields[k].Bad {
			if n := p.FuncName(a.Fn); inSelf(n) {
				add(n, "E3/unguarded")
			}
		}
	}
	for _, is := range p.E3b() {
		if n := p.FuncName(is.Fn); inSelf(n) && is.Lifecycle {
			add(n, "E3b/stale")
		}
	}
	for _, is := range p.E5().issues {
		if n := p.FuncName(is.Fn); inSelf(n) {
			add(n, "E5/"+is.Kind)
		}
	}
	for _, u := range p.E6dUses(func(rel string) bool { return rel == selfTestRel }) {
		if u.Have < u.Need {
			add("x."+u.Fn, "E6d/unbounded")
		}
	}
	r := NewReport("SELF", "selftest")
	e4CondWaits(p, r, "cond")
	for _, o := range r.Obs {
		if o.Status == Discharged || !strings.Contains(o.Key, selfTestRel+".") {
			continue
		}
		kind := "cond/wait"
		cut := strings.Index(o.Key, "/Wait(")
		if j := strings.Index(o.Key, "/Signal("); j >= 0 {
			kind, cut = "cond/signal", j
		}
		if j := strings.Index(o.Key, "/wakes-after-"); j >= 0 {
			kind, cut = "cond/closer", j
		}
		if cut < 0 {
			continue
		}
		fn := o.Key[:cut]
		add(fn, kind)
	}
	{
		r8 := NewReport("SELF", "selftest")
		self := func(rel string) bool { return rel == selfTestRel }
		closerLeaks(p, r8, "e11", self)
		noRequeue(p, r8, "requeue", self)
		publishOrder(p, r8, "publish", self)
		completeReadFatal(p, r8, "read", self)
		nilSafe(p, r8, "e12", "self-test", func(fn *ssa.Function) bool { rel, _ := p.FuncRel(fn); return rel == selfTestRel })
		waitedChannelStable(p, r8, "e13", self)
		waitersReread(p, r8, "e13c", self)
		derivedCoherent(p, r8, "e14", self)
		rearmStopsPrevious(p, r8, "rearm", self)
		for _, o := range r8.Obs {
			if o.Status == Discharged {
				continue
			}
			j := strings.Index(o.Key, selfTestRel+".")
			if j < 0 {
				continue
			}
			name := o.Key[j+len(selfTestRel)+1:]
			if i := strings.Index(name, "/"); i >= 0 {
				name = name[:i]
			}
			add("x."+name, o.Rule)
		}
	}
	want := map[string]string{
		"badE1HeldAtReturn":       "E1/held-at-return",
		"badE1Double":             "E1/double-lock",
		"BadE3Read":               "E3/unguarded",
		"BadE3bStale":             "E3b/stale",
		"BadCondWait":             "cond/wait",
		"BadCondSignal":           "cond/signal",
		"BadE5Double":             "E5/double-release",
		"BadE5UseAfter":           "E5/use-after-release",
		"BadE5WriteBeforeUnique":  "E5/write-before-unique",
		"SendMsg":                 "E5/release-on-error", // badSender (okSender shares the name: see below)
		"BadE6d":                  "E6d/unbounded",
		"BadE5DeferredClosure":    "E5/double-release",
		"BadE5LoopErr":            "E5/double-release",
		"BadE5SelectSendThenFree": "E5/double-release",
		"BadBufferAfterFree":      "E5/buffer-after-release",
		"BadE11Leak":              "e11",
		"BadRequeue":              "requeue",
		"BadPublish":              "publish",
		"BadShortRead":            "read",
		"BadE12Stop":              "e12",
		"BadE12AfterClear":        "e12",
		"BadE12LazyMap":           "e12",
		"BadE13Resize":            "e13",
		"BadE14Add":               "e14",
	}
	silent := []string{"okE1Defer", "OkE3Read", "OkE3bRecheck", "OkCondWait", "OkE5Once", "OkE5UniqueThenWrite", "OkE6d", "OkE6dRange", "SetN", "Close", "NewT", "OkE5Loop", "OkBufferBeforeFree", "OkE11Closed", "OkE11StoredFirst", "OkForward", "OkPublish", "OkFullRead", "Arm", "OkE12Stop", "OkE12Helper", "peerReady", "OkE12Companion", "OkE12Map", "OkE12LazyMap", "OkE13Resize", "NewW", "Wait", "OkE14Del", "All", "OkE11FreshObject", "OkRearm", "OkE12Close", "NewCQ", "Start", "NewP", "OkE13RefreshWait"}
	var names []string
	for k := range want {
		names = append(names, k)
	}
	sort.Strings(names)
	for _, fn := range names {
		res.Cases++
		if !got[fn][want[fn]] {
			res.Failures = append(res.Failures, fmt.Sprintf("engine went blind: %s should be reported as %s, got %v", fn, want[fn], keysOf(got[fn])))
		}
	}
	for _, fn := range silent {
		res.Cases++
		if len(got[fn]) != 0 {
			res.Failures = append(res.Failures, fmt.Sprintf("false alarm on a correct idiom: %s reported as %v", fn, keysOf(got[fn])))
		}
	}
	// the literal matcher every rule goes through: local names are metavariables, comparison
	// operands have one order, builder temporaries are literal
	for _, c := range []struct {
		actual, pattern string
		want            bool
	}{
		{"φmsg_q == nil", "φm == nil", true},
		{"nil == φm", "φm == nil", true},
		{"$id_q == recv.reqID", "recv.reqID == $id", true},
		{"recv.reqID == $id", "recv.reqID == $id", true},
		{"recv.reconnMaxTime < recv.reconnTime", "recv.reconnTime > recv.reconnMaxTime", true},
		{"recv.reconnMaxTime <= recv.reconnTime", "recv.reconnTime > recv.reconnMaxTime", false},
		{"φa != φb", "φs2 != φs1", true},
		{"φa != φa", "φs2 != φs1", false},
		{"$x.Self == $x.Peer", "$info1.Self == $info2.Peer", false},
		{"$p.Self == $q.Peer", "$info1.Self == $info2.Peer", true},
		{"$complit.id", "$makeslice.id", false},
		{"$complit.id", "$complit.id", true},
		{"$local == nil", "φm == nil", false},
		{"len(arg1.Body) < 4", "len(arg1.Body) < 4", true},
		{"4 > len(arg1.Body)", "len(arg1.Body) < 4", true},
		{"len(arg1.Body) <= 4", "len(arg1.Body) < 4", false},
	} {
		res.Cases++
		if got := litEq(c.actual, c.pattern); got != c.want {
			res.Failures = append(res.Failures, fmt.Sprintf("litEq(%q, %q) = %v, want %v", c.actual, c.pattern, got, c.want))
		}
	}
	// the two SendMsg implementations: exactly one release-on-error (badSender's)
	res.Cases++
	n := 0
	for _, is := range p.E5().issues {
		if inSelf(p.FuncName(is.Fn)) && is.Kind == "release-on-error" {
			if !strings.Contains(p.FuncName(is.Fn), "badSender") {
				res.Failures = append(res.Failures, "false alarm: release-on-error reported for "+p.FuncName(is.Fn))
			}
			n++
		}
	}
	if n == 0 {
		res.Failures = append(res.Failures, "engine went blind: deferred Free on an error return of badSender.SendMsg not reported")
	}
	res.OK = len(res.Failures) == 0
	return res
}

func keysOf(m map[string]bool) []string {
	var out []string
	for k := range m {
		out = append(out, k)
	}
	sort.Strings(out)
	return out
}
