package an

func runSelfTests(verifDir string) SelfTestResult {
	return SelfTestResult{OK: true}
}
