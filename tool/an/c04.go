package an

import (
	"fmt"
	"strings"

	"golang.org/x/tools/go/ssa"
)

func init() {
	register(&PropInfo{ID: "C04", Run: runC04,
		Explanation: "anchored shape rules on protocol/req resend logic + the E5 retained-handoff rule: the retained request is cloned before each transmission; one context and one pipe are consumed per scheduling step and the pipe used is remembered; the retry timer is armed only for a positive retry time with that duration and re-queues only the same, still unanswered, not already queued request; an answer or cancel clears the request and stops the timer; loss of the carrying pipe re-sends at once (or cancels when retry is off); a pipe is re-queued only while socket and pipe are open.",
		Assumptions: commonAssumptions})
}

func runC04(p *Prog, r *Report) {
	readyListPermutedOnly(p, r, "C04.24/ready-list-permuted-only")
	{
		q := NewQ(p, r)
		R := "C04.23/requeue-sites"
		r.Describe(R, "a request is put back on the send queue by two things only: the loss of the connection that carried it (RemovePipe) and the expiry of the retry interval (the timer armed in send): a failed write already leads to the first, so re-queuing there too transmits the request twice")
		rm := p.Func("protocol/req", "context", "resendMessage")
		n, bad := 0, ""
		for _, fn := range p.Funcs {
			if rel, ok := p.FuncRel(fn); !ok || rel != "protocol/req" || strings.HasSuffix(p.Fset.Position(fn.Pos()).Filename, "_test.go") {
				continue
			}
			EachInstr(fn, func(in ssa.Instruction) {
				c := CallOf(in)
				if c == nil || rm == nil || c.StaticCallee() != rm {
					return
				}
				n++
				okSite := false
				if p.FuncName(p.closureHome(fn)) == "protocol/req.(*socket).RemovePipe" {
					okSite = true
				}
				// the callback handed to time.AfterFunc (the retry timer)
				for _, ref := range refsOfClosure(fn) {
					if cc := CallOf(ref); cc != nil && CalleeName(cc) == "time.AfterFunc" {
						okSite = true
					}
				}
				if !okSite {
					bad = p.FuncName(fn) + " at " + p.InstrPos(in)
				}
			})
		}
		r.Check(rm != nil && n >= 2 && bad == "", R, "callers-of-resendMessage", "-", "only RemovePipe and the retry timer re-queue a request", "the request is re-queued by "+bad+" as well: a write that fails already closes the pipe, whose removal re-queues the request — it is then transmitted twice, at once")
		_ = q
	}
	queuePops(p, r, "C04.18/queue-pops", func(rel string) bool { return rel == "protocol/req" })
	r.Floor("C04.18/queue-pops", "queue_pop_sites", 1)
	runSweeps(p, r, "C04.17/pipe-loss-reaches-every-context", "RemovePipe visits every context: the loop that re-sends or cancels the requests carried by the lost pipe cannot be left early", reqPipeLossSweep)
	crossCutting(p, r, "C04.X", "protocol/req")
	importFrom(p, r, "C04.11/req-timers", "REQ deadline timers expire only the request they were armed for (shared with C18.3)", func(t *Report, rule string) { c18ReqTimers(p, t) }, "*")
	importFrom(p, r, "C04.12/reply-matching", "a reply from any connected peer that carries the current request id completes the request (shared with C03.1)", func(t *Report, rule string) { c03ReplyMatching(p, t, rule) }, "*")
	lockBalance(p, r, "C04.8/E1", "protocol/req")
	q := NewQ(p, r)
	R := "C04.1/E5"
	r.Describe(R, "E5 ownership in protocol/req: the message kept in c.reqMsg is cloned before it is handed to the sending goroutine (every transmission, not only the first)")
	res := p.E5()
	n := 0
	for _, is := range res.issues {
		if rel, _ := p.FuncRel(is.Fn); rel == "protocol/req" {
			n++
			r.Bad(R, p.FuncName(is.Fn)+"/"+is.Kind+"/"+is.What, p.InstrPos(is.In), is.Msg)
		}
	}
	if n == 0 {
		r.OK(R, "protocol/req", "-", "no ownership issue in protocol/req")
	}

	R = "C04.2/send-step"
	r.Describe(R, "socket.send: per step one context popped, one pipe popped, lastPipe = that pipe on every transmission, one goroutine; first transmission moves sendMsg to reqMsg")
	sd := q.Fn(R, "protocol/req", "socket", "send")
	if sd.OK() {
		lp := sd.Ev("store", "*.lastPipe")
		okLp := len(lp) == 1 && lp[0].Args[0] == "recv.readyQ[0]"
		if okLp {
			for _, g := range lp[0].Guard {
				if strings.Contains(g, "sendMsg") {
					okLp = false
				}
			}
		}
		r.Check(okLp, R, "remembers-carrying-pipe", lp.Pos(p), "lastPipe = p on every transmission (first and retransmissions)", "lastPipe is not recorded on every transmission: when the pipe carrying a retransmission dies the request is not re-sent until the retry timer")
		g := sd.Ev("go", "req.(*pipe).sendCtx")
		r.Check(len(g) == 1 && g[0].Args[0] == "recv.readyQ[0]" && !strings.Contains(strings.Join(g[0].Guard, " "), "sendMsg"), R, "one-transmission-per-step", g.Pos(p), "one sendCtx goroutine on the popped pipe per step", "send does not start exactly one transmission on the popped pipe per step")
		pq := sd.Ev("store", "recv.readyQ").Arg(0, "recv.readyQ[1:]")
		pc := sd.Ev("store", "recv.sendQ").Arg(0, "recv.sendQ[1:]")
		r.Check(len(pq) == 1 && len(pc) == 1, R, "pops-one-each", pq.Pos(p), "one pipe and one context popped", "send does not pop exactly one pipe and one context")
		mv := sd.Ev("store", "*.reqMsg")
		cl := sd.Ev("store", "*.sendMsg").Arg(0, "nil")
		r.Check(len(mv) == 1 && strings.HasSuffix(mv[0].Args[0], ".sendMsg") && len(cl) == 1, R, "first-transmission-retains", mv.Pos(p), "reqMsg = sendMsg; sendMsg = nil", "the first transmission does not move the message into reqMsg")
	}

	R = "C04.3/retry-timer"
	r.Describe(R, "the retry timer is armed only when resendTime > 0, with that duration, and its callback re-sends the id captured at arming")
	if sd.OK() {
		af := sd.Ev("call", "time.AfterFunc")
		ok := len(af) == 1 && strings.HasSuffix(af[0].Args[0], ".resendTime") && af.AllGuarded(af[0].Args[0]+" > 0")
		r.Check(ok, R, "armed-iff-positive", af.Pos(p), "AfterFunc(resendTime, …) only when resendTime > 0", "the retry timer is not armed exactly under resendTime > 0 with that duration (0 must mean: never retry): "+guardsOf(af))
		var st Sel
		for _, e := range sd.Ev("store", "*.resendTimer") {
			if e.Args[0] != "nil" {
				st = append(st, e)
			}
		}
		r.Check(len(st) == 1 && strings.HasPrefix(st[0].Args[0], "time.AfterFunc("), R, "timer-kept", st.Pos(p), "kept in resendTimer", "retry timer not stored")
		cl := sd.Closure(R, 0)
		if cl.OK() {
			c := cl.Ev("call", "req.(*context).resendMessage")
			okCap := false
			if len(c) == 1 {
				// the argument is a variable captured by the closure whose (only) value is the
				// context's request id read when the timer was armed
				if call := CallOf(c[0].In); call != nil && len(call.Args) == 2 {
					okCap = capturedSnapshotOf(call.Args[1], ".reqID")
				}
			}
			r.Check(okCap, R, "callback-resends-captured-id", c.Pos(p), "resendMessage(id captured when arming)", "the timer callback does not call resendMessage with the id captured at arming")
		}
	}
	rs := q.Fn(R, "protocol/req", "context", "resendMessage")
	if rs.OK() {
		st := rs.Ev("store", "recv.s.sendQ")
		ok := len(st) == 1 && st.AllGuarded("recv.reqID == arg1") && st.AllGuarded("recv.reqMsg != nil") && st.AllGuarded("!recv.queued") && st.AllHeld(reqMu)
		r.Check(ok, R, "requeue-only-same-unanswered", st.Pos(p), "re-queued only if still the same request, unanswered and not already queued", "resendMessage re-queues without (reqID == id && reqMsg != nil && !queued): an answered or superseded request is transmitted again: "+guardsOf(st))
		c := rs.Ev("call", "req.(*socket).send")
		r.Check(len(c) == 1 && c.DominatedBy(st), R, "kicks-scheduler", c.Pos(p), "send() after re-queueing", "resendMessage does not run the scheduler")
	}

	R = "C04.5/answered-never-resent"
	r.Describe(R, "a matching reply (receiver) and cancel both clear reqMsg and stop the retry timer")
	rc := q.Fn(R, "protocol/req", "pipe", "receiver")
	if rc.OK() {
		z := rc.Ev("store", "*.reqMsg").Arg(0, "nil")
		sp := rc.Ev("call", "time.(*Timer).Stop")
		n := 0
		for _, e := range sp {
			if strings.HasSuffix(e.Args[0], ".resendTimer") {
				n++
			}
		}
		cs := rc.Ev("call", "req.(*context).cancelSend")
		r.Check(len(cs) >= 1 && z.DominatedBy(cs), R, "receiver/answered-context-leaves-send-queue", cs.Pos(p), "cancelSend() before reqMsg is cleared: an answered context is never left in sendQ", "a matching reply clears reqMsg without taking the context out of the send queue (cancelSend): a request answered while queued for retransmission is scheduled again with no message to send")
		r.Check(len(z) == 1 && n == 1, R, "receiver", z.Pos(p), "reqMsg cleared and resendTimer stopped on a hit", "a matching reply does not clear reqMsg and stop the retry timer: the answered request is sent again")
	}
	cn := q.Fn(R, "protocol/req", "context", "cancel")
	if cn.OK() {
		z := cn.Ev("store", "recv.reqMsg").Arg(0, "nil")
		sp := cn.Ev("call", "time.(*Timer).Stop").Arg(0, "recv.resendTimer")
		cs := cn.Ev("call", "req.(*context).cancelSend")
		r.Check(len(cs) >= 1 && z.DominatedBy(cs), R, "cancel/leaves-send-queue", cs.Pos(p), "cancelSend() before reqMsg is cleared", "cancel clears reqMsg without taking the context out of the send queue")
		r.Check(len(z) == 1 && len(sp) == 1, R, "cancel", z.Pos(p), "reqMsg cleared and resendTimer stopped", "cancel does not clear reqMsg and stop the retry timer")
	}

	R = "C04.7/request-state-transitions"
	r.Describe(R, "who may set and who may clear the per-request state of a REQ context (reqMsg, repMsg, reqID, lastPipe): any other writer resurrects or loses a request")
	rq := "protocol/req."
	q.StoreClasses(R, "reqMsg", rq+"context.reqMsg", map[string]string{rq + "(*socket).send": "set", rq + "(*pipe).receiver": "nil", rq + "(*context).cancel": "nil"})
	q.StoreClasses(R, "repMsg", rq+"context.repMsg", map[string]string{rq + "(*pipe).receiver": "set", rq + "(*context).cancel": "nil", rq + "(*context).RecvMsg": "nil"})
	q.StoreClasses(R, "reqID", rq+"context.reqID", map[string]string{rq + "(*context).SendMsg": "set,nil", rq + "(*context).cancel": "nil", rq + "(*context).RecvMsg": "nil"})
	q.StoreClasses(R, "lastPipe", rq+"context.lastPipe", map[string]string{rq + "(*socket).send": "set", rq + "(*socket).RemovePipe": "nil"})

	R = "C04.9/queued-flag-tracks-send-queue"
	r.Describe(R, "c.queued is true exactly while the context is in s.sendQ: every append of the context sets it in the same step, the scheduler's pop and cancelSend clear it (cancelSend only searches the queue when it is set, resendMessage only re-queues when it is clear)")
	for _, nm := range []string{"SendMsg", "resendMessage"} {
		f := q.Fn(R, "protocol/req", "context", nm)
		if !f.OK() {
			continue
		}
		var ap Sel
		for _, e := range f.Ev("store", "recv.s.sendQ") {
			if strings.HasPrefix(e.Args[0], "append(recv.s.sendQ,") {
				ap = append(ap, e)
			}
		}
		ok := len(ap) == 1
		if ok {
			ok = false
			for _, e := range f.Ev("store", "recv.queued").Arg(0, "true") {
				if e.In.Block() == ap[0].In.Block() {
					ok = true
				}
			}
		}
		r.Check(ok, R, nm+"/append-sets-queued", ap.Pos(p), "queued = true in the step that appends the context", nm+" appends the context to the send queue without setting queued: a later cancel (new Send, Close, reply) does not find it there, and the stale entry is scheduled with another request's state")
	}
	if sd.OK() {
		pop := sd.Ev("store", "recv.sendQ").Arg(0, "recv.sendQ[1:]")
		clr := sd.Ev("store", "*.queued").Arg(0, "false")
		r.Check(len(pop) == 1 && len(clr) == 1 && pop[0].In.Block() == clr[0].In.Block(), R, "send/pop-clears-queued", clr.Pos(p), "queued = false in the step that pops the context", "the scheduler pops a context without clearing queued: resendMessage then never re-queues it")
	}
	if cs := q.Fn(R, "protocol/req", "context", "cancelSend"); cs.OK() {
		clr := cs.Ev("store", "recv.queued").Arg(0, "false")
		r.Check(len(clr) == 1 && clr.AllGuarded("recv.queued"), R, "cancelSend/clears-queued", clr.Pos(p), "queued cleared when the context is taken out", "cancelSend does not clear queued")
	}

	R = "C04.6/pipe-loss"
	r.Describe(R, "RemovePipe: a request carried by the lost pipe is cancelled when retry is off (resendTime == 0), else re-sent at once")
	rp := q.Fn(R, "protocol/req", "socket", "RemovePipe")
	if rp.OK() {
		var can, rsd Sel
		for _, e := range rp.Ev("call", "req.(*context).cancel") {
			for _, g := range e.Guard {
				if strings.HasSuffix(g, ".resendTime == 0") {
					can = append(can, e)
				}
			}
		}
		for _, e := range rp.Ev("go", "req.(*context).resendMessage") {
			for _, g := range e.Guard {
				if strings.HasSuffix(g, ".resendTime != 0") {
					rsd = append(rsd, e)
				}
			}
		}
		carried := func(s Sel) bool {
			for _, e := range s {
				a, b := false, false
				for _, g := range e.Guard {
					if atomSides(g, "==", func(x, y string) bool { return strings.HasSuffix(x, ".lastPipe") && y != "nil" }) {
						a = true
					}
					if strings.HasSuffix(g, ".reqMsg != nil") {
						b = true
					}
				}
				if !a || !b {
					return false
				}
			}
			return len(s) == 1
		}
		r.Check(carried(can), R, "retry-off-cancels", can.Pos(p), "cancel() when resendTime == 0 for the request this pipe carried", "loss of the carrying pipe with retry off does not cancel the request (under lastPipe == p && reqMsg != nil && resendTime == 0)")
		r.Check(carried(rsd), R, "retry-on-resends-now", rsd.Pos(p), "go resendMessage(id) at once when resendTime != 0", "loss of the carrying pipe does not re-send the request at once")
		if len(rsd) == 1 {
			r.Check(strings.HasSuffix(rsd[0].Args[1], ".reqID"), R, "resend-current-id", rsd.Pos(p), "re-sends the current id", "re-sent with an id other than the context's current one")
		}
	}
	if rp.OK() {
		// the whole decision, compared with its specification over every combination of
		// (fail-no-peers, peers left, this pipe carried the request, request outstanding,
		// retry interval): an extra conjunct on one branch is as wrong as a missing one
		var cancels, resends []*Ev
		for _, e := range rp.Ev("call", "req.(*context).cancel") {
			cancels = append(cancels, e)
		}
		for _, e := range rp.Ev("go", "req.(*context).resendMessage") {
			resends = append(resends, e)
		}
		if len(resends) == 1 && len(cancels) >= 1 {
			c := resends[0].Args[0] // the context the loop is at
			pd := ""
			for _, g := range resends[0].Guard {
				atomSides(g, "==", func(x, y string) bool {
					if x == c+".lastPipe" {
						pd = y
					} else if y == c+".lastPipe" {
						pd = x
					}
					return false
				})
			}
			dom := map[string][]int64{c + ".failNoPeers": {0, 1}, "len(recv.pipes)": {0, 1}, c + ".lastPipe": {1, 2}, pd: {1}, c + ".reqMsg": {0, 1}, c + ".resendTime": {0, 5}}
			assume := []string{"next(range(recv.contexts))#0"}
			fnpGone := func(env map[string]int64) bool { return env[c+".failNoPeers"] != 0 && env["len(recv.pipes)"] == 0 }
			carriedOut := func(env map[string]int64) bool { return env[c+".lastPipe"] == env[pd] && env[c+".reqMsg"] != 0 }
			// a context's back pointer c.s is the socket the loop runs on
			predAliases = map[string]string{"len(" + c + ".s.pipes)": "len(recv.pipes)"}
			defer func() { predAliases = nil }()
			if pd == "" {
				r.Bad(R, "pipe-loss-exact", p.InstrPos(resends[0].In), "cannot identify the departing pipe in the guards of the re-send")
			} else {
				res := ComparePred(predBlock(resends[0]), dom, assume, func(env map[string]int64) bool {
					return !fnpGone(env) && carriedOut(env) && env[c+".resendTime"] != 0
				})
				r.Check(res.OK && res.Undec == "", R, "pipe-loss-exact/resend", p.InstrPos(resends[0].In), "re-sent at once exactly when this pipe carried the outstanding request, retry is on, and fail-no-peers does not apply", "RemovePipe re-sends under the wrong condition (must be: not(failNoPeers and no peer left) and lastPipe == p and reqMsg != nil and resendTime != 0): "+res.Counter+res.Undec)
				// cancel: the union of the cancel sites
				okAll, msg := true, ""
				got := map[string]bool{}
				for _, ce := range cancels {
					rc := ComparePredSet(predBlock(ce), dom, assume)
					if rc.Undec != "" {
						okAll, msg = false, rc.Undec
						break
					}
					for k := range rc.True {
						got[k] = true
					}
				}
				if okAll {
					want := ComparePredEnum(dom, func(env map[string]int64) bool {
						return fnpGone(env) || (carriedOut(env) && env[c+".resendTime"] == 0)
					})
					for k := range want {
						if !got[k] {
							okAll, msg = false, "not cancelled for "+k
						}
					}
					for k := range got {
						if !want[k] {
							okAll, msg = false, "cancelled for "+k
						}
					}
				}
				r.Check(okAll, R, "pipe-loss-exact/cancel", p.InstrPos(cancels[0].In), "cancelled exactly when (failNoPeers and no peer left) or (this pipe carried the outstanding request and retry is off)", "RemovePipe cancels under the wrong condition: "+msg)
			}
		}
		st := rp.Ev("store", "*.closed").Arg(0, "true")
		r.Check(len(st) == 1 && st[0].Unconditional() && st.AllHeld(reqMu), R, "RemovePipe/marks-pipe-closed", st.Pos(p), "the departing pipe is marked closed unconditionally, under the lock", "RemovePipe does not mark the departing pipe closed on every path: sendCtx puts the dead pipe back on the ready list and the (re)transmission handed to it is lost: "+guardsOf(st))
	}
	q.ListRemoval(R, "RemovePipe/leaves-ready-list", rp, "recv.readyQ", reqMu, "RemovePipe does not take the departing pipe out of the ready list by shortening it: a dead pipe is scheduled and the (re)transmission handed to it is lost")
	// `queued` says "this context is in sendQ": every change of the queue changes the flag of the
	// element concerned on the same paths (a flag left true after the removal makes
	// resendMessage skip the context for good; left false, the context is queued twice)
	{
		R2 := "C04.13/queued-flag"
		r.Describe(R2, "req: the queued flag of a context and its membership in sendQ change together, on every path, under the lock")
		n := 0
		for _, fn := range p.Funcs {
			if rel, _ := p.FuncRel(fn); rel != "protocol/req" {
				continue
			}
			f := &F{q: q, fn: fn, Name: p.FuncName(fn), evs: p.Events(fn)}
			flags := f.EvOwn("store", "*.queued")
			for _, e := range f.EvOwn("store", "*.sendQ") {
				n++
				v := e.Args[0]
				want := "false"
				if strings.HasPrefix(v, "append(") && !strings.Contains(strings.SplitN(v, ",", 2)[0], "[") {
					want = "true" // append(s.sendQ, c)
				}
				ok := false
				for _, fl := range flags {
					if fl.Args[0] != want {
						continue
					}
					if evDominates(fl, e) {
						ok = true
					} else if evDominates(e, fl) {
						if pass, _ := q.FollowedBy(Sel{e}, Sel{fl}); pass {
							ok = true
						}
					}
				}
				key := fmt.Sprintf("%s/sendQ@%s", f.Name, want)
				r.Check(ok, R2, key, p.InstrPos(e.In), "queued = "+want+" on every path through this change of sendQ", "sendQ is changed ("+v+") on a path on which the element's queued flag is not set to "+want+": flag and queue disagree afterwards (a context that is marked queued but is not in the queue is never transmitted again)")
			}
		}
		r.Count("c04.sendq_changes", n)
		r.Floor(R2, "c04.sendq_changes", 4)
	}
	q.ListRemoval("C04.5/answered-never-resent", "cancelSend/leaves-send-queue", q.Fn("C04.5/answered-never-resent", "protocol/req", "context", "cancelSend"), "recv.s.sendQ", reqMu, "cancelSend does not take the context out of the send queue by shortening it")
	q.StoreClasses(R, "readyQ-writers", "protocol/req.socket.readyQ", map[string]string{"protocol/req.(*socket).send": "set", "protocol/req.(*pipe).sendCtx": "set", "protocol/req.(*socket).AddPipe": "set", "protocol/req.(*socket).RemovePipe": "set"})
	sc := q.Fn(R, "protocol/req", "pipe", "sendCtx")
	if sc.OK() {
		st := sc.Ev("store", "recv.s.readyQ")
		r.Check(len(st) == 1 && st.AllGuarded("!recv.s.closed") && st.AllGuarded("!recv.closed") && st.AllHeld(reqMu), R, "requeue-pipe-only-if-open", st.Pos(p), "pipe becomes ready again only while socket and pipe are open", "sendCtx re-queues the pipe without !s.closed && !p.closed: a dead pipe is scheduled and the retransmission lost")
		var early Sel
		for _, e := range sc.Ev("return", "") {
			for _, g := range e.Guard {
				if strings.HasSuffix(g, "== ErrClosed") {
					early = append(early, e)
				}
			}
		}
		r.Check(len(early) == 1, R, "closed-pipe-not-requeued", early.Pos(p), "ErrClosed from the pipe ends without re-queueing", "a pipe reporting ErrClosed is re-queued")
	}
}

// capturedSnapshotOf: v is (a load of) a variable captured by a closure, and the value the
// enclosing function stored into that variable is a load of a field whose path ends in suffix.
func capturedSnapshotOf(v ssa.Value, suffix string) bool {
	for i := 0; i < 4; i++ {
		switch x := v.(type) {
		case *ssa.UnOp:
			v = x.X
			continue
		case *ssa.FreeVar:
			fn := x.Parent()
			par := fn.Parent()
			if par == nil {
				return false
			}
			idx := -1
			for k, fv := range fn.FreeVars {
				if fv == x {
					idx = k
				}
			}
			ok := false
			EachInstr(par, func(in ssa.Instruction) {
				mc, isMC := in.(*ssa.MakeClosure)
				if !isMC || mc.Fn != fn || idx < 0 || idx >= len(mc.Bindings) {
					return
				}
				b := mc.Bindings[idx]
				if al, isAl := b.(*ssa.Alloc); isAl && al.Referrers() != nil {
					for _, ref := range *al.Referrers() {
						if st, isSt := ref.(*ssa.Store); isSt && st.Addr == al && strings.HasSuffix(Desc(st.Val), suffix) {
							ok = true
						}
					}
				} else if strings.HasSuffix(Desc(b), suffix) {
					ok = true
				}
			})
			return ok
		}
		break
	}
	return false
}

// readyListPermutedOnly (C04.24): outside the functions that may change the membership of
// REQ's ready list (scheduler, end of a transmission, attach, detach) the list is only
// re-ordered: element writes come as an exchange — each written position receives the value
// read from another written position — and nothing copies or appends into it.  A shift or a
// block copy that is off by one drops an idle peer and lists another twice: the request carried
// by a connection that closes later is then not re-sent to the peer that was dropped.
func readyListPermutedOnly(p *Prog, r *Report, R string) {
	r.Describe(R, "where REQ's ready list is touched by anything but the scheduler, the end of a transmission, attach and detach, its elements are exchanged (each written slot gets the value read from another written slot), never shifted or block-copied: the list keeps exactly the idle pipes it had")
	table := map[string]bool{"protocol/req.(*socket).send": true, "protocol/req.(*pipe).sendCtx": true, "protocol/req.(*socket).AddPipe": true, "protocol/req.(*socket).RemovePipe": true}
	n := 0
	for _, fn := range p.Funcs {
		if rel, _ := p.FuncRel(fn); rel != "protocol/req" {
			continue
		}
		name := p.FuncName(fn)
		if table[name] {
			continue
		}
		attr := p.attributedTo(name)
		allIn := len(attr) > 0
		for _, a := range attr {
			if !table[a] {
				allIn = false
			}
		}
		if allIn {
			continue
		}
		isReady := func(v ssa.Value) bool {
			for i := 0; i < 4; i++ {
				switch x := v.(type) {
				case *ssa.Slice:
					v = x.X
					continue
				}
				break
			}
			fv, owner, _ := loadedField(v)
			return fv != nil && owner != nil && fv.Name() == "readyQ" && owner.Obj().Name() == "socket"
		}
		dst := map[string]bool{}
		src := map[string]bool{}
		bad := ""
		touched := false
		EachInstr(fn, func(in ssa.Instruction) {
			switch x := in.(type) {
			case *ssa.Store:
				ia, ok := x.Addr.(*ssa.IndexAddr)
				if !ok || !isReady(ia.X) {
					return
				}
				touched = true
				dst[Desc(ia.Index)] = true
				ld, ok := x.Val.(*ssa.UnOp)
				if !ok {
					bad = "slot " + Desc(ia.Index) + " is given " + Desc(x.Val) + ", not an element of the list, at " + p.InstrPos(in)
					return
				}
				ia2, ok := ld.X.(*ssa.IndexAddr)
				if !ok || !isReady(ia2.X) {
					bad = "slot " + Desc(ia.Index) + " is given " + Desc(x.Val) + ", not an element of the list, at " + p.InstrPos(in)
					return
				}
				src[Desc(ia2.Index)] = true
			case *ssa.Call:
				if (IsBuiltin(&x.Call, "copy") || IsBuiltin(&x.Call, "append")) && len(x.Call.Args) > 0 && isReady(x.Call.Args[0]) {
					touched = true
					bad = "the list is the destination of " + x.Call.Value.Name() + " at " + p.InstrPos(in)
				}
			}
		})
		if !touched {
			continue
		}
		n++
		if bad == "" {
			for k := range dst {
				if !src[k] {
					bad = "slot " + k + " is overwritten but its old value is not written anywhere (an element is lost)"
				}
			}
			for k := range src {
				if !dst[k] {
					bad = "the element at " + k + " is written to another slot but stays in its own (an element is duplicated)"
				}
			}
		}
		r.Check(bad == "", R, name, p.Pos(fn.Pos()), "elements are exchanged", name+" changes the ready list other than by exchanging elements: "+bad+": an idle pipe is dropped from the list (or listed twice), and a request whose connection closes later is not re-sent to it")
	}
	r.Count("c04.ready_list_permuters", n)
	r.Floor(R, "c04.ready_list_permuters", 1)
}
