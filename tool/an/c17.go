package an

import (
	"fmt"
	"go/token"
	"go/types"
	"strings"

	"golang.org/x/tools/go/ssa"
)

func init() {
	register(&PropInfo{ID: "C17", Run: runC17,
		Explanation: "E5 message-ownership typestate over every function that touches a *Message (disjunctive worlds on SSA; Clone/Free/send/go/return/consuming calls with 'consumed iff the call returned nil', select arms, nil tests, local aggregates, retained fields, bottom-up callee summaries): no release of an already released or handed-off message, no use after release, Send-like functions never release on an error return, MakeUnique results are used, retained messages are cloned before being handed off; plus pool/MakeUnique/Dup invariants and application-facing copies.",
		Assumptions: commonAssumptions})
}

func e5Obligations(p *Prog, r *Report, rule string) {
	res := p.E5()
	bad := map[string]bool{}
	for _, is := range res.issues {
		if !p.InScope(is.Fn) {
			continue
		}
		fname := p.FuncName(is.Fn)
		bad[fname] = true
		r.Bad(rule, fname+"/"+is.Kind+"/"+is.What, p.InstrPos(is.In), is.Msg)
	}
	for _, u := range res.undecided {
		r.Unk(rule, "undecided/"+u, "-", "ownership analysis did not converge: "+u)
	}
	n := 0
	for _, fn := range p.Funcs {
		touches := false
		for _, par := range fn.Params {
			if isMsgPtr(par.Type()) {
				touches = true
			}
		}
		if !touches {
			EachInstr(fn, func(in ssa.Instruction) {
				if v, ok := in.(ssa.Value); ok && isMsgPtr(v.Type()) {
					touches = true
				}
			})
		}
		if !touches {
			continue
		}
		n++
		if !bad[p.FuncName(fn)] {
			r.OK(rule, p.FuncName(fn), p.Pos(fn.Pos()), "every path releases/hands off each message at most once and never uses it afterwards")
		}
	}
	r.Count("e5.functions_touching_messages", n)
	r.Count("e5.message_origins", res.origins)
	r.Count("e5.max_worlds_per_block", res.worldsMax)
	_ = fmt.Sprint
}

func runC17(p *Prog, r *Report) {
	recvOwnsMemory(p, r, "C17.12/recv-owns-memory")
	r.Floor("C17.12/recv-owns-memory", "c17.recv_buffer_installs", 2)
	{
		// REQ's blocking SendMsg parks the message in c.sendMsg; the scheduler takes it from
		// there (and from then on transmits, retains and frees it).  Whether the call failed
		// is therefore decided by one fact only: is the message still parked?
		q := NewQ(p, r)
		R := "C17.11/req-send-outcome"
		r.Describe(R, "req context.SendMsg reports an error after its wait only while the message is still parked in c.sendMsg (nobody took it): once the scheduler has taken the message the library owns it, and an error return would leave it with the caller as well")
		sm := q.Fn(R, "protocol/req", "context", "SendMsg")
		if sm.OK() {
			waits := sm.Ev("call", "sync.(*Cond).Wait")
			reach := blockReach(sm.fn)
			n, bad := 0, ""
			for _, e := range sm.Ev("return", "") {
				if len(e.Args) == 0 || e.Args[len(e.Args)-1] == "nil" || len(waits) == 0 || e.Site != nil {
					continue
				}
				if !CanPrecede(reach, waits[0].In, e.In) {
					continue
				}
				n++
				if !hasAtom(e.Guard, "recv.sendMsg == arg1") {
					bad = p.InstrPos(e.In) + " returns " + e.Args[len(e.Args)-1] + " under " + strings.Join(e.Guard, "; ")
				}
			}
			r.Check(len(waits) == 1 && n >= 1 && bad == "", R, "error-only-while-parked", sm.Pos(), "every error return after the wait is under c.sendMsg == m", "req SendMsg returns an error although the message may already have been taken by the scheduler ("+bad+"): the caller keeps a message the library is transmitting and will free")
		}
	}
	fieldFrees(p, r, "C17.10/field-frees", func(rel string) bool {
		return strings.HasPrefix(rel, "protocol/") || strings.HasPrefix(rel, "transport") || rel == "internal/core"
	}, fieldFreeAllowed)
	r.Floor("C17.10/field-frees", "field_frees.C17.10/field-frees", 3)
	r.Describe("C17.1/E5", "message ownership typestate: double release, use after release/hand-off, release on an error return of Send/SendMsg, MakeUnique result discarded, retained message handed off without Clone, released message returned")
	e5Obligations(p, r, "C17.1/E5")
	r.Floor("C17.1/E5", "e5.functions_touching_messages", 100)
	r.Describe("C17.5/send-contract", "every implementation of Send/SendMsg(*Message) error consumes the message exactly when it returns nil (the contract every caller relies on through the interface)")
	e5SendContracts(p, r, "C17.5/send-contract", nil)
	r.Floor("C17.5/send-contract", "e5.send_implementations", 30)
	r.Describe("C17.6/unique-sites", "every function that writes through a possibly shared message makes it unique first (frozen table of the four sites)")
	uniqueSites(p, r, "C17.6/unique-sites", nil)
	r.Describe("C17.7/fresh-backing-per-message", "a Header/Body slice installed into the messages of a receive loop is never backed by memory that outlives the iteration")
	freshBackingPerMessage(p, r, "C17.7/fresh-backing-per-message", func(rel string) bool {
		return strings.HasPrefix(rel, "protocol/") || strings.HasPrefix(rel, "transport")
	})
	r.Floor("C17.7/fresh-backing-per-message", "pool.in_loop_buffer_installs", 10)
	r.Describe("C17.3/shared-queue", "a message received from a queue that is fed with Clone'd (shared) messages is made unique before it is returned to the application")
	e5SharedQueues(p, r, "C17.3/shared-queue")
	r.Describe("C17.4/no-write-through", "transport Send implementations never write through the message they send (shared messages are sent concurrently by several pipes)")
	e5NoWriteThrough(p, r, "C17.4/no-write-through")
	r.Describe("C17.2/pool", "pool table capacities, NewMessage/newMsg/Free class selection, Clone/MakeUnique/Dup primitives, reference count only through sync/atomic")
	poolRules(p, r, "C17.2/pool")
}

// e5SharedQueues: RecvMsg implementations that return a message received from a
// shared-fed queue must pass it through MakeUnique/Dup.
func e5SharedQueues(p *Prog, r *Report, rule string) {
	res := p.E5()
	r.Count("e5.shared_fed_queues", len(res.sharedFed))
	n := 0
	for _, fn := range p.Funcs {
		if fn.Name() != "RecvMsg" {
			continue
		}
		EachInstr(fn, func(in ssa.Instruction) {
			ret, ok := in.(*ssa.Return)
			if !ok {
				return
			}
			for _, rv := range ret.Results {
				if !isMsgPtr(rv.Type()) {
					continue
				}
				var leaves []ssa.Value
				timerSources(resolveSpill(rv, ret), map[ssa.Value]bool{}, &leaves)
				for _, lf := range leaves {
					var ch ssa.Value
					switch x := lf.(type) {
					case *ssa.UnOp:
						if x.Op.String() == "<-" {
							ch = x.X
						}
					case *ssa.Extract:
						if sel, ok := x.Tuple.(*ssa.Select); ok {
							ri := 0
							for _, st := range sel.States {
								if st.Dir == 2 { // types.RecvOnly
									if x.Index == 2+ri {
										ch = st.Chan
									}
									ri++
								}
							}
						}
					}
					if ch == nil {
						continue
					}
					fa := chanField(ch)
					if fa == nil {
						continue
					}
					if where, shared := res.sharedFed[FieldVar(fa)]; shared {
						n++
						r.Bad(rule, p.FuncName(fn)+"/<-"+Desc(ch), p.InstrPos(ret), "returns a message received from "+Desc(ch)+", which is fed with shared (Clone'd) messages at "+where+", without MakeUnique: the application may modify or free a buffer other contexts still read")
					}
				}
			}
		})
	}
	// positive instances: functions that do call MakeUnique on a shared-fed receive
	ok := 0
	for _, fn := range p.Funcs {
		if fn.Name() != "RecvMsg" {
			continue
		}
		EachInstr(fn, func(in ssa.Instruction) {
			c := CallOf(in)
			if c == nil || msgMethod(c) != "MakeUnique" {
				return
			}
			var leaves []ssa.Value
			timerSources(c.Args[0], map[ssa.Value]bool{}, &leaves)
			for _, lf := range leaves {
				if ex, isEx := lf.(*ssa.Extract); isEx {
					if sel, isSel := ex.Tuple.(*ssa.Select); isSel {
						for _, st := range sel.States {
							if fa := chanField(st.Chan); fa != nil {
								if _, shared := res.sharedFed[FieldVar(fa)]; shared {
									ok++
									r.OK(rule, p.FuncName(fn)+"/<-"+Desc(st.Chan), p.InstrPos(in), "made unique before being returned")
								}
							}
						}
					}
				}
			}
		})
	}
	r.Count("e5.shared_queue_receivers_checked", ok+n)
	r.Floor(rule, "e5.shared_fed_queues", 4)
	r.Floor(rule, "e5.shared_queue_receivers_checked", 1)
}

// e5NoWriteThrough: transport Send never stores through its message parameter.
func e5NoWriteThrough(p *Prog, r *Report, rule string) {
	n := 0
	for _, fn := range p.Funcs {
		rel, _ := p.FuncRel(fn)
		if fn.Name() != "Send" || !(rel == "transport" || len(rel) > 10 && rel[:10] == "transport/") {
			continue
		}
		var par *ssa.Parameter
		for _, pp := range fn.Params {
			if isMsgPtr(pp.Type()) {
				par = pp
			}
		}
		if par == nil {
			continue
		}
		n++
		bad := ""
		EachInstr(fn, func(in ssa.Instruction) {
			st, ok := in.(*ssa.Store)
			if !ok {
				return
			}
			root, chain := RootOf(st.Addr)
			if root == ssa.Value(par) && chain != "" {
				bad = "store to m" + chain + " at " + p.InstrPos(in)
			}
			if ia, ok := st.Addr.(*ssa.IndexAddr); ok {
				if mv, fld := derivedFromMsg(ia.X); mv != nil {
					if rr, _ := RootOf(mv); rr == ssa.Value(par) || mv == ssa.Value(par) {
						bad = "store into m." + fld + "[...] at " + p.InstrPos(in)
					}
				}
			}
		})
		r.Check(bad == "", rule, p.FuncName(fn), p.Pos(fn.Pos()), "no store through the message", "transport Send writes through the message it sends ("+bad+"): a message shared by several pipes (PUB/BUS/SURVEY fan-out) is corrupted for the others")
	}
	r.Count("e5.transport_send_impls", n)
	r.Floor(rule, "e5.transport_send_impls", 4)
}

// ownershipIn: E5 issues restricted to the packages a behavioural property lives in.
func ownershipIn(p *Prog, r *Report, R string, rels ...string) {
	in := map[string]bool{}
	for _, x := range rels {
		in[x] = true
	}
	n := 0
	for _, is := range p.E5().issues {
		if rel, _ := p.FuncRel(is.Fn); in[rel] {
			n++
			r.Bad(R, p.FuncName(is.Fn)+"/"+is.Kind+"/"+is.What, p.InstrPos(is.In), is.Msg)
		}
	}
	if n == 0 {
		r.OK(R, strings.Join(rels, ","), "-", "no ownership issue")
	}
}

// recvOwnsMemory (C17.12): the Body and Header a transport's Recv installs in the message it
// returns are memory of that message: made for it (NewMessage, make, append to a fresh slice) or
// returned by a read call that allocates per call.  A window into something the connection keeps
// and reuses — a slice field of the pipe, bytes.Buffer.Bytes/Next, bufio's Peek/ReadSlice or a
// Scanner's Bytes on a field of the pipe — is overwritten by the next frame while the protocol
// (or the application) still holds the earlier message.
var windowMethods = map[string]bool{"Bytes": true, "Next": true, "Peek": true, "ReadSlice": true, "Bytes#Scanner": true, "AvailableBuffer": true}

func recvOwnsMemory(p *Prog, r *Report, R string) {
	r.Describe(R, "the Body and Header of a message returned by a transport's Recv are backed by memory made for that message, never by a window into a buffer the connection keeps (a slice field of the pipe, or bytes.Buffer.Bytes/Next, bufio Peek/ReadSlice on one of its fields): the next frame would overwrite a message the protocol still holds")
	n := 0
	for _, fn := range p.Funcs {
		rel, _ := p.FuncRel(fn)
		if !strings.HasPrefix(rel, "transport") || fn.Name() != "Recv" || fn.Signature.Recv() == nil {
			continue
		}
		EachInstr(fn, func(in ssa.Instruction) {
			st, ok := in.(*ssa.Store)
			if !ok {
				return
			}
			fa, ok := st.Addr.(*ssa.FieldAddr)
			if !ok {
				return
			}
			fv, owner := fieldAddrVar(fa)
			if fv == nil || owner == nil || owner.Obj().Name() != "Message" || (fv.Name() != "Body" && fv.Name() != "Header") {
				return
			}
			n++
			key := p.FuncName(fn) + "/" + fv.Name()
			why := ""
			seen := map[ssa.Value]bool{}
			var walk func(v ssa.Value, d int)
			walk = func(v ssa.Value, d int) {
				if v == nil || seen[v] || d > 10 || why != "" {
					return
				}
				seen[v] = true
				switch x := v.(type) {
				case *ssa.Slice:
					walk(x.X, d+1)
				case *ssa.Phi:
					for _, e := range x.Edges {
						walk(e, d+1)
					}
				case *ssa.ChangeType:
					walk(x.X, d+1)
				case *ssa.Extract:
					walk(x.Tuple, d+1)
				case *ssa.UnOp:
					if x.Op == token.MUL {
						if fa2, ok := x.X.(*ssa.FieldAddr); ok {
							if fv2, ow2 := fieldAddrVar(fa2); fv2 != nil && ow2 != nil && ow2.Obj().Name() != "Message" {
								if _, isSl := fv2.Type().Underlying().(*types.Slice); isSl {
									why = "it is (a window into) the slice field " + fieldKey(fv2, ow2)
								}
							}
						}
					}
				case *ssa.Call:
					c := &x.Call
					if IsBuiltin(c, "append") && len(c.Args) > 0 {
						walk(c.Args[0], d+1)
						return
					}
					if sc := c.StaticCallee(); sc != nil && sc.Signature.Recv() != nil && len(c.Args) > 0 && windowMethods[sc.Name()] {
						pk := pkgPathOf(sc)
						if pk == "bytes" || pk == "bufio" {
							if _, onField := c.Args[0].(*ssa.FieldAddr); onField {
								why = "it is the window " + pk + "." + recvTypeName(sc) + "." + sc.Name() + "() returns into " + Desc(c.Args[0])
							} else if u, ok := c.Args[0].(*ssa.UnOp); ok {
								if _, onField := u.X.(*ssa.FieldAddr); onField {
									why = "it is the window " + pk + "." + recvTypeName(sc) + "." + sc.Name() + "() returns into " + Desc(u)
								}
							}
						}
					}
				}
			}
			walk(st.Val, 0)
			r.Check(why == "", R, key, p.InstrPos(in), "memory of the message", "the "+fv.Name()+" of the received message is not memory of its own: "+why+"; the next frame on this connection overwrites the message while its receiver still holds it")
		})
	}
	// ... and the message itself is made by this call: every message a Recv returns is the
	// result of NewMessage in that very invocation (or nil with an error), never one kept in
	// the connection and handed out again
	for _, fn := range p.Funcs {
		rel, _ := p.FuncRel(fn)
		if !strings.HasPrefix(rel, "transport") || fn.Name() != "Recv" || fn.Signature.Recv() == nil || fn.Signature.Results().Len() != 2 {
			continue
		}
		bad := ""
		EachInstr(fn, func(in ssa.Instruction) {
			ret, ok := in.(*ssa.Return)
			if !ok || len(ret.Results) != 2 {
				return
			}
			seen := map[ssa.Value]bool{}
			var walk func(v ssa.Value, d int)
			walk = func(v ssa.Value, d int) {
				if v == nil || seen[v] || d > 8 || bad != "" {
					return
				}
				seen[v] = true
				switch x := v.(type) {
				case *ssa.Phi:
					for _, e := range x.Edges {
						walk(e, d+1)
					}
				case *ssa.Const:
				case *ssa.Call:
					if sc := x.Call.StaticCallee(); sc != nil && p.moduleFunc(sc) && sc.Name() != "NewMessage" && sc.Signature.Recv() != nil {
						// a helper of the pipe: its own returns are examined when it is named Recv;
						// other helpers are read through
						EachInstr(sc, func(i2 ssa.Instruction) {
							if r2, ok := i2.(*ssa.Return); ok && len(r2.Results) >= 1 && isMsgPtr(r2.Results[0].Type()) {
								walk(r2.Results[0], d+1)
							}
						})
					}
				case *ssa.UnOp:
					if x.Op == token.MUL {
						if rv := reachingStore(x); rv != nil {
							walk(rv, d+1)
							return
						}
						if fa, ok := x.X.(*ssa.FieldAddr); ok {
							if fv, ow := fieldAddrVar(fa); fv != nil && ow != nil {
								bad = "the message returned at " + p.InstrPos(in) + " is the one kept in " + fieldKey(fv, ow)
							}
						}
					}
				case *ssa.Extract:
					walk(x.Tuple, d+1)
				}
			}
			walk(ret.Results[0], 0)
		})
		n++
		r.Check(bad == "", R, p.FuncName(fn)+"/message", p.Pos(fn.Pos()), "every returned message is made by this call", bad+": the same Message object is handed out again for a later frame, while the receiver of the earlier one still owns it")
	}
	r.Count("c17.recv_buffer_installs", n)
}
