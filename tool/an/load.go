// Package an holds the loader, the IR services, the engines and the rule tables of
// the mangos static verifier.  Nothing in here executes mangos code: /repo is parsed,
// type-checked and lowered to SSA on every run, and obligations are evaluated on that.
package an

import (
	"fmt"
	"go/ast"
	"go/constant"
	"go/token"
	"go/types"
	"os"
	"sort"
	"strings"

	"golang.org/x/tools/go/callgraph"
	"golang.org/x/tools/go/callgraph/cha"
	"golang.org/x/tools/go/callgraph/vta"
	"golang.org/x/tools/go/packages"
	"golang.org/x/tools/go/ssa"
	"golang.org/x/tools/go/ssa/ssautil"
)

// ModPath is the module path of the analysed repository.
const ModPath = "go.nanomsg.org/mangos/v3"

// Config selects one build configuration of /repo (plus optional source overlays, used
// for mutants only).
type Config struct {
	Dir     string
	GOOS    string
	GOARCH  string
	Cgo     bool
	Overlay map[string][]byte
}

func (c Config) String() string {
	cg := "0"
	if c.Cgo {
		cg = "1"
	}
	return fmt.Sprintf("%s/%s/cgo%s", c.GOOS, c.GOARCH, cg)
}

// Prog is one loaded, type-checked and SSA-built configuration.
type Prog struct {
	Conf  Config
	Fset  *token.FileSet
	Pkgs  []*packages.Package          // packages of the module, sorted by path
	ByRel map[string]*packages.Package // "protocol/xpair" -> package ("" = root)
	SSA   *ssa.Program
	All   map[*ssa.Function]bool // every function incl. dependencies
	Funcs []*ssa.Function        // in-scope source functions (incl. closures), sorted
	cg    *callgraph.Graph
	// caches
	e1            *e1Result
	e3            *e3Result
	e3b           *[]E3bIssue
	wrapped       map[*ssa.Function]bool // function literals run at once by a lock-wrapper helper
	propReports   map[string]*Report
	e11c          *e11
	e12c          *e12Result
	freshParamDepth int
	e12t          map[*types.Var]string
	e12f          *e12Flow
	importing     bool
	onceBody      map[*ssa.Function]*ssa.Function
	byName        map[string]*ssa.Function
	single        map[*ssa.Function]bool
	leaf          map[*ssa.Function]bool
	e3bSerialised int
	e4            *e4Result
	e5            *e5Result
	atoms         map[*ssa.Function]*guardInfo
	doms          map[*ssa.Function]*postDom
}

// subject packages: everything in the module except examples, perf, test helpers.
func subjectRel(rel string) bool {
	for _, p := range []string{"examples", "perf", "test", "internal/test"} {
		if rel == p || strings.HasPrefix(rel, p+"/") {
			return false
		}
	}
	return true
}

// Rel returns the module-relative path of a package path ("" for the root) and whether
// the package belongs to the module.
func Rel(pkgPath string) (string, bool) {
	if pkgPath == ModPath {
		return "", true
	}
	if strings.HasPrefix(pkgPath, ModPath+"/") {
		return strings.TrimPrefix(pkgPath, ModPath+"/"), true
	}
	return "", false
}

// Load parses, type-checks and builds SSA + call graph for every package of /repo in the
// given configuration.  Any error (including type errors) is returned: checks fail closed.
func Load(conf Config) (*Prog, error) {
	if conf.Dir == "" {
		conf.Dir = "/repo"
	}
	if conf.GOOS == "" {
		conf.GOOS = "linux"
	}
	if conf.GOARCH == "" {
		conf.GOARCH = "amd64"
	}
	cgo := "0"
	if conf.Cgo {
		cgo = "1"
	}
	env := []string{}
	for _, e := range os.Environ() {
		k := strings.SplitN(e, "=", 2)[0]
		switch k {
		case "GOFLAGS", "GOPROXY", "GOSUMDB", "GOWORK", "GOOS", "GOARCH", "CGO_ENABLED", "GOTOOLCHAIN":
			continue
		}
		env = append(env, e)
	}
	env = append(env, "GOFLAGS=-mod=mod", "GOPROXY=off", "GOSUMDB=off", "GOWORK=off",
		"GOTOOLCHAIN=local", "GOOS="+conf.GOOS, "GOARCH="+conf.GOARCH, "CGO_ENABLED="+cgo)
	fset := token.NewFileSet()
	cfg := &packages.Config{
		Mode:    packages.LoadAllSyntax,
		Dir:     conf.Dir,
		Env:     env,
		Fset:    fset,
		Tests:   false,
		Overlay: conf.Overlay,
	}
	pkgs, err := packages.Load(cfg, "./...")
	if err != nil {
		return nil, fmt.Errorf("load: %v", err)
	}
	if len(pkgs) == 0 {
		return nil, fmt.Errorf("load: zero packages")
	}
	var errs []string
	packages.Visit(pkgs, nil, func(p *packages.Package) {
		for _, e := range p.Errors {
			errs = append(errs, e.Error())
		}
	})
	if len(errs) > 0 {
		sort.Strings(errs)
		if len(errs) > 8 {
			errs = errs[:8]
		}
		return nil, fmt.Errorf("load: type/parse errors: %s", strings.Join(errs, "; "))
	}
	prog, _ := ssautil.AllPackages(pkgs, ssa.BuilderMode(0))
	prog.Build()

	p := &Prog{Conf: conf, Fset: fset, SSA: prog, ByRel: map[string]*packages.Package{},
		atoms: map[*ssa.Function]*guardInfo{}, doms: map[*ssa.Function]*postDom{}}
	for _, pk := range pkgs {
		if rel, ok := Rel(pk.PkgPath); ok {
			p.Pkgs = append(p.Pkgs, pk)
			p.ByRel[rel] = pk
		}
	}
	sort.Slice(p.Pkgs, func(i, j int) bool { return p.Pkgs[i].PkgPath < p.Pkgs[j].PkgPath })
	if len(p.Pkgs) < 40 {
		return nil, fmt.Errorf("load: only %d module packages loaded (expected >= 40)", len(p.Pkgs))
	}
	if ep := p.ByRel["errors"]; ep != nil {
		sc := ep.Types.Scope()
		for _, n := range sc.Names() {
			if c, ok := sc.Lookup(n).(*types.Const); ok && c.Val().Kind() == constant.String {
				errConstNames[constant.StringVal(c.Val())] = n
			}
		}
	}
	p.All = ssautil.AllFunctions(prog)
	for fn := range p.All {
		if p.InScope(fn) {
			p.Funcs = append(p.Funcs, fn)
		}
	}
	sort.Slice(p.Funcs, func(i, j int) bool {
		a, b := p.Funcs[i], p.Funcs[j]
		if a.Pos() != b.Pos() {
			pa, pb := fset.Position(a.Pos()), fset.Position(b.Pos())
			if pa.Filename != pb.Filename {
				return pa.Filename < pb.Filename
			}
			if pa.Offset != pb.Offset {
				return pa.Offset < pb.Offset
			}
		}
		return a.String() < b.String()
	})
	if len(p.Funcs) < 500 {
		return nil, fmt.Errorf("load: only %d in-scope functions (expected >= 500)", len(p.Funcs))
	}
	p.markRecvLike()
	p.canonComparisons()
	p.onceBodies()
	p.resolveChanParams()
	return p, nil
}

// canonComparisons puts the operands of every comparison of the in-scope functions into one
// canonical order (`a == b` and `b == a`, `a < b` and `b > a` are the same test and must be
// the same thing to every rule): a constant goes to the right; otherwise the operand whose
// description sorts first goes to the left, where local variables (whose names mean nothing)
// sort after everything else and among themselves keep the order of the source.  The SSA
// form is rewritten in place, before any engine reads it, so no rule sees the source order.
func (p *Prog) canonComparisons() {
	constLike := func(v ssa.Value) bool {
		for {
			switch x := v.(type) {
			case *ssa.MakeInterface:
				v = x.X
			case *ssa.ChangeType:
				v = x.X
			case *ssa.ChangeInterface:
				v = x.X
			case *ssa.Convert:
				v = x.X
			case *ssa.Const:
				return true
			default:
				return false
			}
		}
	}
	mask := func(v ssa.Value) string { return maskLocals(Desc(v)) }
	for _, fn := range p.Funcs {
		for _, b := range fn.Blocks {
			for _, in := range b.Instrs {
				bo, ok := in.(*ssa.BinOp)
				if !ok {
					continue
				}
				if _, cmp := swapOp[bo.Op]; !cmp {
					continue
				}
				cx, cy := constLike(bo.X), constLike(bo.Y)
				swap := false
				switch {
				case cx && !cy:
					swap = true
				case !cx && cy:
				default:
					swap = mask(bo.X) > mask(bo.Y)
				}
				if swap {
					bo.X, bo.Y, bo.Op = bo.Y, bo.X, swapOp[bo.Op]
				}
			}
		}
	}
}

// CG returns the VTA call graph (built lazily).
func (p *Prog) CG() *callgraph.Graph {
	if p.cg == nil {
		p.cg = vta.CallGraph(p.All, cha.CallGraph(p.SSA))
	}
	return p.cg
}

// FuncRel returns the module-relative package path of a function ("", false if outside).
func (p *Prog) FuncRel(fn *ssa.Function) (string, bool) {
	for fn.Parent() != nil {
		fn = fn.Parent()
	}
	var pkg *types.Package
	if fn.Pkg != nil {
		pkg = fn.Pkg.Pkg
	} else if o := fn.Object(); o != nil {
		pkg = o.Pkg()
	}
	if pkg == nil {
		return "", false
	}
	return Rel(pkg.Path())
}

// InScope: source function of a subject package, not in a _test.go file, with a body.
func (p *Prog) InScope(fn *ssa.Function) bool {
	if fn == nil || fn.Blocks == nil || fn.Synthetic != "" && fn.Syntax() == nil {
		return false
	}
	rel, ok := p.FuncRel(fn)
	if !ok || !subjectRel(rel) {
		return false
	}
	if fn.Syntax() == nil {
		return false
	}
	f := p.Fset.Position(fn.Pos()).Filename
	if f == "" {
		f = p.Fset.Position(fn.Syntax().Pos()).Filename
	}
	return !strings.HasSuffix(f, "_test.go")
}

// FuncName gives a stable construct key for a function:
// "protocol/xpair.(*socket).AddPipe", closures as "...AddPipe$1".
// onceBodies: methods whose only use in the module is as the bound-method value handed to
// a sync.Once.Do (`o.Do(p.shutdown)`), mapped to the function that makes that call.  Such a
// method plays exactly the role of the closure in `o.Do(func() {…})` and is named and
// treated like one (parent$1), so that turning the closure into a method changes nothing.
func (p *Prog) onceBodies() map[*ssa.Function]*ssa.Function {
	if p.onceBody != nil {
		return p.onceBody
	}
	p.onceBody = map[*ssa.Function]*ssa.Function{}
	cand := map[*ssa.Function]*ssa.Function{}
	for fn := range p.All {
		if !p.moduleFunc(fn) || fn.Blocks == nil {
			continue
		}
		EachInstr(fn, func(in ssa.Instruction) {
			c := CallOf(in)
			if c == nil {
				return
			}
			f, _, ok := isOnceDo(c)
			if !ok || f == nil {
				return
			}
			if t := unwrapBound(f); t != nil && t != f {
				if _, dup := cand[t]; dup {
					cand[t] = nil
				} else {
					cand[t] = fn
				}
			}
		})
	}
	cg := p.CG()
	for m, parent := range cand {
		if parent == nil || len(parent.AnonFuncs) != 0 {
			continue
		}
		ok := true
		if n := cg.Nodes[m]; n != nil {
			for _, e := range n.In {
				if unwrapBound(e.Caller.Func) != m {
					ok = false // called from somewhere else as well
				}
			}
		}
		if ok {
			p.onceBody[m] = parent
		}
	}
	return p.onceBody
}

// unwrapBound: the method a synthetic bound-method wrapper calls (fn itself otherwise).
func unwrapBound(fn *ssa.Function) *ssa.Function {
	if fn == nil || !strings.Contains(fn.Synthetic, "bound method wrapper") {
		return fn
	}
	var t *ssa.Function
	EachInstr(fn, func(in ssa.Instruction) {
		if c := CallOf(in); c != nil {
			if sc := c.StaticCallee(); sc != nil {
				t = sc
			}
		}
	})
	return t
}

func (p *Prog) FuncName(fn *ssa.Function) string {
	if fn == nil {
		return "<nil>"
	}
	if p.onceBody != nil {
		if parent, ok := p.onceBody[fn]; ok {
			return p.FuncName(parent) + "$1"
		}
	}
	if fn.Parent() != nil {
		return p.FuncName(fn.Parent()) + strings.TrimPrefix(fn.Name(), fn.Parent().Name())
	}
	rel, ok := p.FuncRel(fn)
	name := fn.Name()
	if fn.Signature.Recv() != nil || recvLike[fn] {
		var t types.Type
		if fn.Signature.Recv() != nil {
			t = fn.Signature.Recv().Type()
		} else {
			t = fn.Params[0].Type()
		}
		star := ""
		if pt, ok := t.(*types.Pointer); ok {
			t = pt.Elem()
			star = "*"
		}
		tn := t.String()
		if n, ok := t.(*types.Named); ok {
			tn = n.Obj().Name()
		}
		name = "(" + star + tn + ")." + fn.Name()
	}
	if !ok {
		if fn.Pkg != nil {
			return fn.Pkg.Pkg.Path() + "." + name
		}
		return fn.String()
	}
	if rel == "" {
		rel = "mangos"
	}
	return rel + "." + name
}

// Pos formats a position relative to the repository root.
func (p *Prog) Pos(pos token.Pos) string {
	if !pos.IsValid() {
		return "-"
	}
	ps := p.Fset.Position(pos)
	f := ps.Filename
	if strings.HasPrefix(f, p.Conf.Dir+"/") {
		f = strings.TrimPrefix(f, p.Conf.Dir+"/")
	}
	return fmt.Sprintf("%s:%d", f, ps.Line)
}

// InstrPos returns the best position for an instruction (falls back to the function).
func (p *Prog) InstrPos(in ssa.Instruction) string {
	if in.Pos().IsValid() {
		return p.Pos(in.Pos())
	}
	// look for a nearby instruction with a position
	b := in.Block()
	if b != nil {
		idx := -1
		for i, x := range b.Instrs {
			if x == in {
				idx = i
			}
		}
		for i := idx; i >= 0; i-- {
			if b.Instrs[i].Pos().IsValid() {
				return p.Pos(b.Instrs[i].Pos())
			}
		}
		for i := idx + 1; i >= 0 && i < len(b.Instrs); i++ {
			if b.Instrs[i].Pos().IsValid() {
				return p.Pos(b.Instrs[i].Pos())
			}
		}
		return p.Pos(b.Parent().Pos())
	}
	return "-"
}

// Func looks up a function or method by module-relative package, receiver type name
// ("" for plain functions) and name.  Returns nil if it does not exist.
func (p *Prog) Func(rel, recv, name string) *ssa.Function {
	pk := p.ByRel[rel]
	if pk == nil {
		return nil
	}
	sp := p.SSA.Package(pk.Types)
	if sp == nil {
		return nil
	}
	if recv == "" {
		return sp.Func(name)
	}
	obj := pk.Types.Scope().Lookup(recv)
	if obj == nil {
		return nil
	}
	tn, ok := obj.(*types.TypeName)
	if !ok {
		return nil
	}
	for _, t := range []types.Type{types.NewPointer(tn.Type()), tn.Type()} {
		ms := p.SSA.MethodSets.MethodSet(t)
		for i := 0; i < ms.Len(); i++ {
			sel := ms.At(i)
			if sel.Obj().Name() == name && sel.Obj().Pkg() == pk.Types {
				if len(sel.Index()) != 1 {
					continue // promoted
				}
				if fn := p.SSA.MethodValue(sel); fn != nil && fn.Synthetic == "" {
					return fn
				}
			}
		}
	}
	// a private method rewritten as a package function that takes the former receiver as its
	// first argument (`func cancelSend(c *context)`) is the same mechanism: its first
	// parameter is then described as the receiver
	if lowerName(name) {
		if fn := sp.Func(name); fn != nil && len(fn.Params) > 0 && fn.Signature.Recv() == nil {
			t := fn.Params[0].Type()
			if pt, ok := t.(*types.Pointer); ok {
				t = pt.Elem()
			}
			if n, ok := t.(*types.Named); ok && n.Obj() == tn && recvLike[fn] {
				return fn
			}
		}
	}
	return nil
}

// markRecvLike: every private package function whose first parameter is (a pointer to) a
// struct type of its own package that has no method of that name.
func (p *Prog) markRecvLike() {
	recvLike = map[*ssa.Function]bool{}
	for fn := range p.All {
		if fn.Parent() != nil || fn.Signature.Recv() != nil || len(fn.Params) == 0 || fn.Pkg == nil || !lowerName(fn.Name()) || fn.Synthetic != "" {
			continue
		}
		if _, ok := p.FuncRel(fn); !ok {
			continue
		}
		t := fn.Params[0].Type()
		if pt, ok := t.(*types.Pointer); ok {
			t = pt.Elem()
		}
		n, ok := t.(*types.Named)
		if !ok || n.Obj().Pkg() != fn.Pkg.Pkg {
			continue
		}
		if _, isStruct := n.Underlying().(*types.Struct); !isStruct {
			continue
		}
		has := false
		for _, tt := range []types.Type{types.NewPointer(n), n} {
			ms := p.SSA.MethodSets.MethodSet(tt)
			for i := 0; i < ms.Len(); i++ {
				if ms.At(i).Obj().Name() == fn.Name() {
					has = true
				}
			}
		}
		if !has {
			recvLike[fn] = true
		}
	}
}

// recvLike: package functions standing in for methods (see Func); paramName calls their first
// parameter "recv".
var recvLike = map[*ssa.Function]bool{}

// Closures returns the anonymous functions directly nested in fn, in source order.
func Closures(fn *ssa.Function) []*ssa.Function { return fn.AnonFuncs }

// FileOf returns the *ast.File containing pos among module packages.
func (p *Prog) FileOf(pos token.Pos) (*packages.Package, *ast.File) {
	for _, pk := range p.Pkgs {
		for _, f := range pk.Syntax {
			if f.Pos() <= pos && pos <= f.End() {
				return pk, f
			}
		}
	}
	return nil, nil
}

// SubjectPkgs lists in-scope packages.
func (p *Prog) SubjectPkgs() []*packages.Package {
	var out []*packages.Package
	for _, pk := range p.Pkgs {
		rel, _ := Rel(pk.PkgPath)
		if subjectRel(rel) {
			out = append(out, pk)
		}
	}
	return out
}

// SubjectFiles returns non-test files of a package.
func (p *Prog) SubjectFiles(pk *packages.Package) []*ast.File {
	var out []*ast.File
	for _, f := range pk.Syntax {
		if !strings.HasSuffix(p.Fset.Position(f.Pos()).Filename, "_test.go") {
			out = append(out, f)
		}
	}
	return out
}
