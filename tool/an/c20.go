package an

import (
	"fmt"
	"go/token"
	"go/types"
	"regexp"
	"sort"
	"strings"

	"golang.org/x/tools/go/ssa"
)

func init() {
	register(&PropInfo{ID: "C20", Run: runC20,
		Explanation: "macat: every narrowing conversion of a length is dominated by a sufficient upper-bound guard and the msgpack bin tag/width table (c4:1, c5:2, c6:4) is followed by the whole body; the quoted escape table covers backslash, quote, CR, LF and routes non-printables to \\xNN; ascii maps non-printables to '.'; every protocol offered on the command line has a mode in Run and the mode respects the pattern's direction; set-once options reject a second value; bare-integer durations are seconds; the send loops build a fresh message holding all of the data and honour the count (explicit --count is never overridden); bounds of every index in macat.",
		Assumptions: commonAssumptions})
}

func runC20(p *Prog, r *Report) {
	sentinelNeverApplied(p, r, "C20.18/unset-deadline-never-applied")
	{
		// what reaches standard output is what printMsg writes: nothing else reads the writer
		R := "C20.17/stdout-only-messages"
		r.Describe(R, "the output stream is read (and therefore written to) by printMsg only, and set by Initialize only: a diagnostic or progress line written to it by anything else is text that never crossed the socket, and breaks the raw and msgpack record streams")
		q := NewQ(p, r)
		readers := map[string][]string{}
		writers := map[string][]string{}
		n := 0
		for _, fn := range p.Funcs {
			if rel, _ := p.FuncRel(fn); rel != "macat" {
				continue
			}
			EachInstr(fn, func(in ssa.Instruction) {
				fa, ok := in.(*ssa.FieldAddr)
				if !ok {
					return
				}
				fv, owner := fieldAddrVar(fa)
				if fv == nil || owner == nil || fv.Name() != "stdOut" || owner.Obj().Name() != "App" {
					return
				}
				for _, ref := range *fa.Referrers() {
					switch x := ref.(type) {
					case *ssa.UnOp:
						n++
						readers[p.FuncName(fn)] = append(readers[p.FuncName(fn)], p.InstrPos(x))
					case *ssa.Store:
						if x.Addr == fa {
							writers[p.FuncName(fn)] = append(writers[p.FuncName(fn)], p.InstrPos(x))
						}
					}
				}
			})
		}
		r.Count("c20.stdout_reads", n)
		q.OnlyIn(R, "readers-of-stdOut", readers, []string{"macat.(*App).printMsg"}, []string{"macat.(*App).printMsg"})
		q.OnlyIn(R, "writers-of-stdOut", writers, []string{"macat.(*App).Initialize"}, []string{"macat.(*App).Initialize"})
	}
	nilSafe(p, r, "C20.16/nil-safe", "macat's socket exists only after the protocol option was given: every loop that uses it is reached only through the test in Run", func(fn *ssa.Function) bool {
		rel, _ := p.FuncRel(fn)
		return rel == "macat"
	})
	r.Floor("C20.16/nil-safe", "e12b.uses.C20.16/nil-safe", 5)
	q := NewQ(p, r)
	R := "C20.1/length-narrowing"
	r.Describe(R, "byte(len(x)) needs len(x) < 256, uint16(len(x)) needs len(x) < 65536 as dominating guards (all functions of macat)")
	n := 0
	for _, fn := range p.Funcs {
		if rel, _ := p.FuncRel(fn); !strings.HasPrefix(rel, "macat") {
			continue
		}
		k := 0
		EachInstr(fn, func(in ssa.Instruction) {
			cv, ok := in.(*ssa.Convert)
			if !ok {
				return
			}
			call, ok := cv.X.(*ssa.Call)
			if !ok || !IsBuiltin(&call.Call, "len") {
				return
			}
			b, ok := cv.Type().Underlying().(*types.Basic)
			if !ok {
				return
			}
			var lim int64
			switch b.Kind() {
			case types.Uint8, types.Int8:
				lim = 256
			case types.Uint16, types.Int16:
				lim = 65536
			default:
				return
			}
			n++
			k++
			d := Desc(cv.X)
			key := fmt.Sprintf("%s/%s(%s)#%d", p.FuncName(fn), typeShort(cv.Type()), d, k)
			ok2 := false
			for _, g := range p.GuardStrings(cv) {
				var c int64
				if strings.HasPrefix(g, d+" < ") {
					if _, err := fmt.Sscanf(strings.TrimPrefix(g, d+" < "), "%d", &c); err == nil && c <= lim {
						ok2 = true
					}
				}
				if strings.HasPrefix(g, d+" <= ") {
					if _, err := fmt.Sscanf(strings.TrimPrefix(g, d+" <= "), "%d", &c); err == nil && c < lim {
						ok2 = true
					}
				}
			}
			r.Check(ok2, R, key, p.InstrPos(cv), fmt.Sprintf("guarded by %s < %d", d, lim), fmt.Sprintf("%s(%s) is not dominated by a guard %s < %d: for a length of exactly %d the field wraps to 0 and the record's length no longer equals the message", typeShort(cv.Type()), d, d, lim, lim))
		})
	}
	r.Count("c20.length_narrowings", n)
	r.Floor(R, "c20.length_narrowings", 2)

	R = "C20.1/msgpack"
	r.Describe(R, "msgpack bin family: tag 0xc4 with a 1-byte length, 0xc5 with BigEndian uint16, 0xc6 with BigEndian uint32; then the tag+length bytes and the whole body are written, in that order, on every msgpack path")
	pm := q.Fn(R, "macat", "App", "printMsg")
	if pm.OK() {
		tags := map[string]string{}
		for _, e := range pm.All() {
			if e.Kind == "store" && strings.HasSuffix(e.What, "][0]") && strings.HasPrefix(e.What, "$makeslice") {
				tags[e.Args[0]] = e.What
			}
		}
		w1 := pm.Ev("store", "$makeslice[:5][:2][1]")
		r.Check(tags["196"] == "$makeslice[:5][:2][0]" && len(w1) == 1 && w1[0].Args[0] == "byte(len(arg1.Body))" && w1.AllGuarded("len(arg1.Body) < 256"), R, "bin8", w1.Pos(p), "c4 <len:1>", "bin8 encoding is not tag 0xc4 + 1 length byte under len < 256")
		p16 := pm.Ev("call", "binary.(bigEndian).PutUint16")
		r.Check(tags["197"] == "$makeslice[:5][:3][0]" && len(p16) == 1 && p16[0].Args[1] == "$makeslice[:5][:3][1:]" && p16[0].Args[2] == "uint16(len(arg1.Body))", R, "bin16", p16.Pos(p), "c5 <len:2 BE>", "bin16 encoding is not tag 0xc5 + BigEndian uint16 length")
		p32 := pm.Ev("call", "binary.(bigEndian).PutUint32")
		r.Check(tags["198"] == "$makeslice[:5][:5][0]" && len(p32) == 1 && p32[0].Args[1] == "$makeslice[:5][:5][1:]" && p32[0].Args[2] == "uint32(len(arg1.Body))", R, "bin32", p32.Pos(p), "c6 <len:4 BE>", "bin32 encoding is not tag 0xc6 + BigEndian uint32 length")
		var wr Sel
		for _, e := range pm.Ev("call", "bufio.(*Writer).Write") {
			if len(e.Guard) > 0 && hasAtom(e.Guard, `recv.printFormat == "msgpack"`) || litEq(e.Args[1], "φenc") {
				wr = append(wr, e)
			}
		}
		var encW, bodyW *Ev
		for _, e := range pm.Ev("call", "bufio.(*Writer).Write") {
			if litEq(e.Args[1], "φenc") {
				encW = e
			}
			if e.Args[1] == "arg1.Body" && encW != nil && e.In.Block() == encW.In.Block() {
				bodyW = e
			}
		}
		r.Check(encW != nil && bodyW != nil && instrIndex(encW.In) < instrIndex(bodyW.In), R, "header-then-whole-body", pm.Pos(), "tag+length, then the whole body", "the msgpack record is not (tag+length) followed by the whole message body")
	}

	// every message taken off the socket is printed before anything that can fail or end the
	// loop: between a successful RecvMsg and the printMsg of its message there is no other
	// socket operation and no return
	{
		R := "C20.12/printed-before-anything-else"
		r.Describe(R, "in every macat loop, a message that RecvMsg returned without error is handed to printMsg before any other socket operation and before any return: a reply that cannot be sent, or an early exit, must not swallow a message that crossed the socket")
		n := 0
		for _, fn := range p.Funcs {
			if rel, ok := p.FuncRel(fn); !ok || rel != "macat" || strings.HasSuffix(p.Fset.Position(fn.Pos()).Filename, "_test.go") {
				continue
			}
			EachInstr(fn, func(in ssa.Instruction) {
				call, ok := in.(*ssa.Call)
				if !ok || !call.Call.IsInvoke() || call.Call.Method.Name() != "RecvMsg" {
					return
				}
				n++
				errOK := Desc(call) + "#1 == nil"
				bad := ""
				seen := map[*ssa.BasicBlock]bool{}
				var walk func(b *ssa.BasicBlock, from int)
				walk = func(b *ssa.BasicBlock, from int) {
					for i := from; i < len(b.Instrs) && bad == ""; i++ {
						x := b.Instrs[i]
						if c := CallOf(x); c != nil {
							if sc := c.StaticCallee(); sc != nil && sc.Name() == "printMsg" {
								return
							}
							if c.IsInvoke() && (c.Method.Name() == "SendMsg" || c.Method.Name() == "RecvMsg" || c.Method.Name() == "Send" || c.Method.Name() == "Recv" || c.Method.Name() == "Close") {
								if hasAtom(p.GuardStrings(x), errOK) {
									bad = c.Method.Name() + " at " + p.InstrPos(x)
								}
								return
							}
						}
						if _, isRet := x.(*ssa.Return); isRet {
							if hasAtom(p.GuardStrings(x), errOK) {
								bad = "the return at " + p.InstrPos(x)
							}
							return
						}
					}
					for _, s := range b.Succs {
						if !seen[s] {
							seen[s] = true
							walk(s, 0)
						}
					}
				}
				walk(in.Block(), instrIndex(in)+1)
				r.Check(bad == "", R, p.FuncName(fn)+"/"+Desc(call), p.InstrPos(in), "printed first", "after a successful RecvMsg the loop reaches "+bad+" before the message was printed: when that operation fails (send timeout, closed socket) or returns, a message macat has taken off the socket never appears in the output")
			})
		}
		r.Count("c20.recv_sites", n)
		r.Floor(R, "c20.recv_sites", 3)
	}

	if pm.OK() {
		R := "C20.8/one-record-per-message"
		r.Describe(R, "printMsg produces a record for EVERY received message: the only return that skips the writer's Flush is the one for --format=no (a zero-length message is still an empty line / an empty bin object)")
		fl := pm.Ev("call", "bufio.(*Writer).Flush")
		flSet := map[ssa.Instruction]bool{}
		for _, e := range fl {
			flSet[e.In] = true
		}
		bad := ""
		seen := map[*ssa.BasicBlock]bool{}
		var walk func(b *ssa.BasicBlock)
		walk = func(b *ssa.BasicBlock) {
			if seen[b] || bad != "" {
				return
			}
			seen[b] = true
			for _, in := range b.Instrs {
				if flSet[in] {
					return
				}
				if _, ok := in.(*ssa.Return); ok {
					g := append(p.GuardStrings(in), edgeAtomsOf(b)...)
					only := len(g) > 0
					for _, a := range g {
						if a != `recv.printFormat == "no"` {
							only = false
						}
					}
					if !only {
						bad = p.InstrPos(in) + " under [" + strings.Join(g, "; ") + "]"
					}
					return
				}
			}
			for _, s := range b.Succs {
				walk(s)
			}
		}
		walk(pm.fn.Blocks[0])
		r.Check(len(fl) >= 1 && bad == "", R, "printMsg", pm.Pos(), "every path other than format \"no\" reaches the Flush", "printMsg returns without writing a record on a condition other than --format=no (the return at "+bad+"): such messages vanish from the output")
	}
	R = "C20.1/quoted-ascii"
	r.Describe(R, "quoted: \\n \\r \\\\ \\\" escapes and \\x%02x for non-printables (every escape starts with a backslash and backslash itself is escaped, so the text decodes back); ascii: non-printables become '.'; raw: body unchanged")
	if pm.OK() {
		// the encoders work on BYTES of the body: a `range` over string(body) decodes UTF-8
		// and turns every byte >= 0x80 that is not part of a well-formed sequence into U+FFFD
		runes := ""
		EachInstr(pm.fn, func(in ssa.Instruction) {
			if rg, ok := in.(*ssa.Range); ok {
				if b, ok := rg.X.Type().Underlying().(*types.Basic); ok && b.Info()&types.IsString != 0 {
					runes = p.InstrPos(in)
				}
			}
		})
		r.Check(runes == "", R, "encodes-bytes-not-code-points", pm.Pos(), "printMsg never iterates a string by code point", "printMsg ranges over a string at "+runes+": the body is decoded as UTF-8, so bytes >= 0x80 that do not form a valid sequence are printed as U+FFFD (ef bf bd) and multi-byte sequences collapse — the output no longer decodes to the bytes that crossed the socket")
		esc := map[string]string{}
		for _, e := range pm.Ev("call", "bufio.(*Writer).WriteString") {
			for _, g := range e.Guard {
				if m := bodyByteEq.FindStringSubmatch(g); m != nil && hasAtom(e.Guard, `recv.printFormat == "quoted"`) {
					esc[m[1]] = e.Args[1]
				}
			}
		}
		want := map[string]string{"10": `"\\n"`, "13": `"\\r"`, "92": `"\\\\"`, "34": `"\\\""`}
		ok := len(esc) == len(want)
		for k, v := range want {
			if esc[k] != v {
				ok = false
			}
		}
		r.Check(ok, R, "quoted-escape-table", pm.Pos(), "LF,CR,backslash,quote are escaped as \\n \\r \\\\ \\\"", fmt.Sprintf("the quoted escape table is not {LF:\\n, CR:\\r, \\:\\\\, \":\\\"}: got %v (an unescaped backslash or quote makes the output ambiguous)", esc))
		hex := false
		for _, e := range pm.Ev("call", "fmt.Sprintf") {
			if e.Args[0] == `"\\x%02x"` {
				hex = true
			}
		}
		r.Check(hex, R, "quoted-nonprintable-hex", pm.Pos(), "non-printables as \\x%02x", "non-printable bytes are not written as \\x%02x in quoted format")
		dot := false
		for _, e := range pm.Ev("call", "bufio.(*Writer).WriteByte") {
			if e.Args[1] == "46" && hasAtom(e.Guard, `recv.printFormat == "ascii"`) && hasAtomPrefix(e.Guard, "!strconv.IsPrint(rune(arg1.Body[") {
				dot = true
			}
		}
		r.Check(dot, R, "ascii-dot", pm.Pos(), "ascii: non-printable => '.'", "ascii format does not replace non-printable bytes by '.'")
		raw := pm.Ev("call", "bufio.(*Writer).Write").Arg(1, "arg1.Body").Guarded(`recv.printFormat == "raw"`)
		r.Check(len(raw) == 1, R, "raw-unchanged", raw.Pos(p), "raw: the body is written as is", "raw format does not write the body unchanged")
	}

	c20Dispatch(p, r)
	c20Options(p, r)
	r.Describe("C20.6/E6d", "no index or slice in macat without a sufficient bound")
	e6dObligations(p, r, "C20.6/E6d", func(rel string) bool { return strings.HasPrefix(rel, "macat") }, nil)
}

func c20Dispatch(p *Prog, r *Report) {
	q := NewQ(p, r)
	R := "C20.2/dispatch"
	r.Describe(R, "every protocol constructor offered by getOptions has a case in Run's mode switch, and the mode respects the pattern's direction (PULL/SUB never send, PUSH/PUB never receive, REQ/SURVEYOR send first, REP/RESPONDENT receive first)")
	// protocols offered: X.NewSocket passed to setSocket in getOptions' closures
	offered := map[string]int64{}
	gopt := q.Fn(R, "macat", "App", "getOptions")
	if gopt.OK() {
		for _, fn := range WithClosures(gopt.fn) {
			EachInstr(fn, func(in ssa.Instruction) {
				c := CallOf(in)
				if c == nil || CalleeName(c) != "macat.(*App).setSocket" || len(c.Args) < 2 {
					return
				}
				if f, ok := c.Args[1].(*ssa.Function); ok && f.Pkg != nil {
					if cst, ok := f.Pkg.Pkg.Scope().Lookup("Self").(*types.Const); ok {
						var v int64
						fmt.Sscan(cst.Val().String(), &v)
						offered[f.Pkg.Pkg.Name()] = v
					}
				}
			})
		}
	}
	r.Count("c20.protocols_offered", len(offered))
	r.Floor(R, "c20.protocols_offered", 11)
	run := q.Fn(R, "macat", "App", "Run")
	if !run.OK() {
		return
	}
	self := "recv.sock.Info().Self"
	var vals []int64
	for _, v := range offered {
		vals = append(vals, v)
	}
	vals = append(vals, 0, 1)
	sort.Slice(vals, func(i, j int) bool { return vals[i] < vals[j] })
	name := func(v int64) string {
		for k, x := range offered {
			if x == v {
				return k
			}
		}
		return fmt.Sprint(v)
	}
	// which loop does each Self value reach?
	loops := []string{"recvLoop", "sendLoop", "sendRecvLoop", "replyLoop"}
	reached := map[int64][]string{}
	for _, lp := range loops {
		sites := run.EvOwn("call", "macat.(*App)."+lp)
		// `loop = a.recvLoop … return loop()`: choosing the method value is the dispatch
		EachInstr(run.fn, func(in ssa.Instruction) {
			if mc, ok := in.(*ssa.MakeClosure); ok {
				if f, ok := mc.Fn.(*ssa.Function); ok && f.Name() == lp+"$bound" && len(mc.Bindings) == 1 && Desc(mc.Bindings[0]) == "recv" {
					sites = append(sites, &Ev{Kind: "call", In: in, Fn: run.fn, Guard: p.GuardStrings(in)})
				}
			}
		})
		for _, e := range sites {
			dnf, _ := PathConds(e.In.Block())
			for _, v := range vals {
				env := map[string]int64{self: v}
				hit := false
				for _, conj := range dnf {
					all := true
					for _, l := range conj {
						if !strings.Contains(Desc(l.Cond), self) {
							continue // unrelated conditions: assume satisfiable
						}
						val, known := evalBool(l.Cond, env)
						if !known {
							continue
						}
						if !l.Pol {
							val = !val
						}
						if !val {
							all = false
							break
						}
					}
					if all {
						hit = true
						break
					}
				}
				if hit {
					tag := lp
					if hasAtom(e.Guard, "recv.sendData != nil") {
						tag += "(data)"
					}
					reached[v] = append(reached[v], tag)
				}
			}
		}
	}
	want := map[string][]string{
		"pull": {"recvLoop"}, "sub": {"recvLoop"},
		"push": {"sendLoop"}, "pub": {"sendLoop"},
		"req": {"sendRecvLoop"}, "surveyor": {"sendRecvLoop"},
		"rep": {"replyLoop"}, "respondent": {"replyLoop"},
		"pair": {"recvLoop", "sendRecvLoop(data)"}, "bus": {"recvLoop", "sendRecvLoop(data)"}, "star": {"recvLoop", "sendRecvLoop(data)"},
		"pair1": nil,
	}
	var names []string
	for k := range offered {
		names = append(names, k)
	}
	sort.Strings(names)
	for _, nm := range names {
		got := append([]string{}, reached[offered[nm]]...)
		sort.Strings(got)
		w, known := want[nm]
		if !known {
			r.Bad(R, "mode/"+nm, run.Pos(), "protocol "+nm+" is offered on the command line but is not in the direction table of this rule")
			continue
		}
		ws := append([]string{}, w...)
		sort.Strings(ws)
		r.Check(len(got) > 0 && strings.Join(got, ",") == strings.Join(ws, ","), R, "mode/"+nm, run.Pos(), "--"+nm+" runs "+strings.Join(got, "/"),
			fmt.Sprintf("--%s is offered by getOptions but Run dispatches it to %v (expected %v): unknown protocol error or a loop that uses the pattern in the wrong direction", nm, got, ws))
	}
	for _, v := range []int64{0, 1} {
		r.Check(len(reached[v]) == 0, R, "mode/unknown-"+name(v), run.Pos(), "an unknown protocol number reaches no loop", "an unknown protocol number runs a loop")
	}
	// validation before the first Listen/Dial
	lst := run.Ev("call", "Socket.ListenOptions")
	dl := run.Ev("call", "Socket.DialOptions")
	for _, c := range [][2]string{{"recv.sock != nil", "protocol not specified"}} {
		r.Check(lst.AllGuarded(c[0]) && dl.AllGuarded(c[0]), R, "validate/"+c[1], lst.Pos(p), c[1]+" rejected before any Listen/Dial", "Run can Listen/Dial although: "+c[1])
	}
	errs := map[string]bool{}
	for _, e := range run.Ev("call", "errors.New") {
		errs[e.Args[0]] = true
	}
	for _, m := range []string{`"protocol not specified"`, `"no address specified"`, `"subscription only valid with SUB protocol"`, `"no server cert specified"`, `"no CA cert specified"`, `"unknown protocol"`} {
		r.Check(errs[m], R, "validate/error-"+strings.Trim(m, `"`), run.Pos(), "rejects with "+m, "Run no longer rejects with the error "+m)
	}
}

// bodyByteEq: guard atom "the current body byte equals N" whatever the index variable is called.
var bodyByteEq = regexp.MustCompile(`^arg1\.Body\[[^\]]+\] == (\d+)$`)

func c20Options(p *Prog, r *Report) {
	q := NewQ(p, r)
	{
		R := "C20.7/empty-data-is-data"
		r.Describe(R, "sendData == nil is macat's 'nothing to send' sentinel (duplicate-option check, send loops, reply loops): --data with an empty string must still store a non-nil slice, so that one zero-length message is sent")
		f := q.Fn(R, "macat", "App", "setSendData")
		if f.OK() {
			st := f.Ev("store", "recv.sendData")
			ok := len(st) == 1
			if ok {
				v := st[0].In.(*ssa.Store).Val
				switch x := v.(type) {
				case *ssa.Convert:
					_ = x // []byte(string): never nil, even for ""
				case *ssa.MakeSlice:
				default:
					ok = false
				}
			}
			r.Check(ok, R, "setSendData/non-nil-for-empty", st.Pos(p), "the stored slice is a conversion/make result (non-nil even when empty)", "--data \"\" may store a nil slice ("+argsOf(st)+"): nil means 'no data given', so an explicitly empty message is never sent, replies are never made, and a second --data/--file is not rejected")
		}
	}
	R := "C20.3/set-once"
	r.Describe(R, "each single-valued option stores only when still unset and returns an error otherwise; an explicit --count is never overridden by --send-interval")
	for _, t := range [][3]string{
		{"setSendData", "recv.sendData", "recv.sendData == nil"}, {"setSendFile", "recv.sendData", "recv.sendData == nil"},
		{"setFormat", "recv.printFormat", "len(recv.printFormat) <= 0"}, {"setCert", "recv.certFile", "len(recv.certFile) == 0"},
		{"setKey", "recv.keyFile", "len(recv.keyFile) == 0"}, {"setCaCert", "recv.tlsCfg.RootCAs", "recv.tlsCfg.RootCAs == nil"},
		{"setSocket", "recv.sock", "recv.sock == nil"},
	} {
		f := q.Fn(R, "macat", "App", t[0])
		if !f.OK() {
			continue
		}
		st := f.Ev("store", t[1])
		ok := len(st) >= 1
		for _, e := range st {
			if !hasAtom(e.Guard, t[2]) {
				ok = false
			}
		}
		// the already-set edge returns an error
		neg := ""
		for _, e := range f.Ev("return", "") {
			if len(e.Args) == 1 && strings.HasPrefix(e.Args[0], "errors.New(") && len(e.Guard) == 1 {
				neg = e.Guard[0]
			}
		}
		r.Check(ok && neg != "", R, t[0], f.Pos(), "stores only under "+t[2]+"; otherwise an error", t[0]+" overwrites an earlier value instead of rejecting the conflicting option: "+guardsOf(st))
		// success means recorded: the stored value doubles as the "already given" mark, so a
		// successful return that skipped the store lets a second, conflicting option through
		var unrec Sel
		for _, e := range f.Ev("return", "") {
			if len(e.Args) == 1 && e.Args[0] == "nil" && !(Sel{e}).DominatedBy(st) {
				unrec = append(unrec, e)
			}
		}
		r.Check(len(unrec) == 0, R, t[0]+"/success-means-recorded", unrec.Pos(p), "every successful return has stored the value", t[0]+" can return success without recording the value: the option is not remembered as given, so a later conflicting one is accepted and wins")
	}
	gopt := q.Fn(R, "macat", "App", "getOptions")
	if gopt.OK() {
		var setC, setFlag Sel
		for _, fn := range gopt.fn.AnonFuncs {
			for _, e := range p.Events(fn) {
				if e.Kind == "store" && e.What == "recv.count" {
					setC = append(setC, e)
				}
				if e.Kind == "store" && e.What == "recv.countSet" && e.Args[0] == "true" {
					setFlag = append(setFlag, e)
				}
			}
		}
		r.Check(len(setC) == 1 && setC[0].Args[0] == "-1" && setC.AllGuarded("!recv.countSet") && len(setFlag) == 1 && setFlag[0].Unconditional(), R, "count-not-overridden", setC.Pos(p),
			"--send-interval makes the count unbounded only if --count was not given (tracked by an explicit flag)", "--send-interval overrides an explicitly given --count (the 'was it given' test is not the explicit countSet flag): `--count 1 -i N` sends for ever")
	}

	R = "C20.10/file-read-whole"
	r.Describe(R, "--file stores what a whole-file read returned (ReadFile / ReadAll): a read sized by Stat sends nothing for a pipe, /dev/stdin or a /proc file")
	if f := q.Fn(R, "macat", "App", "setSendFile"); f.OK() {
		st := f.Ev("store", "recv.sendData")
		ok := len(st) >= 1
		for _, e := range st {
			v := e.Args[0]
			if !(strings.HasPrefix(v, "ioutil.ReadFile(") || strings.HasPrefix(v, "os.ReadFile(") || strings.HasPrefix(v, "io.ReadAll(") || strings.HasPrefix(v, "ioutil.ReadAll(")) || !strings.HasSuffix(v, "#0") {
				ok = false
			}
		}
		r.Check(ok, R, "setSendFile/whole-file", st.Pos(p), "sendData = result of a whole-file read", "setSendFile does not store the result of a whole-file read (ReadFile/ReadAll): "+argsOf(st))
	}
	R = "C20.11/timeouts-applied"
	r.Describe(R, "Run applies --recv-timeout as the receive deadline and --send-timeout as the send deadline, each only when given (>= 0)")
	if f := q.Fn(R, "macat", "App", "Run"); f.OK() {
		evs := append(append([]*Ev{}, p.Events(f.fn)...), p.EventsDeep(f.fn)...)
		for _, t := range [][2]string{{`"RECV-DEADLINE"`, "recv.recvTimeout"}, {`"SEND-DEADLINE"`, "recv.sendTimeout"}} {
			var so Sel
			for _, e := range evs {
				if e.Kind == "call" && strings.HasSuffix(e.What, ".SetOption") && len(e.Args) >= 3 && e.Args[1] == t[0] {
					so = append(so, e)
				}
			}
			ok, right := true, 0
			for _, e := range so {
				if !strings.Contains(e.Args[2], "Timeout") {
					continue // (the send loops set the receive deadline from the send interval)
				}
				if !strings.Contains(e.Args[2], t[1]) {
					ok = false
					continue
				}
				right++
				g := false
				for _, a := range e.Guard {
					if strings.Contains(a, t[1]) && (strings.HasSuffix(a, ">= 0") || strings.HasSuffix(a, "> -1")) {
						g = true
					}
				}
				if !g {
					ok = false
				}
			}
			r.Check(ok && right >= 1, R, "Run/"+strings.Trim(t[0], `"`), so.Pos(p), t[0]+" is set from "+t[1]+" when it was given", "Run does not set "+t[0]+" from "+t[1]+" (guarded by its being >= 0): the given timeout is not the one applied: "+argsOf(so)+" "+guardsOf(so))
		}
	}

	R = "C20.4/duration"
	r.Describe(R, "Duration.UnmarshalText: a bare integer is that many seconds")
	du := q.Fn(R, "macat", "Duration", "UnmarshalText")
	if du.OK() {
		st := du.Ev("store", "recv").Guarded("strconv.Atoi(string(arg1))#1 == nil")
		r.Check(len(st) == 1 && st[0].Args[0] == "(macat.Duration(strconv.Atoi(string(arg1))#0) * 1000000000)", R, "bare-integer-seconds", st.Pos(p), "*d = Duration(val) * time.Second", "a bare integer duration is not val * time.Second: "+argsOf(st))
		var bad Sel
		for _, e := range du.Ev("return", "") {
			if strings.HasPrefix(e.Args[0], "errors.New(") {
				bad = append(bad, e)
			}
		}
		r.Check(len(bad) == 1, R, "junk-rejected", bad.Pos(p), "unparsable text is an error", "an unparsable duration is not rejected")
	}

	R = "C20.5/send-loops"
	r.Describe(R, "sendLoop/sendRecvLoop/replyLoop send a fresh message whose body is all of the data; count: -1 unbounded, 0 stop, else decrement")
	for _, nm := range []string{"sendLoop", "sendRecvLoop", "replyLoop"} {
		f := q.Fn(R, "macat", "App", nm)
		if !f.OK() {
			continue
		}
		nmg := f.Ev("call", "mangos.NewMessage").Arg(0, "len(recv.sendData)")
		ap := f.Ev("call", "append")
		okA := false
		for _, e := range ap {
			if strings.HasSuffix(e.Args[0], ".Body") && e.Args[1] == "recv.sendData" {
				okA = true
			}
		}
		sm := f.Ev("call", "Socket.SendMsg")
		okS := len(sm) == 1 && strings.HasPrefix(sm[0].Args[1], "mangos.NewMessage(len(recv.sendData))")
		if !okS && len(sm) == 1 {
			// the message may be built by a private helper: look at what it returns
			if c := CallOf(sm[0].In); c != nil && len(c.Args) == 1 {
				okS = strings.HasPrefix(p.ReturnDesc(c.Args[0]), "mangos.NewMessage(len(recv.sendData))")
			}
		}
		r.Check(len(nmg) == 1 && okA && okS, R, nm+"/sends-all-data", f.Pos(), "NewMessage(len(data)); Body = append(Body, data...); SendMsg", nm+" does not send a fresh message holding all of the data")
		if nm != "replyLoop" {
			// the counter is whatever variable is decremented under (!= 0, != -1); the loop
			// stops (return nil) exactly under counter == 0 — whether written as a switch
			// (case -1 / case 0 / default) or as an if-chain
			var stop Sel
			dec := false
			cnt := ""
			EachInstr(f.fn, func(in ssa.Instruction) {
				if bo, ok := in.(*ssa.BinOp); ok && bo.Op == token.SUB {
					if k, isK := ConstInt(bo.Y); isK && k == 1 {
						x := Desc(bo.X)
						gs := p.GuardStrings(bo)
						if hasAtom(gs, x+" != 0") && hasAtom(gs, x+" != -1") {
							dec, cnt = true, x
						}
					}
				}
			})
			for _, e := range f.Ev("return", "") {
				if cnt != "" && e.Args[0] == "nil" && hasAtom(e.Guard, cnt+" == 0") {
					stop = append(stop, e)
				}
			}
			r.Check(len(stop) == 1 && dec, R, nm+"/count", f.Pos(), "stops at 0, decrements otherwise, -1 never stops", nm+" does not honour the requested count (stop at 0 / decrement / -1 unbounded)")
			// ... and nothing else ends the loop with success: every `return nil` is the one
			// under counter == 0 (a round in which no answer came — survey over, timeout — is not
			// the end of the run)
			early := ""
			for _, e := range f.Ev("return", "") {
				if cnt != "" && e.Args[0] == "nil" && !hasAtom(e.Guard, cnt+" == 0") {
					early = p.InstrPos(e.In) + " under " + strings.Join(e.Guard, "; ")
				}
			}
			r.Check(early == "", R, nm+"/only-the-count-ends-the-run", f.Pos(), "the only successful end of the loop is the count reaching 0", nm+" returns nil at "+early+": the run ends with success before the message was sent the requested number of times")
		}
	}
	// "no --send-interval" is the sentinel -1 (Initialize): an explicit interval of 0 means
	// repeat without pause, so the tests on it are `< 0` (unset) and `>= 0` (set), never <= / >
	sentinel := false
	if ini := q.Fn(R, "macat", "App", "Initialize"); ini.OK() {
		sentinel = len(ini.Ev("store", "recv.sendInterval").Arg(0, "-1")) == 1
	}
	r.Check(sentinel, R, "send-interval/unset-is-minus-one", "-", "Initialize sets sendInterval to -1", "Initialize no longer marks --send-interval as unset with -1")
	nTests := 0
	for _, nm := range []string{"sendLoop", "sendRecvLoop"} {
		f := q.Fn(R, "macat", "App", nm)
		if !f.OK() {
			continue
		}
		EachInstr(f.fn, func(in ssa.Instruction) {
			iff, ok := in.(*ssa.If)
			if !ok {
				return
			}
			a := NormAtom(iff.Cond, true)
			l, op, rr := splitAtom(a)
			if l != "recv.sendInterval" || rr != "0" {
				return
			}
			nTests++
			r.Check(op == "<" || op == ">=", R, nm+"/send-interval-zero-is-set@"+op, p.InstrPos(in), "sendInterval tested against the sentinel as "+a, nm+" tests `"+a+"`: an explicit --send-interval 0 (repeat without pause) is treated as 'no interval given' (or the reverse), so the message is not sent the requested number of times")
		})
	}
	r.Count("c20.send_interval_tests", nTests)
	r.Floor(R, "c20.send_interval_tests", 2)

	ownershipIn(p, r, "C20.15/E5", "macat", "macat/macat")
	{
		R := "C20.14/subscribe-before-connect"
		r.Describe(R, "macat applies its subscriptions (the given topics, or the wildcard) before it dials or listens: a SUB socket that is connected without a subscription drops what the publisher sends first")
		run := q.Fn(R, "macat", "App", "Run")
		if run.OK() {
			var subs, conns Sel
			for _, e := range run.All() {
				if e.Kind != "call" {
					continue
				}
				if strings.HasSuffix(e.What, ".SetOption") && len(e.Args) >= 2 && strings.Contains(strings.Join(e.Args, " "), `"SUBSCRIBE"`) {
					subs = append(subs, e)
				}
				if strings.HasSuffix(e.What, ".Dial") || strings.HasSuffix(e.What, ".Listen") || strings.HasSuffix(e.What, ".DialOptions") || strings.HasSuffix(e.What, ".ListenOptions") {
					conns = append(conns, e)
				}
			}
			reach := blockReach(run.fn)
			bad := ""
			for _, c := range conns {
				for _, s := range subs {
					if CanPrecede(reach, c.At(), s.At()) {
						bad = p.InstrPos(c.At()) + " before the SetOption(OptionSubscribe) at " + p.InstrPos(s.At())
					}
				}
			}
			r.Check(len(subs) >= 1 && len(conns) >= 2 && bad == "", R, "Run/subscribe-first", run.Pos(), "every subscription is in place before the first Dial/Listen", "macat connects ("+bad+"): messages published right after the connection is established are dropped by the SUB socket and never printed")
		}
	}
	{
		R := "C20.13/main-hands-everything-to-Run"
		r.Describe(R, "macat's main passes the whole argument list to Run, on every path, before anything can end the process: main itself interprets no argument (a word that looks like an option may be the value of --data)")
		mq := q.Fn(R, "macat/macat", "", "main")
		if mq.OK() {
			run := mq.Ev("call", "macat.(*App).Run")
			okRun := len(run) == 1 && run[0].Unconditional() && len(run[0].Args) == 2 && strings.HasSuffix(run[0].Args[1], ".args[1:]")
			r.Check(okRun, R, "main/run-unconditional", run.Pos(p), "Run(args[1:]...) on every path", "main does not call Run with all the arguments on every path ("+argsOf(run)+" "+guardsOf(run)+"): arguments are interpreted before Run sees them")
			bad := ""
			for _, e := range mq.All() {
				if e.Kind == "call" && strings.HasSuffix(e.What, "exitFunc") {
					if len(run) != 1 || !evDominates(run[0], e) {
						bad = p.InstrPos(e.In)
					}
				}
			}
			r.Check(bad == "", R, "main/no-exit-before-run", mq.Pos(), "the process can end only after Run", "main can end the process at "+bad+" before Run has seen the arguments")
		}
	}

	R = "C20.9/rejected-means-failed"
	r.Describe(R, "macat's main: whenever Run returns an error the process exits with a non-zero status (after printing it): 'rejected with an error instead of running'")
	if mf := p.Func("macat/macat", "", "main"); mf == nil {
		r.Bad(R, "anchor:macat/macat.main", "-", "ANCHOR-MISSING: function macat/macat.main not found")
	} else {
		var exits []ssa.Instruction
		EachInstr(mf, func(in ssa.Instruction) {
			c := CallOf(in)
			if c == nil || c.IsInvoke() || len(c.Args) != 1 {
				return
			}
			d := Desc(c.Value)
			if k, ok := ConstInt(c.Args[0]); ok && k != 0 && (strings.HasSuffix(d, ".exitFunc") || d == "os.Exit" || strings.HasSuffix(CalleeName(c), "os.Exit")) {
				exits = append(exits, in)
			}
		})
		n := 0
		bad := ""
		var via Sel
		for _, x := range exits {
			via = append(via, &Ev{Kind: "call", In: x})
		}
		EachInstr(mf, func(in ssa.Instruction) {
			iff, ok := in.(*ssa.If)
			if !ok {
				return
			}
			for pol, k := range map[bool]int{true: 0, false: 1} {
				a := NormAtom(iff.Cond, pol)
				if !strings.Contains(a, ".Run(") || !strings.HasSuffix(a, " != nil") {
					continue
				}
				n++
				succ := in.Block().Succs[k]
				if len(succ.Instrs) == 0 {
					continue
				}
				if pass, where := q.mustPass(succ.Instrs[0], via); !pass {
					bad = where
				}
			}
		})
		r.Check(len(exits) >= 1 && n >= 1 && bad == "", R, "main/error-exits-nonzero", p.Pos(mf.Pos()), "every return after a failed Run has passed exit(1)", "main can return normally (exit status 0) after Run reported an error (return at "+bad+"): a rejected command line looks like a successful run to the caller")
	}
}

func hasAtomPrefix(g []string, pre string) bool {
	for _, a := range g {
		if strings.HasPrefix(a, pre) {
			return true
		}
	}
	return false
}

// sentinelNeverApplied (C20.18): macat's timeout fields start at a negative "not given" value
// (Initialize stores -1).  Such a field reaches a socket option only where it is known to be
// non-negative: a negative receive deadline means "no deadline", so a loop that waits for a
// reply per round would wait for ever on the first silent peer and never send the rest.
func sentinelNeverApplied(p *Prog, r *Report, R string) {
	r.Describe(R, "a timeout field whose initial value is the negative 'not given' sentinel is handed to SetOption only under a test that it is >= 0 (every way the value can reach the call is examined, also through a merged local): a negative deadline would switch the deadline off")
	// fields of App that Initialize sets to a negative constant
	sentinel := map[*types.Var]bool{}
	for _, fn := range p.Funcs {
		if rel, _ := p.FuncRel(fn); rel != "macat" {
			continue
		}
		EachInstr(fn, func(in ssa.Instruction) {
			st, ok := in.(*ssa.Store)
			if !ok {
				return
			}
			fa, ok := st.Addr.(*ssa.FieldAddr)
			if !ok {
				return
			}
			v := st.Val
			if cv, ok := v.(*ssa.Convert); ok {
				v = cv.X
			}
			if k, ok := ConstInt(v); ok && k < 0 {
				if fv, _ := fieldAddrVar(fa); fv != nil {
					sentinel[fv] = true
				}
			}
		})
	}
	r.Count("c20.sentinel_fields", len(sentinel))
	n := 0
	for _, fn := range p.Funcs {
		if rel, _ := p.FuncRel(fn); rel != "macat" {
			continue
		}
		EachInstr(fn, func(in ssa.Instruction) {
			c := CallOf(in)
			if c == nil || !c.IsInvoke() || c.Method.Name() != "SetOption" || len(c.Args) != 2 {
				return
			}
			// every source of the value: (field load, the atoms known on the way from it)
			type src struct {
				fv    *types.Var
				atoms []string
			}
			var srcs []src
			seen := map[ssa.Value]bool{}
			var walk func(v ssa.Value, atoms []string, d int)
			walk = func(v ssa.Value, atoms []string, d int) {
				if v == nil || seen[v] || d > 8 {
					return
				}
				seen[v] = true
				switch x := v.(type) {
				case *ssa.MakeInterface:
					walk(x.X, atoms, d+1)
				case *ssa.ChangeType:
					walk(x.X, atoms, d+1)
				case *ssa.Convert:
					walk(x.X, atoms, d+1)
				case *ssa.Phi:
					for i, e := range x.Edges {
						pred := x.Block().Preds[i]
						a2 := append([]string{}, atoms...)
						if len(pred.Instrs) > 0 {
							a2 = append(a2, p.GuardStrings(pred.Instrs[len(pred.Instrs)-1])...)
							if iff, ok := pred.Instrs[len(pred.Instrs)-1].(*ssa.If); ok {
								a2 = append(a2, NormAtom(iff.Cond, pred.Succs[0] == x.Block()))
							}
						}
						walk(e, a2, d+1)
					}
				default:
					if fv, _, _ := loadedField(v); fv != nil && sentinel[fv] {
						srcs = append(srcs, src{fv, atoms})
					}
				}
			}
			walk(c.Args[1], p.GuardStrings(in), 0)
			for _, s := range srcs {
				n++
				ok := false
				for _, a := range s.atoms {
					l, op, rr := splitAtom(a)
					if strings.HasSuffix(l, "."+s.fv.Name()) && ((op == ">=" && rr == "0") || (op == ">" && (rr == "0" || rr == "-1")) || (op == "!=" && rr == "-1")) {
						ok = true
					}
				}
				key := p.FuncName(fn) + "/" + Desc(c.Args[0]) + "<-" + s.fv.Name()
				r.Check(ok, R, key, p.InstrPos(in), "applied only where the field is known to be >= 0", "the timeout field "+s.fv.Name()+" (initially the negative 'not given' value) can reach this SetOption without a test that it is >= 0: a negative deadline switches the deadline off, and a loop that waits for an answer per round then waits for ever")
			}
		})
	}
	r.Count("c20.sentinel_applications", n)
	r.Check(len(sentinel) >= 2, R, "sentinel-fields", "-", fmt.Sprintf("%d fields start at a negative sentinel, %d ways into SetOption examined", len(sentinel), n), "no timeout field with a negative initial value found: the rule went blind")
}
